NOTES = ("Contract-based deductive verification of the real code. Exit 2 (UNDECIDED) is used for lost anchors, "
         "front-end errors, rlimit and vacuous contracts and is never a violation. See DESIGN.md.")
TODO = 'not yet implemented in this framework (planned unit, see DESIGN.md section 5); not claimed until its check exists'
CLAIMED = {
 'C16': {
  'text': 'Verus proves, for all FeelType values of any depth/arity, that the real is_equivalent/is_conformant bodies equal the '
          'standard\'s equivalence/conformance relations (spec functions), and that those relations satisfy the preorder / variance laws '
          'of the property (lemmas). Function-level proof; unbounded.',
  'design_ref': 'DESIGN.md section 5 (C16)',
  'note': 'Trusted: Verus/Z3, vstd specs of Vec/BTreeMap/iterators, the axiom that Name\'s derived Ord is a total order, the logged rewrite rules R1/R2; '
          'both relations are proved terminating (is_conformant by the heights of both arguments). Where coercion is applied in the evaluator is not decided.',
 },
 'C17': {
  'text': 'Verus proves a representation invariant (pairwise distinct namespaces and names; both indexes describe exactly the stored list, '
          'no missing and no stale key; evaluators only for stored names) inductive over new/clear/add/remove/replace/deploy on the real bodies, with '
          'full functional postconditions (add succeeds iff namespace and name are free and then appends; remove drops exactly the matching models; '
          'replace always succeeds and substitutes; deploy leaves evaluators exactly for the buildable stored models; evaluation possible iff an evaluator exists; '
          'every mutation empties the evaluators). Holds for every finite history by induction.',
  'design_ref': 'DESIGN.md section 5 (C17)',
  'note': 'Trusted: Verus/Z3, vstd HashMap/Vec/Arc specs plus added axioms for String keys and Vec::retain; Definitions/ModelEvaluator opaque (namespace, name, builds uninterpreted); '
          'load_and_deploy_models (file system) assumed to preserve the invariant.',
 },
 'C15': {
  'text': 'Verus proves on the real bodies, for all i32 years / u8 months and days / i64 and i128 durations: leap years and month lengths are the Gregorian rules; '
          'is_valid_date and new_opt accept exactly valid dates in the FEEL year range; date(y,m,d) from integer-valued numbers accepts exactly valid triples and stores them unchanged; '
          'date equality and order are the calendar order (total); ym_duration is the number of whole months (antisymmetric, truncated toward zero); '
          'duration component getters are the normalised mixed-radix decomposition. Partial: instants/zones/weekday rely on chrono and are not decided.',
  'design_ref': 'DESIGN.md section 5 (C15)',
  'note': 'Trusted: Verus/Z3; chrono accepts only valid dates (stub); FeelNumber order/conversions exact on integers (stubs); abs specs. Not decided: date-time instants, zone rules, weekday, non-integer arguments.',
 },
 'C14': {
  'text': 'Verus proves on the real Display bodies that the arguments handed to write! denote the value: the printed UTC offset (sign character, hours, minutes, seconds) equals the stored offset '
          'for every i32 offset; each of the 32 arms of the days-and-time duration printer and the 4 arms of the years-and-months printer prints exactly the non-zero components of the '
          'normalised decomposition with the right sign (PT36H -> P1DT12H, P14M -> P1Y2M); FeelZone::new and is_valid_time meet their definitions; and on the real literal parsers '
          '(date, time, date and time, both durations) that the captured fields denote exactly what is written: signed year / month / day forming a calendar date, hour < 24 and minute / second < 60, '
          'the fraction in nanoseconds, the zone of the suffix, duration components of any size within u64 with the sign applied to the whole length, invalid when a component does not fit. '
          'Partial: what the regular expressions capture, the digit-by-digit fraction reader and the formatter itself are not decided (BOUNDED temporal-literals-and-zones looks at them).',
  'design_ref': 'DESIGN.md section 5 (C14)',
  'note': 'Trusted: Verus/Z3; core::fmt renders the constrained arguments as documented (R5 sinks, slots derived mechanically from the format literal); nanoseconds_to_string opaque.',
 },
 'C09': {
  'text': 'Verus proves on the real closure bodies and functions, for all values: and/or equal the three-valued truth tables with every non-boolean as null; '
          'eval_ternary_equality returns true exactly for deeply equal values and, for every pair other than two contexts, equals a symmetric table (null = x is x = null); '
          '= and != are each other\'s negation; < <= > >= on numbers, strings and dates are the order relations, with a < b == b > a, a <= b == b >= a, trichotomy and '
          '<= == (< or =) as lemmas; between, in-range (open end = strict) and a <= x and x <= b agree; dates are totally ordered by (year, month, day).',
  'design_ref': 'DESIGN.md section 5 (C09)',
  'note': 'Trusted: Verus/Z3; number order is a strict total order (decimal128 comparison assumed); String order axioms; chrono-based time/date-time relations uninterpreted; '
          'closure lifting R4 (wiring not decided). Context pairs with equal key sets and mixed unequal/incomparable entries are only partly decided.',
 },
 'C01': {
  'text': 'Partial. Verus proves on the real bodies, for all operand values: FeelIterator::run enumerates exactly the cartesian product of its (non-empty) domains in odometer order (ghost trace, inductive invariant, '
          'all isize range bounds, ascending and descending) and terminates; build_for registers the iteration contexts in the order they are written, each with the domain its expression denotes (unit forloop); '
          'the per-round closures of for / some / every append the body value over the bound variables and partial, or fold it with or / and; the operator closures and/or/=/!=/</<=/>/>=/between/in-range equal the value '
          'tables of the standard (unit compare); x in rhs for every kind of right operand, a list of tests as a left-to-right disjunction, a list in a list of lists by equality (unit member); a path is the entry of a context or null, '
          'one result per item of a list of contexts, the named component of a temporal value (unit paths); + - * / ** and unary minus apply their operation to their operands in order per operand kind and are null otherwise (unit arith); '
          'if takes the else branch for every condition that is not true; Scope::get_entry/search_deep resolve names innermost-first; function invocation binds parameters to coerced arguments in order / by name; filter, iteration bodies, '
          'context literals and invocations leave the scope stack as found. BOUNDED: equality over a 41-value alphabet, 102 core expressions, invocation arities, 22 path-then-operator expressions. '
          'Known findings (replayed each run): an empty list domain beside a non-empty one still iterates; the property name of a path is read greedily when it is not a bound name.',
  'design_ref': 'DESIGN.md section 5 (C01)',
  'note': 'Trusted: Verus/Z3, vstd, stubs for FeelNumber, chrono and the temporal component getters; A-eval (the value of a sub-evaluator is a function of the evaluator and the stack); closure lifting R4 and RefCell erasure R8. '
          'Not decided: closure wiring (build_evaluator / the parser mapping each construct to its builder), context literals and filters beyond scope balance, termination of eval_in_list, determinism.',
 },
 'C08': {
  'text': 'Partial. Verus proves on the real bodies, for all lists, strings and positions: sublist (2 and 3 arguments), substring (characters, 1-based, negative from the end), insert before, remove, reverse, '
          'count, index of (sound and complete), list contains, append, all and not return exactly the specified value on their domain and null outside it, with no overflow for extreme positions/lengths; '
          'concatenate, union, distinct values (first occurrences in order, relative to value equality), flatten (nested lists replaced by their items), sum and mean (left-to-right folds), min and max of numbers (the first of equal items stays) likewise; '
          'and for 34 built-ins that the positional wrapper handles exactly the legal arities and that the named wrapper passes the standard\'s parameter names in the standard\'s order to the same core '
          'function (named invocation = positional invocation; contracts generated from a table of DMN signatures). BOUNDED: all / any over every list of length 0..4 from {true, false, null, 1, "a"} in list, named and variadic form. Known finding replayed each run: any().',
  'design_ref': 'DESIGN.md section 5 (C08)',
  'note': 'Trusted: Verus/Z3, vstd; FeelNumber predicates/conversions as stated stubs; String char iteration stubs; core functions uninterpreted in the dispatch unit. Not decided: regex / conversion functions, sort, median / mode / stddev / product, min / max of strings beyond "a string or null".',
 },
 'C05': {
  'text': 'Partial. The conjunction of the automatic Verus obligations (arithmetic overflow/underflow, division by zero, index and slice bounds, Option::unwrap, and termination where a decreases clause is given) '
          'of every function under contract in all units: the FEEL lexer layout/literal functions (with termination), FeelIterator::run for all isize bounds, the list/string position built-ins for extreme positions and lengths, '
          'calendar and duration arithmetic, type relations; FeelIterator::run terminates (decreases: positions of the odometer left). Plus BOUNDED stand-ins (labelled bounded, not counted as proved): the byte-indexed string search built-ins; '
          'every built-in name over argument grids (no panic); 7 699 generated expressions that must answer within 10 s without panic (iteration over lists / ascending / descending / empty ranges, named zones at every half hour around their daylight-saving transitions, '
          'maximal durations, time offsets up to the i32 limits, extreme dates and constructor arguments).',
  'design_ref': 'DESIGN.md section 5 (C05)',
  'note': 'Trusted: Verus/Z3, vstd and the stated std specs. Not decided: the LALR parse driver and reduce actions, read_next_token, consume_name, evaluator recursion depth, regex/chrono panics, '
          'built-ins not under contract, format!-built messages. abs() at MIN and nanoseconds >= 2^32 are excluded by stated preconditions.',
 },
 'C06': {
  'text': 'Partial. Unit actions: 59 of the 90 reduce actions of parser.rs build the node of their construct over their operands in written order (20 binary, 2 ternary, 7 unary operator actions; 9 list-building actions; 7 literal / name actions; for / some / every, list, negated tests, empty collections, path, interval ends, first parameter, call without arguments), from tables. (literals, character classes, layout) Verus proves on the real lexer bodies: the name/digit/whitespace character classes equal grammar rules 28-30 and 61-62; white space and any number of comments '
          'are skipped before a token (read_input ends at a non-layout character; consecutive comments included); consume_digits returns the maximal digit run; \\uXXXX / \\UXXXXXX escapes have their hexadecimal value; '
          'consume_unicode yields exactly the denoted scalar value for every 4-hex, 6-hex and surrogate-pair escape (UTF-8 assembly proved with bit-vector lemmas against RFC 3629) and errors otherwise; '
          'consume_string returns exactly the code points the literal denotes (all escape forms) and accepts every well-formed literal. Unit parser: the real driver loop Parser::parse does in every state exactly what the packed tables say under the Bison skeleton\'s semantics (shift / reduce / default / error and the goto after a reduction), '
          'table content abstract, its range facts re-checked from lalr.rs on every run. Precedence / associativity (the CONTENT of the LALR tables) only BOUNDED: '
          'every ordered pair and triple of 15 operators (all three operand positions of between), fully vs minimally parenthesised renderings through the real parser, minimal parentheses computed from feel.y\'s precedence declarations; '
          'and 16 separators (white space of every kind, block and line comments with and without white space around them) in every gap of 62 token sequences covering every keyword and bracket give the tree of the single-space layout (read_input\'s contract states that the keyword look-ahead is blank from a comment start on).',
  'design_ref': 'DESIGN.md section 5 (C06)',
  'note': 'Trusted: Verus/Z3; String::from_utf8 = RFC 3629 decoding (stub); char classification std specs. One assume (A-LR: stack depth at a reduction). Not decided beyond the bounded pairs / triples: that the tables are the LALR(1) tables of feel.y; reduce actions (which node is built); keyword / number tokenisation.',
 },
 'C03': {
  'text': 'Partial. Verus proves on the real bodies of decision_table.rs, for all tables (any number of rules/outputs, any match pattern): a rule matches exactly when every input-entry evaluator yields true; '
          'the 12 hit-policy functions and their dispatch return what the policy prescribes over exactly the matching rules (UNIQUE, ANY, FIRST, PRIORITY, RULE ORDER, OUTPUT ORDER, COLLECT list/count/sum/min/max), '
          'the default on no match, contexts keyed by component names for compound outputs; the output-value priority comparator is the lexicographic rank order; and (unit compare) the unary tests '
          '< <= > >= and not(...) used by input entries accept exactly the values they should, a comma-separated list of tests is the left-to-right disjunction of its items (unit member: build_in, eval_in_list); the marker of a text table and the hitPolicy / aggregation attributes of the XML form denote the policy and aggregator of DMN Table 39.',
  'design_ref': 'DESIGN.md section 5 (C03)',
  'note': 'Trusted: Verus/Z3; evaluators are opaque (dyn Fn); sort_by sorts by the (verified) comparator (assumed: result is a permutation); filter/collect and position stubs; FEEL aggregates uninterpreted. '
          'Not decided: parsing of the table from XML/text, interval/list unary tests inside input entries beyond those under contract.',
 },
 'C12': {
  'text': 'Partial (index-safety kernels). Verus proves that the decision-table evaluation code never indexes out of bounds given every rule carries one output value per output clause (get_result, hit policies, '
          'compound outputs with fewer names than outputs answer null), that evaluate_parsed_decision_table preserves rule/output arities, and that Workspace::deploy skips models that fail to build and deploys the others; that the cycle check (find_cycle and the scan ending check_cyclic_dependencies, unit cycles) accepts a collected dependency graph only when a rank falls along every requirement (the evaluators\' recursion is well-founded) and reports only nodes that lie on a cycle, and that find_cycle terminates on every graph.',
  'design_ref': 'DESIGN.md section 5 (C12)',
  'note': 'Not decided: XML parsing (roxmltree), missing attributes, dangling references, the collection of the dependency graph from the definitions (bounded: generated cyclic models), item-definition classification (pending), parse_decision_table\'s arity validation (repaired by a fix: commit, not yet under contract).',
 },
 'C11': {
  'text': 'Partial. Verus proves on the real closure bodies (contracts generated per type from one table of the eight simple types): the simple-type and collection-of-simple-type item-definition evaluators and the '
          'typed input-variable evaluators return the value unchanged when it is of the declared kind (every element, for collections) and passes the allowed-values check, and null otherwise; '
          'check_allowed_values returns the value iff the test accepts it; item_definition_type classifies every typeRef/components/isCollection combination or reports an error; the component, collection-of-component, referenced and collection-of-referenced evaluators '
          'check every component / element with the nested definition\'s own evaluator and null only what the property says (relative to A-item); output coercion FeelType::coerced wraps / unwraps singleton lists or yields null.',
  'design_ref': 'DESIGN.md section 5 (C11)',
  'note': 'Trusted: Verus/Z3; evaluators/scopes opaque; closure lifting R4 ties each closure to the builder name / typeRef literal it sits under. A-item: the nested item definition evaluators are uninterpreted. Not decided: dispatch match arms, where coercion is applied.',
 },
 'C18': {
  'text': 'Partial. Proof: Verus proves on the real handler bodies that clear/add/replace/remove/deploy perform exactly the workspace operation the endpoint names on the model decoded from the request (replace substitutes the stored model), '
          'report the workspace operation\'s failure as an error, and leave the workspace unchanged on every malformed-request path (missing content, invalid base64, invalid UTF-8, unparsable model); together with the workspace representation '
          'invariant of C17. Unit dto: Verus proves on the real bodies of server/src/dto.rs (the TryFrom impls as free functions) that every decoder answers exactly the value its DTO denotes (an error iff some part is unreadable) and that both encoders build a DTO denoting the value, '
          'so decode(encode(v)) = v for every transportable value at every nesting depth (termination of the recursion included), relative to the assumed text round trip of scalars and names. BOUNDED (not proofs, real code through the replay driver): the /evaluate body {"data": jsonify(value)} is a JSON document that decodes to the value, and value -> TCK DTO -> JSON (serde_json) -> DTO -> value is the identity, '
          'on a grid of 671 values of every TCK kind nested to depth 2.',
  'design_ref': 'DESIGN.md section 5 (C18)',
  'note': 'Assumed in unit dto: Display / try_from_xsd_* and Name::to_string / parse_longest_name round-trip (exercised by the bounded stand-in). Not decided: jsonify beyond the bounded grid (string code), actix routing, body limits, lock poisoning, survival after malformed requests, values without a JSON rendering (functions, ranges, Infinity / NaN).',
 },
 'C13': {
  'text': 'Partial (scope half). Verus proves on the real bodies that every evaluator closure / function that pushes a temporary context returns with the caller\'s stack of contexts exactly as it found it '
          '(context literal, filter incl. every return path of the index handling, the for/some/every iteration bodies, function invocation positional/named/definition, the model evaluator\'s boxed context, '
          'boxed function definition and boxed invocation), given the induction hypothesis that sub-evaluators do; and that each parser reduce action with an access path to the parsing scope has exactly its bracket role '
          '(begin actions push one temporary context, end actions pop it, name-registering actions write only into the top context, any other action leaves the scope alone); a syntactic frame check scans parser.rs on every run '
          'so that no other function has an access path.',
  'design_ref': 'DESIGN.md section 5 (C13)',
  'note': 'Trusted: Verus/Z3; R8 (RefCell erased, &Scope becomes &mut Scope), R8a (parser and lexer scope references are one object), A-eval (sub-evaluators are scope-neutral: induction hypothesis), '
          'A-grammar (each begin action\'s mid-rule symbol occurs in one production whose end action pops: read from the generated production comments of lalr.rs, not proved), FeelIterator::run reaches the scope only through its handler. '
          'Not decided: repeatability of values (whole-history), failed parses.',
 },
 'C10': {
  'text': 'Partial. Verus proves on the real consume_name body, for every input and every parsing scope: the collected parts are exactly the tokenisation of the input from the cursor (each part is a maximal word of name part '
          'characters or one additional symbol, consecutive parts separated only by whitespace, recorded end positions exact, the scan stops at the first character that cannot belong to a name); and the returned name is made of the '
          'LONGEST prefix of these parts whose flattened text is a key of the scope, with the cursor put back right behind that prefix - or, when no prefix is bound, of all parts (the two tweaks for `item` and for the variable before `in` '
          'are spelled out as separate cases). The string code deciding equality of flattened texts is covered only by a BOUNDED stand-in (all names of up to 5 parts over 3 words and 6 symbols, through parse + evaluate on the real code). '
          'Scope lookup (innermost binding wins) is proved in unit scope.',
  'design_ref': 'DESIGN.md section 5 (C10)',
  'note': 'Trusted: Verus/Z3; uninterpreted flatten_name_parts / Name::from / flatten_keys; HashSet<String> key model. Not decided: every grammar position where a name may occur (parser), termination.',
 },
 'C19': {
  'text': 'Partial. Verus proves on the real bodies of the recognizer crate: (no panic) every canvas primitive (move_to, search, search_up/down/left/right, region / rectangle / body / crossing / information item recognition, '
          'text_from_rect, layer preparation, make_grid) and every plane accessor stays inside the rectangular grid / the plane for all contents - no index out of bounds, no arithmetic overflow, termination - under stated '
          'preconditions; (as drawn) a directional search returns the nearest searched character reachable over allowed characters only; recognised rectangles are closed and lie inside the grid; the TEXT layer is never modified '
          'after scanning; crossings are the first cells of their kind; the hit policy is the marker in the top-left (rules as rows) or bottom-left (rules as columns) region; rule numbers are exactly 1..n below / after the output '
          'double line and n is the rule count; orientation follows marker and rule number placement; recognize_horizontal_table puts exactly the cells its header layout dictates into each part of the table (all six output header shapes, allowed values, entries row by row, annotations); '
          'validate_size accepts exactly the parts that fit together and build puts exactly these parts, in order, into the DecisionTable. BOUNDED: 346 generated drawings recognised as drawn; every single-character corruption of 22 drawings answered without panic.',
  'design_ref': 'DESIGN.md section 5 (C19)',
  'note': 'Trusted: Verus/Z3; uninterpreted HitPolicy::try_from / usize::from_str; rewrites R17-R19, R1m. Not decided: Canvas::plane, recognize_horizontal_table, builder::build, canvas::scan text loop, equivalence with the XML table; '
          'panic freedom is per function under preconditions (A-plane), not end to end.',
 },
 'C02': {
  'text': 'Partial. Rust half (proof): Verus proves on the real dec.rs / number.rs bodies that every FEEL number operation is wired to the decimal library operation of its name with the operands in order, the decimal128 '
          'half-even context, the rounding constants FLOOR / CEILING / DOWN where the property names them (constants checked against decContext.h on every run), results reduced, finiteness tested on the unreduced result of ln / sqrt / pow '
          '(None exactly when it is not finite), equality and order by value, is_integer / odd / even by value, modulo from the exact remainder; abs / floor / ceiling stay finite. C half (BOUNDED, not a proof): the real operations '
          'are compared with CPython decimal as decimal128 on a fixed operand grid (about 41 000 operations quick, 1.5 million thorough). Five known findings are replayed on every run (overflow to Infinity, exp to Infinity, decimal() to NaN, '
          'modulo with a quotient of more than 34 digits, to_usize(-0)).',
  'design_ref': 'DESIGN.md section 5 (C02)',
  'note': 'Trusted: Verus/Z3; A-C (the C library computes the IEEE operation of each entry point: uninterpreted), A-IEEE, R9/R20/R21 rewrites. The arithmetic itself lives in C and is only covered by the bounded differential stand-in.',
 },
}
CLAIMED.update({
 'C04': {
  'text': 'Partial. Verus proves on the real closure of build_decision_evaluator (model-evaluator/src/builders/decision.rs, lifted: rule R4), for every model evaluator, every list of requirement references of any length and '
          'every input context: the decision logic is evaluated over exactly ONE context - every required input data element bound to the name and type-checked value the input data evaluator takes from the supplied input, '
          'every required knowledge model and decision service to its function, every required decision\'s variable to that decision\'s own value over the same input, an input entry named like one of the latter replacing it '
          '(DMN TCK 0085), and nothing else (so input entries outside the requirement closure do not reach the logic); the value is coerced to the output variable\'s type and bound to the output variable\'s name in the '
          'caller\'s result context, which is otherwise unchanged; and on the real bodies of FeelContext::set_entry / zip / overwrite that they bind / merge (other wins) / replace-without-adding. '
          'The closures of build_evaluator (a knowledge model binds each required knowledge model or decision SERVICE AS A FUNCTION, then its own function) and of build_decision_service_evaluator (one input for encapsulated and output '
          'decisions: the input decisions\' variables read from the supplied context, then the input data; one output value or a context of output values; coerced) and the entry points by name (evaluate_invocable, evaluate_decision, '
          'evaluate_decision_service, evaluate_business_knowledge_model) are under contract in the same way. '
          'The registries are opaque objects that meet the contract the closures are proved to meet (induction along the acyclic graph, assumed). '
          'BOUNDED requirement-graphs-differential runs generated graphs (diamonds, knowledge model chains, services as functions, boxed contexts and invocations) end to end against a reference evaluation.',
  'design_ref': 'DESIGN.md section 5 (C04)',
  'note': 'Trusted: Verus/Z3, vstd BTreeMap / iterator specs, A-name; A-graph (registry evaluate methods meet the closure contracts), R8g (RwLock guards dropped, lock poisoning not modelled), A-eval (the logic\'s value is a function '
          'of the entries of the context it runs over), A-ctx (Default / clone / into Scope / coerced as named stubs). Not decided: the builder part outside the closure (which references are collected, which logic is built), '
          'the builder parts outside the closures (reference lists, formal parameter order), boxed expression evaluators beyond invocation / function definition (unit purity), name clashes between requirements.',
  'technique': 'contract-based deductive verification: Verus requires/ensures/loop invariants on the decision evaluator closure lifted mechanically from /repo and on FeelContext::set_entry / zip / overwrite; '
               'bounded differential stand-in (labelled bounded) for whole requirement graphs',
 },
 'C07': {
  'text': 'Partial. Verus proves on the real body of scientific_to_plain (feel-number/src/number.rs), for EVERY text the decimal library can write for a finite decimal128 value '
          '(to-scientific-string form: any sign, 1..34 coefficient digits, any exponent -6176..6111): the result is plain decimal text - optional minus sign, digits, optionally a point and digits, '
          'never an exponent, no superfluous leading zeros (a JSON number) - whose digits denote exactly sign x coefficient x 10^exponent (value equation over the digit sequences, with the '
          'concatenation / leading-zero / trailing-zero lemmas proved by induction); no unwrap, subtraction or index in it can fail; the recursion on the sign terminates. '
          'Display::fmt and Jsonify::jsonify of FeelNumber hand exactly that text on; FromStr accepts a text iff the library reads a finite value from it and stores that value. '
          'The two numeric arms of Lexer::read_next_token (lifted: R26) answer exactly the maximal run of digits written before the point and - only when a point AND a digit follow - the maximal run behind it (`.5`: 0 and the run); '
          'build_numeric joins them by ONE point, hands that text to FromStr and answers the number read or null; try_from_xsd_integer / _decimal / _double read the whole input text. '
          'The C library side (what decQuadToString writes, what decQuadFromString reads) is assumed in the contract and looked at only by BOUNDED numbers-as-plain-text-differential, '
          'which also covers FEEL literals and typed input texts.',
  'design_ref': 'DESIGN.md section 5 (C07)',
  'note': 'Trusted: Verus/Z3; A-C (decQuadToString writes the IEEE 754-2008 to-scientific-string form; decQuadFromString / decQuadIsFinite uninterpreted); A-std (R24: the str APIs strip_prefix / contains / split / '
          'usize::from_str / len / chars().all / repeat-collect / format! / to_string mean what core documents, as stubs over the character sequence). Not decided: read-back and literal values (C library), '
          'that the parser hands the numeric token to build_numeric unchanged.',
  'technique': 'contract-based deductive verification: Verus requires/ensures/decreases on scientific_to_plain, Display::fmt, jsonify, from_str extracted mechanically from /repo with the str APIs replaced by specified stubs; '
               'bounded differential stand-in (labelled bounded) for the C library side',
 },
})
NOT_APPLICABLE = {

 'C20': 'a schedule property: Kani has no thread support and Verus would need the code rewritten onto its own permission/atomic types; Send+Sync is checked by rustc, not by this family (DESIGN.md section 6)',
}
