#!/bin/bash
# usage: seed_round_par.sh <round> <first-k> <workers> <PROP>...
# collects the agents' output (/tmp/seed/<PROP>/_out/{1,2}) as seeds <PROP>-<first-k>, <PROP>-<first-k + 1>, confirms each (demo passes without /
# fails with the patch, suite unchanged) and runs the property's quick check against it - with N workers, each on its own worktrees of /repo's HEAD
# (one for the confirmation, one as VERIF_REPO for the check), so /repo itself is not touched. Evidence files are restored afterwards.
ROUND=$1; K0=$2; N=$3; shift 3
cd /verif
mkdir -p /var/tmp/swp; rm -f /var/tmp/swp/props.* /var/tmp/swp/eval*.log
rm -rf /var/tmp/swp/evidence.bak; cp -r evidence /var/tmp/swp/evidence.bak
for P in "$@"; do
  for n in 1 2; do
    k=$((K0+n-1)); D=/verif/seeded/$P-$k
    test -f /tmp/seed/$P/_out/$n/patch.diff || { echo "$P-$k NO-OUTPUT"; continue; }
    mkdir -p $D; cp /tmp/seed/$P/_out/$n/* $D/
    python3 - <<PY
import json
p='$D/meta.json'
try:
    m=json.load(open(p))
except Exception:
    m={'property': '$P'}
m['round']=$ROUND; json.dump(m,open(p,'w'),indent=1)
PY
  done
  git -C /repo worktree remove --force /tmp/seed/$P 2>/dev/null; rm -rf /tmp/seed/$P
done
i=0; for P in "$@"; do echo $P >> /var/tmp/swp/props.$((i % N)); i=$((i+1)); done
worker() {
  w=$1
  R=/var/tmp/swp/repo$w; SV=/var/tmp/swp/sv$w
  for X in $R $SV; do git -C /repo worktree remove --force $X 2>/dev/null; rm -rf $X; git -C /repo worktree add -q --detach $X HEAD; done
  export CARGO_NET_OFFLINE=true
  for P in $(cat /var/tmp/swp/props.$w 2>/dev/null); do
    for k in $K0 $((K0+1)); do
      D=/verif/seeded/$P-$k; test -f $D/patch.diff || continue
      DEMO=$(python3 -c "import json;print(json.load(open('$D/meta.json')).get('demo_test',''))")
      DEMO=$(echo "$DEMO" | sed "s#/tmp/seed/$P#$SV#g" | sed -E "s/ +\((or|equivalently|alternatively)[: ][^)]*\) *$//")
      ( cd $SV && git checkout -q -- . && git clean -fdq -e target
        export CARGO_TARGET_DIR=/var/tmp/swp/svt$w
        git apply $D/demo.diff || echo "demo.diff does not apply"
        bash -c "$DEMO" > /var/tmp/swp/demo1.$w.log 2>&1; R1=$?
        git apply $D/patch.diff || echo "patch.diff does not apply"
        bash -c "$DEMO" > /var/tmp/swp/demo2.$w.log 2>&1; R2=$?
        git apply -R $D/demo.diff
        cargo nextest run --workspace --no-fail-fast --offline > /var/tmp/swp/suite.$w.log 2>&1
        SUITE=$(grep -E "Summary|tests run" /var/tmp/swp/suite.$w.log | tail -1)
        FAILS=$(grep -E "^\s+FAIL " /var/tmp/swp/suite.$w.log | sed 's/.*\] *//' | sort -u | tr '\n' ';')
        echo "demo_without_patch_exit=$R1 demo_with_patch_exit=$R2 suite: $SUITE fails: $FAILS" > $D/confirm.txt
        git checkout -q -- . ; git clean -fdq -e target )
      git -C $R apply $D/patch.diff || { echo "$P-$k PATCH-DOES-NOT-APPLY"; continue; }
      VERIF_REPO=$R VERIF_BUILD=/var/tmp/swp/build$w VERIF_ALT=$w timeout 2400 python3 check.py $P --tier quick > $D/check_output.txt 2>&1; RC=$?
      git -C $R checkout -- .
      echo "check exit=$RC" >> $D/confirm.txt
      echo "=== $P-$k $(head -1 $D/confirm.txt | cut -c1-60) suite-pass=$(grep -o '[0-9]* passed' $D/confirm.txt | head -1) check exit=$RC $(grep -E '^VIOLATION' $D/check_output.txt | head -1 | sed 's/.*obligation=//' | cut -c1-100) $(grep -c '^UNDECIDED' $D/check_output.txt) undecided"
    done
  done
  for X in $R $SV; do git -C /repo worktree remove --force $X 2>/dev/null; done
}
for w in $(seq 0 $((N-1))); do worker $w > /var/tmp/swp/eval$w.log 2>&1 & done
wait
cat /var/tmp/swp/eval*.log
rm -rf evidence; cp -r /var/tmp/swp/evidence.bak evidence
rm -rf /var/tmp/swp/build* /var/tmp/swp/svt* /verif/build/replay-alt[0-9]* /verif/build/replay-target-alt[0-9]*
