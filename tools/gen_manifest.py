#!/usr/bin/env python3
"""Generate MANIFEST.json from tools/manifest_src.py (single source of truth)."""
import json, os, sys
sys.path.insert(0, os.path.dirname(os.path.abspath(__file__)))
import manifest_src as S
checks = []
for pid, c in S.CLAIMED.items():
    checks.append({
        'property_id': pid,
        'quick_cmd': 'python3 check.py %s --tier quick' % pid,
        'thorough_cmd': 'python3 check.py %s --tier thorough' % pid,
        'evidence_file': '/verif/evidence/%s.json' % pid,
        'replay_cmd_template': 'python3 check.py --replay {path}',
        'engine': 'verus-contracts',
        'level_claimed': {'category': 'proof', 'text': c['text'], 'design_ref': c['design_ref']},
        'level_note': c['note'],
        'technique': c.get('technique', 'contract-based deductive verification: Verus requires/ensures/invariants on functions extracted mechanically from /repo'),
    })
m = {
    'version': 1,
    'setup_cmd': 'bash tools/setup.sh',
    'hooks': {
        'guard': 'dmntk_verif (reserved; no hooks are needed: contracts live in /verif and are spliced into text extracted from /repo on every run)',
        'enable': 'none - checks read /repo working tree sources directly',
        'baseline_off_cmd': 'bash /verif/tools/run_baseline.sh',
        'source_commits': [],
        'add_only': True,
    },
    'engines': [{'name': 'verus-contracts', 'path': '/verif/check.py', 'serves_properties': sorted(S.CLAIMED.keys()),
                 'kind_free_text': 'extractor + contract splicer (vf/build.py) -> Verus single-file verification (vf/run.py) -> obligation classification, vacuity cover run, known findings (check.py); Kani second back end / replay in thorough tier'}],
    'checks': checks,
    'not_applicable': [{'property_id': k, 'reason': v} for k, v in S.NOT_APPLICABLE.items()],
    'notes': S.NOTES,
}
json.dump(m, open('/verif/MANIFEST.json', 'w'), indent=1)
print('wrote MANIFEST.json with', len(checks), 'checks')
