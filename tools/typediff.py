#!/usr/bin/env python3
"""BOUNDED stand-in (not a proof) for C16: FeelType::is_equivalent / is_conformant on every ordered pair of a family of types up to
nesting depth 2 (6 simple types, lists, ranges, functions of arity 0..2, contexts with 0..2 entries, and lists / functions /
contexts over eight of those), against type equivalence and conformance of DMN 1.3 section 10.3.2.9 written out here.
Bounded duplicate of the Verus contracts of unit `types`; it also decides the relations when a rewritten body leaves the
extractor's reach. prints `typediff cases=N failures=M`; exit 0 / 2."""
import os
import sys

HERE = os.path.dirname(os.path.abspath(__file__))
sys.path.insert(0, os.path.dirname(HERE))
from vf import replaydrv  # noqa: E402


def parse(s):
    """prefix notation -> ('A',) | ('L', t) | ('R', t) | ('F', [params], result) | ('C', {name: t})"""
    pos = [0]

    def ty():
        ch = s[pos[0]]
        pos[0] += 1
        if ch in 'A0NSBD':
            return (ch,)
        assert s[pos[0]] == '('
        pos[0] += 1
        if ch in 'LR':
            t = ty()
            assert s[pos[0]] == ')'
            pos[0] += 1
            return (ch, t)
        if ch == 'F':
            params = []
            while s[pos[0]] != ';':
                params.append(ty())
                if s[pos[0]] == ',':
                    pos[0] += 1
            pos[0] += 1
            r = ty()
            assert s[pos[0]] == ')'
            pos[0] += 1
            return ('F', params, r)
        if ch == 'C':
            entries = {}
            while s[pos[0]] != ')':
                k = s[pos[0]]
                assert s[pos[0] + 1] == '='
                pos[0] += 2
                entries[k] = ty()
                if s[pos[0]] == ',':
                    pos[0] += 1
            pos[0] += 1
            return ('C', entries)
        raise ValueError(s)
    t = ty()
    assert pos[0] == len(s), s
    return t


def equiv(a, b):
    if a[0] != b[0]:
        return False
    if a[0] in 'A0NSBD':
        return True
    if a[0] in 'LR':
        return equiv(a[1], b[1])
    if a[0] == 'F':
        return len(a[1]) == len(b[1]) and all(equiv(x, y) for x, y in zip(a[1], b[1])) and equiv(a[2], b[2])
    return set(a[1]) == set(b[1]) and all(equiv(a[1][k], b[1][k]) for k in a[1])


def conf(a, b):
    """a conforms to b"""
    if equiv(a, b) or a[0] == '0' or b[0] == 'A':
        return True
    if a[0] != b[0]:
        return False
    if a[0] in 'LR':
        return conf(a[1], b[1])
    if a[0] == 'F':   # contravariant in the parameters, covariant in the result
        return len(a[1]) == len(b[1]) and all(conf(y, x) for x, y in zip(a[1], b[1])) and conf(a[2], b[2])
    if a[0] == 'C':   # a has at least the entries of b, with conforming types
        return all(k in a[1] and conf(a[1][k], b[1][k]) for k in b[1])
    return False


def main():
    rr = replaydrv.run('types', [], timeout=600)
    if not rr.get('ok'):
        print('typediff could not run: %s' % rr.get('error'))
        return 2
    cases = 0
    nfail = 0
    fails = []
    for line in rr['stdout'].splitlines():
        t = line.split('\t')
        if len(t) != 4:
            continue
        cases += 1
        a, b = parse(t[0]), parse(t[1])
        exp = (str(equiv(a, b)).lower(), str(conf(a, b)).lower())
        if (t[2], t[3]) != exp:
            nfail += 1
            if len(fails) < 5:
                fails.append('%s vs %s: is_equivalent %s (expected %s), is_conformant %s (expected %s)' % (t[0], t[1], t[2], exp[0], t[3], exp[1]))
    if cases < 1000:
        print('typediff could not run: only %d pairs answered' % cases)
        return 2
    print('typediff cases=%d failures=%d' % (cases, nfail))
    for f in fails:
        print('FAIL ' + f)
    return 0


if __name__ == '__main__':
    sys.exit(main())
