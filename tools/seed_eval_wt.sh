#!/bin/bash
# usage: seed_eval_wt.sh <PROP> <k> [--skip-confirm]
# Like seed_eval.sh for a seed already stored under /verif/seeded/<PROP>-<k>/, but /repo itself is never touched: the demonstration and the
# suite run in the scratch worktree /tmp/sv, the check runs against a second scratch worktree (VERIF_REPO) with its own build directory.
set -u
P=$1; K=$2; SKIP=${3:-}
DST=/verif/seeded/$P-$K
DEMO=$(python3 -c "import json;print(json.load(open('$DST/meta.json'))['demo_test'])")
DEMO=$(echo "$DEMO" | sed "s#/tmp/seed/$P#/tmp/sv#g" | sed -E "s/ +\((or|equivalently|alternatively)[: ][^)]*\) *$//")
export CARGO_NET_OFFLINE=true
RES=$DST/confirm.txt
if [ "$SKIP" != "--skip-confirm" ]; then
  git -C /repo worktree remove --force /tmp/sv 2>/dev/null; rm -rf /tmp/sv
  git -C /repo worktree add -q --detach /tmp/sv HEAD
  cd /tmp/sv
  export CARGO_TARGET_DIR=/tmp/sv-target
  git apply $DST/demo.diff || { echo "demo.diff does not apply" | tee $RES; exit 3; }
  bash -c "$DEMO" > /tmp/sv-demo1.log 2>&1; R1=$?
  git apply $DST/patch.diff || { echo "patch.diff does not apply" | tee $RES; git -C /repo worktree remove --force /tmp/sv; exit 3; }
  bash -c "$DEMO" > /tmp/sv-demo2.log 2>&1; R2=$?
  git apply -R $DST/demo.diff
  cargo nextest run --workspace --no-fail-fast --offline > /tmp/sv-suite.log 2>&1
  SUITE=$(grep -E "Summary|tests run" /tmp/sv-suite.log | tail -1)
  FAILS=$(grep -E "^\s+FAIL " /tmp/sv-suite.log | sed 's/.*\] *//' | sort -u | tr '\n' ';')
  echo "demo_without_patch_exit=$R1 demo_with_patch_exit=$R2 suite: $SUITE fails: $FAILS" | tee $RES
  unset CARGO_TARGET_DIR
  cd /verif
  git -C /repo worktree remove --force /tmp/sv
fi
R=/var/tmp/swe/repo
mkdir -p /var/tmp/swe
git -C /repo worktree remove --force $R 2>/dev/null; rm -rf $R
git -C /repo worktree add -q --detach $R HEAD
git -C $R apply $DST/patch.diff || { echo "patch does not apply to /repo HEAD" | tee -a $RES; git -C /repo worktree remove --force $R; exit 3; }
cd /verif
cp evidence/$P.json /var/tmp/swe/evid_backup_$P.json 2>/dev/null
VERIF_REPO=$R VERIF_BUILD=/var/tmp/swe/build VERIF_ALT=9 python3 check.py $P --tier quick > $DST/check_output.txt 2>&1; RC=$?
cp /var/tmp/swe/evid_backup_$P.json evidence/$P.json 2>/dev/null
git -C /repo worktree remove --force $R
echo "check exit=$RC" | tee -a $RES
grep -E "VIOLATION|UNDECIDED|KNOWN" $DST/check_output.txt | cut -c1-260
