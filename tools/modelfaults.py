#!/usr/bin/env python3
"""BOUNDED stand-in (not a proof) for C12: every single structural fault of the kinds

    delete an element | delete an attribute | empty a text node | duplicate an element | retarget an href to a missing id

applied at every position of the example models shipped with the repository (examples/src/**/*.dmn), plus the unmodified models:
parse + build the evaluator + evaluate every invocable with an empty context on the real code (replay driver, catch_unwind).
A PANIC line or a crash of the driver process (stack overflow, abort) is a failure.
Self / ancestor retargeting (cyclic requirements) is not generated here; the recursive example model N_0088 is excluded: a recorded known finding (stack overflow).

usage: modelfaults.py [--models N] [--seed S]      (quick: a seeded choice of N models; thorough: all)
prints `modelfaults cases=N failures=M` and up to five FAIL lines; exit 0 / 2.
"""
import glob
import os
import random
import re
import shutil
import subprocess
import sys
import tempfile

HERE = os.path.dirname(os.path.abspath(__file__))
sys.path.insert(0, os.path.dirname(HERE))
from vf import replaydrv  # noqa: E402

REPO = os.environ.get('VERIF_REPO', '/repo')
TAG = re.compile(r'<(/?)([A-Za-z_][\w:.-]*)((?:\s+[\w:.-]+\s*=\s*(?:"[^"]*"|\'[^\']*\'))*)\s*(/?)>', re.S)
ATTR = re.compile(r'\s+([\w:.-]+)\s*=\s*("[^"]*"|\'[^\']*\')')


def elements(xml):
    """(start, end, open_tag_match) of every element, by matching tags on the text (comments / CDATA / PIs skipped)."""
    clean = re.sub(r'<!--.*?-->|<\?.*?\?>|<!\[CDATA\[.*?\]\]>', lambda m: ' ' * len(m.group(0)), xml, flags=re.S)
    stack, out = [], []
    for m in TAG.finditer(clean):
        if m.group(1) == '/':
            if stack:
                o = stack.pop()
                out.append((o.start(), m.end(), o))
        elif m.group(4) == '/':
            out.append((m.start(), m.end(), m))
        else:
            stack.append(m)
    return out


def faults(xml):
    els = elements(xml)
    res = []
    root_start = min(e[0] for e in els) if els else 0
    for (s, e, o) in els:
        if s == root_start:
            continue
        res.append(('delete <%s> at %d' % (o.group(2), s), xml[:s] + xml[e:]))
        res.append(('duplicate <%s> at %d' % (o.group(2), s), xml[:e] + xml[s:e] + xml[e:]))
        inner = xml[o.end():e]
        if o.group(4) != '/' and '<' not in inner and inner.strip():
            res.append(('empty text of <%s> at %d' % (o.group(2), s), xml[:o.end()] + xml[e - len('</%s>' % o.group(2)):]))
    for (s, e, o) in els:
        for a in ATTR.finditer(o.group(3) or ''):
            a0 = o.start(3) + a.start()
            a1 = o.start(3) + a.end()
            res.append(('delete attribute %s of <%s> at %d' % (a.group(1), o.group(2), s), xml[:a0] + xml[a1:]))
            if a.group(1) == 'href':
                res.append(('retarget href of <%s> at %d to a missing id' % (o.group(2), s), xml[:a0] + ' href="#_no_such_element_"' + xml[a1:]))
    return res


def main():
    nmodels = None
    seed = 0
    if '--models' in sys.argv:
        nmodels = int(sys.argv[sys.argv.index('--models') + 1])
    if '--seed' in sys.argv:
        seed = int(sys.argv[sys.argv.index('--seed') + 1])
    files = sorted(glob.glob(os.path.join(REPO, 'examples/src/**/*.dmn'), recursive=True))
    # models with recursive knowledge models are a recorded known finding (stack overflow on inputs that never reach the base case)
    files = [f for f in files if os.path.basename(f) not in ('N_0088.dmn',)]
    if len(files) < 20:
        print('modelfaults could not run: only %d example models found' % len(files))
        return 2
    if '--cover' in sys.argv:
        # quick: a greedy set cover - the fewest (smallest) models such that every element tag and attribute name used by any example
        # model occurs in at least one chosen model
        feats = {}
        for f in files:
            t = open(f, encoding='utf-8').read()
            feats[f] = set(m.group(2) for m in TAG.finditer(t) if m.group(1) != '/') | set('@' + a.group(1) for a in ATTR.finditer(t))
            # parent/child pairs with their multiplicity class (exactly one child of a kind / several)
            els = sorted(elements(t), key=lambda e: (e[0], -e[1]))
            stack = []
            kids = {}
            for (s_, e_, o_) in els:
                while stack and stack[-1][1] <= s_:
                    stack.pop()
                if stack:
                    key = (stack[-1][0], stack[-1][2], o_.group(2))
                    kids[key] = kids.get(key, 0) + 1
                stack.append((s_, e_, o_.group(2)))
            for (ps, ptag, ctag), n in kids.items():
                feats[f].add('%s/%s#%s' % (ptag, ctag, '1' if n == 1 else 'n'))
        need = set().union(*feats.values())
        chosen = []
        while need:
            best = max(sorted(files, key=lambda f: (os.path.getsize(f), f)), key=lambda f: len(feats[f] & need) / (2000.0 + os.path.getsize(f)))
            if not feats[best] & need:
                break
            chosen.append(best)
            need -= feats[best]
        files = sorted(chosen)
    elif nmodels is not None and nmodels < len(files):
        files = sorted(random.Random(seed).sample(files, nmodels))
    work = tempfile.mkdtemp(prefix='verif_models_', dir='/var/tmp')
    try:
        plan = []
        listing = []
        k = 0
        for f in files:
            xml = open(f, encoding='utf-8').read()
            cases = [('unmodified', xml)] + faults(xml)
            for (what, text) in cases:
                p = os.path.join(work, 'm%06d.xml' % k)
                with open(p, 'w', encoding='utf-8') as fh:
                    fh.write(text)
                plan.append((p, os.path.relpath(f, REPO), what))
                listing.append(p)
                k += 1
        ok, exe = replaydrv.build()
        if not ok:
            print('modelfaults could not run: %s' % exe)
            return 2
        results = {}

        def run_chunk(ci, chunk):
            # a crash of the process (stack overflow / abort cannot be caught) is attributed to the file being worked on
            res = {}
            pending = chunk
            while pending:
                lf = os.path.join(work, 'list%d.txt' % ci)
                with open(lf, 'w') as fh:
                    fh.write('\n'.join(pending) + '\n')
                pr = subprocess.run([exe, 'models', lf], capture_output=True, text=True, timeout=3000)
                done = 0
                for line in pr.stdout.splitlines():
                    path, _, verdict = line.partition(' ')
                    res[path] = verdict
                    done += 1
                if pr.returncode == 0 and done >= len(pending):
                    break
                if done < len(pending):
                    res[pending[done]] = 'CRASH'
                pending = pending[done + 1:]
            return res

        from concurrent.futures import ThreadPoolExecutor
        nw = 12
        chunks = [listing[i::nw] for i in range(nw)]
        with ThreadPoolExecutor(max_workers=nw) as ex:
            for r_ in ex.map(lambda a: run_chunk(*a), list(enumerate(chunks))):
                results.update(r_)
        nfail = 0
        fails = []
        for (p, model, what) in plan:
            v = results.get(p, 'MISSING')
            if v.startswith('PANIC') or v in ('CRASH', 'MISSING'):
                nfail += 1
                if len(fails) < 5:
                    fails.append('%s with fault `%s` => %s' % (model, what, v))
        print('modelfaults cases=%d failures=%d models=%d' % (len(plan), nfail, len(files)))
        for f in fails:
            print('FAIL ' + f)
        return 0
    finally:
        shutil.rmtree(work, ignore_errors=True)


if __name__ == '__main__':
    sys.exit(main())
