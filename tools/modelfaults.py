#!/usr/bin/env python3
"""BOUNDED stand-in (not a proof) for C12: every single structural fault of the kinds

    delete an element | duplicate an element | empty a text node | delete an attribute | empty an attribute | set an attribute to a foreign
    (non-ASCII) text | empty an element of its children | swap an element with the sibling that follows it | retarget an href to a missing id, to its own element, or make its target require it back (cyclic requirements)

applied at every position of the example models shipped with the repository (examples/src/**/*.dmn), plus the unmodified models, plus
28 generated models (and their variants with references written as `namespace#id`) with requirement cycles of length 1..3 through every kind of edge (decision, knowledge model, the output /
encapsulated / input decisions of a decision service) and with type reference cycles (exact and with white space around the names):
parse + build the evaluator + evaluate every invocable with an empty context and with four contexts binding every input data on the
real code (replay driver, catch_unwind).
A PANIC line or a crash of the driver process (stack overflow, abort) is a failure.
The recursive example model N_0088 is excluded: a recorded known finding (stack overflow).

usage: modelfaults.py [--models N] [--seed S]      (quick: a seeded choice of N models; thorough: all)
prints `modelfaults cases=N failures=M` and one FAIL line per failing case; exit 0 / 2.
"""
import glob
import os
import random
import re
import shutil
import subprocess
import sys
import tempfile

HERE = os.path.dirname(os.path.abspath(__file__))
sys.path.insert(0, os.path.dirname(HERE))
from vf import replaydrv  # noqa: E402

REPO = os.environ.get('VERIF_REPO', '/repo')
TAG = re.compile(r'<(/?)([A-Za-z_][\w:.-]*)((?:\s+[\w:.-]+\s*=\s*(?:"[^"]*"|\'[^\']*\'))*)\s*(/?)>', re.S)
ATTR = re.compile(r'\s+([\w:.-]+)\s*=\s*("[^"]*"|\'[^\']*\')')


def elements(xml):
    """(start, end, open_tag_match) of every element, by matching tags on the text (comments / CDATA / PIs skipped)."""
    clean = re.sub(r'<!--.*?-->|<\?.*?\?>|<!\[CDATA\[.*?\]\]>', lambda m: ' ' * len(m.group(0)), xml, flags=re.S)
    stack, out = [], []
    for m in TAG.finditer(clean):
        if m.group(1) == '/':
            if stack:
                o = stack.pop()
                out.append((o.start(), m.end(), o))
        elif m.group(4) == '/':
            out.append((m.start(), m.end(), m))
        else:
            stack.append(m)
    return out


def faults(xml):
    els = elements(xml)
    res = []
    root_start = min(e[0] for e in els) if els else 0
    for (s, e, o) in els:
        if s == root_start:
            continue
        res.append(('delete <%s> at %d' % (o.group(2), s), xml[:s] + xml[e:]))
        res.append(('duplicate <%s> at %d' % (o.group(2), s), xml[:e] + xml[s:e] + xml[e:]))
        inner = xml[o.end():e]
        if o.group(4) != '/' and '<' not in inner and inner.strip():
            res.append(('empty text of <%s> at %d' % (o.group(2), s), xml[:o.end()] + xml[e - len('</%s>' % o.group(2)):]))
        if o.group(4) != '/' and '<' in inner:
            # an element emptied of its children (`empty an element` of the property's quantifier): <tag attributes></tag>
            close = xml.rfind('</', s, e)
            res.append(('empty <%s> at %d of its children' % (o.group(2), s), xml[:o.end()] + xml[close:]))
    # swap an element with the sibling that follows it
    by_start = sorted(els, key=lambda x: (x[0], -x[1]))
    for idx, (s, e, o) in enumerate(by_start):
        if s == root_start:
            continue
        nxt = None
        for (s2, e2, o2) in by_start[idx + 1:]:
            if s2 >= e:
                nxt = (s2, e2, o2)
                break
        if nxt and xml[e:nxt[0]].strip() == '':
            res.append(('swap <%s> at %d with the <%s> that follows it' % (o.group(2), s, nxt[2].group(2)), xml[:s] + xml[nxt[0]:nxt[1]] + xml[e:nxt[0]] + xml[s:e] + xml[nxt[1]:]))
    # cyclic item definitions: the typeRef of an item definition (or of one of its components) names the definition itself
    for (s, e, o) in els:
        if o.group(2).split(':')[-1] == 'typeRef' and o.group(4) != '/':
            owner = None
            for (s2, e2, o2) in els:
                if s2 < s and e2 >= e and o2.group(2).split(':')[-1] == 'itemDefinition':
                    m = re.search(r'\sname\s*=\s*"([^"]*)"', o2.group(3) or '')
                    if m and (owner is None or s2 < owner[0]):
                        owner = (s2, m.group(1))
            if owner:
                close = e - len('</%s>' % o.group(2))
                res.append(('set typeRef at %d to the name of its own item definition %s' % (s, owner[1]), xml[:o.end()] + owner[1] + xml[close:]))
    for (s, e, o) in els:
        for a in ATTR.finditer(o.group(3) or ''):
            a0 = o.start(3) + a.start()
            a1 = o.start(3) + a.end()
            res.append(('delete attribute %s of <%s> at %d' % (a.group(1), o.group(2), s), xml[:a0] + xml[a1:]))
            if a.group(1).startswith('xmlns'):
                continue
            res.append(('empty attribute %s of <%s> at %d' % (a.group(1), o.group(2), s), xml[:a0] + ' %s=""' % a.group(1) + xml[a1:]))
            # a foreign value: 40 two-byte characters, once from an even and once from an odd byte offset (whatever a message does with
            # the value - quoting, shortening - meets a character boundary in one of the two and the middle of a character in the other)
            for (k, v) in enumerate((FOREIGN, 'a' + FOREIGN)):
                res.append(('set attribute %s of <%s> at %d to foreign text #%d' % (a.group(1), o.group(2), s, k + 1), xml[:a0] + ' %s="%s"' % (a.group(1), v) + xml[a1:]))
            if a.group(1) == 'href':
                res.append(('retarget href of <%s> at %d to a missing id' % (o.group(2), s), xml[:a0] + ' href="#_no_such_element_"' + xml[a1:]))
                # cyclic requirements: the reference points to the element it sits in (the nearest enclosing element with an id) ...
                own = enclosing_id(els, s, e)
                if own:
                    res.append(('retarget href of <%s> at %d to its own element %s' % (o.group(2), s, own), xml[:a0] + ' href="#%s"' % own + xml[a1:]))
                    # ... or the element it points to is made to point back (a cycle of two)
                    target = a.group(2)[1:-1].lstrip('#')
                    back = first_href_inside(els, target)
                    if back is not None and target != own:
                        (b0, b1) = back
                        if b1 <= a0 or b0 >= a1:
                            res.append(('make the target of href of <%s> at %d require it back (%s <-> %s)' % (o.group(2), s, own, target), xml[:b0] + ' href="#%s"' % own + xml[b1:]))
    return res


FOREIGN = '\u017c\u00f3\u0142\u0107' * 10


def enclosing_id(els, s, e):
    best = None
    for (s2, e2, o2) in els:
        if s2 < s and e2 >= e:
            m = re.search(r'\sid\s*=\s*"([^"]*)"', o2.group(3) or '')
            if m and (best is None or s2 > best[0]):
                best = (s2, m.group(1))
    return best[1] if best else None


def first_href_inside(els, ident):
    """(start, end) of the first href attribute inside the element whose id is ident"""
    for (s2, e2, o2) in els:
        if re.search(r'\sid\s*=\s*"%s"' % re.escape(ident), o2.group(3) or ''):
            for (s3, e3, o3) in sorted(els):
                if s2 < s3 and e3 <= e2:
                    for a in ATTR.finditer(o3.group(3) or ''):
                        if a.group(1) == 'href':
                            return (o3.start(3) + a.start(), o3.start(3) + a.end())
    return None


def generated_models():
    """models written here (not faults of examples): requirement cycles of length 1..3 through every kind of edge, and type reference cycles"""
    head = '<?xml version="1.0" encoding="UTF-8"?>\n<definitions namespace="https://verif/cyc" name="cyc" id="_d" xmlns="https://www.omg.org/spec/DMN/20191111/MODEL/">\n'
    tail = '</definitions>\n'

    def decision(n, req_dec=(), req_know=(), req_in=(), text='1'):
        r = ''.join('<informationRequirement id="_ir_%s_%s"><requiredDecision href="#_%s"/></informationRequirement>' % (n, x, x) for x in req_dec)
        r += ''.join('<informationRequirement id="_ii_%s_%s"><requiredInput href="#_%s"/></informationRequirement>' % (n, x, x) for x in req_in)
        r += ''.join('<knowledgeRequirement id="_kr_%s_%s"><requiredKnowledge href="#_%s"/></knowledgeRequirement>' % (n, x, x) for x in req_know)
        return '  <decision name="%s" id="_%s"><variable name="%s"/>%s<literalExpression><text>%s</text></literalExpression></decision>\n' % (n, n, n, r, text)

    def bkm(n, req_know=()):
        r = ''.join('<knowledgeRequirement id="_kr_%s_%s"><requiredKnowledge href="#_%s"/></knowledgeRequirement>' % (n, x, x) for x in req_know)
        return '  <businessKnowledgeModel name="%s" id="_%s"><variable name="%s"/><encapsulatedLogic><literalExpression><text>1</text></literalExpression></encapsulatedLogic>%s</businessKnowledgeModel>\n' % (n, n, n, r)

    def service(n, out=(), enc=(), ind=()):
        return ('  <decisionService name="%s" id="_%s"><variable name="%s"/>%s%s%s</decisionService>\n'
                % (n, n, n, ''.join('<outputDecision href="#_%s"/>' % x for x in out), ''.join('<encapsulatedDecision href="#_%s"/>' % x for x in enc), ''.join('<inputDecision href="#_%s"/>' % x for x in ind)))

    def itemdef(n, tref, ws=''):
        return '  <itemDefinition name="%s"><typeRef>%s%s%s</typeRef></itemDefinition>\n' % (n, ws, tref, ws)

    def indata(n, tref):
        return '  <inputData name="%s" id="_%s"><variable name="%s" typeRef="%s"/></inputData>\n' % (n, n, n, tref)
    m = []
    m.append(('decision requires itself', decision('A', req_dec=['A'])))
    m.append(('two decisions require each other', decision('A', req_dec=['B']) + decision('B', req_dec=['A'])))
    m.append(('three decisions in a ring', decision('A', req_dec=['B']) + decision('B', req_dec=['C']) + decision('C', req_dec=['A'])))
    m.append(('a ring behind an acyclic entry decision', decision('E', req_dec=['A']) + decision('A', req_dec=['B']) + decision('B', req_dec=['A'])))
    m.append(('knowledge model requires itself', bkm('K', ['K']) + decision('A', req_know=['K'], text='K()')))
    m.append(('two knowledge models require each other', bkm('K', ['L']) + bkm('L', ['K']) + decision('A', req_know=['K'], text='K()')))
    for (what, kw) in (('output decision', {'out': ['D']}), ('encapsulated decision', {'out': ['O'], 'enc': ['D']}), ('input decision', {'out': ['O'], 'ind': ['D']})):
        body = service('S', **kw) + decision('D', req_know=['S'], text='1')
        if 'O' in kw.get('out', []):
            body += decision('O', text='1')   # the output decision does not require D: the service alone reaches it
        m.append(('decision service whose %s requires the service' % what, body))
        body2 = service('S', **kw) + decision('D', req_know=['K'], text='1') + bkm('K', ['S'])
        if 'O' in kw.get('out', []):
            body2 += decision('O', text='1')
        m.append(('decision service -> %s -> knowledge model -> the service' % what, body2))
    for ws in ('', ' ', '\n      '):
        shown = {'': 'exact', ' ': 'blanks around', '\n      ': 'pretty-printed'}[ws]
        m.append(('item definition whose type reference names itself (%s)' % shown, itemdef('tA', 'tA', ws) + indata('I', 'tA') + decision('A', req_in=['I'], text='I')))
        m.append(('two item definitions referring to each other (%s)' % shown, itemdef('tA', 'tB', ws) + itemdef('tB', 'tA', ws) + indata('I', 'tA') + decision('A', req_in=['I'], text='I')))
        m.append(('three item definitions in a ring (%s)' % shown, itemdef('tA', 'tB', ws) + itemdef('tB', 'tC', ws) + itemdef('tC', 'tA', ws) + indata('I', 'tB') + decision('A', req_in=['I'], text='I')))
    m.append(('item definition containing itself through a component', '  <itemDefinition name="tA"><itemComponent name="next"><typeRef>tA</typeRef></itemComponent></itemDefinition>\n' + indata('I', 'tA') + decision('A', req_in=['I'], text='I')))
    m.append(('item definition containing itself through a collection component', '  <itemDefinition name="tA"><itemComponent name="kids" isCollection="true"><typeRef>tA</typeRef></itemComponent></itemDefinition>\n' + indata('I', 'tA') + decision('A', req_in=['I'], text='I')))
    # two elements with the same identifier, one of them on a cycle: the builders look such elements up by identifier (the first or the last one,
    # depending on the builder), so a cycle through either copy must be found
    m.append(('two knowledge models with one identifier, the first requires itself', bkm('K', ['K']) + bkm('K') + decision('A', req_know=['K'], text='K()')))
    m.append(('two knowledge models with one identifier, the second requires itself', bkm('K') + bkm('K', ['K']) + decision('A', req_know=['K'], text='K()')))
    m.append(('two decisions with one identifier, the first requires itself', decision('A', req_dec=['A']) + decision('A', text='2')))
    m.append(('two decisions with one identifier, the second requires itself', decision('A', text='2') + decision('A', req_dec=['A'])))
    m.append(('two decisions with one identifier, the first requires a decision that requires it', decision('A', req_dec=['B']) + decision('A', text='2') + decision('B', req_dec=['A'])))
    m.append(('a decision and a knowledge model with one identifier, the knowledge model requires it', decision('X', req_know=['X'], text='1') + bkm('X', ['X'])))
    m.append(('two item definitions with one name, the first refers to itself', itemdef('tA', 'tA') + itemdef('tA', 'number') + indata('I', 'tA') + decision('A', req_in=['I'], text='I')))
    m.append(('two item definitions with one name, the second refers to itself', itemdef('tA', 'number') + itemdef('tA', 'tA') + indata('I', 'tA') + decision('A', req_in=['I'], text='I')))
    out = [(what, head + body + tail) for (what, body) in m]
    # the same cycles with references spelled with the model's own namespace in front (`namespace#id`): whatever the builders make of such a
    # reference (dangling, or the local element), the cycle check must make the same of it - every reference, only the first, only the last
    for (what, text) in list(out):
        if 'href="#_' not in text:
            continue
        q = 'href="https://verif/cyc#_'
        first = text.replace('href="#_', q, 1)
        i = text.rfind('href="#_')
        last = text[:i] + q + text[i + len('href="#_'):]
        for (how, t) in (('every reference', text.replace('href="#_', q)), ('the first reference', first), ('the last reference', last)):
            if t != text and all(t != x[1] for x in out):
                out.append((what + ' - %s written with the namespace of the model' % how, t))
    return out


def main():
    nmodels = None
    seed = 0
    if '--models' in sys.argv:
        nmodels = int(sys.argv[sys.argv.index('--models') + 1])
    if '--seed' in sys.argv:
        seed = int(sys.argv[sys.argv.index('--seed') + 1])
    files = sorted(glob.glob(os.path.join(REPO, 'examples/src/**/*.dmn'), recursive=True))
    # models with recursive knowledge models are a recorded known finding (stack overflow on inputs that never reach the base case):
    # N_0088 itself is rejected at build (recursive item definition), but single faults that make it build would run into that finding
    files = [f for f in files if os.path.basename(f) not in ('N_0088.dmn',)]
    if len(files) < 20:
        print('modelfaults could not run: only %d example models found' % len(files))
        return 2
    if '--cover' in sys.argv:
        # quick: a greedy set cover - the fewest (smallest) models such that every element tag and attribute name used by any example
        # model occurs in at least one chosen model
        feats = {}
        for f in files:
            t = open(f, encoding='utf-8').read()
            feats[f] = set(m.group(2) for m in TAG.finditer(t) if m.group(1) != '/') | set('@' + a.group(1) for a in ATTR.finditer(t))
            # parent/child pairs with their multiplicity class (exactly one child of a kind / several)
            els = sorted(elements(t), key=lambda e: (e[0], -e[1]))
            stack = []
            kids = {}
            for (s_, e_, o_) in els:
                while stack and stack[-1][1] <= s_:
                    stack.pop()
                if stack:
                    key = (stack[-1][0], stack[-1][2], o_.group(2))
                    kids[key] = kids.get(key, 0) + 1
                stack.append((s_, e_, o_.group(2)))
            for (ps, ptag, ctag), n in kids.items():
                feats[f].add('%s/%s#%s' % (ptag, ctag, '1' if n == 1 else 'n'))
        need = set().union(*feats.values())
        chosen = []
        while need:
            best = max(sorted(files, key=lambda f: (os.path.getsize(f), f)), key=lambda f: len(feats[f] & need) / (2000.0 + os.path.getsize(f)))
            if not feats[best] & need:
                break
            chosen.append(best)
            need -= feats[best]
        files = sorted(chosen)
    elif nmodels is not None and nmodels < len(files):
        files = sorted(random.Random(seed).sample(files, nmodels))
    work = tempfile.mkdtemp(prefix='verif_models_', dir='/var/tmp')
    try:
        plan = []
        listing = []
        k = 0
        for (what, text) in generated_models():
            p = os.path.join(work, 'm%06d.xml' % k)
            with open(p, 'w', encoding='utf-8') as fh:
                fh.write(text)
            plan.append((p, 'generated model', what))
            listing.append(p)
            k += 1
        for f in files:
            xml = open(f, encoding='utf-8').read()
            cases = [('unmodified', xml)] + faults(xml)
            for (what, text) in cases:
                p = os.path.join(work, 'm%06d.xml' % k)
                with open(p, 'w', encoding='utf-8') as fh:
                    fh.write(text)
                plan.append((p, os.path.relpath(f, REPO), what))
                listing.append(p)
                k += 1
        ok, exe = replaydrv.build()
        if not ok:
            print('modelfaults could not run: %s' % exe)
            return 2
        results = {}

        def run_chunk(ci, chunk):
            # a crash of the process (stack overflow / abort cannot be caught) is attributed to the file being worked on
            res = {}
            pending = chunk
            while pending:
                lf = os.path.join(work, 'list%d.txt' % ci)
                with open(lf, 'w') as fh:
                    fh.write('\n'.join(pending) + '\n')
                pr = subprocess.run([exe, 'models', lf], capture_output=True, text=True, timeout=3000)
                done = 0
                for line in pr.stdout.splitlines():
                    path, _, verdict = line.partition(' ')
                    res[path] = verdict
                    done += 1
                if pr.returncode == 0 and done >= len(pending):
                    break
                if done < len(pending):
                    res[pending[done]] = 'CRASH'
                pending = pending[done + 1:]
            return res

        from concurrent.futures import ThreadPoolExecutor
        nw = 12
        chunks = [listing[i::nw] for i in range(nw)]
        with ThreadPoolExecutor(max_workers=nw) as ex:
            for r_ in ex.map(lambda a: run_chunk(*a), list(enumerate(chunks))):
                results.update(r_)
        nfail = 0
        fails = []
        for (p, model, what) in plan:
            v = results.get(p, 'MISSING')
            if v.startswith('PANIC') or v in ('CRASH', 'MISSING'):
                nfail += 1
                fails.append('%s with fault `%s` => %s' % (model, what, v))
        print('modelfaults cases=%d failures=%d models=%d' % (len(plan), nfail, len(files)))
        for f in fails:
            print('FAIL ' + f)
        return 0
    finally:
        shutil.rmtree(work, ignore_errors=True)


if __name__ == '__main__':
    sys.exit(main())
