#!/bin/bash
# Runs the repository's pinned test suite with the verification guard OFF (there are no hooks)
# and compares the passing set with /root/.vp/BASELINE.json's stable_pass list.
# exit 0 iff every stable_pass test passes.
set -u
cd /repo
export CARGO_NET_OFFLINE=true
OUT=$(mktemp -d /var/tmp/verif_baseline.XXXXXX)
cargo nextest run --workspace --no-fail-fast --tool-config-file pb:/w/lib/nextest.toml --profile pb --test-threads 8 --offline > "$OUT/log.txt" 2>&1
J=/repo/target/nextest/pb/junit.xml
python3 - "$J" <<'PY'
import json, sys, xml.etree.ElementTree as ET
base = json.load(open('/root/.vp/BASELINE.json'))
stable = set(base['stable_pass'])
root = ET.parse(sys.argv[1]).getroot()
passed, failed = set(), set()
for tc in root.iter('testcase'):
    tid = (tc.get('classname') or '') + '::' + (tc.get('name') or '')
    if tc.find('failure') is not None or tc.find('error') is not None:
        failed.add(tid)
    else:
        passed.add(tid)
missing = sorted(stable - passed)
print('baseline: stable=%d passed=%d failed=%d missing_from_stable=%d' % (len(stable), len(passed), len(failed), len(missing)))
for m in missing[:50]:
    print('  NOT PASSING:', m)
sys.exit(0 if not missing else 1)
PY
rc=$?
rm -rf "$OUT"
exit $rc
