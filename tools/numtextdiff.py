#!/usr/bin/env python3
"""BOUNDED stand-in (not a proof) for C07 - numbers as text - on the real code through the replay driver (command `numtext`):

 N  every sign x coefficient length 1..34 (random digits, first digit not zero; with and without trailing zeros; also zero coefficients)
    x exponent (quick: every exponent in -80..80, every 61st beyond, and the edges -6176, -6143, 6111, 6144-len; thorough: every exponent
    -6176..6111), built with FromStr from `<coefficient>E<exponent>`: the Display text and the JSON text are plain decimal text
    (`-?digits(.digits)?`, the JSON text also without superfluous leading zeros), denote exactly the value (exact comparison in CPython
    decimal with 13 000 digits of precision) and read back (FromStr) as an equal number.
 L  FEEL literals of 1..34 significant digits with the point at every position (leading zeros, `.5` forms) through parse + evaluate: exactly
    the value written.
 X  xsd:integer / xsd:decimal / xsd:double input texts (signs, leading zeros, no digits before or after the point, exponent forms for double): exactly the value written.

prints `numtextdiff cases=N failures=M` and a line `FAIL ...` per failure; exit 0 (ran) / 2 (could not run)."""
import decimal
import os
import random
import re
import sys
import tempfile

HERE = os.path.dirname(os.path.abspath(__file__))
sys.path.insert(0, os.path.dirname(HERE))
from vf import replaydrv  # noqa: E402

PLAIN = re.compile(r'^-?[0-9]+(\.[0-9]+)?$')
JSON = re.compile(r'^-?(0|[1-9][0-9]*)(\.[0-9]+)?$')


def exponents(size):
    if size == 'thorough':
        return list(range(-6176, 6112))
    es = set(range(-80, 81)) | set(range(-6176, 6112, 61)) | {-6176, -6175, -6144, -6143, -6142, 6111, 6110, 6078, 6077}
    return sorted(es)


def cases(size, seed):
    rnd = random.Random(1000 + seed)
    out = []
    for e in exponents(size):
        for ln in range(1, 35):
            if e + ln - 1 > 6144:      # beyond the largest decimal128 value: FromStr rejects it (not a finite number)
                continue
            if size != 'thorough' and abs(e) > 80 and ln not in (1, 2, 7, 16, 17, 33, 34):
                continue
            digs = str(rnd.randint(1, 9)) + ''.join(str(rnd.randint(0, 9)) for _ in range(ln - 1))
            variants = [digs]
            if ln > 1:
                k = rnd.randint(1, ln - 1)
                variants.append(digs[:ln - k] + '0' * k)     # trailing zeros are kept by the library: 1.500 prints as 1.500
            for v in variants:
                for sg in ('', '-'):
                    out.append('N %s%sE%d' % (sg, v, e))
    for e in (-6176, -34, -7, -6, -1, 0, 1, 5, 34, 6111):
        for z in ('0', '00', '0000000'):
            for sg in ('', '-'):
                out.append('N %s%sE%d' % (sg, z, e))
    # plain and scientific spellings a user writes
    for t in ('1', '-1', '0.1', '-0.1', '0.0000001', '-0.0000001', '-0.00000015', '1E-7', '-1.5E-7', '1E+3', '-1E+3', '1.23E+5', '123.456', '-123.456', '1e3', '+5', '0.000001', '-0.000001', '1.0E-6', '12E-8'):
        out.append('N ' + t)
    # L: literals
    for ln in range(1, 35):
        digs = str(rnd.randint(1, 9)) + ''.join(str(rnd.randint(0, 9)) for _ in range(ln - 1))
        for pt in range(0, ln + 1):
            a, b = digs[:pt], digs[pt:]
            if a and b:
                out.append('L %s.%s' % (a, b))
            elif a:
                out.append('L %s' % a)
            else:
                out.append('L .%s' % b)
                out.append('L 0.%s' % b)
                out.append('L 0.000000%s' % b)
        out.append('L 00%s' % digs)
        out.append('L %s.%s00' % (digs[:1], digs[1:] or '0'))
    # X: typed input texts
    for ln in (1, 5, 17, 18, 19, 20, 33, 34):
        digs = str(rnd.randint(1, 9)) + ''.join(str(rnd.randint(0, 9)) for _ in range(ln - 1))
        for sg in ('', '-', '+'):
            out.append('X integer %s%s' % (sg, digs))
            for pt in (1, ln // 2, ln - 1):
                if 0 < pt < ln:
                    out.append('X decimal %s%s.%s' % (sg, digs[:pt], digs[pt:]))
                    out.append('X double %s%s.%sE%d' % (sg, digs[:pt], digs[pt:], rnd.randint(-300, 300)))
            out.append('X decimal %s0.%s' % (sg, digs))
            out.append('X double %s%se%d' % (sg, digs, rnd.randint(-30, 30)))
    # the lexical space of xsd:decimal / xsd:double allows no digits on one side of the point
    for t in ('.5', '-.5', '+.125', '5.', '-120.', '+7.', '.000025', '0.', '-0.5', '00.50'):
        out.append('X decimal %s' % t)
        out.append('X double %s' % t)
    # integers written with more than 34 digits of which at most 34 are significant (trailing zeros): exactly representable, exactly the value written
    for (head, zeros) in (('1', 34), ('1', 40), ('-25', 40), ('1234567890123456789012345678901234', 3), ('9999999999999999999999999999999999', 10), ('-7', 100), ('5', 6111)):
        for kind in ('integer', 'decimal', 'double'):
            out.append('X %s %s%s' % (kind, head, '0' * zeros))
        out.append('L %s%s' % (head.lstrip('-'), '0' * zeros))
    return out


def check(line, res):
    kind = line.split()[0]
    if res in ('PANIC', '?'):
        return 'answer %s' % res
    if kind == 'N':
        text = line.split()[1]
        want = decimal.Decimal(text)
        if res == 'INVALID':
            return 'a finite decimal128 value is rejected'
        parts = [p.strip() for p in res.split('|')]
        if len(parts) != 3:
            return 'unexpected answer %r' % res
        disp, js, back = parts
        sh = lambda t: t if len(t) <= 70 else t[:40] + '...(%d characters)...' % len(t) + t[-20:]
        if not PLAIN.match(disp):
            return 'Display text %r is not plain decimal text' % sh(disp)
        if not JSON.match(js):
            return 'JSON text %r is not a JSON number in plain notation' % sh(js)
        if decimal.Decimal(disp) != want:
            return 'Display text %r does not denote the value' % sh(disp)
        if decimal.Decimal(js) != want:
            return 'JSON text %r does not denote the value' % sh(js)
        if back != 'true':
            return 'the Display text %r does not read back as an equal number' % sh(disp)
        return None
    text = line.split()[-1]
    want = decimal.Decimal(text)
    try:
        got = decimal.Decimal(res)
    except decimal.InvalidOperation:
        return 'answer %r is not a number' % res
    if got != want:
        return 'evaluates to %s, not to the value written' % res
    return None


def main():
    size = 'quick'
    seed = 0
    a = sys.argv[1:]
    if '--size' in a:
        size = a[a.index('--size') + 1]
    if '--seed' in a:
        seed = int(a[a.index('--seed') + 1])
    decimal.getcontext().prec = 13000
    decimal.getcontext().Emax = 999999
    decimal.getcontext().Emin = -999999
    cs = cases(size, seed)
    with tempfile.NamedTemporaryFile('w', suffix='.txt', delete=False, dir='/var/tmp', encoding='utf-8') as fh:
        fh.write('\n'.join(cs) + '\n')
        path = fh.name
    try:
        rr = replaydrv.run('numtext', [path], timeout=2400)
    finally:
        os.unlink(path)
    if not rr.get('ok'):
        print('numtextdiff could not run: %s' % rr.get('error'))
        return 2
    got = {}
    for l in rr['stdout'].splitlines():
        if ' => ' in l:
            k, v = l.split(' => ', 1)
            got[k.strip()] = v.strip()
    fails = []
    for c in cs:
        r = got.get(c.strip())
        if r is None:
            fails.append('%s => no answer' % c)
            continue
        why = check(c, r)
        if why:
            fails.append('%s => %s (%s)' % (c, r if len(r) <= 120 else r[:60] + '...' + r[-40:], why))
    print('numtextdiff cases=%d failures=%d' % (len(cs), len(fails)))
    for f in fails[:200]:
        print('FAIL ' + f)
    return 0


if __name__ == '__main__':
    sys.exit(main())
