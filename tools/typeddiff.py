#!/usr/bin/env python3
"""BOUNDED stand-in (not a proof) for C11 at the model level: a generated DMN model with, for each of the eight simple types, an input
data of that type, a collection-of-that-type item definition, and a decision whose OUTPUT variable has that type; plus a component
item definition, a collection of components, an item definition with allowed values and a reference to it. Every invocable is
evaluated (real code, replay driver) with a grid of conforming and violating values; expectations written out from the property:
a conforming value reaches the logic / the caller unchanged, a non-conforming one is null (for a component type: only the
non-conforming component), an output - of a decision, and of a decision service over an untyped output decision - is unwrapped from / wrapped into a singleton list when that makes it conform; a singleton list given for a simple-typed input is null.
prints `typeddiff cases=N failures=M`; exit 0 / 2."""
import os
import subprocess
import sys
import tempfile

HERE = os.path.dirname(os.path.abspath(__file__))
sys.path.insert(0, os.path.dirname(HERE))
from vf import replaydrv  # noqa: E402

# (typeRef, FEEL text of a sample value, how the evaluator prints it)
TYPES = [('string', '"a"', '"a"'), ('number', '1.5', '1.5'), ('boolean', 'true', 'true'), ('date', 'date("2020-01-02")', '2020-01-02'),
         ('time', 'time("10:11:12")', '10:11:12'), ('dateTime', 'date and time("2020-01-02T10:11:12")', '2020-01-02T10:11:12'),
         ('dayTimeDuration', 'duration("P1D")', 'P1D'), ('yearMonthDuration', 'duration("P1Y")', 'P1Y')]


def model():
    p = ['<?xml version="1.0" encoding="UTF-8"?>',
         '<definitions namespace="https://verif/typed" name="typed" id="_d" xmlns="https://www.omg.org/spec/DMN/20191111/MODEL/">']
    for (t, _, _) in TYPES:
        p.append('  <itemDefinition name="tList_%s" isCollection="true"><typeRef>%s</typeRef></itemDefinition>' % (t, t))
    p.append('  <itemDefinition name="tPerson"><itemComponent name="name"><typeRef>string</typeRef></itemComponent><itemComponent name="age"><typeRef>number</typeRef></itemComponent></itemDefinition>')
    p.append('  <itemDefinition name="tPeople" isCollection="true"><itemComponent name="name"><typeRef>string</typeRef></itemComponent><itemComponent name="age"><typeRef>number</typeRef></itemComponent></itemDefinition>')
    p.append('  <itemDefinition name="tSmall"><typeRef>number</typeRef><allowedValues><text>1,2,3</text></allowedValues></itemDefinition>')
    p.append('  <itemDefinition name="tAlias"><typeRef>tSmall</typeRef></itemDefinition>')
    decisions = []

    def typed_input(name, tref):
        p.append('  <inputData name="%s" id="_%s"><variable name="%s" typeRef="%s"/></inputData>' % (name, name, name, tref))
        d = 'Echo_' + name
        p.append('  <decision name="%s" id="_%s"><variable name="%s"/><informationRequirement id="_r%s"><requiredInput href="#_%s"/></informationRequirement>'
                 '<literalExpression><text>%s</text></literalExpression></decision>' % (d, d, d, d, name, name))
        decisions.append(d)

    def typed_output(name, tref, text):
        d = 'Out_' + name
        p.append('  <decision name="%s" id="_%s"><variable name="%s" typeRef="%s"/><literalExpression><text>%s</text></literalExpression></decision>'
                 % (d, d, d, tref, text.replace('&', '&amp;').replace('<', '&lt;').replace('"', '&quot;')))
        decisions.append(d)
    for (t, v, _) in TYPES:
        typed_input('In_' + t, t)
        typed_input('InL_' + t, 'tList_' + t)
        for (k, w, _) in TYPES:
            typed_output('%s_plain_%s' % (t, k), t, w)
            typed_output('%s_single_%s' % (t, k), t, '[%s]' % w)
            typed_output('%s_pair_%s' % (t, k), t, '[%s, %s]' % (v, w))
            typed_output('L_%s_plain_%s' % (t, k), 'tList_' + t, w)
            typed_output('L_%s_single_%s' % (t, k), 'tList_' + t, '[%s]' % w)
            typed_output('L_%s_pair_%s' % (t, k), 'tList_' + t, '[%s, %s]' % (v, w))
        typed_output('%s_null' % t, t, 'null')
        typed_output('L_%s_empty' % t, 'tList_' + t, '[]')
    typed_input('InPerson', 'tPerson')
    typed_input('InPeople', 'tPeople')
    typed_input('InSmall', 'tSmall')
    typed_input('InAlias', 'tAlias')
    # collections of a REFERENCED item definition (a simple type with allowed values, a component type) and a component type as an OUTPUT type
    p.insert(2, '  <itemDefinition name="tSmallList" isCollection="true"><typeRef>tSmall</typeRef></itemDefinition>')
    p.insert(2, '  <itemDefinition name="tPersonList" isCollection="true"><typeRef>tPerson</typeRef></itemDefinition>')
    p.insert(2, '  <itemDefinition name="tPair"><itemComponent name="a"><typeRef>number</typeRef></itemComponent><itemComponent name="b"><typeRef>boolean</typeRef></itemComponent></itemDefinition>')
    typed_input('InSmallList', 'tSmallList')
    typed_input('InPersonList', 'tPersonList')
    for (n_, text) in (('ok', '{a: 1, b: true}'), ('other_name', '{a: 1, c: "x"}'), ('other_names', '{c: 1, d: true}'), ('wrong_kind', '{a: 1, b: "x"}'), ('missing', '{a: 1}'), ('not_a_context', '1')):
        typed_output('Pair_%s' % n_, 'tPair', text)
    for w in ('1', '2', '3', '"a"', 'true'):
        typed_output('Small_%s' % w.strip('"'), 'tSmall', w)
    # an additional entry whose name sorts BETWEEN the declared components (age < kind < name): entries are matched by name, not by position
    typed_output('Person_between_ok', 'tPerson', '{age: 1, kind: 7, name: "a"}')
    typed_output('Person_between_bad', 'tPerson', '{age: 1, kind: "s", name: 5}')
    typed_output('Person_before_ok', 'tPerson', '{a0: true, age: 1, name: "a"}')
    typed_output('Person_before_bad', 'tPerson', '{a0: 1, age: "s", name: "a"}')
    # decision services: the result of the (untyped) output decision is coerced to the service's own output variable type
    services = []
    for (k, w, _) in TYPES:
        name = 'Raw_%s' % k
        p.append('  <decision name="%s" id="_%s"><variable name="%s"/><literalExpression><text>%s</text></literalExpression></decision>' % (name, name, name, w.replace('&', '&amp;').replace('<', '&lt;').replace('"', '&quot;')))
        decisions.append(name)
    for (t, _, _) in TYPES:
        for (k, _, _) in TYPES:
            for (pre, tref) in (('Svc', t), ('SvcL', 'tList_' + t)):
                sname = '%s_%s_%s' % (pre, t, k)
                p.append('  <decisionService name="%s" id="_%s"><variable name="%s" typeRef="%s"/><outputDecision href="#_Raw_%s"/></decisionService>' % (sname, sname, sname, tref, k))
                services.append(sname)
    # component names written with repeated inner spaces or spaces around an additional symbol: the entry name is the NORMALISED name, for a
    # component type and for a collection of components alike
    p.insert(2, '  <itemDefinition name="tOdd"><itemComponent name="price / unit"><typeRef>number</typeRef></itemComponent><itemComponent name="unit  price"><typeRef>number</typeRef></itemComponent></itemDefinition>')
    p.insert(2, '  <itemDefinition name="tOddRows" isCollection="true"><itemComponent name="price / unit"><typeRef>number</typeRef></itemComponent><itemComponent name="unit  price"><typeRef>number</typeRef></itemComponent></itemDefinition>')
    typed_input('InOdd', 'tOdd')
    typed_input('InOddRows', 'tOddRows')
    typed_output('Odd_ok', 'tOdd', '{price/unit: 1, unit price: 2}')
    typed_output('OddRows_ok', 'tOddRows', '[{price/unit: 1, unit price: 2}, {price/unit: 3, unit price: 4}]')
    typed_output('OddRows_bad', 'tOddRows', '[{price/unit: 1, unit price: "x"}]')
    # a collection output with ONE or TWO items of another kind at every position of lists of 2..6 items: one item out of kind makes the whole list null
    mixes = []
    for n in range(2, 7):
        for bad in [(i,) for i in range(n)] + [(i, i + 1) for i in range(n - 1)]:
            items = ['"x%d"' % i if i in bad else str(i + 1) for i in range(n)]
            name = 'Mix_%d_%s' % (n, '_'.join(str(b) for b in bad))
            typed_output(name, 'tList_number', '[' + ', '.join(items) + ']')
            mixes.append('Out_' + name)
        typed_output('Mix_%d_ok' % n, 'tList_number', '[' + ', '.join(str(i + 1) for i in range(n)) + ']')
    model.mixes = mixes
    # knowledge models invoked BY NAME: the result of the body is coerced to the type of the knowledge model's variable (wrap, unwrap, unchanged, null)
    bkms = []
    for (n_, tref, text) in (('wrap', 'tList_number', '5'), ('unwrap', 'number', '[7]'), ('same', 'number', '7'), ('list', 'tList_number', '[1, 2]'), ('wrong', 'number', '"a"'), ('wrong_item', 'tList_number', '["a"]'),
                             ('pair', 'tPair', '{a: 1, b: true}'), ('pair_more', 'tPair', '{a: 1, b: true, c: 3}'), ('pair_less', 'tPair', '{a: 1}'), ('pair_wrap', 'tPersonList', '{name: "a", age: 1}')):
        name = 'Bk_' + n_
        p.append('  <businessKnowledgeModel name="%s" id="_%s"><variable name="%s" typeRef="%s"/><encapsulatedLogic><literalExpression><text>%s</text></literalExpression></encapsulatedLogic></businessKnowledgeModel>'
                 % (name, name, name, tref, text.replace('&', '&amp;').replace('<', '&lt;').replace('"', '&quot;')))
        bkms.append(name)
    # the same knowledge models CALLED from decision logic without arguments (a function of no parameters with a typed result): the result of the call is coerced alike
    for b_ in bkms:
        d = 'Call_' + b_
        p.append('  <decision name="%s" id="_%s"><variable name="%s"/><knowledgeRequirement><requiredKnowledge href="#_%s"/></knowledgeRequirement><literalExpression><text>%s()</text></literalExpression></decision>' % (d, d, d, b_, b_))
        decisions.append(d)
    p.append('</definitions>')
    return '\n'.join(p), decisions + services + bkms


def cases():
    """(context text, {decision: expected})"""
    out = []
    for (t, v, pv) in TYPES:
        for (k, w, pw) in TYPES:
            ok = (t == k)
            out.append(('{In_%s: %s}' % (t, w), {'Echo_In_%s' % t: pw if ok else 'null'}))
            out.append(('{InL_%s: [%s]}' % (t, w), {'Echo_InL_%s' % t: ('[%s]' % pw) if ok else 'null'}))
            out.append(('{InL_%s: [%s, %s]}' % (t, v, w), {'Echo_InL_%s' % t: ('[%s, %s]' % (pv, pw)) if ok else 'null'}))
            out.append(('{}', {'Out_%s_plain_%s' % (t, k): pw if ok else 'null', 'Out_L_%s_plain_%s' % (t, k): ('[%s]' % pw) if ok else 'null',
                               'Out_%s_single_%s' % (t, k): pw if ok else 'null', 'Out_L_%s_single_%s' % (t, k): ('[%s]' % pw) if ok else 'null',
                               'Out_%s_pair_%s' % (t, k): 'null', 'Out_L_%s_pair_%s' % (t, k): ('[%s, %s]' % (pv, pw)) if ok else 'null'}))
        out.append(('{}', dict([('Raw_%s' % t, pv)] + [('Svc_%s_%s' % (t2, t), pv if t2 == t else 'null') for (t2, _, _) in TYPES] + [('SvcL_%s_%s' % (t2, t), ('[%s]' % pv) if t2 == t else 'null') for (t2, _, _) in TYPES])))
        # a singleton list is not a conforming INPUT of a simple type (the singleton conversions are for results)
        out.append(('{In_%s: [%s]}' % (t, v), {'Echo_In_%s' % t: 'null'}))
        out.append(('{InL_%s: []}' % t, {'Echo_InL_%s' % t: '[]'}))
        out.append(('{InL_%s: %s}' % (t, v), {'Echo_InL_%s' % t: 'null'}))
        out.append(('{In_%s: null}' % t, {'Echo_In_%s' % t: 'null'}))
        out.append(('{}', {'Out_%s_null' % t: 'null', 'Out_L_%s_empty' % t: '[]'}))
    out.append(('{InPerson: {name: "a", age: 1}}', {'Echo_InPerson': '{age: 1, name: "a"}'}))
    out.append(('{InPerson: {name: "a", age: "x"}}', {'Echo_InPerson': '{age: null, name: "a"}'}))
    out.append(('{InPerson: {name: 1, age: 1}}', {'Echo_InPerson': '{age: 1, name: null}'}))
    out.append(('{InPerson: {name: "a"}}', {'Echo_InPerson': 'null'}))
    out.append(('{InPerson: 1}', {'Echo_InPerson': 'null'}))
    # a declared component is missing although the context has as many (or more) entries as the type has components
    out.append(('{InPerson: {name: "a", comment: "x"}}', {'Echo_InPerson': 'null'}))
    out.append(('{InPerson: {age: 1, comment: "x", other: 2}}', {'Echo_InPerson': 'null'}))
    out.append(('{InPerson: {comment: "x", other: 2}}', {'Echo_InPerson': 'null'}))
    out.append(('{InPerson: {}}', {'Echo_InPerson': 'null'}))
    out.append(('{InPeople: [{name: "a", age: 1}, {name: "b", comment: "x"}]}', {'Echo_InPeople': 'null'}))
    out.append(('{InPeople: [{name: "a", age: 1}, {name: "b", age: 2}]}', {'Echo_InPeople': '[{age: 1, name: "a"}, {age: 2, name: "b"}]'}))
    out.append(('{InPeople: [{name: "a", age: 1}, {name: "b", age: true}]}', {'Echo_InPeople': '[{age: 1, name: "a"}, {age: null, name: "b"}]'}))
    out.append(('{InPeople: [{name: "a", age: 1}, {name: "b"}]}', {'Echo_InPeople': 'null'}))
    out.append(('{InPeople: [{name: "a", age: 1}, 5]}', {'Echo_InPeople': 'null'}))
    out.append(('{InPeople: []}', {'Echo_InPeople': '[]'}))
    # a collection of a referenced type: every item is judged by the referenced definition, whatever its position
    for (w, e) in (('[1, 2]', '[1, 2]'), ('[4, 1]', '[null, 1]'), ('[1, 4]', '[1, null]'), ('["a", 2, 3]', '[null, 2, 3]'), ('[1, true, 3]', '[1, null, 3]'), ('[4]', '[null]'), ('[]', '[]'), ('[4, 5, 1]', '[null, null, 1]')):
        out.append(('{InSmallList: %s}' % w, {'Echo_InSmallList': e}))
    out.append(('{InPersonList: [{name: "a", age: "x"}, {name: "b", age: 2}]}', {'Echo_InPersonList': '[{age: null, name: "a"}, {age: 2, name: "b"}]'}))
    out.append(('{InPersonList: [{name: 1, age: 1}, {name: "b", age: 2}, {name: "c", age: 3}]}', {'Echo_InPersonList': '[{age: 1, name: null}, {age: 2, name: "b"}, {age: 3, name: "c"}]'}))
    out.append(('{InPersonList: [{name: "a", age: 1}]}', {'Echo_InPersonList': '[{age: 1, name: "a"}]'}))
    # a context result conforms to a component type only with the declared entry names
    out.append(('{}', {'Out_Person_between_ok': '{age: 1, kind: 7, name: "a"}', 'Out_Person_between_bad': 'null', 'Out_Person_before_ok': '{a0: true, age: 1, name: "a"}', 'Out_Person_before_bad': 'null'}))
    out.append(('{}', {'Out_Pair_ok': '{a: 1, b: true}', 'Out_Pair_other_name': 'null', 'Out_Pair_other_names': 'null', 'Out_Pair_wrong_kind': 'null', 'Out_Pair_not_a_context': 'null'}))
    for (w, e) in (('1', '1'), ('2', '2'), ('3', '3'), ('4', 'null'), ('0', 'null'), ('"a"', 'null'), ('true', 'null')):
        out.append(('{InSmall: %s}' % w, {'Echo_InSmall': e}))
        out.append(('{InAlias: %s}' % w, {'Echo_InAlias': e}))
        if w not in ('4', '0'):   # whether allowed values also constrain an OUTPUT is not stated by the property
            out.append(('{}', {'Out_Small_%s' % w.strip('"'): e}))
    out.append(('{}', dict([(m_, 'null') for m_ in model.mixes] + [('Out_Mix_%d_ok' % n, '[' + ', '.join(str(i + 1) for i in range(n)) + ']') for n in range(2, 7)])))
    out.append(('{InOdd: {price/unit: 1, unit price: 2}}', {'Echo_InOdd': '{price/unit: 1, unit price: 2}'}))
    out.append(('{InOddRows: [{price/unit: 1, unit price: 2}]}', {'Echo_InOddRows': '[{price/unit: 1, unit price: 2}]'}))
    out.append(('{}', {'Out_Odd_ok': '{price/unit: 1, unit price: 2}', 'Out_OddRows_ok': '[{price/unit: 1, unit price: 2}, {price/unit: 3, unit price: 4}]', 'Out_OddRows_bad': 'null',
                       'Bk_wrap': '[5]', 'Bk_unwrap': '7', 'Bk_same': '7', 'Bk_list': '[1, 2]', 'Bk_wrong': 'null', 'Bk_wrong_item': 'null', 'Bk_pair': '{a: 1, b: true}',
                       'Bk_pair_more': '{a: 1, b: true, c: 3}', 'Bk_pair_less': 'null', 'Bk_pair_wrap': '[{age: 1, name: "a"}]',
                       'Call_Bk_wrap': '[5]', 'Call_Bk_unwrap': '7', 'Call_Bk_same': '7', 'Call_Bk_list': '[1, 2]', 'Call_Bk_wrong': 'null', 'Call_Bk_wrong_item': 'null', 'Call_Bk_pair': '{a: 1, b: true}',
                       'Call_Bk_pair_more': '{a: 1, b: true, c: 3}', 'Call_Bk_pair_less': 'null', 'Call_Bk_pair_wrap': '[{age: 1, name: "a"}]'}))
    return out


def strip_null_messages(text):
    """null(message) -> null, for nested values too (messages may contain parentheses)"""
    out = []
    i = 0
    while i < len(text):
        if text.startswith('null(', i):
            depth = 0
            j = i + 4
            while j < len(text):
                if text[j] == '(':
                    depth += 1
                elif text[j] == ')':
                    depth -= 1
                    if depth == 0:
                        break
                j += 1
            out.append('null')
            i = j + 1
        else:
            out.append(text[i])
            i += 1
    return ''.join(out)


def main():
    ok, exe = replaydrv.build()
    if not ok:
        print('typeddiff could not run: %s' % exe)
        return 2
    xml, decisions = model()
    cs = cases()
    ctxs = []
    for (c, _) in cs:
        if c not in ctxs:
            ctxs.append(c)
    work = tempfile.mkdtemp(prefix='verif_typed_', dir='/var/tmp')
    try:
        path = os.path.join(work, 'm.xml')
        open(path, 'w', encoding='utf-8').write(xml)
        pr = subprocess.run([exe, 'modelbatchk', path] + ctxs, capture_output=True, text=True, timeout=1200)
        got = {}
        for line in pr.stdout.splitlines():
            t = line.split('\t')
            if len(t) == 3:
                got[(t[0], t[1])] = t[2]
        if len(got) != len(ctxs) * len(decisions):
            print('typeddiff could not run: driver answered %d of %d results (%s)' % (len(got), len(ctxs) * len(decisions), pr.stdout[:300]))
            return 2
        n = 0
        nfail = 0
        fails = []
        for (c, exp) in cs:
            for d, e in exp.items():
                n += 1
                g = strip_null_messages(got[(d, c)])
                good = g == e
                if not good:
                    nfail += 1
                    if len(fails) < 5:
                        fails.append('%s with %s => %s (expected %s)' % (d, c, g[:140], e))
        print('typeddiff cases=%d failures=%d' % (n, nfail))
        for f in fails:
            print('FAIL ' + f)
        return 0
    finally:
        import shutil
        shutil.rmtree(work, ignore_errors=True)


if __name__ == '__main__':
    sys.exit(main())
