#!/bin/bash
# usage: seed_sweep.sh [name-pattern]   applies every kept seeded change to /repo in turn, runs its property's quick check, undoes it
# (/repo must be clean; nothing else may use /repo meanwhile). Prints one line per seed: detected / MISSED.
cd /verif
PAT=${1:-.}
for d in seeded/*/; do
  n=$(basename $d); P=${n%-*}
  echo "$n" | grep -Eq "$PAT" || continue
  if ! git -C /repo apply --check /verif/$d/patch.diff 2>/dev/null; then echo "$n PATCH-DOES-NOT-APPLY"; continue; fi
  git -C /repo apply /verif/$d/patch.diff
  cp evidence/$P.json /var/tmp/evid_backup_$P.json 2>/dev/null
  timeout 1800 python3 check.py $P --tier quick > $d/check_output.txt 2>&1; RC=$?
  git -C /repo checkout -- .
  cp /var/tmp/evid_backup_$P.json evidence/$P.json 2>/dev/null
  if [ $RC -eq 1 ]; then echo "$n detected ($(grep -c '^VIOLATION' $d/check_output.txt) violation lines; $(grep '^VIOLATION' $d/check_output.txt | head -1 | sed 's/.*obligation=//' | cut -c1-90))"; else echo "$n MISSED exit=$RC"; fi
done
