#!/usr/bin/env python3
"""BOUNDED stand-in (not a proof) for the part of C02 that lives in C (feel-number/decnumber/*.c, reached through unsafe FFI):
the real FeelNumber operations (replay driver, crates path-patched to the repository's working tree, C sources rebuilt when
they change) are compared with CPython's decimal module configured as IEEE 754-2008 decimal128 (prec 34, half-even,
Emax 6144, Emin -6143, clamp) on a fixed grid of operands: every sign, 1..34 digit coefficients, exponents from the
subnormal to the overflow edge, exact ties and near-ties with long sticky tails, operands up to 72 orders of magnitude apart, exact results at the overflow / underflow edges.

usage: numdiff.py [--size quick|thorough] [--seed N]
prints `numdiff cases=N failures=M known=K` and one `FAIL ...` line per (first few) failures; exit 0 always (the caller decides).

Classes that are recorded as known findings (see /verif/known_findings.json) are excluded from the comparison and counted
under known=: (1) results outside the decimal128 range / undefined where the API returns Infinity or NaN instead of
signalling null, (2) modulo (and odd / even) when the integer quotient has more than 34 digits, (3) decimal() when the
rescaled coefficient would need more than 34 digits.
"""
import os
import random
import subprocess
import sys
import tempfile
from decimal import Decimal, Context, ROUND_HALF_EVEN, ROUND_FLOOR, ROUND_CEILING, localcontext

HERE = os.path.dirname(os.path.abspath(__file__))
sys.path.insert(0, os.path.dirname(HERE))
from vf import replaydrv  # noqa: E402

CTX = Context(prec=34, rounding=ROUND_HALF_EVEN, Emin=-6143, Emax=6144, clamp=1, traps=[])
BIG = Context(prec=14000, rounding=ROUND_HALF_EVEN, Emin=-999999, Emax=999999, clamp=0, traps=[])


import decimal
decimal.setcontext(BIG)  # implicit operations (unary minus, scaleb, comparisons) are exact


def D(s):
    return Decimal(s)


def finite(x):
    return x.is_finite()


def floor_div(a, b):
    """floor(a / b) exactly (a, b finite, b != 0)."""
    q = BIG.divide_int(a, b)
    r = BIG.subtract(a, BIG.multiply(b, q))
    if r != 0 and ((r < 0) != (b < 0)):
        q = BIG.subtract(q, Decimal(1))
    return q


def expected(op, a, b):
    """(kind, value): kind 'num' (Decimal, finite, the correctly rounded result), 'null', 'bool', or 'known' (excluded class)."""
    if op in ('add', 'sub', 'mul', 'div'):
        if op == 'div' and b == 0:
            return ('skip', None)
        r = {'add': CTX.add, 'sub': CTX.subtract, 'mul': CTX.multiply, 'div': CTX.divide}[op](a, b)
        return ('num', r) if finite(r) else ('known', 'result outside the decimal128 range')
    if op == 'neg':
        return ('num', CTX.minus(a))
    if op == 'abs':
        return ('num', CTX.abs(a))
    if op in ('floor', 'ceiling'):
        r = a.to_integral_value(rounding=ROUND_FLOOR if op == 'floor' else ROUND_CEILING)
        return ('num', CTX.plus(r))
    if op == 'rem':
        if b == 0:
            return ('skip', None)
        q = floor_div(a, b)
        if abs(q) >= Decimal(10) ** 34:
            return ('known', 'modulo with a quotient of more than 34 digits')
        r = CTX.plus(BIG.subtract(a, BIG.multiply(b, q)))
        return ('num', r) if finite(r) else ('known', 'result outside the decimal128 range')
    if op == 'round':
        n = int(b)
        q = a.quantize(Decimal(1).scaleb(-n), rounding=ROUND_HALF_EVEN, context=CTX)
        return ('num', q) if finite(q) else ('known', 'decimal() whose rescaled coefficient needs more than 34 digits')
    if op == 'sqrt':
        if a < 0:
            return ('null', None)
        return ('num', CTX.sqrt(a))
    if op == 'exp':
        r = CTX.exp(a)
        return ('ulp', r) if finite(r) else ('known', 'result outside the decimal128 range')
    if op == 'ln':
        if a <= 0:
            return ('null', None)
        return ('ulp', CTX.ln(a))
    if op == 'pow':
        r = CTX.power(a, b)
        if not finite(r):
            return ('null', None)
        return ('ulp', r)
    if op in ('odd', 'even'):
        if a != a.to_integral_value():
            return ('bool', False)
        if abs(a) >= Decimal(10) ** 34:
            return ('known', 'odd/even on an integer of more than 34 digits')
        odd = int(a) % 2 == 1
        return ('bool', odd if op == 'odd' else not odd)
    if op == 'integer':
        return ('bool', a == a.to_integral_value())
    if op in ('usize', 'isize'):
        lo, hi = (0, 2 ** 64 - 1) if op == 'usize' else (-2 ** 63, 2 ** 63 - 1)
        if op == 'usize' and a == 0 and a.is_signed():
            return ('known', 'to_usize(-0)')
        if a == a.to_integral_value() and lo <= int(a) <= hi:
            return ('text', str(int(a)))
        return ('null', None)
    if op in ('eq', 'lt', 'le', 'gt', 'ge'):
        return ('bool', {'eq': a == b, 'lt': a < b, 'le': a <= b, 'gt': a > b, 'ge': a >= b}[op])
    raise ValueError(op)


def ulps(got, exp):
    if exp == 0:
        return Decimal(0) if got == 0 else Decimal('Infinity')
    ulp = Decimal(1).scaleb(exp.adjusted() - 33)
    return abs(BIG.subtract(got, exp)) / ulp


def operands(size, rnd):
    coefs = ['1', '2', '3', '5', '7', '9', '15', '25', '12', '99', '101', '1234567', '9' * 17, '9' * 33, '9' * 34, '1' + '0' * 33, '1234567890123456789012345678901234',
             '5' + '0' * 33, '4' * 34, '2' * 34, '1' + '0' * 32 + '5', '1' + '0' * 16 + '5' + '0' * 16]
    exps = [-6176, -6175, -6150, -6143, -6111, -400, -40, -35, -34, -33, -20, -7, -2, -1, 0, 1, 2, 7, 20, 33, 34, 35, 40, 400, 6000, 6110, 6111]
    if size == 'quick':
        coefs = coefs[:6] + coefs[12:17] + coefs[19:21]
        exps = [-6176, -6143, -40, -34, -33, -7, -1, 0, 1, 7, 33, 34, 40, 6111]
    vals = [Decimal('0'), Decimal('-0'), Decimal('0E+10')]
    for c in coefs:
        for e in exps:
            for s in ('', '-'):
                vals.append(Decimal('%s%sE%d' % (s, c, e)))
    # random 34-digit coefficients (seeded)
    for _ in range(20 if size == 'quick' else 200):
        nd = rnd.choice([1, 2, 5, 17, 33, 34])
        c = str(rnd.randrange(10 ** (nd - 1), 10 ** nd))
        vals.append(Decimal('%s%sE%d' % (rnd.choice(['', '-']), c, rnd.choice(exps))))
    for t in ('1.0', '2.00', '3.000', '10.0', '100.00', '1E+1', '2E+2', '1.50', '0.0', '-1.0', '-3.00', '18446744073709551615.0', '18446744073709551616', '9223372036854775807', '-9223372036854775808.0', '1E+19', '1E+20'):
        vals.append(Decimal(t))
    # only operands that ARE decimal128 values (finite, exactly representable)
    ok = []
    for v in vals:
        w = CTX.create_decimal(v)
        if w.is_finite() and w == v and CTX.plus(w) == v:
            ok.append(w)
    return ok


def cases(size, seed):
    rnd = random.Random(seed)
    vals = operands(size, rnd)
    out = []
    small = [v for v in vals if -45 <= v.adjusted() <= 45 or v == 0]
    # unary
    for a in vals:
        for op in ('neg', 'abs', 'floor', 'ceiling', 'sqrt', 'ln', 'odd', 'even', 'integer', 'usize', 'isize'):
            out.append((op, a, None))
    # ln of whole numbers whose last three digits are those of a stored constant's argument (2, 10): the shortcut must look at the whole coefficient
    for t in ('1002', '2002', '3002', '12345002', '1000002', '1010', '2010', '12010', '1000010', '100', '1000', '20', '200', '1001', '1003'):
        out.append(('ln', Decimal(t), None))
    # exp: arguments around the tiny-argument shortcuts and up to the overflow edge
    for k in ('1', '2', '2.5', '3', '3.9', '4', '4.1', '5', '9', '9.99'):
        for e in list(range(-40, 5)):
            for s in ('', '-'):
                out.append(('exp', Decimal('%s%sE%d' % (s, k, e)), None))
    # decimal(x, n): exact ties, just above / below a tie with sticky tails of every length, even and odd kept digit
    for kept in ('0', '1', '2', '3', '4', '12', '13', '99', '100', '999', '9999', '99999', '9999999', '1999', '19999'):
        for zeros in range(0, 31):
            for tail in ('', '1', '9'):
                for half in ('5', '4', '6', '49', '51', '50'):
                    x = kept + '.' + half + '0' * zeros + tail if tail else kept + '.' + half + '0' * zeros
                    if len(x.replace('.', '')) > 34:
                        continue
                    for s in ('', '-'):
                        out.append(('round', Decimal(s + x), Decimal(0)))
                        xs = Decimal(s + x).scaleb(-2)
                        out.append(('round', xs, Decimal(2)))
    for a in small[:: (7 if size == 'quick' else 2)]:
        for n in (-3, -1, 0, 1, 2, 5, 33):
            out.append(('round', a, Decimal(n)))
    # binary: every pair of a reduced operand list (all orders of magnitude apart), plus ties at the 34th digit
    pick = vals[:: (9 if size == 'quick' else 3)]
    for a in pick:
        for b in pick:
            for op in ('add', 'sub', 'mul', 'div', 'eq', 'lt'):
                out.append((op, a, b))
    psmall = small[:: (9 if size == 'quick' else 3)]
    for a in psmall:
        for b in psmall:
            out.append(('rem', a, b))
            out.append(('le', a, b))
            out.append(('gt', a, b))
            out.append(('ge', a, b))
    ties = []
    for base in ('1' + '0' * 33, '9' * 34, '1234567890123456789012345678901234', '1234567890123456789012345678901233', '2' * 33 + '5'):
        for add in ('0.5', '0.50000000000000000000000000000001', '0.49999999999999999999999999999999', '1.5', '0.4', '0.6', '5E-1', '5E-40', '0.500000', '-0.5', '-0.50000000000000000001'):
            ties.append((Decimal(base), Decimal(add)))
    for (a, b) in ties:
        for (x, y) in ((a, b), (-a, -b), (b, a)):
            out.append(('add', x, y))
            out.append(('sub', x, -y))
    # products / quotients with ties: (10^17 + 1) * (10^17 - 1) style and 1/3, 2/3, 1/7, 1/6
    for (a, b) in (('100000000000000001', '100000000000000001'), ('99999999999999999', '100000000000000001'), ('33333333333333333333333333333333335', '3'),
                   ('15', '1E33'), ('25', '1E33'), ('1', '3'), ('2', '3'), ('1', '6'), ('1', '7'), ('10', '4'), ('5', '2E-6176'), ('1E-6176', '2'), ('3E-6176', '2'), ('9.999999999999999999999999999999999E6144', '1.000000000000000000000000000000001')):
        for op in ('mul', 'div'):
            out.append((op, Decimal(a), Decimal(b)))
            out.append((op, -Decimal(a), Decimal(b)))
    # powers
    for a in ('2', '3', '10', '0.5', '1.1', '-2', '-3', '9', '1E10', '1.000000000000000000000000000000001', '0'):
        for b in ('0', '1', '2', '3', '10', '-1', '-2', '0.5', '100', '-100', '1000', '20000', '-20000', '0.1'):
            out.append(('pow', Decimal(a), Decimal(b)))
    # integral exponents and scales written with trailing fraction zeros (10.00, 100.0, 12.00): the value counts, not the spelling
    for a in ('2', '3', '1.5', '-2', '10', '0.5'):
        for b in ('10.0', '10.00', '10.000', '10.0000', '12.00', '100.0', '100.00', '3.0', '3.00', '21.00', '-10.00', '-12.0', '1.20E+1', '120.0E-1', '64.000'):
            out.append(('pow', Decimal(a), Decimal(b)))
    for a in ('0.3333333333333333333333333333333333', '99.95', '123456.7890123456789', '-2.5', '1E-20'):
        for b in ('12.00', '1.0', '1.00', '10.0', '10.00', '2.000', '0.0', '0.00', '-2.00', '-1.0', '1.20E+1', '30.00'):
            out.append(('round', Decimal(a), Decimal(b)))
    # equal values written with different exponents compare equal (and neither below nor above the other)
    for (a, b) in (('1.00', '1.0'), ('1.0', '1.00'), ('-1.5', '-1.50'), ('-1.50', '-1.5'), ('1E+2', '100'), ('100', '1E+2'), ('100.0', '1E+2'), ('0.0', '0'), ('0', '0E+3'), ('-0', '0'),
                   ('1E-10', '0.0000000001'), ('5E+33', '5000000000000000000000000000000000'), ('1.10', '1.1'), ('1.1', '1.10'), ('1.10', '1.2'), ('1.2', '1.10'), ('-2.50', '-2.5'), ('-2.5', '-2.50')):
        for op in ('eq', 'lt', 'le', 'gt', 'ge'):
            out.append((op, Decimal(a), Decimal(b)))
    # integer exponents stored in reduced form (1E+6: one digit, exponent 6 - what 1000 * 1000 evaluates to) with bases close to 1,
    # where the square-and-multiply loop needs its extra working digits
    for a in ('1.0000001', '0.9999999', '1.000001', '1.00000000001', '1.0001', '0.99999', '-1.0000001', '1.5', '0.75'):
        for b in ('1E+6', '1000000', '1E+4', '10000', '2E+5', '5E+3', '1E+3', '-1E+6', '3E+5', '-2E+4', '1.2E+5', '1E+2'):
            out.append(('pow', Decimal(a), Decimal(b)))
    # operands far apart (C02: "operands 34+ orders of magnitude apart"): a short coefficient against a full 34-digit one whose first digit is
    # the rounding digit or lies beyond it - exponent distances 30..72 around the places where the library switches to a sticky digit
    # (33, 34, 35 digits of padding, and twice that: 66..70)
    longs = ['6' + '0' * 33, '5' + '0' * 33, '5' + '0' * 32 + '1', '4' + '9' * 33, '9' * 34, '1' + '0' * 33, '1234567890123456789012345678901234', '5' * 34]
    for big in ('1', '2', '5', '9', '10', '15', '99', '1000000000000000000000000000000000', '9999999999999999999999999999999999'):
        for gap in ((31, 32, 33, 34, 35, 36, 66, 67, 68, 69, 70) if size == 'quick' else tuple(range(28, 74))):
            for lo in longs:
                for e0 in ((0,) if size == 'quick' else (0, -3000, 3000)):
                    a = Decimal('%sE%d' % (big, e0 + gap))
                    b = Decimal('%sE%d' % (lo, e0))
                    for (x, y) in ((a, b), (a, -b), (-a, b), (b, a)):
                        out.append(('add', x, y))
                        out.append(('sub', x, y))
    # exact results at the overflow and underflow edges: short coefficients whose adjusted exponent is 6143 / 6144 / 6145 (and -6143 / -6176 / -6177)
    for c in ('1', '2', '3', '9', '1.5', '2.5', '9.9', '1.234'):
        for (e, n) in ((3072, 2), (2048, 3), (1536, 4), (3071, 2), (3073, 2), (2049, 3), (1024, 6), (-3072, 2), (-3088, 2), (-3089, 2), (-2059, 3), (-3071, 2), (6144, 1), (-6143, 1), (-6176, 1)):
            for s_ in ('', '-'):
                out.append(('pow', Decimal('%s%sE%d' % (s_, c, e)), Decimal(n)))
        for (ea, eb) in ((3072, 3072), (6144, 0), (3000, 3144), (3000, 3145), (-3072, -3072), (-3088, -3088), (-6143, -33), (-6143, -34), (6111, 33), (6111, 34)):
            out.append(('mul', Decimal('%sE%d' % (c, ea)), Decimal('%sE%d' % (c, eb))))
            out.append(('div', Decimal('%sE%d' % (c, ea)), Decimal('%sE%d' % (c, -eb))))
        for e in (12288, 12286, 12290, -12286, -12352, -12354):
            out.append(('sqrt', Decimal('%sE%d' % (c, e)) if abs(e) <= 6144 else Decimal('%sE%d' % (c, 6144 if e > 0 else -6176)), None))
    # square roots whose 35th digit onwards lies just above or below a rounding midpoint need the final correction step of the library: every
    # coefficient 1..9999 (quick) / 1..99999 (thorough) at an even and an odd exponent, plus seeded random long coefficients
    top = 10000 if size == 'quick' else 100000
    for n in range(1, top):
        out.append(('sqrt', Decimal('%dE-2' % n), None))
        if size != 'quick' or n % 4 == 0:
            out.append(('sqrt', Decimal('%dE-3' % n), None))
    for _ in range(2000 if size == 'quick' else 100000):
        nd = rnd.choice([5, 6, 7, 8, 9, 10, 12, 16, 17, 20, 33, 34])
        out.append(('sqrt', Decimal('%dE%d' % (rnd.randrange(10 ** (nd - 1), 10 ** nd), rnd.choice([-40, -7, -2, -1, 0, 1, 6, 31]))), None))
    # only operands that ARE decimal128 values (the generated families above may name values below the subnormal step)
    def rep(v):
        if v is None:
            return True
        w = CTX.create_decimal(v)
        return w.is_finite() and w == v and CTX.plus(w) == v
    out = [c for c in out if rep(c[1]) and rep(c[2])]
    return out


def fmt(x):
    return str(x)


def main():
    size = 'quick'
    seed = 0
    if '--size' in sys.argv:
        size = sys.argv[sys.argv.index('--size') + 1]
    if '--seed' in sys.argv:
        seed = int(sys.argv[sys.argv.index('--seed') + 1])
    cs = cases(size, seed)
    with tempfile.NamedTemporaryFile('w', suffix='.txt', delete=False, dir='/var/tmp') as fh:
        for (op, a, b) in cs:
            fh.write('%s %s %s\n' % (op, fmt(a), fmt(b) if b is not None else '0'))
        path = fh.name
    try:
        rr = replaydrv.run('numops', [path], timeout=1200)
    finally:
        os.unlink(path)
    if not rr.get('ok'):
        print('numdiff could not run: %s' % rr.get('error'))
        return 2
    lines = rr['stdout'].splitlines()
    if len(lines) != len(cs):
        print('numdiff could not run: driver answered %d lines for %d cases' % (len(lines), len(cs)))
        return 2
    nfail = 0
    known = 0
    compared = 0
    fails = []
    for (op, a, b), line in zip(cs, lines):
        got = line.split('=> ')[-1].strip()
        (kind, exp) = expected(op, a, b)
        if kind == 'skip':
            continue
        if kind == 'known':
            known += 1
            continue
        compared += 1
        ok = False
        if kind == 'null':
            ok = got == 'null'
            exps = 'null'
        elif kind == 'text':
            ok = got == exp
            exps = exp
        elif kind == 'bool':
            ok = got == ('true' if exp else 'false')
            exps = 'true' if exp else 'false'
        else:
            exps = str(exp.normalize(CTX)) if exp != 0 else '0'
            try:
                g = Decimal(got)
            except Exception:
                g = None
            if g is not None and g.is_finite():
                if kind == 'num':
                    ok = (g == exp)
                else:
                    ok = ulps(g, exp) <= 2
                    exps += ' (within 2 ulp)'
        if not ok:
            nfail += 1
            if len(fails) < int(os.environ.get("NUMDIFF_MAXFAIL", "5")):
                fails.append('%s(%s%s) => %s (expected %s)' % (op, fmt(a), (', ' + fmt(b)) if b is not None else '', got[:80], exps[:80]))
    print('numdiff cases=%d failures=%d known=%d' % (compared, nfail, known))
    for f in fails:
        print('FAIL ' + f)
    return 0


if __name__ == '__main__':
    sys.exit(main())
