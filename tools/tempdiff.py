#!/usr/bin/env python3
"""BOUNDED stand-in (not a proof) for the parts of C14 / C15 that go through regex and chrono (outside the verifier's reach):

  A  date / time / date-and-time / duration literals: well-formed literals built from component grids are accepted and read back
     as an equal value from their text form; literals with one separator replaced by a foreign character, or with a component out
     of range, evaluate to null.
  B  date(year, month, day) from numbers: accepted exactly for real calendar dates (components out of range, also far beyond
     256, and fractional components give null).
  C  named zones: the UTC offset in force at a local time (every 30 minutes in the six hours around each 2020 / 2021 transition of
     five zones, plus mid-season times; ambiguous and non-existent local times excluded; on the hour also with fractional seconds) equals the offset CPython's zoneinfo gives.

The expectations are written out here from ISO 8601 / XML Schema part 2 as DMN 1.3 section 10.3.2.3 uses them and from the Gregorian
calendar; the real code is driven through FEEL expressions (replay driver command feelcases).
prints `tempdiff cases=N failures=M`; exit 0 / 2."""
import datetime
import os
import sys
import tempfile

HERE = os.path.dirname(os.path.abspath(__file__))
sys.path.insert(0, os.path.dirname(HERE))
from vf import replaydrv  # noqa: E402


def leap(y):
    return y % 4 == 0 and (y % 100 != 0 or y % 400 == 0)


def dim(y, m):
    return [31, 29 if leap(y) else 28, 31, 30, 31, 30, 31, 31, 30, 31, 30, 31][m - 1]


def valid_date(y, m, d):
    return 1 <= m <= 12 and 1 <= d <= dim(y, m)


def cases():
    out = []   # (expression, expected) ; expected 'null' or rendered value
    # ---- A: literals
    for y in (1, 4, 100, 400, 1900, 2000, 2020, 2021, 9999, 10000, 999999999):
        for m in (0, 1, 2, 4, 12, 13):
            for d in (0, 1, 28, 29, 30, 31, 32):
                s = '%04d-%02d-%02d' % (y, m, d)
                out.append(('date("%s")' % s, s if valid_date(y, m, d) else 'null'))
    for s in ('2020-1-01', '2020-01-1', '20200101', '2020/01/01', '2020-01-01T', ' 2020-01-01x', '2020-01', '+2020-01-01', '2020-01-01-', 'x'):
        out.append(('date("%s")' % s, 'null'))
    times = []
    for h in (0, 9, 23):
        for mi in (0, 59):
            for sec in (0, 59):
                for frac in ('', '.5', '.123456789', '.000000001'):
                    for off in ('', 'Z', '+00:00', '+02:00', '-00:30', '-11:45', '+14:00', '@Europe/Warsaw'):
                        times.append('%02d:%02d:%02d%s%s' % (h, mi, sec, frac, off))
    for t in times:
        out.append(('time("%s") = time(string(time("%s")))' % (t, t), 'true'))
        out.append(('time("%s") instance of time' % t, 'true'))
    for t in ('24:00:00', '10:60:00', '10:11:60', '1:02:03', '10:2:03', '10:02:3', '10:11', '10:11:12+15:00', '10:11:12+02', '10:11:12+02:60', '10:11:12+02:59:60', '10:11:12 Z', '10:11:12.', '10:11:12.+02:00', '10:11:12@Nowhere/None'):
        out.append(('time("%s")' % t, 'null'))
    base = '16:37:09.5+02:00'
    for i, ch in enumerate(base):
        if ch in ':.+':
            for rep in (',', ';', ' ', '/'):
                if ch == '+' and rep == ' ':
                    continue
                out.append(('time("%s")' % (base[:i] + rep + base[i + 1:]), 'null'))
    dts = []
    for d in ('2020-02-29', '1999-12-31', '0400-01-01'):
        for t in ('00:00:00', '23:59:59.999', '12:30:00Z', '12:30:00+05:45', '12:30:00@America/New_York'):
            dts.append(d + 'T' + t)
    for s in dts:
        out.append(('date and time("%s") = date and time(string(date and time("%s")))' % (s, s), 'true'))
        out.append(('date and time("%s") != null' % s, 'true'))   # (null = null is true: the read-back check alone would pass for a rejected literal)
    basedt = '2020-09-28T16:37:09.5Z'
    for i, ch in enumerate(basedt):
        if ch in ':.T-':
            for rep in (',', ';', ' ', '/'):
                out.append(('date and time("%s")' % (basedt[:i] + rep + basedt[i + 1:]), 'null'))
    for s in ('2020-02-30T10:00:00', '2020-01-01T24:00:01', '2020-01-01T10:00', '2020-13-01T10:00:00', '2020-01-01T10:00:00+25:00'):
        out.append(('date and time("%s")' % s, 'null'))
    for s in ('P1Y', 'P2M', 'P1Y2M', '-P11M', 'P0M', 'P1D', 'PT1H', 'PT1M', 'PT1S', 'PT0.5S', '-PT0.5S', 'P1DT2H3M4.5S', '-P1DT2H3M4S', 'PT36H', 'P14M', 'PT90M', 'PT0S', 'P999999999Y'):
        out.append(('duration("%s") = duration(string(duration("%s")))' % (s, s), 'true'))
        out.append(('duration("%s") != null' % s, 'true'))
    # components written as zero or with leading zeros are valid (the zero duration prints as P0M / PT0S and must read back)
    for (s, t) in (('P0M', 'P0M'), ('P0Y', 'P0M'), ('-P0M', 'P0M'), ('P1Y0M', 'P1Y'), ('P0Y5M', 'P5M'), ('P01Y02M', 'P1Y2M'), ('P00012M', 'P1Y'), ('PT0S', 'PT0S'), ('P0D', 'PT0S'), ('-PT0S', 'PT0S'),
                   ('P0DT0H0M0S', 'PT0S'), ('PT01S', 'PT1S'), ('P01DT02H03M04S', 'P1DT2H3M4S'), ('PT0H5M', 'PT5M'), ('PT0.0S', 'PT0S'), ('PT00.50S', 'PT0.5S')):
        out.append(('string(duration("%s"))' % s, '"%s"' % t))
    # year zero is a valid year (proleptic Gregorian calendar)
    for (s, t) in (('0000-01-01', '0000-01-01'), ('0000-02-29', '0000-02-29'), ('0000-12-31', '0000-12-31'), ('0001-01-01', '0001-01-01'), ('-0001-12-31', '-0001-12-31')):
        out.append(('string(date("%s"))' % s, '"%s"' % t))
        out.append(('string(date and time("%sT10:20:30"))' % s, '"%sT10:20:30"' % t))
    for s in ('P', 'PT', 'P1H', 'PT1D', 'P1M2Y', 'P1Y2D', 'P1.5Y', 'PT1.5H', '1Y', 'P1S', 'PT1S2M', 'P-1Y', 'PT1,5S', 'P1YT', 'p1y', 'P 1Y'):
        out.append(('duration("%s")' % s, 'null'))
    # components of durations agree in sign and size with the total length (C15), and date-and-time literals range-check every field (C14)
    for (d, comps) in (('P1Y3M', {'years': 1, 'months': 3}), ('-P1Y3M', {'years': -1, 'months': -3}), ('P14M', {'years': 1, 'months': 2}), ('-P2M', {'years': 0, 'months': -2}),
                       ('-P25M', {'years': -2, 'months': -1}), ('P1DT2H3M4S', {'days': 1, 'hours': 2, 'minutes': 3, 'seconds': 4}),
                       ('PT36H', {'days': 1, 'hours': 12, 'minutes': 0, 'seconds': 0}), ('PT90M', {'days': 0, 'hours': 1, 'minutes': 30, 'seconds': 0}), ('PT3661S', {'hours': 1, 'minutes': 1, 'seconds': 1})):
        # (whether the components of a NEGATIVE days-and-time duration carry the sign is not stated by the property: the code answers magnitudes)
        for (c, v) in comps.items():
            out.append(('duration("%s").%s' % (d, c), str(v)))
    for s in ('2021-03-04T10:20:60', '2021-03-04T10:20:75Z', '2021-03-04T10:20:99+01:00', '2021-03-04T10:60:00', '2021-03-04T10:61:30Z', '2021-03-04T24:00:00', '2021-03-04T25:10:10',
              '2021-03-04T10:20:60@Europe/Warsaw', '2021-13-04T10:20:30', '2021-03-32T10:20:30', '2021-02-29T10:20:30', '2021-00-10T10:20:30', '2021-03-00T10:20:30'):
        out.append(('date and time("%s")' % s, 'null'))
    for s in ('2021-03-04T10:20:59', '2021-03-04T23:59:59Z', '2021-03-04T00:00:00+01:00', '2020-02-29T10:20:30'):
        out.append(('string(date and time("%s"))' % s, '"%s"' % s))
    # fractional seconds are exact to the nanosecond (every 9-digit fraction, sampled), also in negative durations; the sign of a duration covers
    # the fraction; components may exceed their normal range (PT300M) and are normalised; a component beyond u64 or nothing after T is no literal
    import random
    rnd = random.Random(20260924)
    fracs = ['132147786', '000000001', '999999999', '100000000', '123456789', '5', '25', '000000010'] + ['%09d' % rnd.randrange(1, 10 ** 9) for _ in range(600)]
    for f in fracs:
        shown = f.rstrip('0')
        out.append(('string(time("10:20:30.%sZ"))' % f, '"10:20:30.%sZ"' % shown))
        out.append(('string(duration("PT7.%sS"))' % f, '"PT7.%sS"' % shown))
        out.append(('string(duration("-PT7.%sS"))' % f, '"-PT7.%sS"' % shown))
    for f in fracs[:60]:
        shown = f.rstrip('0')
        out.append(('string(date and time("2021-03-04T10:20:30.%s+01:00"))' % f, '"2021-03-04T10:20:30.%s+01:00"' % shown))
        out.append(('string(time("10:20:30.%s@Europe/Warsaw"))' % f, '"10:20:30.%s@Europe/Warsaw"' % shown))
        out.append(('string(date and time("2021-03-04T10:20:30.%s"))' % f, '"2021-03-04T10:20:30.%s"' % shown))
    for (a, b) in (('-PT0.5S', 'PT0S'), ('-PT1.5S', '-PT1S'), ('-PT1M0.75S', '-PT1M'), ('-P1DT0.000000001S', '-P1D')):
        out.append(('duration("%s") in (< duration("%s"))' % (a, b), 'true'))   # (the operator < itself answers null for durations)
    for (a, b) in (('-PT1.5S', 'PT1.5S'), ('-PT0.5S', 'PT0.5S'), ('-P1DT2H3M4.25S', 'P1DT2H3M4.25S')):
        out.append(('duration("%s") = -duration("%s")' % (a, b), 'true'))
        out.append(('duration("%s") + duration("%s") = duration("PT0S")' % (a, b), 'true'))
    for (a, b) in (('PT300M', 'PT5H'), ('PT1440M', 'P1D'), ('PT1H256M', 'PT5H16M'), ('-P1DT1000M1.5S', '-P1DT16H40M1.5S'), ('PT100000S', 'P1DT3H46M40S'), ('PT25H', 'P1DT1H'), ('PT255M', 'PT4H15M'),
                   ('PT256M', 'PT4H16M'), ('PT65536M', 'P45DT12H16M'), ('PT4294967296S', 'P49710DT6H28M16S'), ('P400D', 'P400D'), ('PT1000H', 'P41DT16H'), ('PT70000M70000S', 'P49DT10H6M40S')):
        out.append(('duration("%s") = duration("%s")' % (a, b), 'true'))
        out.append(('string(duration("%s"))' % a, '"%s"' % b))
    for s_ in ('P1DT', '-P1DT', 'P18446744073709551616D', 'PT18446744073709551616H', 'P1DT18446744073709551616M', 'PT99999999999999999999S', 'P18446744073709551616DT1H'):
        out.append(('duration("%s")' % s_, 'null'))
    out.append(('string(duration("P18446744073709551615D"))', '"P18446744073709551615D"'))
    # negative years print with four digits after the sign and read back
    for (y, txt) in ((-1, '-0001'), (-5, '-0005'), (-44, '-0044'), (-999, '-0999'), (-1000, '-1000'), (-12345, '-12345'), (-999999999, '-999999999')):
        out.append(('string(date(%d, 3, 4))' % y, '"%s-03-04"' % txt))
        out.append(('date(string(date(%d, 3, 4))) = date(%d, 3, 4)' % (y, y), 'true'))
        out.append(('string(date and time("%s-03-04T10:20:30"))' % txt, '"%s-03-04T10:20:30"' % txt))
    # the weekday of a date-and-time is that of ITS OWN calendar date, whatever its offset or zone (C15), late in the evening and early in the morning
    import datetime as _dt
    for (d, (yy, mm, dd)) in (('2021-01-01', (2021, 1, 1)), ('2021-06-06', (2021, 6, 6)), ('2020-02-29', (2020, 2, 29)), ('1999-12-31', (1999, 12, 31))):
        wd = _dt.date(yy, mm, dd).isoweekday()
        for t in ('23:00:00-05:00', '00:30:00+09:00', '23:59:59-14:00', '00:00:00+14:00', '21:15:00@America/New_York', '01:30:00@Asia/Tokyo', '12:00:00Z', '23:30:00', '00:10:00'):
            out.append(('date and time("%sT%s").weekday' % (d, t), str(wd)))
        out.append(('date("%s").weekday' % d, str(wd)))
    # ... and for years around and below zero (proleptic Gregorian calendar: year 0 is a leap year, -100 is not, -400 is), computed with the
    # days-from-civil algorithm written out here (CPython's datetime starts at year 1)
    def _dfc(y, m, d):
        y -= m <= 2
        era = y // 400
        yoe = y - era * 400
        doy = (153 * (m + (-3 if m > 2 else 9)) + 2) // 5 + d - 1
        doe = yoe * 365 + yoe // 4 - yoe // 100 + doy
        return era * 146097 + doe - 719468
    for y in (-401, -400, -399, -101, -100, -99, -5, -4, -3, -2, -1, 0, 1, 2, 3, 4, 5, 99, 100, 101, 400, 1600, 1900, 2000, 2400):
        for (mm, dd) in ((1, 1), (2, 28), (3, 1), (7, 15), (12, 31)):
            wd = (_dfc(y, mm, dd) + 3) % 7 + 1
            out.append(('date(%d, %d, %d).weekday' % (y, mm, dd), str(wd)))
            out.append(('date and time(date(%d, %d, %d), time("12:00:00")).weekday' % (y, mm, dd), str(wd)))
    # dates beyond the year range of the chrono library (about +-262143) are valid dates all the same (C15: up to year +-999999999)
    for y in (262142, 262143, 262144, 262145, 300000, 999999999):
        for sign in ('', '-'):
            for md in ('01-01', '07-15', '12-31', '02-28'):
                lit = '%s%d-%s' % (sign, y, md)
                out.append(('string(date("%s"))' % lit, '"%s"' % lit))
            leap = (y % 4 == 0 and y % 100 != 0) or y % 400 == 0
            out.append(('date("%s%d-02-29")' % (sign, y), ('%s%d-02-29' % (sign, y)) if leap else 'null'))
    # UTC offsets of 15 hours and more are no offsets, whatever their sign, in time and date-and-time literals (C14); comparing such text must not panic
    for off in ('-15:00', '+15:00', '-23:59', '-24:00', '+24:00', '-99:00', '+99:59', '-14:60', '-99:99'):
        out.append(('time("10:20:30%s")' % off, 'null'))
        out.append(('date and time("2021-10-10T10:20:30%s")' % off, 'null'))
        out.append(('date and time("2021-10-10T10:20:30%s") = date and time("2021-10-10T10:20:30Z")' % off, '!true'))
    for off in ('-14:59', '+14:59', '-14:59:59', '+14:59:59', '-00:01'):
        out.append(('string(time("10:20:30%s"))' % off, '"10:20:30%s"' % off))
    # time(h, m, s, offset): like in time literals the magnitude of the offset is below 15 hours, whatever the size of the duration (C14: a zone is
    # printed as the offset that was written - so an offset that cannot be written is no time)
    for (o, txt) in (('PT0S', 'Z'), ('PT1H', '+01:00'), ('-PT1H30M', '-01:30'), ('PT14H59M59S', '+14:59:59'), ('-PT14H59M59S', '-14:59:59'), ('-PT0.9S', 'Z')):
        out.append(('string(time(1, 2, 3, duration("%s")))' % o, '"01:02:03%s"' % txt))
    for o in ('PT15H', '-PT15H', 'P1D', '-P1D', 'PT2147483648S', '-PT2147483649S', 'PT4294967296S', 'PT4294967297S', 'PT9223372036854775807S', 'PT9223372036854775808S', '-PT9223372036854775808S',
              'PT9223372036854775809S', 'PT18446744073709551615S', '-PT18446744073709551615S', 'PT18446744073709551614S', 'P213503982334601D'):
        out.append(('time(1, 2, 3, duration("%s"))' % o, 'null'))
    # instants that differ in any of the nine fraction digits are different instants (C15: order on the UTC time line), whatever offsets they are written with
    for k in range(1, 10):
        lo = '10:15:30.' + '123456789'[:k]
        hi = '10:15:30.' + str(int('123456789'[:k]) + 1).rjust(k, '0')
        for (a, b) in (('2021-03-04T%sZ' % lo, '2021-03-04T%sZ' % hi), ('2021-03-04T%sZ' % lo, '2021-03-04T11:%s+01:00' % hi[3:]), ('2021-03-04T%s-05:00' % lo, '2021-03-04T%s-05:00' % hi)):
            A, B = 'date and time("%s")' % a, 'date and time("%s")' % b
            out.append(('%s < %s' % (A, B), 'true'))
            out.append(('%s > %s' % (B, A), 'true'))
            out.append(('%s = %s' % (A, B), 'false'))
            out.append(('%s >= %s' % (A, B), 'false'))
            out.append(('%s between %s and %s' % (B, A, A), 'false'))
            out.append(('%s in [%s..%s)' % (A, A, B), 'true'))
            out.append(('%s in (%s..%s]' % (A, A, B), 'false'))
        out.append(('time("%sZ") < time("%sZ")' % (lo, hi), 'true'))
        out.append(('time("%sZ") = time("%sZ")' % (lo, hi), 'false'))
        out.append(('time("%s+02:00") > time("%s+02:00")' % (hi, lo), 'true'))
    # one instant written with different offsets on DIFFERENT calendar days is one value for = != < <= in and list membership (C15 / C09)
    for (a, b) in (('2021-01-02T00:30:00+01:00', '2021-01-01T23:30:00Z'), ('2021-03-01T01:00:00+02:00', '2021-02-28T23:00:00Z'), ('2020-12-31T20:00:00-05:00', '2021-01-01T01:00:00Z'),
                   ('2021-01-01T00:00:00@Europe/Warsaw', '2020-12-31T23:00:00Z'), ('2020-03-01T05:00:00+14:00', '2020-02-29T15:00:00Z')):
        A, B = 'date and time("%s")' % a, 'date and time("%s")' % b
        for (x, y) in ((A, B), (B, A)):
            out.append(('%s = %s' % (x, y), 'true'))
            out.append(('%s != %s' % (x, y), 'false'))
            out.append(('%s < %s' % (x, y), 'false'))
            out.append(('%s <= %s' % (x, y), 'true'))
            out.append(('%s in [%s..%s]' % (x, y, y), 'true'))
            out.append(('list contains([%s], %s)' % (x, y), 'true'))
            out.append(('%s - %s = duration("PT0S")' % (x, y), 'true'))
    # offsets written with seconds (`+01:00:30`): the seconds count on the UTC line like the hours and minutes do (C15 / C09)
    for (a, b, rel, diff) in (('2021-01-01T10:00:00+01:00:30', '2021-01-01T08:59:30Z', '=', 'PT0S'), ('2021-01-01T10:00:00+01:00:30', '2021-01-01T09:59:45+01:00', '<', '-PT15S'),
                              ('2021-01-01T10:00:00-00:00:30', '2021-01-01T10:00:00Z', '>', 'PT30S'), ('2021-06-01T12:00:00+05:30:15', '2021-06-01T06:29:45Z', '=', 'PT0S'),
                              ('2021-06-01T12:00:00+05:30:59', '2021-06-01T12:00:00+05:30', '<', '-PT59S'), ('2021-01-01T00:00:10-04:56:02', '2021-01-01T04:56:12Z', '=', 'PT0S')):
        A, B = 'date and time("%s")' % a, 'date and time("%s")' % b
        out.append(('%s = %s' % (A, B), 'true' if rel == '=' else 'false'))
        out.append(('%s < %s' % (A, B), 'true' if rel == '<' else 'false'))
        out.append(('%s > %s' % (A, B), 'true' if rel == '>' else 'false'))
        out.append(('%s - %s' % (A, B), diff))
        out.append(('%s - %s' % (B, A), diff[1:] if diff.startswith('-') else ('-' + diff if diff != 'PT0S' else diff)))
    # the offset of a date and time in a named zone is the offset in force on ITS OWN date, whatever the day the expression is evaluated on
    # (a winter and a summer date in zones north and south of the equator: one of each pair differs from today's offset on any day)
    for (lit, off) in (('2021-01-15T12:00:00@Europe/Warsaw', 'PT1H'), ('2021-07-15T12:00:00@Europe/Warsaw', 'PT2H'), ('2021-01-15T12:00:00@America/New_York', '-PT5H'),
                       ('2021-07-15T12:00:00@America/New_York', '-PT4H'), ('2021-01-15T12:00:00@Australia/Sydney', 'PT11H'), ('2021-07-15T12:00:00@Australia/Sydney', 'PT10H')):
        out.append(('date and time("%s").time offset' % lit, off))
        out.append(('date and time("%s").timezone' % lit, '"%s"' % lit.split('@')[1]))
    # the components of a days-and-time duration are those of its whole length, however long it is (C15: up to the full range of a literal), also when it is a sum
    for (d_, h_, m_, s_) in ((213503, 23, 34, 33), (213504, 0, 0, 0), (213504, 5, 18, 36), (300000, 1, 2, 3), (427008, 0, 0, 1), (1000000, 23, 59, 59), (106751991167, 7, 12, 55)):
        lit = 'P%dDT%dH%dM%dS' % (d_, h_, m_, s_)
        for sg in ('', '-'):
            D = 'duration("%s%s")' % (sg, lit)
            out.append(('%s.days' % D, str(d_)))
            out.append(('%s.hours' % D, str(h_)))
            out.append(('%s.minutes' % D, str(m_)))
            out.append(('%s.seconds' % D, str(s_)))
    for (a, b, comp) in (('P150000DT5H18M36S', 'P150000DT1H1M1S', (300000, 6, 19, 37)), ('P213503DT23H', 'PT1H30M', (213504, 0, 30, 0)), ('-P150000DT5H', '-P150000DT20H', (300001, 1, 0, 0))):
        S = '(duration("%s") + duration("%s"))' % (a, b)
        for (nm, v) in zip(('days', 'hours', 'minutes', 'seconds'), comp):
            out.append(('%s.%s' % (S, nm), str(v)))
    # ---- B: date(y, m, d)
    for y in (1, 1900, 2000, 2020, 2021, 999999999):
        for m in (-1, 0, 1, 2, 12, 13, 255, 256, 257, 258, 268, 524, 65537):
            for d in (-1, 0, 1, 28, 29, 30, 31, 32, 255, 256, 257, 287, 513, 65537):
                ok = valid_date(y, m, d) if (1 <= m <= 12 and 1 <= d <= 31) else False
                out.append(('date(%d, %d, %d)' % (y, m, d), ('%04d-%02d-%02d' % (y, m, d)) if ok else 'null'))
    for (y, m, d) in (('2020', '1.0', '1.00'), ('2020', '"1"', '1'), ('null', '1', '1')):   # fractional components: not stated by the property, not generated
        ok = (m, d) == ('1.0', '1.00')
        out.append(('date(%s, %s, %s)' % (y, m, d), '2020-01-01' if ok else 'null'))
    # ---- C: zone offsets
    try:
        import zoneinfo
        zones = ['Europe/Warsaw', 'America/New_York', 'Australia/Sydney', 'Asia/Kolkata', 'America/Sao_Paulo']
        for zn in zones:
            z = zoneinfo.ZoneInfo(zn)
            # transitions of 2020 / 2021: scan by hours
            trans = []
            t = datetime.datetime(2020, 1, 1, tzinfo=datetime.timezone.utc)
            prev = t.astimezone(z).utcoffset()
            while t.year < 2022:
                t += datetime.timedelta(hours=1)
                o = t.astimezone(z).utcoffset()
                if o != prev:
                    trans.append(t)
                    prev = o
            points = [datetime.datetime(2020, 1, 15, 12, 0), datetime.datetime(2020, 7, 15, 12, 0)]
            for tr in trans:
                loc = tr.astimezone(z).replace(tzinfo=None)
                for k in range(-12, 13):
                    points.append(loc + datetime.timedelta(minutes=30 * k))
            for p in points:
                a = p.replace(tzinfo=z, fold=0)
                b = p.replace(tzinfo=z, fold=1)
                if a.utcoffset() != b.utcoffset():
                    continue   # ambiguous (fold) or non-existent (gap) local time
                # round trip through UTC must give the same local time (excludes gaps)
                if a.astimezone(datetime.timezone.utc).astimezone(z).replace(tzinfo=None) != p:
                    continue
                off = a.utcoffset()
                secs = int(off.total_seconds())
                # local@zone - local Z = -offset
                s = -secs
                sign = '-' if s < 0 else ''
                s = abs(s)
                txt = 'PT' + ('%dH' % (s // 3600) if s // 3600 else '') + ('%dM' % (s % 3600 // 60) if s % 3600 // 60 else '')
                if txt == 'PT':
                    txt = 'PT0S'
                lit = p.strftime('%Y-%m-%dT%H:%M:%S')
                out.append(('date and time("%s@%s") - date and time("%sZ")' % (lit, zn, lit), sign + txt))
                # the same reading with fractional seconds: the fraction belongs to both readings, the offset is a whole number of seconds
                if p.minute == 0 or p in points[:2]:
                    for fr in ('.5', '.000000001', '.999999999'):
                        out.append(('date and time("%s%s@%s") - date and time("%s%sZ")' % (lit, fr, zn, lit, fr), sign + txt))
                    hh, mm = divmod(abs(secs) // 60, 60)
                    out.append(('date and time("%s.25@%s") = date and time("%s.25%s%02d:%02d")' % (lit, zn, lit, '-' if secs < 0 else '+', hh, mm), 'true'))
        # zone identifiers spelled with digits, '+' or '-' (Etc/GMT+5, America/Port-au-Prince, EST5EDT, ...): accepted like any other
        # ... and identifiers of three components (America/Argentina/Buenos_Aires, America/Indiana/Knox, ...) or without an area (UTC, Japan, Poland)
        odd = sorted(zn for zn in zoneinfo.available_timezones() if (any(ch.isdigit() or ch in '+-' for ch in zn) or zn.count('/') != 1) and not zn.startswith(('posix', 'right')) and zn not in ('localtime', 'Factory'))
        for zn in odd:
            z = zoneinfo.ZoneInfo(zn)
            for p in (datetime.datetime(2020, 1, 15, 12, 0), datetime.datetime(2020, 7, 15, 12, 0)):
                a = p.replace(tzinfo=z)
                s = -int(a.utcoffset().total_seconds())
                sign = '-' if s < 0 else ''
                s = abs(s)
                txt = 'PT' + ('%dH' % (s // 3600) if s // 3600 else '') + ('%dM' % (s % 3600 // 60) if s % 3600 // 60 else '')
                if txt == 'PT':
                    txt = 'PT0S'
                lit = p.strftime('%Y-%m-%dT%H:%M:%S')
                out.append(('date and time("%s@%s") - date and time("%sZ")' % (lit, zn, lit), sign + txt))
            out.append(('string(time("10:20:30@%s"))' % zn, '"10:20:30@%s"' % zn))
    except Exception as e:   # no zone data on this machine: the zone part is skipped and said so
        out.append(('"zoneinfo unavailable: %s"' % type(e).__name__, '"zoneinfo unavailable: %s"' % type(e).__name__))
    return out


def main():
    cs = cases()
    with tempfile.NamedTemporaryFile('w', suffix='.txt', delete=False, dir='/var/tmp', encoding='utf-8') as fh:
        for (e, x) in cs:
            fh.write('%s ==> %s\n' % (e, x))
        path = fh.name
    try:
        rr = replaydrv.run('feelcases', [path], timeout=1200)
    finally:
        os.unlink(path)
    if not rr.get('ok'):
        print('tempdiff could not run: %s' % rr.get('error'))
        return 2
    print(rr['stdout'].replace('feelcases', 'tempdiff'), end='')
    return 0


if __name__ == '__main__':
    sys.exit(main())
