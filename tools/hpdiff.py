#!/usr/bin/env python3
"""BOUNDED stand-in (not a proof) for C03: decision tables with one number input A, 1..3 rules whose input entry is `1`, `2` or `-`,
one or two output clauses with two possible values each (single output also with the allowed input values 1,2 declared), every hit policy (U A P F R O C C+ C# C< C>), evaluated for A = 1, 2, 3 on the
real code (replay driver) and compared with the hit policy semantics of DMN 1.3 section 8.2.8 written out here in Python.

usage: hpdiff.py      prints `hpdiff cases=N failures=M` and up to five FAIL lines; exit 0 / 2."""
import itertools
import os
import subprocess
import sys
import tempfile

HERE = os.path.dirname(os.path.abspath(__file__))
sys.path.insert(0, os.path.dirname(HERE))
from vf import replaydrv  # noqa: E402

POLICIES = [('U', 'UNIQUE', None), ('A', 'ANY', None), ('P', 'PRIORITY', None), ('F', 'FIRST', None), ('R', 'RULE ORDER', None), ('O', 'OUTPUT ORDER', None),
            ('C', 'COLLECT', None), ('C+', 'COLLECT', 'SUM'), ('C#', 'COLLECT', 'COUNT'), ('C<', 'COLLECT', 'MIN'), ('C>', 'COLLECT', 'MAX')]
# output clause X: strings with a priority list; Y: numbers with a priority list (the lists are flattened by the implementation: distinct values)
XV = ['"H"', '"L"']
YV = ['20', '10']


def model(policy, hp, agg, compound, numeric, in_values=False, default=False, nulls=False):
    """all rule configurations as decisions D0.. of one model; returns (xml, [(name, rules)])"""
    decs = []
    parts = ['<?xml version="1.0" encoding="UTF-8"?>',
             '<definitions namespace="https://verif/hp" name="hp" id="_d" xmlns="https://www.omg.org/spec/DMN/20191111/MODEL/">',
             '  <inputData name="A" id="_a"><variable name="A" typeRef="number"/></inputData>']
    k = 0
    outs1 = YV if numeric else XV
    choices = [(x, y) for x in XV for y in YV] if compound else [(v,) for v in outs1]
    if nulls:   # a component whose output entry is null stays in the result context, as null
        choices = [(XV[0], 'null'), ('null', YV[1]), (XV[1], YV[0])]
    for n in (1, 2, 3):
        for ins in itertools.product(['1', '2', '-'], repeat=n):
            for outs in itertools.product(choices, repeat=n):
                name = 'D%d' % k
                k += 1
                rules = list(zip(ins, outs))
                decs.append((name, rules))
                p = ['  <decision name="%s" id="_%s"><variable name="%s"/>' % (name, name, name),
                     '    <informationRequirement id="_ir%s"><requiredInput href="#_a"/></informationRequirement>' % name,
                     '    <decisionTable hitPolicy="%s"%s outputLabel="%s">' % (hp, (' aggregation="%s"' % agg) if agg else '', name),
                     '      <input><inputExpression typeRef="number"><text>A</text></inputExpression>%s</input>' % ('<inputValues><text>1,2</text></inputValues>' if in_values else '')]
                if compound:
                    p.append('      <output name="X"><outputValues><text>%s</text></outputValues></output>' % ','.join(XV))
                    p.append('      <output name="Y"><outputValues><text>%s</text></outputValues></output>' % ','.join(YV))
                else:
                    p.append('      <output><outputValues><text>%s</text></outputValues>%s</output>' % (','.join(outs1), ('<defaultOutputEntry><text>%s</text></defaultOutputEntry>' % DEFAULT[numeric].replace('"', '&quot;')) if default else ''))
                for (i, o) in rules:
                    p.append('      <rule><inputEntry><text>%s</text></inputEntry>%s</rule>' % (i, ''.join('<outputEntry><text>%s</text></outputEntry>' % v.replace('"', '&quot;') for v in o)))
                p.append('    </decisionTable></decision>')
                parts.extend(p)
    parts.append('</definitions>')
    return '\n'.join(parts), decs


DEFAULT = {False: '"D"', True: '99'}


def rank(v):
    flat = XV + YV
    return flat.index(v) if v in flat else None


def prio_key(outs):
    return tuple(rank(v) if rank(v) is not None else 99 for v in outs)


def show(outs, compound):
    if compound:
        return '{X: %s, Y: %s}' % (outs[0], outs[1])
    return outs[0]


def expected(policy, rules, a, compound, in_values=False, default=None):
    m = [o for (i, o) in rules if i == '-' or i == str(a)]
    if in_values and a not in (1, 2):
        m = []   # a value outside the allowed input values matches no rule, not even one whose entry is `-`
    if not m:
        return default if default is not None else 'null'   # no rule matches: the default output entry, if the clause has one
    if policy == 'U':
        return show(m[0], compound) if len(m) == 1 else 'null'
    if policy == 'A':
        return show(m[0], compound) if all(x == m[0] for x in m) else 'null'
    if policy == 'F':
        return show(m[0], compound)
    if policy == 'P':
        return show(sorted(m, key=prio_key)[0], compound)     # sorted is stable: ties keep rule order
    if policy in ('R', 'C'):
        return '[' + ', '.join(show(x, compound) for x in m) + ']'
    if policy == 'O':
        return '[' + ', '.join(show(x, compound) for x in sorted(m, key=prio_key)) + ']'
    if policy == 'C#':
        return str(len(m))
    nums = [int(x[0]) for x in m]
    return {'C+': str(sum(nums)), 'C<': str(min(nums)), 'C>': str(max(nums))}[policy]


def main():
    ok, exe = replaydrv.build()
    if not ok:
        print('hpdiff could not run: %s' % exe)
        return 2
    cases = 0
    nfail = 0
    fails = []
    work = tempfile.mkdtemp(prefix='verif_hp_', dir='/var/tmp')
    try:
        for (policy, hp, agg) in POLICIES:
            for (compound, in_values, default, nulls) in ((False, False, False, False), (True, False, False, False), (False, True, False, False), (False, False, True, False), (True, False, False, True)):
                if compound and policy in ('C+', 'C#', 'C<', 'C>'):
                    continue
                numeric = policy in ('C+', 'C<', 'C>', 'C#')
                xml, decs = model(policy, hp, agg, compound, numeric, in_values, default, nulls)
                if nulls:
                    decs = [(n_, r_) for (n_, r_) in decs if len(r_) <= 2]   # (the model holds them all; two rules are enough here)
                path = os.path.join(work, 'm.xml')
                open(path, 'w', encoding='utf-8').write(xml)
                pr = subprocess.run([exe, 'modelbatch', path, '{A: 1}', '{A: 2}', '{A: 3}'], capture_output=True, text=True, timeout=1200)
                got = {}
                for line in pr.stdout.splitlines():
                    t = line.split('\t')
                    if len(t) == 3:
                        got[(t[0], t[1])] = t[2]
                if len(got) < 3 * len(decs):
                    print('hpdiff could not run: driver answered %d of %d results for policy %s (%s)' % (len(got), 3 * len(decs), policy, pr.stdout[:200]))
                    return 2
                for (name, rules) in decs:
                    for a in (1, 2, 3):
                        cases += 1
                        g = got[(name, '{A: %d}' % a)]
                        if nulls and policy in ('P', 'O') and len([1 for (i_, o_) in rules if i_ == '-' or i_ == str(a)]) > 1:
                            continue   # where a null output value ranks among the listed output values is not stated
                        e = expected(policy, rules, a, compound, in_values, DEFAULT[numeric] if default else None)
                        good = g.startswith('null') if e == 'null' else g == e
                        if not good:
                            nfail += 1
                            if len(fails) < 5:
                                fails.append('hit policy %s%s%s%s, rules %s, A = %d => %s (expected %s)' % (policy, ' (allowed input values 1,2)' if in_values else '', ' (default output entry)' if default else '', ' (null components)' if nulls else '', ' | '.join('%s -> %s' % (i, ','.join(o)) for (i, o) in rules), a, g[:120], e))
        # output values written as unary tests (intervals, comparisons, mixed with literals): a rule's output that satisfies them is returned as it is,
        # one that does not is null (DMN 8.2.10: output values restrict the domain of the output)
        OUTS = {1: 7, 2: 15, 3: 60}
        tests = [('[0..100]', lambda v: 0 <= v <= 100), ('&gt;= 10', lambda v: v >= 10), ('7, [10..20]', lambda v: v == 7 or 10 <= v <= 20), ('&lt; 5, &gt; 50', lambda v: v < 5 or v > 50),
                 ('(7..60)', lambda v: 7 < v < 60), ('7, 15, 60', lambda v: v in (7, 15, 60)), ('not(15)', lambda v: v != 15)]
        p_ = ['<?xml version="1.0" encoding="UTF-8"?>', '<definitions namespace="https://verif/hpout" name="hpout" id="_d" xmlns="https://www.omg.org/spec/DMN/20191111/MODEL/">',
              '  <inputData name="A" id="_A"><variable name="A" typeRef="number"/></inputData>']
        for (k, (txt, _f)) in enumerate(tests):
            for hp_ in ('UNIQUE', 'FIRST'):
                name = 'OV_%d_%s' % (k, hp_)
                rules = ''.join('<rule><inputEntry><text>%d</text></inputEntry><outputEntry><text>%d</text></outputEntry></rule>' % (a, o) for a, o in OUTS.items())
                p_.append('  <decision name="%s" id="_%s"><variable name="%s"/><informationRequirement><requiredInput href="#_A"/></informationRequirement><decisionTable hitPolicy="%s">'
                          '<input><inputExpression typeRef="number"><text>A</text></inputExpression></input><output><outputValues><text>%s</text></outputValues></output>%s</decisionTable></decision>'
                          % (name, name, name, hp_, txt, rules))
        p_.append('</definitions>')
        path = os.path.join(work, 'ov.xml')
        open(path, 'w', encoding='utf-8').write('\n'.join(p_))
        pr = subprocess.run([exe, 'modelbatch', path, '{A: 1}', '{A: 2}', '{A: 3}'], capture_output=True, text=True, timeout=600)
        got = {}
        for line in pr.stdout.splitlines():
            t = line.split('\t')
            if len(t) == 3:
                got[(t[0], t[1])] = t[2]
        for (k, (txt, f_)) in enumerate(tests):
            for hp_ in ('UNIQUE', 'FIRST'):
                for a, o in OUTS.items():
                    cases += 1
                    g = got.get(('OV_%d_%s' % (k, hp_), '{A: %d}' % a), 'no answer')
                    e = str(o) if f_(o) else 'null'
                    if not (g.startswith('null') if e == 'null' else g == e):
                        nfail += 1
                        if len(fails) < 5:
                            fails.append('hit policy %s, output values `%s`, rule output %d => %s (expected %s)' % (hp_, txt.replace('&gt;', '>').replace('&lt;', '<'), o, g[:80], e))
    finally:
        import shutil
        shutil.rmtree(work, ignore_errors=True)
    print('hpdiff cases=%d failures=%d' % (cases, nfail))
    for f in fails:
        print('FAIL ' + f)
    return 0


if __name__ == '__main__':
    sys.exit(main())
