#!/usr/bin/env python3
"""BOUNDED stand-in (not a proof) for the list / string position built-ins of C08, which also stands in when a rewritten body of
bifs/core.rs leaves the extractor's reach: sublist, substring, insert before, remove, reverse, append, concatenate, flatten, union,
distinct values, count, index of, list contains over every list of length 0..4 from {1, 2, 3} (flatten / union / concatenate also over
nested and several lists), every position -6..6 and length 0..5 (also non-integer and zero), strings with non-ASCII and supplementary
plane characters; in the positional and in the named form; compared with the definitions of DMN 1.3 table 73 / 74 written out here
(1-based positions, negative positions from the end, null outside the domain).
prints `listdiff cases=N failures=M`; exit 0 / 2."""
import itertools
import os
import sys
import tempfile

HERE = os.path.dirname(os.path.abspath(__file__))
sys.path.insert(0, os.path.dirname(HERE))
from vf import replaydrv  # noqa: E402


def show(v):
    if v is None:
        return 'null'
    if isinstance(v, bool):
        return 'true' if v else 'false'
    if isinstance(v, list):
        return '[' + ', '.join(show(x) for x in v) + ']'
    if isinstance(v, str):
        return '"' + v + '"'
    return str(v)


def start_index(n, pos):
    """0-based index of a 1-based position (negative: from the end), or None when outside 1..n / -n..-1"""
    if pos >= 1 and pos <= n:
        return pos - 1
    if pos <= -1 and pos >= -n:
        return n + pos
    return None


def sublist(xs, pos, length=None):
    i = start_index(len(xs), pos)
    if i is None:
        return None
    if length is None:
        return xs[i:]
    if length < 0 or i + length > len(xs):   # (an empty sublist is a sublist; the verified contract says the same)
        return None
    return xs[i:i + length]


def substring(s, pos, length=None):
    cs = list(s)
    i = start_index(len(cs), pos)
    if i is None:
        return None
    if length is None:
        return ''.join(cs[i:])
    if length < 1 or i + length > len(cs):
        return None
    return ''.join(cs[i:i + length])


def insert_before(xs, pos, item):
    i = start_index(len(xs), pos)
    if i is None:
        return None
    return xs[:i] + [item] + xs[i:]


def remove(xs, pos):
    i = start_index(len(xs), pos)
    if i is None:
        return None
    return xs[:i] + xs[i + 1:]


def flatten(x):
    out = []
    for e in x:
        if isinstance(e, list):
            out += flatten(e)
        else:
            out.append(e)
    return out


def distinct(xs):
    out = []
    for e in xs:
        if e not in out:
            out.append(e)
    return out


def cases():
    out = []
    lists = [list(t) for n in range(0, 5) for t in itertools.product([1, 2, 3], repeat=n) if n < 4 or t[0] == 1]
    some = [xs for xs in lists if len(xs) <= 3]
    for xs in lists:
        L = show(xs)
        out.append(('reverse(%s)' % L, show(xs[::-1])))
        out.append(('count(%s)' % L, str(len(xs))))
        out.append(('distinct values(%s)' % L, show(distinct(xs))))
        for pos in range(-6, 7):
            out.append(('sublist(%s, %d)' % (L, pos), show(sublist(xs, pos))))
            out.append(('remove(%s, %d)' % (L, pos), show(remove(xs, pos))))
            out.append(('insert before(%s, %d, 9)' % (L, pos), show(insert_before(xs, pos, 9))))
            if len(xs) <= 3:
                for ln in range(0, 6):
                    out.append(('sublist(%s, %d, %d)' % (L, pos, ln), show(sublist(xs, pos, ln))))
        for m in (1, 2, 3, 4):
            out.append(('index of(%s, %d)' % (L, m), show([i + 1 for i, e in enumerate(xs) if e == m])))
            out.append(('list contains(%s, %d)' % (L, m), show(m in xs)))
        out.append(('append(%s, 7)' % L, show(xs + [7])))
        out.append(('append(%s, 7, 8)' % L, show(xs + [7, 8])))
    for xs in some:
        for ys in some:
            out.append(('concatenate(%s, %s)' % (show(xs), show(ys)), show(xs + ys)))
            out.append(('union(%s, %s)' % (show(xs), show(ys)), show(distinct(xs + ys))))
            out.append(('flatten([%s, [%s, 4], 5])' % (show(xs), show(ys)), show(flatten([xs, [ys, 4], 5]))))
    # items that are lists themselves (also empty ones) and nulls: the position functions, concatenate, append and union treat an item as
    # ONE item whatever it is - only flatten looks inside
    ITEMS = [1, [1], [], None, [[2], 3]]
    slists = [list(t) for n in range(0, 4) for t in itertools.product(ITEMS, repeat=n) if n < 3 or t[0] != 1]
    for xs in slists:
        L = show(xs)
        out.append(('reverse(%s)' % L, show(xs[::-1])))
        out.append(('count(%s)' % L, str(len(xs))))
        out.append(('flatten(%s)' % L, show(flatten(xs))))
        out.append(('append(%s, [7])' % L, show(xs + [[7]])))
        out.append(('append(%s, [], null)' % L, show(xs + [[], None])))
        for pos in (1, 2, -1):
            out.append(('sublist(%s, %d)' % (L, pos), show(sublist(xs, pos))))
            out.append(('remove(%s, %d)' % (L, pos), show(remove(xs, pos))))
            out.append(('insert before(%s, %d, [9])' % (L, pos), show(insert_before(xs, pos, [9]))))
        for m in ([1], [], 1):
            out.append(('index of(%s, %s)' % (L, show(m)), show([i + 1 for i, e in enumerate(xs) if e == m and e is not None])))
            out.append(('list contains(%s, %s)' % (L, show(m)), show(m in xs)))
    for xs in slists:
        if len(xs) > 2:
            continue
        for ys in slists:
            if len(ys) > 2:
                continue
            out.append(('concatenate(%s, %s)' % (show(xs), show(ys)), show(xs + ys)))
            out.append(('concatenate(%s, %s, [[]])' % (show(xs), show(ys)), show(xs + ys + [[]])))
            if None not in xs + ys:
                out.append(('union(%s, %s)' % (show(xs), show(ys)), show(distinct(xs + ys))))
                out.append(('distinct values(%s)' % show(xs + ys), show(distinct(xs + ys))))
    # named forms of the position functions, non-integer / null positions
    for xs in ([1, 2, 3], [1], []):
        L = show(xs)
        for pos in (1, 2, -1, 4):
            out.append(('sublist(list: %s, start position: %d)' % (L, pos), show(sublist(xs, pos))))
            out.append(('sublist(list: %s, start position: %d, length: 1)' % (L, pos), show(sublist(xs, pos, 1))))
            out.append(('remove(list: %s, position: %d)' % (L, pos), show(remove(xs, pos))))
            out.append(('insert before(list: %s, position: %d, newItem: 9)' % (L, pos), show(insert_before(xs, pos, 9))))
        # an explicit null length is no length (outside the domain), in the named form as in the positional one
        out.append(('sublist(list: %s, start position: 1, length: null)' % L, 'null'))
        out.append(('sublist(%s, 1, null)' % L, 'null'))
        for bad in ('0', 'null', '"1"', 'true', '[1]'):
            out.append(('sublist(%s, %s)' % (L, bad), 'null'))
            out.append(('remove(%s, %s)' % (L, bad), 'null'))
            out.append(('insert before(%s, %s, 9)' % (L, bad), 'null'))
        for fn in ('reverse', 'count', 'distinct values', 'flatten'):
            out.append(('%s(null)' % fn, 'null'))
    # extreme positions and lengths: null (never a panic)
    for big in ('18446744073709551615', '18446744073709551616', '9223372036854775807', '-9223372036854775808', '10**30', '-(10**30)', '4294967296', '0.5', '1.5'):
        for xs in ([1, 2, 3], []):
            L = show(xs)
            frac = '.' in big
            out.append(('sublist(%s, %s)' % (L, big), 'null' if not frac else '!"panic"'))
            out.append(('sublist(%s, 1, %s)' % (L, big), 'null' if not frac else '!"panic"'))
            out.append(('sublist(%s, -1, %s)' % (L, big), 'null' if not frac else '!"panic"'))
            out.append(('sublist(%s, 2, %s)' % (L, big), 'null' if not frac else '!"panic"'))
            out.append(('remove(%s, %s)' % (L, big), 'null' if not frac else '!"panic"'))
            out.append(('insert before(%s, %s, 9)' % (L, big), 'null' if not frac else '!"panic"'))
        out.append(('substring("abc", %s)' % big, 'null' if not frac else '!"panic"'))
        out.append(('substring("abc", 1, %s)' % big, 'null' if not frac else '!"panic"'))
        out.append(('substring("abc", -1, %s)' % big, 'null' if not frac else '!"panic"'))
    # strings: characters, not bytes
    for s in ('', 'a', 'abc', 'ażb', '€uro', 'x\U0001F600y\U0001F600'):
        S = '"' + s + '"'
        n = len(s)
        out.append(('string length(%s)' % S, str(n)))
        for pos in range(-(n + 2), n + 3):
            out.append(('substring(%s, %d)' % (S, pos), show(substring(s, pos))))
            for ln in (0, 1, 2, n, n + 3):
                out.append(('substring(%s, %d, %d)' % (S, pos, ln), show(substring(s, pos, ln))))
        out.append(('substring(string: %s, start position: 1)' % S, show(substring(s, 1))))
    return out


def main():
    cs = cases()
    with tempfile.NamedTemporaryFile('w', suffix='.txt', delete=False, dir='/var/tmp', encoding='utf-8') as fh:
        for (e, x) in cs:
            fh.write('%s ==> %s\n' % (e, x))
        path = fh.name
    try:
        rr = replaydrv.run('feelcases', [path], timeout=1200)
    finally:
        os.unlink(path)
    if not rr.get('ok'):
        print('listdiff could not run: %s' % rr.get('error'))
        return 2
    print(rr['stdout'].replace('feelcases', 'listdiff'), end='')
    return 0


if __name__ == '__main__':
    sys.exit(main())
