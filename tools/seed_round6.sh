#!/bin/bash
# usage: seed_round6.sh <PROP>...   collect round-6 agent output (k = 11, 12), drop the worktree, evaluate
for P in "$@"; do
  for n in 1 2; do
    k=$((n+10))
    mkdir -p /verif/seeded_pending/$P/$k
    cp /tmp/seed/$P/_out/$n/* /verif/seeded_pending/$P/$k/ 2>/dev/null
  done
  git -C /repo worktree remove --force /tmp/seed/$P 2>/dev/null
  rm -rf /tmp/seed/$P
  for k in 11 12; do
    echo "=== $P-$k"
    SEED_SRC=/verif/seeded_pending/$P/$k /verif/tools/seed_eval.sh $P $k 2>&1 | tail -6
    python3 - <<PY
import json
p='/verif/seeded/$P-$k/meta.json'
m=json.load(open(p)); m["round"]=6; json.dump(m,open(p,'w'),indent=1)
PY
  done
done
