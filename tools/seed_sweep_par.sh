#!/bin/bash
# usage: seed_sweep_par.sh [workers]   like seed_sweep.sh, but with N workers, each on its own git worktree of /repo's HEAD (VERIF_REPO), its own
# build directory (VERIF_BUILD) and its own copy of the replay driver (VERIF_ALT); the properties are dealt out to the workers, so no two workers
# write the same evidence file. /repo itself is not touched. Prints one line per seed: detected / MISSED. Evidence files are restored afterwards.
cd /verif
N=${1:-4}
test -z "$(git -C /repo status --porcelain)" || { echo "/repo is dirty"; exit 3; }
PROPS=$(ls seeded | sed 's/-[0-9]*$//' | sort -u)
mkdir -p /var/tmp/swp; rm -f /var/tmp/swp/*.log
cp -r evidence /var/tmp/swp/evidence.bak
i=0
for P in $PROPS; do echo $P >> /var/tmp/swp/props.$((i % N)); i=$((i+1)); done
worker() {
  w=$1
  R=/var/tmp/swp/repo$w
  git -C /repo worktree remove --force $R 2>/dev/null; rm -rf $R
  git -C /repo worktree add -q --detach $R HEAD
  export VERIF_REPO=$R VERIF_BUILD=/var/tmp/swp/build$w VERIF_ALT=$w
  mkdir -p $VERIF_BUILD
  for P in $(cat /var/tmp/swp/props.$w); do
    for d in seeded/$P-*/; do
      n=$(basename $d)
      if ! git -C $R apply --check /verif/$d/patch.diff 2>/dev/null; then echo "$n PATCH-DOES-NOT-APPLY"; continue; fi
      git -C $R apply /verif/$d/patch.diff
      timeout 2400 python3 check.py $P --tier quick > $d/check_output.txt 2>&1; RC=$?
      git -C $R checkout -- .
      if [ $RC -eq 1 ]; then echo "$n detected ($(grep -c '^VIOLATION' $d/check_output.txt) violation lines; $(grep '^VIOLATION' $d/check_output.txt | head -1 | sed 's/.*obligation=//' | cut -c1-90))"; else echo "$n MISSED exit=$RC"; fi
    done
  done
  git -C /repo worktree remove --force $R 2>/dev/null
}
rm -f /var/tmp/swp/props.*; i=0
for P in $PROPS; do echo $P >> /var/tmp/swp/props.$((i % N)); i=$((i+1)); done
for w in $(seq 0 $((N-1))); do worker $w > /var/tmp/swp/worker$w.log 2>&1 & done
wait
cat /var/tmp/swp/worker*.log | sort
rm -rf evidence; cp -r /var/tmp/swp/evidence.bak evidence
rm -rf /var/tmp/swp/build* /verif/build/replay-alt[0-9]* /verif/build/replay-target-alt[0-9]*
