#!/bin/bash
# Offline setup: nothing to compile (the framework is Python + the pre-installed verus/kani).
set -e
cd /verif
mkdir -p build evidence replays
verus --version >/dev/null
python3 -c "import sys; assert sys.version_info >= (3, 8)"
echo setup ok
