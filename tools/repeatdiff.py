#!/usr/bin/env python3
"""BOUNDED stand-in (not a proof) for the repeatability clause of C13 - the same prepared evaluator over the same inputs gives the same value,
whatever was evaluated before - on the real code through the replay driver:

 A  expressions: every expression of the case files under replay/cases (about 330) plus a family of recursive functions at depths 5..400 are
    prepared ONCE and evaluated in 4 rounds on one thread (forward, backward, forward, backward: `feelseq`); every value must equal the value
    the same expression gives in a process of its own (one `feelseq` run per expression).
 B  decision tables whose header cells are expressions over the inputs (output values that give the PRIORITY / OUTPUT ORDER order, default
    output entries, allowed input values) and
 C  10 generated requirement graphs (knowledge models, services as functions, boxed contexts and invocations: the generator of reqgraphdiff):
    ONE model evaluator answers a sequence of 7..9 input contexts in which contexts recur (`modelbatch`); every answer must equal the answer a
    fresh evaluator gives for that context alone.

prints `repeatdiff cases=N failures=M`; exit 0 / 2."""
import glob
import os
import subprocess
import sys
import tempfile

HERE = os.path.dirname(os.path.abspath(__file__))
sys.path.insert(0, os.path.dirname(HERE))
sys.path.insert(0, HERE)
from vf import replaydrv  # noqa: E402
import reqgraphdiff as RG  # noqa: E402

TABLES = '''<?xml version="1.0" encoding="UTF-8"?>
<definitions namespace="https://verif/repeat" name="repeat" id="_defs" xmlns="https://www.omg.org/spec/DMN/20191111/MODEL/">
  <inputData name="Urgent" id="_Urgent"><variable name="Urgent" typeRef="boolean"/></inputData>
  <inputData name="Preferred" id="_Preferred"><variable name="Preferred" typeRef="string"/></inputData>
  <inputData name="Fallback" id="_Fallback"><variable name="Fallback" typeRef="string"/></inputData>
  <inputData name="Level" id="_Level"><variable name="Level" typeRef="number"/></inputData>
  <decision name="Channel" id="_Channel"><variable name="Channel" typeRef="string"/>
    <informationRequirement><requiredInput href="#_Urgent"/></informationRequirement><informationRequirement><requiredInput href="#_Preferred"/></informationRequirement><informationRequirement><requiredInput href="#_Fallback"/></informationRequirement>
    <decisionTable hitPolicy="PRIORITY"><input><inputExpression typeRef="boolean"><text>Urgent</text></inputExpression></input>
      <output><outputValues><text>Preferred, Fallback</text></outputValues><defaultOutputEntry><text>Fallback</text></defaultOutputEntry></output>
      <rule><inputEntry><text>true</text></inputEntry><outputEntry><text>Fallback</text></outputEntry></rule>
      <rule><inputEntry><text>true</text></inputEntry><outputEntry><text>Preferred</text></outputEntry></rule>
    </decisionTable></decision>
  <decision name="Channels" id="_Channels"><variable name="Channels"/>
    <informationRequirement><requiredInput href="#_Urgent"/></informationRequirement><informationRequirement><requiredInput href="#_Preferred"/></informationRequirement><informationRequirement><requiredInput href="#_Fallback"/></informationRequirement>
    <decisionTable hitPolicy="OUTPUT ORDER"><input><inputExpression typeRef="boolean"><text>Urgent</text></inputExpression></input>
      <output><outputValues><text>Fallback, Preferred</text></outputValues></output>
      <rule><inputEntry><text>true</text></inputEntry><outputEntry><text>Preferred</text></outputEntry></rule>
      <rule><inputEntry><text>-</text></inputEntry><outputEntry><text>Fallback</text></outputEntry></rule>
    </decisionTable></decision>
  <decision name="Grade" id="_Grade"><variable name="Grade" typeRef="string"/>
    <informationRequirement><requiredInput href="#_Level"/></informationRequirement><informationRequirement><requiredInput href="#_Preferred"/></informationRequirement><informationRequirement><requiredInput href="#_Fallback"/></informationRequirement>
    <decisionTable hitPolicy="FIRST"><input><inputExpression typeRef="number"><text>Level</text></inputExpression><inputValues><text>[0..Level]</text></inputValues></input>
      <output><defaultOutputEntry><text>Preferred + "/" + Fallback</text></defaultOutputEntry></output>
      <rule><inputEntry><text>&gt;= Level</text></inputEntry><outputEntry><text>Preferred</text></outputEntry></rule>
      <rule><inputEntry><text>&lt; 0</text></inputEntry><outputEntry><text>"never"</text></outputEntry></rule>
    </decisionTable></decision>
</definitions>'''
TABLE_CTXS = ['{Urgent: true, Preferred: "mail", Fallback: "phone", Level: 1}', '{Urgent: true, Preferred: "phone", Fallback: "mail", Level: 5}',
              '{Urgent: false, Preferred: "fax", Fallback: "post", Level: 0}', '{Urgent: true, Preferred: "a", Fallback: "b", Level: 7}']


def seq_of(ctxs):
    """a sequence in which every context recurs after other contexts"""
    n = len(ctxs)
    idx = list(range(n)) + list(range(n - 1, -1, -1)) + [0]
    return [ctxs[i] for i in idx]


def modelbatch(exe, path, ctxs):
    pr = subprocess.run([exe, 'modelbatch', path] + ctxs, capture_output=True, text=True, timeout=600)
    rows = []
    for line in pr.stdout.splitlines():
        t = line.split('\t')
        if len(t) == 3:
            rows.append((t[0], t[1], t[2]))
    return rows


def main():
    ok, exe = replaydrv.build()
    if not ok:
        print('repeatdiff could not run: %s' % exe)
        return 2
    cases = 0
    fails = []
    work = tempfile.mkdtemp(prefix='verif_repeat_', dir='/var/tmp')
    try:
        # ---- A: expressions
        exprs = []
        for f in sorted(glob.glob(os.path.join(os.path.dirname(HERE), 'replay', 'cases', '*.txt'))):
            for line in open(f, encoding='utf-8'):
                if ' ==> ' in line:
                    e = line.split(' ==> ')[0].strip()
                    if 'now()' in e or 'today()' in e or e in exprs:
                        continue
                    exprs.append(e)
        for k in (5, 50, 200, 250, 255, 256, 257, 300, 400, 250, 100):
            exprs.append('{f: function(n) if n <= 0 then 0 else n + f(n - 1), r: f(%d)}.r' % k)
            exprs.append('{g: function(n, acc) if n <= 0 then acc else g(n - 1, acc + n), r: g(%d, 0)}.r' % k)
        single = []
        one = os.path.join(work, 'one.txt')
        for e in exprs:
            open(one, 'w', encoding='utf-8').write(e + '\n')
            pr = subprocess.run([exe, 'feelseq', one, '1'], capture_output=True, text=True, timeout=120)
            t = pr.stdout.strip().split('\t')
            single.append(t[2] if len(t) == 3 else 'NO-ANSWER')
        allf = os.path.join(work, 'all.txt')
        open(allf, 'w', encoding='utf-8').write('\n'.join(exprs) + '\n')
        pr = subprocess.run([exe, 'feelseq', allf, '4'], capture_output=True, text=True, timeout=1200)
        rows = [l.split('\t') for l in pr.stdout.splitlines() if l.count('\t') == 2]
        if len(rows) != 4 * len(exprs):
            print('repeatdiff could not run: feelseq answered %d of %d lines (%s)' % (len(rows), 4 * len(exprs), (pr.stdout + pr.stderr)[-300:]))
            return 2
        for (r, i, v) in rows:
            cases += 1
            i = int(i)
            if v != single[i]:
                fails.append('round %s: `%s` => %s, but %s in a process of its own' % (r, exprs[i][:140], v[:100], single[i][:100]))
        # ---- B, C: models
        models = [('decision tables with header cells over the inputs', TABLES, TABLE_CTXS)]
        for k in range(10):
            m = RG.gen(700000 + k)
            ctxs = ['{' + ', '.join('%s: %d' % (n, RG.PRIMES[(k + j * 3 + q) % len(RG.PRIMES)]) for q, n in enumerate(RG.INPUTS)) + '}' for j in range(3)]
            models.append(('generated requirement graph %d' % k, RG.xml(m), ctxs))
        for (what, text, ctxs) in models:
            path = os.path.join(work, 'm.xml')
            open(path, 'w', encoding='utf-8').write(text)
            fresh = {}
            for c in ctxs:
                for (name, _c, v) in modelbatch(exe, path, [c]):
                    fresh[(name, c)] = v
            if not fresh:
                cases += 1
                fails.append('%s: no answer from a fresh evaluator' % what)
                continue
            for (name, c, v) in modelbatch(exe, path, seq_of(ctxs)):
                cases += 1
                if v != fresh.get((name, c)):
                    fails.append('%s: %s with %s => %s after other evaluations, but %s from a fresh evaluator' % (what, name, c, v[:100], str(fresh.get((name, c)))[:100]))
    finally:
        import shutil
        shutil.rmtree(work, ignore_errors=True)
    print('repeatdiff cases=%d failures=%d' % (cases, len(fails)))
    for f in fails[:40]:
        print('FAIL ' + f)
    return 0


if __name__ == '__main__':
    sys.exit(main())
