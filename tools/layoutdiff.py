#!/usr/bin/env python3
"""BOUNDED stand-in (not a proof) for the last sentence of C06 - "extra white space, line breaks and comments between tokens do not
change the tree" - at the level of the whole parser (the Verus contracts of the lexer decide layout skipping in front of a token,
not what the keyword patterns of read_next_token make of the character AFTER a keyword): 60 token sequences covering every keyword
and bracket of the expression language are laid out with 16 separators (runs of spaces, tab, line feed, CR LF, no-break and wide
spaces, line and paragraph separator, vertical tab, block comments with and WITHOUT white space around them, line comments) - in
every gap at once, in each single gap, in front and behind - and each layout must parse to the tree of the single-space layout.
The three characters that the FEEL grammar lists both as white space and as name characters (U+1680, U+180E, U+FEFF) are left out.
prints `layoutdiff cases=N failures=M`; exit 0 / 2."""
import os
import sys
import tempfile

HERE = os.path.dirname(os.path.abspath(__file__))
sys.path.insert(0, os.path.dirname(HERE))
from vf import replaydrv  # noqa: E402

LF = '\u241e'
SEQS = [
    'a + b', 'a - b * c', '- a', 'a ** b', 'a / b', 'a < b', 'a <= b', 'a = b', 'a != b', 'a >= b', 'a > b',
    'a and b', 'a or b', 'a and b or c', 'a between b and c', 'a between ( b and c ) and d', 'a between b and c and d',
    'a in [ b .. c ]', 'a in ( b .. c )', 'a in ( < b , > c )', 'a in b',
    'if a then b else c', 'if a and b then c or d else a',
    'for x~ in [ a , b ] return x + c', 'for x~ in a .. b return x', 'for x~ in [ a ] , y~ in [ b ] return x * y',
    'some x~ in [ a ] satisfies x > b', 'every x~ in [ a , b ] satisfies x = c', 'some x~ in [ a ] , y~ in [ b ] satisfies x = y',
    'function ( x~ , y~ ) x + y', 'function ( x~ : number ) x', 'function ( ) a',
    'a instance of number', 'a instance of list < number >', 'a instance of function < number > -> string', 'a instance of context < x~ : number >', 'a instance of range < number >',
    'a instance of date and time', 'a instance of years and months duration',
    '[ a , b ]', '[ ]', '{ x~ : a , y~ : b }', '{ "k" : a }', '{ }', 'a [ b ]', 'a . b~', 'sum~ ( a , b )', 'abs~ ( n~ : a )', 'sum~ ( [ a , b ] )',
    'true', 'false and null', 'null', 'not~ ( a )', '1.5 + 2', '"s" + "t"', '@ "2020-01-01"', 'date~ ( "2020-01-01" )',
    '[ a .. b ]', '( a .. b ]', '] a .. b [', '( a )', '( a + b ) * c',
]
# 'date and time', 'years and months duration' etc. are single tokens (names with spaces): kept together
KEEP = ['date and time', 'years and months duration', 'instance of']
GAPS = ['  ', '    ', '\t', LF, '\r' + LF, ' ' + LF + ' ', '\u00a0', '\u2003', '\u3000', '\u2028', '\u000b', '/*c*/', ' /*c*/ ', '/* a + b */', '//c' + LF, ' // c' + LF + ' ']


def tokens(seq):
    t = seq.split(' ')
    out = []
    i = 0
    while i < len(t):
        merged = False
        for k in KEEP:
            kk = k.split(' ')
            if t[i:i + len(kk)] == kk and k != 'instance of':
                out.append(k)
                i += len(kk)
                merged = True
                break
        if not merged:
            out.append(t[i])
            i += 1
    return out


def main():
    plan = []   # (seq index, description, text)
    for si, seq in enumerate(SEQS):
        tk = tokens(seq)
        marked = [t.endswith('~') for t in tk]
        tk = [t.rstrip('~') for t in tk]
        base = ' '.join(tk)
        plan.append((si, 'base', base))
        for g in GAPS:
            shown = g.replace(LF, '\\n').replace('\r', '\\r').replace('\t', '\\t')

            def gap(i, g=g):
                # where this separator would not be a layout of the same tokens, a single space stands in: a comment glued to a
                # name that is not bound in the parsing scope (built-in function names, parameter names, iteration variables, keys:
                # `/` and `*` are name symbols there - C10's territory), and `/` `/*c*/` reading as a line comment
                if '/' in g and (marked[i] or (tk[i].endswith('/') and not g[0].isspace())):
                    return ' '
                return g
            plan.append((si, 'every gap %r' % shown, ''.join(t + (gap(i) if i < len(tk) - 1 else '') for i, t in enumerate(tk))))
            plan.append((si, 'in front and behind %r' % shown, g + base + (' ' if '/' in g and marked[-1] else g)))
            if len(tk) > 2:
                for i in range(len(tk) - 1):
                    if gap(i) == g:
                        plan.append((si, 'gap %d %r' % (i + 1, shown), ' '.join(tk[:i + 1]) + g + ' '.join(tk[i + 1:])))
    with tempfile.NamedTemporaryFile('w', suffix='.txt', delete=False, dir='/var/tmp', encoding='utf-8', newline='') as fh:
        for (_, _, text) in plan:
            fh.write(text + '\n')
        path = fh.name
    try:
        rr = replaydrv.run('trees', [path], timeout=1200)
    finally:
        os.unlink(path)
    if not rr.get('ok'):
        print('layoutdiff could not run: %s' % rr.get('error'))
        return 2
    got = rr['stdout'].split('\n')
    if len(got) < len(plan):
        print('layoutdiff could not run: driver answered %d lines for %d layouts' % (len(got), len(plan)))
        return 2
    base = {}
    fails = []
    n = 0
    for (si, what, text), g in zip(plan, got):
        if what == 'base':
            base[si] = g
            n += 1
            if g in ('PARSE-ERROR', 'PANIC'):
                fails.append('`%s` (single spaces between all tokens) => %s' % (text, g))
            continue
        n += 1
        if g != base[si]:
            fails.append('`%s` with %s: `%s` => %s (single-space layout => %s)' % (SEQS[si].replace('~', ''), what, text.replace(LF, '\\n').replace('\r', '\\r').replace('\t', '\\t'), g[:120], base[si][:120]))
    print('layoutdiff cases=%d failures=%d' % (n, len(fails)))
    for f in fails:
        print('FAIL ' + f)
    return 0


if __name__ == '__main__':
    sys.exit(main())
