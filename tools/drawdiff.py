#!/usr/bin/env python3
"""BOUNDED stand-in (not a proof) for the part of C19 that is not under contract (Canvas::plane, recognize_horizontal_table,
builder::build): decision tables are DRAWN here as Unicode box-drawing text - rules as rows and rules as columns, 1..3 inputs,
1..2 outputs, 0..2 annotation columns, 1..3 rules, every hit policy marker, with and without information item name, with and
without allowed input / output values (rules as rows), an information item name box narrower than and exactly as wide as the table, cell texts of varying width, rule rows one to three text lines high, an input entry shared by two consecutive rules (a merged cell) in the first / last / only input column - and the real recognizer
(dmntk_recognizer::build through the replay driver) must give back the same hit policy, aggregator, orientation, input
expressions, allowed values, output label / component names, annotation names and rule entries in the same order (white space
around cell texts aside).
prints `drawdiff cases=N failures=M`; exit 0 / 2."""
import itertools
import os
import shutil
import subprocess
import sys
import tempfile

HERE = os.path.dirname(os.path.abspath(__file__))
sys.path.insert(0, os.path.dirname(HERE))
from vf import replaydrv  # noqa: E402

MARKERS = {'U': ('Unique', 'None'), 'A': ('Any', 'None'), 'P': ('Priority', 'None'), 'F': ('First', 'None'), 'R': ('RuleOrder', 'None'), 'O': ('OutputOrder', 'None'),
           'C': ('Collect(List)', 'Some(List)'), 'C+': ('Collect(Sum)', 'Some(Sum)'), 'C#': ('Collect(Count)', 'Some(Count)'), 'C<': ('Collect(Min)', 'Some(Min)'), 'C>': ('Collect(Max)', 'Some(Max)')}


def pad(text, w, k):
    """centre-ish padding that varies with k so that cell texts sit at different offsets"""
    free = w - len(text)
    left = (free * ((k % 3) + 1)) // 4
    return ' ' * left + text + ' ' * (free - left)


def horizontal(t):
    """rules as rows"""
    ni, no, na = len(t['inputs']), len(t['outputs']), len(t['annotations'])
    heads = [t['marker']] + t['inputs'] + (t['outputs'] if no > 1 else [t['label']]) + t['annotations']
    vals = None
    if t['values']:
        vals = [''] + t['input_values'] + t['output_values'] + [''] * na
    rows = [[str(i + 1)] + r[0] + r[1] + r[2] for i, r in enumerate(t['rules'])]
    ncol = len(heads)
    width = [max(max(len(l) for l in x[c].split('\n')) for x in [heads] + ([vals] if vals else []) + rows) + 2 + (c % 3) for c in range(ncol)]
    dbl = {ni}              # double line AFTER column index (0-based): after the last input
    if na:
        dbl.add(ni + no)

    def line(left, fill, mid, dmid, right, first_blank=False):
        s = left
        for c in range(ncol):
            s += (' ' if (first_blank and c == 0) else fill) * width[c]
            if c == ncol - 1:
                s += right
            else:
                s += dmid if c in dbl else mid
        return s

    def content1(cells, k):
        s = '│'
        for c in range(ncol):
            s += pad(cells[c], width[c], k + c)
            s += '║' if (c in dbl and c < ncol - 1) else '│'
        return s

    def content(cells, k):
        # a cell text may have several lines: the row is as many text lines high as its tallest cell
        h = max(len(x.split('\n')) for x in cells)
        return '\n'.join(content1([(x.split('\n') + [''] * h)[j] for x in cells], k) for j in range(h))
    out = []
    top = line('┌', '─', '┬', '╥', '┐')
    if t['name']:
        boxw = width[0] + 1 + max(2, width[1] // 2)
        boxw = max(boxw, len(t['name']) + 2)
        # the box must end on a plain horizontal line of the table's top border
        while boxw + 1 < len(top) and top[boxw + 1] != '─':
            boxw += 1
        if t.get('name_full'):
            # the box of the information item name is exactly as wide as the table
            boxw = len(top) - 2
            out.append('┌' + '─' * boxw + '┐')
            out.append('│' + pad(t['name'], boxw, 1) + '│')
            top = '├' + top[1:-1] + '┤'
        else:
            out.append('┌' + '─' * boxw + '┐')
            out.append('│' + pad(t['name'], boxw, 1) + '│')
            top = '├' + top[1:boxw + 1] + '┴' + top[boxw + 2:]
    out.append(top)
    out.append(content(heads, 0))
    if vals:
        sep = line('│', '─', '┼', '╫', '┤', first_blank=True)
        sep = sep[:width[0] + 1] + '├' + sep[width[0] + 2:]
        out.append(sep)
        out.append(content(vals, 1))
    out.append(line('╞', '═', '╪', '╬', '╡'))
    merged = t.get('merge')   # (first rule, column): that rule and the next share ONE cell in that input column (no line between them)

    def merged_sep(m):
        s_ = '├'
        for c in range(ncol):
            s_ += (' ' if c == m else '─') * width[c]
            if c == ncol - 1:
                s_ += '┤'
            else:
                lh, rh = c != m, c + 1 != m
                s_ += ({(True, True): '╫', (True, False): '╢', (False, True): '╟', (False, False): '║'} if c in dbl else {(True, True): '┼', (True, False): '┤', (False, True): '├', (False, False): '│'})[(lh, rh)]
        return s_
    for i, r in enumerate(rows):
        if merged and i == merged[0] + 1:
            r = list(r)
            r[merged[1]] = ''
        out.append(content(r, i))
        if merged and i == merged[0]:
            out.append(merged_sep(merged[1]))
        else:
            out.append(line('├', '─', '┼', '╫', '┤') if i < len(rows) - 1 else line('└', '─', '┴', '╨', '┘'))
    return '\n'.join('  ' + l for chunk in out for l in chunk.split('\n')) + '\n'


def vertical(t):
    """rules as columns (no allowed values, no information item name in this family)"""
    ni, no, na = len(t['inputs']), len(t['outputs']), len(t['annotations'])
    nr = len(t['rules'])
    lines_ = []
    for i in range(ni):
        lines_.append([t['inputs'][i]] + [r[0][i] for r in t['rules']])
    for j in range(no):
        lines_.append([(t['outputs'][j] if no > 1 else t['label'])] + [r[1][j] for r in t['rules']])
    for a in range(na):
        lines_.append([t['annotations'][a]] + [r[2][a] for r in t['rules']])
    lines_.append([t['marker']] + [str(i + 1) for i in range(nr)])
    ncol = nr + 1
    width = [max(len(l[c]) for l in lines_) + 2 + (c % 2) for c in range(ncol)]

    def line(left, fill, mid, dmid, right):
        s = left
        for c in range(ncol):
            s += fill * width[c]
            s += right if c == ncol - 1 else (dmid if c == 0 else mid)
        return s

    def content(cells, k):
        s = '│'
        for c in range(ncol):
            s += pad(cells[c], width[c], k + c)
            s += '║' if c == 0 else '│'
        return s
    out = [line('┌', '─', '┬', '╥', '┐')]
    dbl_after = {ni - 1}
    if na:
        dbl_after.add(ni + no - 1)
    for k, l in enumerate(lines_):
        out.append(content(l, k))
        if k == len(lines_) - 1:
            out.append(line('└', '─', '┴', '╨', '┘'))
        elif k in dbl_after:
            out.append(line('╞', '═', '╪', '╬', '╡'))
        else:
            out.append(line('├', '─', '┼', '╫', '┤'))
    return '\n'.join('  ' + l for l in out) + '\n'


def tables():
    ents = ['-', '>= 18', '"a b"', '[1..10]', '< 5', 'true', 'x + 1', '"H"', '12.50', 'not(1, 2)', '7', '1']
    res = []
    k = 0
    for marker in MARKERS:
        for (ni, no, na, nr) in ((1, 1, 0, 1), (2, 1, 0, 3), (3, 2, 0, 2), (2, 1, 2, 2), (1, 2, 1, 3), (3, 2, 2, 3)):
            for values in (False, True):
                for name in (None, 'Discount rate'):
                    k += 1
                    t = {'marker': marker, 'inputs': ['Input %d of %s' % (i + 1, 'x' * (i + k % 3)) for i in range(ni)],
                         'outputs': ['Out%d' % (j + 1) for j in range(no)], 'label': 'Result label', 'annotations': ['Note %d' % (a + 1) for a in range(na)],
                         'values': values, 'input_values': ['"a","b"', '< 10, >= 10', '-'][:ni] + ['-'] * max(0, ni - 3), 'output_values': ['"H", "L"', '1, 2'][:no],
                         'name': name, 'rules': []}
                    for r in range(nr):
                        t['rules'].append(([ents[(k + r + i) % len(ents)] for i in range(ni)], [ents[(k + 2 * r + j + 3) % len(ents)] for j in range(no)],
                                           ['remark %d.%d' % (r + 1, a + 1) for a in range(na)]))
                    res.append(('H', t))
                    if not values and not name:
                        res.append(('V', t))
    # an information item name box exactly as wide as the table; rule rows two and three text lines high (multi-line cells)
    base = [r for (kd, r) in res if kd == 'H'][:40]
    import copy
    for i, t0 in enumerate(base):
        if t0['name']:
            t1 = copy.deepcopy(t0)
            t1['name_full'] = True
            res.append(('H', t1))
        t2 = copy.deepcopy(t0)
        t2['rules'] = [([e + ('\nor more' if j == 0 else '') for j, e in enumerate(r[0])], [e + ('\nline two\nline three' if (j == 0 and i % 3 == 0) else '') for j, e in enumerate(r[1])], r[2]) for r in t2['rules']]
        res.append(('H', t2))
    # one input entry shared by two consecutive rules (a merged cell, as in the crate's own example EX_08): in the last input column - next to the
    # output double line -, in the first one, in a single-input table; the two rules read the same entry
    for (ni, nr, col, first) in ((1, 2, 1, 0), (1, 3, 1, 1), (2, 3, 2, 0), (2, 3, 1, 1), (3, 3, 3, 1), (3, 2, 2, 0)):
        for (marker, na) in (('U', 0), ('F', 1), ('C+', 0)):
            t = {'marker': marker, 'inputs': ['Input %d' % (i + 1) for i in range(ni)], 'outputs': ['Out'], 'label': 'Result', 'annotations': ['Note'][:na], 'values': False,
                 'input_values': ['-'] * ni, 'output_values': ['-'], 'name': None, 'rules': []}
            for r in range(nr):
                t['rules'].append(([ents[(r + i + ni) % len(ents)] for i in range(ni)], [ents[(2 * r + 5) % len(ents)]], ['remark %d' % r][:na]))
            t['rules'][first + 1][0][col - 1] = t['rules'][first][0][col - 1]
            t['merge'] = (first, col)
            res.append(('H', t))
    # score tables: integer output entries (the cells after the output double line of the last rule read like rule numbers)
    for (marker, outs) in (('C+', ['5', '10', '20']), ('C+', ['1', '2', '3']), ('F', ['3', '2']), ('U', ['2'])):
        for na in (0, 1):
            t = {'marker': marker, 'inputs': ['Age'], 'outputs': ['Score'], 'label': 'Score', 'annotations': ['Why'][:na], 'values': False, 'input_values': ['-'], 'output_values': ['-'], 'name': None,
                 'rules': [(['< %d' % (10 * (i + 1))], [o], ['because %d' % i][:na]) for i, o in enumerate(outs)]}
            res.append(('H', t))
            res.append(('V', t))
    return res


def norm(s):
    return ' '.join(s.replace('\\n', ' ').split())


def expected(kind, t):
    hp, agg = MARKERS[t['marker']]
    f = ['hp=' + hp, 'agg=' + agg, 'orient=' + ('RuleAsRow' if kind == 'H' else 'RuleAsColumn'), 'name=' + (norm(t['name']) if (t['name'] and kind == 'H') else '-')]
    no = len(t['outputs'])
    f.append('label=' + (norm(t['label']) if no == 1 else '-'))
    vals = t['values'] and kind == 'H'
    for i, e in enumerate(t['inputs']):
        f.append('in=%s|%s' % (norm(e), norm(t['input_values'][i]) if vals else '-'))
    for j, o in enumerate(t['outputs']):
        f.append('out=%s|%s' % ((norm(o) if no > 1 else '-'), norm(t['output_values'][j]) if vals else '-'))
    for a in t['annotations']:
        f.append('ann=' + norm(a))
    for r in t['rules']:
        f.append('rule=%s=>%s##%s' % ('|'.join(norm(x) for x in r[0]), '|'.join(norm(x) for x in r[1]), '|'.join(norm(x) for x in r[2])))
    return f


def main():
    ok, exe = replaydrv.build()
    if not ok:
        print('drawdiff could not run: %s' % exe)
        return 2
    ts = tables()
    work = tempfile.mkdtemp(prefix='verif_draw_', dir='/var/tmp')
    try:
        paths = []
        for i, (kind, t) in enumerate(ts):
            p = os.path.join(work, 'd%05d.txt' % i)
            with open(p, 'w', encoding='utf-8') as fh:
                fh.write(horizontal(t) if kind == 'H' else vertical(t))
            paths.append(p)
        lf = os.path.join(work, 'list.txt')
        open(lf, 'w').write('\n'.join(paths) + '\n')
        pr = subprocess.run([exe, 'recognizedump', lf], capture_output=True, text=True, timeout=1200)
        lines = pr.stdout.splitlines()
        if len(lines) != len(ts):
            print('drawdiff could not run: driver answered %d lines for %d drawings (exit %s)' % (len(lines), len(ts), pr.returncode))
            return 2
        nfail = 0
        fails = []
        for (kind, t), line, p in zip(ts, lines, paths):
            got = [norm_field(x) for x in line.split('\t')]
            exp = expected(kind, t)
            if got != exp:
                nfail += 1
                if len(fails) < 5:
                    diff = [(g, e) for g, e in itertools.zip_longest(got, exp) if g != e][:2]
                    keep = os.path.join('/verif/build', 'drawdiff_fail_%d.txt' % len(fails))
                    shutil.copy(p, keep)
                    fails.append('drawing %s (%s, marker %s, %d in / %d out / %d ann / %d rules%s%s): %s' % (keep, 'rules as rows' if kind == 'H' else 'rules as columns', t['marker'], len(t['inputs']),
                                 len(t['outputs']), len(t['annotations']), len(t['rules']), ', allowed values' if t['values'] and kind == 'H' else '', ', item name' if t['name'] and kind == 'H' else '',
                                 '; '.join('recognised %r, drawn %r' % d for d in diff) if not line.startswith(('ERROR', 'PANIC')) else line[:160]))
        print('drawdiff cases=%d failures=%d' % (len(ts), nfail))
        for f in fails:
            print('FAIL ' + f)
        return 0
    finally:
        shutil.rmtree(work, ignore_errors=True)


def norm_field(x):
    if '=' not in x:
        return x
    k, v = x.split('=', 1)
    if k in ('hp', 'agg', 'orient'):
        return x
    if k == 'rule':
        a, rest = v.split('=>', 1)
        b, c = rest.split('##', 1)
        return 'rule=%s=>%s##%s' % ('|'.join(norm(y) for y in a.split('|')), '|'.join(norm(y) for y in b.split('|')), '|'.join(norm(y) for y in c.split('|')) if c else '')
    if k in ('in', 'out'):
        a, b = v.split('|', 1)
        return '%s=%s|%s' % (k, norm(a) or '-', norm(b) or '-')
    return '%s=%s' % (k, norm(v) or '-')


if __name__ == '__main__':
    sys.exit(main())
