#!/usr/bin/env python3
"""BOUNDED stand-in (not a proof) for the boolean list built-ins all / any (C08), which also stands in when their extraction is
undecided: every list of length 0..4 over {true, false, null, 1, "a"} in the list form, the named form (list: ...) and the variadic
form (length 1..3), against DMN 1.3 Table 75: all = false if any item is false, else true if every item is true (also for the empty
list), else null; any = true if any item is true, else false if every item is false (also for the empty list), else null.
prints `boolbif cases=N failures=M` and every failure; exit 0 / 2."""
import itertools
import os
import sys
import tempfile

HERE = os.path.dirname(os.path.abspath(__file__))
sys.path.insert(0, os.path.dirname(HERE))
from vf import replaydrv  # noqa: E402

ALPHA = ['true', 'false', 'null', '1', '"a"']


def expect(fn, items):
    if fn == 'all':
        if 'false' in items:
            return 'false'
        return 'true' if all(i == 'true' for i in items) else 'null'
    if 'true' in items:
        return 'true'
    return 'false' if all(i == 'false' for i in items) else 'null'


def main():
    cases = []
    for fn in ('all', 'any'):
        for n in range(0, 5):
            for items in itertools.product(ALPHA, repeat=n):
                e = expect(fn, items)
                cases.append(('%s([%s])' % (fn, ','.join(items)), e))
                if n <= 3:
                    cases.append(('%s(list: [%s])' % (fn, ','.join(items)), e))
                if 1 <= n <= 3:
                    cases.append(('%s(%s)' % (fn, ','.join(items)), e))
    with tempfile.NamedTemporaryFile('w', suffix='.txt', delete=False, dir='/var/tmp', encoding='utf-8') as fh:
        for (x, e) in cases:
            fh.write('%s ==> %s\n' % (x, e))
        path = fh.name
    try:
        rr = replaydrv.run('feelcases', [path, 'all'], timeout=1200)
    finally:
        os.unlink(path)
    if not rr.get('ok'):
        print('boolbif could not run: %s' % rr.get('error'))
        return 2
    print(rr['stdout'].replace('feelcases', 'boolbif'), end='')
    return 0


if __name__ == '__main__':
    sys.exit(main())
