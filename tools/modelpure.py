#!/usr/bin/env python3
"""BOUNDED stand-in (not a proof) for the model half of C13: boxed invocations inside a boxed context bind their arguments in a temporary
context; whatever the invoked expression turns out to be (a function, a text, a number, an unknown name) the entries that FOLLOW see the
caller's values again, and a second invocation in the same context works as the first.
prints `modelpure cases=N failures=M`; exit 0 / 2."""
import os
import re
import sys

HERE = os.path.dirname(os.path.abspath(__file__))
sys.path.insert(0, os.path.dirname(HERE))
from vf import replaydrv  # noqa: E402

M = '/verif/replay/models/purity_invocation_%s.dmn'
CASES = [
    ('fn', '{Amount: 10}', '{Again: 11, Base: 10, Fee: 21}'),
    ('fn', '{Amount: 10, Tariff: "flat"}', '{Again: null, Base: 10, Fee: null}'),
    ('fn', '{Amount: -3}', '{Again: -2, Base: -3, Fee: -5}'),
    ('unknown', '{Amount: 10}', '{Again: 11, Base: 10, Fee: null}'),
    ('unknown', '{Amount: 10, Tariff: "flat"}', '{Again: null, Base: 10, Fee: null}'),
    ('number', '{Amount: 10}', '{Again: 11, Base: 10, Fee: null}'),
    ('number', '{Amount: 7, Tariff: 5}', '{Again: null, Base: 7, Fee: null}'),
]


def strip_null_messages(text):
    out, i = '', 0
    while i < len(text):
        if text.startswith('null(', i) and (i == 0 or not text[i - 1].isalnum()):
            depth, j = 0, i + 4
            while j < len(text):
                if text[j] == '(':
                    depth += 1
                if text[j] == ')':
                    depth -= 1
                    if depth == 0:
                        j += 1
                        break
                j += 1
            out += 'null'
            i = j
        else:
            out += text[i]
            i += 1
    return out


def main():
    fails = []
    for (m, ctx, exp) in CASES:
        rr = replaydrv.run('model', [M % m, 'Quote', ctx], timeout=120)
        if not rr.get('ok'):
            print('modelpure could not run: %s' % rr.get('error'))
            return 2
        got = strip_null_messages(rr['stdout'].strip())
        if got != 'VALUE ' + exp:
            fails.append('%s over %s => %s (expected %s)' % (os.path.basename(M % m), ctx, got[:200], exp))
    print('modelpure cases=%d failures=%d' % (len(CASES), len(fails)))
    for f in fails:
        print('FAIL ' + f)
    return 0


if __name__ == '__main__':
    sys.exit(main())
