#!/usr/bin/env python3
"""BOUNDED stand-in (not a proof) for FEEL equality (eval_ternary_equality and the operators built on it), which also stands in when
the extraction of that function is undecided: every ordered pair from a 46-value alphabet (null - written and produced by an evaluation, bare and inside lists / contexts -, booleans, numbers incl. equal numbers
spelled differently, strings, dates, durations, lists incl. nested ones, contexts with the key sets {}, {a}, {b}, {a, b} and nested
ones) under `=`, `!=` and `list contains`, against a reference written out from DMN 1.3 section 10.3.2.15 / Table 53: values of
different kinds do not compare (null), null equals only null, numbers by value, lists item by item in order (same length), contexts
entry by entry (same key set), `!=` is the three-valued negation of `=`. For pairs in which an item comparison inside a list or context
is between different kinds, what the enclosing comparison answers is not stated by the property - except that it is not `true`.
prints `eqdiff cases=N failures=M`; exit 0 / 2."""
import os
import sys
import tempfile

HERE = os.path.dirname(os.path.abspath(__file__))
sys.path.insert(0, os.path.dirname(HERE))
from vf import replaydrv  # noqa: E402

# (text, model) ; model: ('null',) ('b', x) ('n', x) ('s', x) ('d', x) ('u', x) ('l', [..]) ('c', {k: v})
N1 = ('n', 1)
N2 = ('n', 2)


def alphabet():
    # (a null that an evaluation PRODUCED carries a diagnostic message inside the value: it is the same null)
    a = [('null', ('null',)), ('substring("abc", 7)', ('null',)), ('[1, date("x")]', ('l', [N1, ('null',)])), ('[1, null]', ('l', [N1, ('null',)])), ('{a: number("x", null, null)}', ('c', {'a': ('null',)})),
         ('{a: null}', ('c', {'a': ('null',)})), ('true', ('b', True)), ('false', ('b', False)),
         ('1', N1), ('1.0', N1), ('1.00', N1), ('2', N2), ('0.5', ('n', 0.5)), ('-1', ('n', -1)),
         ('"a"', ('s', 'a')), ('"b"', ('s', 'b')), ('""', ('s', '')), ('"1"', ('s', '1')),
         ('date("2020-01-02")', ('d', '2020-01-02')), ('date("2020-01-03")', ('d', '2020-01-03')),
         ('duration("P1D")', ('u', 86400)), ('duration("PT24H")', ('u', 86400)), ('duration("P2D")', ('u', 172800)),
         ('[]', ('l', [])), ('[1]', ('l', [N1])), ('[1.0]', ('l', [N1])), ('[2]', ('l', [N2])), ('[1,2]', ('l', [N1, N2])), ('[2,1]', ('l', [N2, N1])), ('[1,2,1]', ('l', [N1, N2, N1])),
         ('[[1]]', ('l', [('l', [N1])])), ('[[1],[2]]', ('l', [('l', [N1]), ('l', [N2])])), ('[[]]', ('l', [('l', [])])),
         ('{}', ('c', {})), ('{a: 1}', ('c', {'a': N1})), ('{a: 1.0}', ('c', {'a': N1})), ('{a: 2}', ('c', {'a': N2})), ('{b: 1}', ('c', {'b': N1})),
         ('{a: 1, b: 2}', ('c', {'a': N1, 'b': N2})), ('{b: 2, a: 1}', ('c', {'a': N1, 'b': N2})), ('{a: 1, b: 1}', ('c', {'a': N1, 'b': N1})),
         ('{a: {}}', ('c', {'a': ('c', {})})), ('{a: {b: 2}}', ('c', {'a': ('c', {'b': N2})})), ('{a: {b: 2, a: 1}}', ('c', {'a': ('c', {'a': N1, 'b': N2})})),
         ('[{a: 1}]', ('l', [('c', {'a': N1})])), ('[{a: 1, b: 2}]', ('l', [('c', {'a': N1, 'b': N2})]))]
    return a


SKIP = 'skip'   # items of different kinds inside lists / contexts: what the enclosing comparison answers is not stated by the property


def eq(x, y):
    """True / False / None (do not compare) / SKIP"""
    if x[0] == 'null' or y[0] == 'null':
        return x[0] == y[0]
    if x[0] != y[0]:
        return None
    if x[0] == 'l':
        if len(x[1]) != len(y[1]):
            return False
        rs = [eq(p, q) for p, q in zip(x[1], y[1])]
        return SKIP if (None in rs or SKIP in rs) else (False not in rs)
    if x[0] == 'c':
        if set(x[1]) != set(y[1]):
            return False
        rs = [eq(x[1][k], y[1][k]) for k in x[1]]
        return SKIP if (None in rs or SKIP in rs) else (False not in rs)
    return x[1] == y[1]


def txt(b):
    return 'null' if b is None else ('true' if b else 'false')


def main():
    al = alphabet()
    cases = []
    for (tx, mx) in al:
        for (ty, my) in al:
            e = eq(mx, my)
            if e == SKIP:
                # items of different kinds meet inside: whatever the comparison answers, it is not "equal"
                cases.append(('(%s) = (%s)' % (tx, ty), '!true'))
                cases.append(('(%s) != (%s)' % (tx, ty), '!false'))
                continue
            # a literal `null` operand: `x = null` is a test for null (true / false), same as the model
            cases.append(('(%s) = (%s)' % (tx, ty), txt(e)))
            cases.append(('(%s) != (%s)' % (tx, ty), txt(None if e is None else not e)))
    lists = [(t, m) for (t, m) in al if m[0] == 'l']
    for (tl, ml) in lists:
        for (ty, my) in al:
            rs = [eq(i, my) for i in ml[1]]
            if SKIP in rs or None in rs:
                if True not in rs:
                    cases.append(('list contains(%s, %s)' % (tl, ty), '!true'))
                continue
            cases.append(('list contains(%s, %s)' % (tl, ty), txt(True in rs)))
    # the list built-ins that compare items with the same equality: index of, distinct values, union
    def render(m):
        for (t, mm) in al:
            if mm == m:
                return t
        return None
    for (tl, ml) in lists:
        for (ty, my) in al:
            rs = [eq(i, my) for i in ml[1]]
            if SKIP in rs or None in rs:
                continue
            cases.append(('index of(%s, %s)' % (tl, ty), '[' + ', '.join(str(k + 1) for k, r in enumerate(rs) if r) + ']'))
    wide = [('[1, 1.0, 2, 1]', [N1, N1, N2, N1], '[1, 2]'), ('[[1], [1.0], [2]]', None, '[[1], [2]]'), ('[{a: 1}, {a: 1.0}, {a: 1, b: 2}]', None, '[{a: 1}, {a: 1, b: 2}]'),
            ('["a", "b", "a", null, null]', None, '["a", "b", null]'), ('[[1, 2], [2, 1], [1, 2]]', None, '[[1, 2], [2, 1]]'), ('[[1], ["a"]]', None, '[[1], ["a"]]'), ('[[1, 2], [1, true]]', None, '[[1, 2], [1, true]]')]
    for (t, _, e) in wide:
        cases.append(('distinct values(%s)' % t, e))
    cases.append(('union([1, 2], [2.0, 3])', '[1, 2, 3]'))
    cases.append(('union([[1, 2]], [[1, "x"]])', '[[1, 2], [1, "x"]]'))
    cases.append(('union([{a: 1}], [{a: 1, b: 2}], [{a: 1.0}])', '[{a: 1}, {a: 1, b: 2}]'))
    cases.append(('index of([["a"], [1]], [1])', '[2]'))
    cases.append(('list contains([[1, 2], [3, 4]], [1, true])', 'false'))
    with tempfile.NamedTemporaryFile('w', suffix='.txt', delete=False, dir='/var/tmp', encoding='utf-8') as fh:
        for (x, e) in cases:
            fh.write('%s ==> %s\n' % (x, e))
        path = fh.name
    try:
        rr = replaydrv.run('feelcases', [path], timeout=1200)
    finally:
        os.unlink(path)
    if not rr.get('ok'):
        print('eqdiff could not run: %s' % rr.get('error'))
        return 2
    print(rr['stdout'].replace('feelcases', 'eqdiff'), end='')
    return 0


if __name__ == '__main__':
    sys.exit(main())
