#!/usr/bin/env python3
"""BOUNDED stand-in for C05 on the built-in functions: the names are read from feel/src/bif.rs on every run and handed to the
replay driver's `biftotal` command (every built-in x every tuple of 0..2 arguments from a 23-value grid, triples from an 8-value grid,
under catch_unwind)."""
import os, re, sys, tempfile
HERE = os.path.dirname(os.path.abspath(__file__))
sys.path.insert(0, os.path.dirname(HERE))
from vf import replaydrv
REPO = os.environ.get('VERIF_REPO', '/repo')
t = open(os.path.join(REPO, 'feel/src/bif.rs'), encoding='utf-8').read()
names = sorted(set(re.findall(r'"([a-z ]+)" => Ok\(Self::', t)))
if len(names) < 40:
    print('biftotal could not run: only %d built-in names found in bif.rs' % len(names)); sys.exit(2)
with tempfile.NamedTemporaryFile('w', suffix='.txt', delete=False, dir='/var/tmp') as fh:
    fh.write('\n'.join(names) + '\n'); path = fh.name
try:
    rr = replaydrv.run('biftotal', [path], timeout=1800)
finally:
    os.unlink(path)
if not rr.get('ok'):
    print('biftotal could not run: %s' % rr.get('error')); sys.exit(2)
out = rr['stdout']
# ---- named forms: the parameter names of every built-in are read from named.rs (the NAME_* constants its bif_* function asks for); every
# subset of 1..3 of them is bound to every tuple of a 10-value grid (the named wrappers are separate code from the positional ones)
nt = open(os.path.join(REPO, 'feel-evaluator/src/bifs/named.rs'), encoding='utf-8').read()
consts = {}
for m in re.finditer(r'static ref (NAME_\w+): Name = Name::(?:from\("([^"]*)"\)|new\(&\[([^\]]*)\]\));', nt):
    consts[m.group(1)] = m.group(2) if m.group(2) is not None else ' '.join(re.findall(r'"([^"]*)"', m.group(3)))
variant = dict((v, n) for (n, v) in re.findall(r'"([a-z ]+)" => Ok\(Self::(\w+)\)', t))
fn_of = dict(re.findall(r'Bif::(\w+) => (bif_\w+)\(parameters\)', nt))
SMALL = ['null', '0', '-1', '18446744073709551616', '"a"', '[]', '[null]', '[1,2]', '-9223372036854775808', '9223372036854775807']
import itertools
exprs = []
for (var, fn) in sorted(fn_of.items()):
    if var not in variant:
        continue
    mb = re.search(r'fn %s\(\w+: &NamedParameters\) -> Value \{(.*?)\n\}\n' % fn, nt, re.S)
    if not mb:
        continue
    pnames = []
    for c in re.findall(r'&(NAME_\w+)', mb.group(1)):
        if c in consts and consts[c] not in pnames:
            pnames.append(consts[c])
    for k in (1, 2, 3):
        for combo in itertools.combinations(pnames[:5], k):
            for vals in itertools.product(SMALL, repeat=k):
                exprs.append('%s(%s)' % (variant[var], ', '.join('%s: %s' % (n, v) for n, v in zip(combo, vals))))
if len(exprs) < 5000:
    print('biftotal could not run: only %d named calls generated from named.rs' % len(exprs)); sys.exit(2)
with tempfile.NamedTemporaryFile('w', suffix='.txt', delete=False, dir='/var/tmp', encoding='utf-8') as fh:
    fh.write('\n'.join(exprs) + '\n'); path = fh.name
try:
    r2 = replaydrv.run('feeltotal', [path], timeout=2400)
finally:
    os.unlink(path)
if not r2.get('ok'):
    print('biftotal could not run (named forms): %s' % r2.get('error')); sys.exit(2)
m1 = re.search(r'cases=(\d+) failures=(\d+)', out)
m2 = re.search(r'cases=(\d+) failures=(\d+)', r2['stdout'])
if not (m1 and m2):
    print('biftotal could not run: no summary'); sys.exit(2)
print('biftotal cases=%d failures=%d' % (int(m1.group(1)) + int(m2.group(1)), int(m1.group(2)) + int(m2.group(2))))
for l in (out + r2['stdout']).splitlines():
    if l.startswith('FAIL '):
        print(l)
