#!/usr/bin/env python3
"""BOUNDED stand-in for C05 on the built-in functions: the names are read from feel/src/bif.rs on every run and handed to the
replay driver's `biftotal` command (every built-in x every tuple of 0..2 arguments from a 23-value grid, triples from an 8-value grid,
under catch_unwind)."""
import os, re, sys, tempfile
HERE = os.path.dirname(os.path.abspath(__file__))
sys.path.insert(0, os.path.dirname(HERE))
from vf import replaydrv
REPO = os.environ.get('VERIF_REPO', '/repo')
t = open(os.path.join(REPO, 'feel/src/bif.rs'), encoding='utf-8').read()
names = sorted(set(re.findall(r'"([a-z ]+)" => Ok\(Self::', t)))
if len(names) < 40:
    print('biftotal could not run: only %d built-in names found in bif.rs' % len(names)); sys.exit(2)
with tempfile.NamedTemporaryFile('w', suffix='.txt', delete=False, dir='/var/tmp') as fh:
    fh.write('\n'.join(names) + '\n'); path = fh.name
try:
    rr = replaydrv.run('biftotal', [path], timeout=1800)
finally:
    os.unlink(path)
if not rr.get('ok'):
    print('biftotal could not run: %s' % rr.get('error')); sys.exit(2)
print(rr['stdout'], end='')
