#!/usr/bin/env python3
"""BOUNDED stand-in (not a proof) for the part of C06 that is DATA: the committed LALR tables (feel-parser/src/lalr.rs) and
the table lookups of the driver loop. For every syntax tree made of one, two or three nested operators (every ordered pair and
triple, every operand position) over the FEEL operator set

    or  and  =  <  between  in  +  -  *  /  **  unary-minus  instance of  filter [..]  path .name

with bound single-word names as leaves, the real parser (replay driver, working tree) must give the SAME tree for the fully
parenthesised rendering and for the minimally parenthesised rendering, and a DIFFERENT tree (or a syntax error) when one
needed pair of parentheses is removed. "Minimal" is computed from the %left / %right / %nonassoc / %precedence declarations read
from feel-grammar/src/feel.y on every run with the yacc conflict rule (rule precedence against look-ahead token precedence).

usage: precdiff.py [--depth 2|3]
prints `precdiff cases=N failures=M` and up to five `FAIL ...` lines; exit 0 (the caller decides), 2 if it could not run.
"""
import os
import re
import sys
import tempfile

HERE = os.path.dirname(os.path.abspath(__file__))
sys.path.insert(0, os.path.dirname(HERE))
from vf import replaydrv  # noqa: E402

REPO = os.environ.get('VERIF_REPO', '/repo')


def read_precedence():
    """token -> (level, assoc) from feel.y, later declarations bind tighter"""
    t = open(os.path.join(REPO, 'feel-grammar/src/feel.y'), encoding='utf-8').read()
    head = t.split('%%')[0]
    prec = {}
    level = 0
    for m in re.finditer(r'^%(left|right|nonassoc|precedence)\s+(.*)$', head, re.M):
        level += 1
        for tok in m.group(2).split():
            prec[tok] = (level, m.group(1))
    return prec


PREC = read_precedence()

# operator -> (kind, token that follows the left operand / that starts the construct, token giving the RULE its precedence, text)
BIN = {'or': ('OR', ' or '), 'and': ('AND', ' and '), '=': ('EQ', ' = '), '<': ('LT', ' < '), 'in': ('IN', ' in '),
       '+': ('PLUS', ' + '), '-': ('MINUS', ' - '), '*': ('MUL', ' * '), '/': ('DIV', ' / '), '**': ('EXP', ' ** ')}
OPS = list(BIN) + ['between', 'neg', 'instance', 'filter', 'path']


class T:
    def __init__(self, op, kids):
        self.op = op
        self.kids = kids


def leaf(n):
    return T('leaf', [n])


def right_open(t):
    return t.op in BIN or t.op in ('neg', 'between')


def left_open(t):
    return t.op in BIN or t.op in ('between', 'instance', 'filter', 'path')


def rule_prec(t):
    """precedence of the production that builds t (its last terminal, or %prec)"""
    if t.op in BIN:
        return PREC[BIN[t.op][0]]
    return {'neg': PREC['PREC_NEG'], 'between': PREC['BETWEEN_AND'], 'instance': PREC['INSTANCE'], 'filter': PREC['LEFT_BRACKET'], 'path': PREC['DOT']}[t.op]


def first_token(t):
    """the token that follows t's left operand (only for left-open constructs)"""
    if t.op in BIN:
        return PREC[BIN[t.op][0]]
    return {'between': PREC['BETWEEN'], 'instance': PREC['INSTANCE'], 'filter': PREC['LEFT_BRACKET'], 'path': PREC['DOT']}[t.op]


def needs_parens_left(child, follow):
    """child is the left operand of a construct whose next token has precedence `follow`: the parser must REDUCE child first"""
    if not right_open(child):
        return False
    (rl, _), (tl, ta) = rule_prec(child), follow
    if rl > tl:
        return False
    if rl == tl and ta == 'left':
        return False
    return True


def needs_parens_right(child, rule):
    """child follows a token of a production with precedence `rule`: the parser must SHIFT child's own operator"""
    if not left_open(child):
        return False
    (tl, ta), (rl, _) = first_token(child), rule
    if tl > rl:
        return False
    if tl == rl and ta == 'right':
        return False
    return True


def toplevel_and(txt):
    """a conjunction `and` outside parentheses / brackets (an `and` that closes a nested `between` is not one)"""
    depth = 0
    open_betweens = 0
    i = 0
    while i < len(txt):
        ch = txt[i]
        if ch in '([':
            depth += 1
        elif ch in ')]':
            depth -= 1
        elif depth == 0 and txt.startswith(' between ', i):
            open_betweens += 1
        elif depth == 0 and txt.startswith(' and ', i):
            if open_betweens:
                open_betweens -= 1
            else:
                return True
        i += 1
    return False


def render(t, mode, drop=None, path=()):
    """mode 'full': parentheses around every operand; 'min': only the needed ones. drop = path of one operand whose needed
    parentheses are left out. Returns (text, list of operand paths that needed parentheses)."""
    if t.op == 'leaf':
        return t.kids[0], []
    needed = []

    def operand(k, side, ctx_prec):
        c = t.kids[k]
        txt, sub = render(c, mode, drop, path + (k,))
        needed.extend(sub)
        if c.op == 'leaf':
            return txt
        if mode == 'full':
            return '(' + txt + ')'
        need = needs_parens_left(c, ctx_prec) if side == 'L' else (needs_parens_right(c, ctx_prec) if side == 'R' else False)
        if side == 'B':
            # lower bound of `between`: the first `and` outside parentheses / brackets ends it, so a bound that shows one needs parentheses
            need = toplevel_and(txt)
        if need:
            needed.append(path + (k,))
            if drop == path + (k,):
                return txt
            return '(' + txt + ')'
        return txt

    if t.op in BIN:
        tok = PREC[BIN[t.op][0]]
        return operand(0, 'L', tok) + BIN[t.op][1] + operand(1, 'R', tok), needed
    if t.op == 'neg':
        x = operand(0, 'R', PREC['PREC_NEG'])
        return ('- ' if x.startswith('-') else '-') + x, needed
    if t.op == 'instance':
        return operand(0, 'L', PREC['INSTANCE']) + ' instance of number', needed
    if t.op == 'path':
        return operand(0, 'L', PREC['DOT']) + '.y', needed
    if t.op == 'filter':
        return operand(0, 'L', PREC['LEFT_BRACKET']) + '[' + operand(1, 'N', None) + ']', needed
    if t.op == 'between':
        return operand(0, 'L', PREC['BETWEEN']) + ' between ' + operand(1, 'B', None) + ' and ' + operand(2, 'R', PREC['BETWEEN_AND']), needed
    raise ValueError(t.op)


NAMES = ['a', 'b', 'c', 'd']


def mk(op, kids):
    return T(op, kids)


def arity(op):
    return {'neg': 1, 'instance': 1, 'path': 1, 'filter': 2, 'between': 3}.get(op, 2)


def positions(op):
    """operand positions in which a nested operator is placed"""
    if op == 'filter':
        return [0]          # the index sits between brackets: no precedence question
    if op == 'between':
        return [0, 1, 2]    # the lower bound sits between BETWEEN and BETWEEN_AND: no precedence conflict, but an `and` or a nested `between` in it must stay inside its parentheses
    return list(range(arity(op)))


def build(op, inner, pos, fresh):
    kids = [leaf(fresh()) for _ in range(arity(op))]
    if inner is not None:
        kids[pos] = inner
    return mk(op, kids)


def trees(depth):
    out = []
    counter = [0]

    def fresh():
        counter[0] += 1
        return NAMES[(counter[0] - 1) % len(NAMES)]

    for p in OPS:
        counter[0] = 0
        out.append(build(p, None, 0, fresh))
        for pp in positions(p):
            for c in OPS:
                counter[0] = 0
                out.append(build(p, build(c, None, 0, fresh), pp, fresh))
                if depth >= 3:
                    for cp in positions(c):
                        for g in OPS:
                            counter[0] = 0
                            out.append(build(p, build(c, build(g, None, 0, fresh), cp, fresh), pp, fresh))
    return out


EXTENDING = [
    ('for x in a return (x in b)', 'for x in a return x in b'),
    ('for x in a return (x + b)', 'for x in a return x + b'),
    ('for x in a return (x or b)', 'for x in a return x or b'),
    ('for x in a return ((x + b) in c)', 'for x in a return x + b in c'),
    ('for x in a, y in b return (x + y)', 'for x in a, y in b return x + y'),
    ('for x in a return (for y in b return (x + y))', 'for x in a return for y in b return x + y'),
    ('for x in [a, b] return (x in c)', 'for x in [a, b] return x in c'),
    ('for x in a .. b return (x in c)', 'for x in a .. b return x in c'),
    ('some x in a satisfies (x in b)', 'some x in a satisfies x in b'),
    ('some x in a satisfies ((x = b) or c)', 'some x in a satisfies x = b or c'),
    ('some x in a, y in b satisfies (x = y)', 'some x in a, y in b satisfies x = y'),
    ('every x in a satisfies ((x + c) in b)', 'every x in a satisfies x + c in b'),
    ('every x in a satisfies ((x > b) and (x < c))', 'every x in a satisfies x > b and x < c'),
    ('every x in a satisfies (some y in b satisfies (x = y))', 'every x in a satisfies some y in b satisfies x = y'),
    ('if a then b else (c + d)', 'if a then b else c + d'),
    ('if a then b else (c or d)', 'if a then b else c or d'),
    ('if (a in b) then c else d', 'if a in b then c else d'),
    ('if ((a > b) and (c < d)) then x else y', 'if a > b and c < d then x else y'),
    ('if a then (b + c) else d', 'if a then b + c else d'),
    ('if a then b else (if c then d else x)', 'if a then b else if c then d else x'),
    ('if a then (if b then c else d) else x', 'if a then if b then c else d else x'),
    ('if a then b else (for x in c return (x + d))', 'if a then b else for x in c return x + d'),
    ('function(x) (x + a)', 'function(x) x + a'),
    ('function(x, y) ((x + y) in a)', 'function(x, y) x + y in a'),
    ('function(x) (if x then a else b)', 'function(x) if x then a else b'),
    ('(a instance of number) and b', 'a instance of number and b'),
    ('a or ((b instance of number) and c)', 'a or b instance of number and c'),
    ('(for x in a return x)[b]', '(for x in a return x)[b]'),
    ('(if a then b else c) + d', '(if a then b else c) + d'),
    # unary tests (the start symbol of input entries; `UT:` selects it in the driver): `not` is the negation keyword only as the FIRST token,
    # everywhere else not(...) is the built-in function; a comma separates tests
    ('UT:(1), (not((2)))', 'UT:1, not(2)'),
    ('UT:(a), (b), (not((c)))', 'UT:a, b, not(c)'),
    ('UT:not((1), (2))', 'UT:not(1, 2)'),
    ('UT:not((a), (not((b))))', 'UT:not(a, not(b))'),
    ('UT:< a, > b', 'UT:< a, > b'),
    ('UT:<= a, >= b, (c)', 'UT:<= a, >= b, c'),
    ('UT:[a..b], (c)', 'UT:[a..b], c'),
    ('UT:(a + b), ((c))', 'UT:a + b, c'),
    ('UT:-', 'UT:-'),
    ('UT:(a), ((not((b))) = (c))', 'UT:a, not(b) = c'),
]


# every binary operator in every operand position of the constructs that are not operators (C06: the packed tables hold one row per parser STATE, so
# the same operator is looked up in a different row after `for x in`, after `return`, inside a list ...): the operand written bare and
# in parentheses gives the same tree
ARITH = ['+', '-', '*', '/', '**']
OPS_ALL = ARITH + ['=', '!=', '<', '<=', '>', '>=', 'and', 'or']
HOLES = [('for x in %s return x', OPS_ALL), ('for x in a return %s', OPS_ALL), ('for x in %s .. c return x', ARITH), ('for x in c .. %s return x', ARITH), ('for x in a, y in %s return y', OPS_ALL),
         ('some x in %s satisfies x', OPS_ALL), ('some x in a satisfies %s', OPS_ALL), ('every x in %s satisfies x', OPS_ALL), ('every x in a satisfies %s', OPS_ALL),
         ('if %s then c else d', OPS_ALL), ('if c then %s else d', OPS_ALL), ('if c then d else %s', OPS_ALL), ('function(x) %s', OPS_ALL),
         ('[%s, c]', OPS_ALL), ('[c, %s]', OPS_ALL), ('{k: %s}', OPS_ALL), ('{k: c, m: %s}', OPS_ALL), ('c[%s]', OPS_ALL), ('f(%s)', OPS_ALL), ('f(c, %s)', OPS_ALL), ('f(p: %s)', OPS_ALL),
         ('d between %s and c', ARITH), ('d between c and %s', ARITH), ('UT:%s', ARITH), ('UT:c, %s', ARITH), ('(%s)', OPS_ALL)]
for (_t, _ops) in HOLES:
    for _op in _ops:
        EXTENDING.append((_t % ('(a %s b)' % _op), _t % ('a %s b' % _op)))


def main():
    depth = 3
    if '--depth' in sys.argv:
        depth = int(sys.argv[sys.argv.index('--depth') + 1])
    ts = trees(depth)
    lines = []
    plan = []   # (tree index, kind, text)
    for i, t in enumerate(ts):
        full, _ = render(t, 'full')
        mn, needed = render(t, 'min')
        plan.append((i, 'full', full))
        plan.append((i, 'min', mn))
        for pth in needed:
            dropped, _ = render(t, 'min', drop=pth)
            plan.append((i, 'drop', dropped))
    # the constructs that are not operators of the precedence table - if, for, some, every, function - extend as far to the right as
    # possible: (fully parenthesised, minimal) pairs written out by hand from grammar rules of DMN 1.3 section 10.3.1.2
    for (full, mn) in EXTENDING:
        plan.append((-1, 'full', full))
        plan.append((-1, 'min', mn))
    with tempfile.NamedTemporaryFile('w', suffix='.txt', delete=False, dir='/var/tmp') as fh:
        for (_, _, text) in plan:
            fh.write(text + '\n')
        path = fh.name
    try:
        rr = replaydrv.run('trees', [path], timeout=1200)
    finally:
        os.unlink(path)
    if not rr.get('ok'):
        print('precdiff could not run: %s' % rr.get('error'))
        return 2
    res = rr['stdout'].splitlines()
    if len(res) != len(plan):
        print('precdiff could not run: driver answered %d lines for %d expressions' % (len(res), len(plan)))
        return 2
    fails = []
    nfail = 0
    cases = 0
    cur_full = None
    for (i, kind, text), got in zip(plan, res):
        if kind == 'full':
            cur_full = (text, got)
            cases += 1
            if got in ('PARSE-ERROR', 'PANIC'):
                nfail += 1
                if len(fails) < int(os.environ.get("PRECDIFF_MAXFAIL", "5")):
                    fails.append('fully parenthesised `%s` => %s' % (text, got))
        elif kind == 'min':
            cases += 1
            if got != cur_full[1]:
                nfail += 1
                if len(fails) < int(os.environ.get("PRECDIFF_MAXFAIL", "5")):
                    fails.append('`%s` => %s but its fully parenthesised form `%s` => %s' % (text, got[:160], cur_full[0], cur_full[1][:160]))
        else:
            cases += 1
            if got == cur_full[1]:
                nfail += 1
                if len(fails) < int(os.environ.get("PRECDIFF_MAXFAIL", "5")):
                    fails.append('`%s` (one needed pair of parentheses removed) still parses as `%s`' % (text, cur_full[0]))
    print('precdiff cases=%d failures=%d' % (cases, nfail))
    for f in fails:
        print('FAIL ' + f)
    return 0


if __name__ == '__main__':
    sys.exit(main())
