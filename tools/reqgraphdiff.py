#!/usr/bin/env python3
"""BOUNDED stand-in (not a proof) for C04 - a decision's value is its logic over its requirement graph - on the real code through the replay
driver (command `modelbatch`: dmntk_model::parse -> ModelEvaluator::new -> evaluate_invocable for every decision and decision service):

generated acyclic requirement graphs (quick 60, thorough 600 models; seeded): 3 number inputs, 3 knowledge models (each `x * c + d` plus the
knowledge models it requires, invoked by literal expression) and a fourth that requires a decision service and calls it as a function, 7 decisions whose logic is a literal expression, a boxed context or a boxed
invocation over a random subset of the inputs, of the EARLIER decisions (so diamonds, a decision required directly and through another),
of the knowledge models and of the earlier decision services (called as functions with positional arguments), and 2 decision services (one
output or two, encapsulated decisions, input data, optionally an input decision). Every decision and service is invoked by name with two
input contexts (plus, in every model, a service called by a boxed invocation that leaves one of its inputs unbound, and a decision that requires a decision and an input data sharing a variable name) - the inputs alone, and the inputs plus entries whose names occur in no requirement closure - and compared with a reference
evaluation of the same graph in topological order written here (integers, distinct prime weights, so that a value wired to the wrong
name, evaluated over the wrong context or dropped shows in the result).
prints `reqgraphdiff cases=N failures=M`; exit 0 / 2."""
import os
import random
import subprocess
import sys
import tempfile

HERE = os.path.dirname(os.path.abspath(__file__))
sys.path.insert(0, os.path.dirname(HERE))
from vf import replaydrv  # noqa: E402

PRIMES = [2, 3, 5, 7, 11, 13, 17, 19, 23, 29, 31, 37, 41, 43, 47, 53, 59, 61, 67, 71]
INPUTS = ['In A', 'In B', 'In C']
NDEC = 7


class Model:
    pass


def gen(seed):
    rnd = random.Random(4000 + seed)
    m = Model()
    m.bkm = {}
    for j in (3, 2, 1):
        name = 'K%d' % j
        req = [k for k in ('K2', 'K3') if int(k[1]) > j and rnd.random() < 0.6]
        m.bkm[name] = {'c': rnd.choice(PRIMES[:8]), 'd': rnd.choice(PRIMES[8:]), 'req': req}
    m.bkm['K5'] = {'two': True, 'req': []}
    m.bkm['K6'] = {'boxed': True, 'req': [], 'c': rnd.choice(PRIMES[:8]), 'd': rnd.choice(PRIMES[8:])}
    m.dec = {}
    m.svc = {}
    order = []
    for k in range(1, NDEC + 1):
        name = 'Dec %d' % k
        d = {'inputs': [i for i in INPUTS if rnd.random() < 0.5], 'decs': [x for x in order if x.startswith('Dec') and rnd.random() < 0.45],
             'bkms': [b for b in ('K1', 'K2', 'K3', 'K4') if b in m.bkm and rnd.random() < 0.35], 'svcs': [s for s in m.svc if len(m.svc[s]['outs']) == 1 and rnd.random() < 0.5], 'kind': rnd.choice(['lit', 'lit', 'ctx', 'inv'])}
        terms = [('const', rnd.choice(PRIMES))]
        for n in d['inputs'] + d['decs']:
            terms.append(('var', rnd.choice(PRIMES), n))
        names = d['inputs'] + d['decs']
        for b in d['bkms']:
            terms.append(('bkm', b, names[0] if names and rnd.random() < 0.7 else rnd.choice(PRIMES)))
        for s in d['svcs']:
            sv = m.svc[s]
            terms.append(('svc', s, [rnd.choice(PRIMES) for _ in sv['params']]))
        if d['kind'] == 'inv' and not d['bkms']:
            d['kind'] = 'lit'
        # a name that occurs in no requirement closure is null for the logic, whatever the caller supplies under that name
        terms.append(('unrel',))
        if k in (1, 4) and rnd.random() < 0.8:
            # the knowledge model K6 is called with a constant and the input of its parameter's name is read AFTER the call
            d['inputs'] = sorted(set(d['inputs'] + ['In A']))
            d['bkms'] = d['bkms'] + ['K6']
            terms.append(('k6', rnd.choice(PRIMES), rnd.choice(PRIMES)))
        if k in (2, 6) and rnd.random() < 0.8:
            # a boxed invocation of the two-parameter knowledge model K5, whose parameters are NAMED like two inputs: each binding formula is
            # evaluated over the decision's own context, so `In A` in the second formula is the input, not the first parameter
            d['kind'] = 'inv2'
            d['inputs'] = ['In A', 'In B']
            d['bkms'] = ['K5']
            d['w'] = [rnd.choice(PRIMES) for _ in range(4)]
        d['terms'] = terms
        m.dec[name] = d
        order.append(name)
        # a decision service over the decisions so far, after the 3rd and the 5th decision
        if k in (3, 5):
            sname = 'Svc %d' % (1 if k == 3 else 2)
            outs = rnd.sample([x for x in order if x in m.dec], 1 if k == 3 or rnd.random() < 0.5 else 2)
            outs = sorted(outs)
            clo = []
            def closure(x):
                for r in m.dec[x]['decs']:
                    if r not in clo:
                        clo.append(r)
                        closure(r)
            for o in outs:
                closure(o)
            indec = []
            if k == 5 and clo and rnd.random() < 0.7:
                indec = [rnd.choice(clo)]
            # decisions behind an input decision need not be encapsulated; keep it simple: encapsulate everything else in the closure
            enc = [x for x in clo if x not in outs and x not in indec]
            ins = []
            for x in outs + enc:
                for i in m.dec[x]['inputs']:
                    if i not in ins:
                        ins.append(i)
            if any(m.dec[x]['svcs'] for x in outs + clo):
                # services that call services: keep (the called one is earlier), nothing special
                pass
            m.svc[sname] = {'outs': outs, 'enc': enc, 'indec': indec, 'ins': ins, 'params': ins + indec}
            order.append(sname)
            if k == 3:
                # a knowledge model that requires the first service and calls it as a function with its own argument for every parameter
                m.bkm['K4'] = {'c': rnd.choice(PRIMES[:8]), 'd': rnd.choice(PRIMES[8:]), 'req': [b for b in ('K2',) if rnd.random() < 0.5], 'svc': sname}
    m.order = order
    # a sink decision whose logic is a boxed relation: columns named like an input and like a required decision; every cell is evaluated over
    # the decision's own context, so `In A` in the second cell is the input, not the first cell
    m.rel = {'w': [rnd.choice(PRIMES) for _ in range(3)], 'dec': 'Dec 1'}
    # appendix (the same shape in every model, random weights): a service called by a boxed invocation that binds only ONE of its two inputs while
    # the caller has the other under the same name (unbound = null inside the service); a decision that requires a decision and an input data
    # whose variables share a name (nothing supplied under it: the required decision's own value)
    m.app = {'w': [rnd.choice(PRIMES) for _ in range(6)]}
    return m


def expr_text(m, d):
    parts = []
    for t in d['terms']:
        if t[0] == 'const':
            parts.append(str(t[1]))
        elif t[0] == 'var':
            parts.append('%d * %s' % (t[1], t[2]))
        elif t[0] == 'unrel':
            parts.append('(if Unrelated = null then 0 else 1000003)')
        elif t[0] == 'k6':
            parts.append('K6(%d) + %d * In A' % (t[1], t[2]))
        elif t[0] == 'bkm':
            parts.append('%s(%s)' % (t[1], t[2]))
        else:
            sv = m.svc[t[1]]
            call = '%s(%s)' % (t[1], ', '.join(str(a) for a in t[2]))
            if len(sv['outs']) == 1:
                parts.append(call)
            else:
                parts.append(' + '.join('%s.%s' % (call, o) for o in sv['outs']))
    return ' + '.join(parts)


def xml(m):
    out = ['<?xml version="1.0" encoding="UTF-8"?>', '<definitions namespace="https://verif/reqgraph" name="reqgraph" id="_defs" xmlns="https://www.omg.org/spec/DMN/20191111/MODEL/">']
    ident = lambda n: '_' + n.replace(' ', '_')
    for i in INPUTS:
        out.append('  <inputData name="%s" id="%s"><variable name="%s" typeRef="number"/></inputData>' % (i, ident(i), i))
    for (n, b) in m.bkm.items():
        if b.get('boxed'):
            # K6(In A) = {t: In A * c, <result>: t + d}: a boxed context with a result entry; its parameter bears the name of an input
            out.append('  <businessKnowledgeModel name="K6" id="_K6"><variable name="K6"/><encapsulatedLogic><formalParameter name="In A" typeRef="number"/>'
                       '<context><contextEntry><variable name="t"/><literalExpression><text>In A * %d</text></literalExpression></contextEntry>'
                       '<contextEntry><literalExpression><text>t + %d</text></literalExpression></contextEntry></context></encapsulatedLogic></businessKnowledgeModel>' % (b['c'], b['d']))
            continue
        if b.get('two'):
            out.append('  <businessKnowledgeModel name="K5" id="_K5"><variable name="K5"/><encapsulatedLogic><formalParameter name="In A" typeRef="number"/><formalParameter name="In B" typeRef="number"/>'
                       '<literalExpression><text>In A * 3 + In B * 5</text></literalExpression></encapsulatedLogic></businessKnowledgeModel>')
            continue
        reqs = ''.join('<knowledgeRequirement><requiredKnowledge href="#%s"/></knowledgeRequirement>' % ident(r) for r in b['req'] + ([b['svc']] if b.get('svc') else []))
        body = 'x * %d + %d' % (b['c'], b['d']) + ''.join(' + %s(x)' % r for r in b['req'])
        if b.get('svc'):
            body += ' + %s(%s)' % (b['svc'], ', '.join('x' for _ in m.svc[b['svc']]['params']))
        out.append('  <businessKnowledgeModel name="%s" id="%s"><variable name="%s"/><encapsulatedLogic><formalParameter name="x" typeRef="number"/>'
                   '<literalExpression><text>%s</text></literalExpression></encapsulatedLogic>%s</businessKnowledgeModel>' % (n, ident(n), n, body, reqs))
    for n in m.order:
        if n in m.dec:
            d = m.dec[n]
            reqs = ''.join('<informationRequirement><requiredInput href="#%s"/></informationRequirement>' % ident(i) for i in d['inputs'])
            reqs += ''.join('<informationRequirement><requiredDecision href="#%s"/></informationRequirement>' % ident(r) for r in d['decs'])
            reqs += ''.join('<knowledgeRequirement><requiredKnowledge href="#%s"/></knowledgeRequirement>' % ident(r) for r in d['bkms'] + d['svcs'])
            if d['kind'] == 'lit':
                logic = '<literalExpression><text>%s</text></literalExpression>' % expr_text(m, d)
            elif d['kind'] == 'ctx':
                # boxed context: every term is an entry, the result is their sum
                ents, names = [], []
                for k, t in enumerate(d['terms']):
                    en = 'part %d' % k
                    names.append(en)
                    ents.append('<contextEntry><variable name="%s"/><literalExpression><text>%s</text></literalExpression></contextEntry>' % (en, expr_text(m, {'terms': [t]})))
                logic = '<context>%s<contextEntry><literalExpression><text>%s</text></literalExpression></contextEntry></context>' % (''.join(ents), ' + '.join(names))
            elif d['kind'] == 'inv2':
                w = d['w']
                logic = ('<invocation><literalExpression><text>K5</text></literalExpression>'
                         '<binding><parameter name="In A"/><literalExpression><text>In A * %d + %d</text></literalExpression></binding>'
                         '<binding><parameter name="In B"/><literalExpression><text>In A * %d + In B * %d</text></literalExpression></binding></invocation>' % (w[0], w[1], w[2], w[3]))
            else:
                # boxed invocation of the first knowledge model, the other terms in the binding expression
                t0 = [t for t in d['terms'] if t[0] == 'bkm'][0]
                rest = [t for t in d['terms'] if t is not t0]
                # value = K(arg) + rest: a knowledge model is affine, so bind x to arg and add the rest outside is not expressible in one boxed
                # invocation; instead the whole decision is K(arg0) where arg0 = the sum of ALL other terms (the reference does the same)
                logic = ('<invocation><literalExpression><text>%s</text></literalExpression><binding><parameter name="x"/><literalExpression><text>%s</text></literalExpression></binding></invocation>'
                         % (t0[1], expr_text(m, {'terms': rest})))
            out.append('  <decision name="%s" id="%s"><variable name="%s" typeRef="number"/>%s%s</decision>' % (n, ident(n), n, reqs, logic))
        else:
            s = m.svc[n]
            body = ''.join('<outputDecision href="#%s"/>' % ident(o) for o in s['outs']) + ''.join('<encapsulatedDecision href="#%s"/>' % ident(o) for o in s['enc'])
            body += ''.join('<inputDecision href="#%s"/>' % ident(o) for o in s['indec']) + ''.join('<inputData href="#%s"/>' % ident(o) for o in s['ins'])
            out.append('  <decisionService name="%s" id="%s"><variable name="%s"/>%s</decisionService>' % (n, ident(n), n, body))
    w = m.rel['w']
    cells = [['In A + %d' % w[0], 'Dec 1 + In A', 'Dec 1 + %d * In A' % w[1]], ['%d' % w[2], 'In B', 'In A']]
    rows = ''.join('<row>' + ''.join('<literalExpression><text>%s</text></literalExpression>' % c for c in r) + '</row>' for r in cells)
    out.append('  <decision name="Rel" id="_Rel"><variable name="Rel"/><informationRequirement><requiredInput href="#_In_A"/></informationRequirement><informationRequirement><requiredInput href="#_In_B"/></informationRequirement>'
               '<informationRequirement><requiredDecision href="#_Dec_1"/></informationRequirement><relation><column name="In A"/><column name="Dec 1"/><column name="total"/>%s</relation></decision>' % rows)
    a = m.app['w']
    req_in = lambda *ids: ''.join('<informationRequirement><requiredInput href="#%s"/></informationRequirement>' % i for i in ids)
    out.append('  <decision name="Pick" id="_Pick"><variable name="Pick"/>%s<literalExpression><text>if In A = null then In B * %d else In A * %d + In B</text></literalExpression></decision>' % (req_in('_In_A', '_In_B'), a[0], a[1]))
    out.append('  <decisionService name="Picking" id="_Picking"><variable name="Picking"/><outputDecision href="#_Pick"/><inputData href="#_In_A"/><inputData href="#_In_B"/></decisionService>')
    out.append('  <decision name="Half Caller" id="_Half_Caller"><variable name="Half Caller"/>%s<knowledgeRequirement><requiredKnowledge href="#_Picking"/></knowledgeRequirement>'
               '<invocation><literalExpression><text>Picking</text></literalExpression><binding><parameter name="In B"/><literalExpression><text>In A * %d</text></literalExpression></binding></invocation></decision>' % (req_in('_In_A'), a[2]))
    out.append('  <inputData name="Cap input" id="_Cap_input"><variable name="Cap" typeRef="number"/></inputData>')
    out.append('  <decision name="Cap" id="_Cap"><variable name="Cap" typeRef="number"/>%s<literalExpression><text>In A * %d + 1</text></literalExpression></decision>' % (req_in('_In_A'), a[3]))
    out.append('  <decision name="Cap Check" id="_Cap_Check"><variable name="Cap Check"/><informationRequirement><requiredDecision href="#_Cap"/></informationRequirement>%s'
               '<literalExpression><text>if Cap = null then -1 else Cap * %d</text></literalExpression></decision>' % (req_in('_Cap_input'), a[4]))
    out.append('  <decision name="Cap Report" id="_Cap_Report"><variable name="Cap Report"/><informationRequirement><requiredDecision href="#_Cap_Check"/></informationRequirement>'
               '<literalExpression><text>Cap Check + %d</text></literalExpression></decision>' % a[5])
    out.append('</definitions>')
    return '\n'.join(out)


def ev_bkm(m, n, x):
    b = m.bkm[n]
    v = x * b['c'] + b['d'] + sum(ev_bkm(m, r, x) for r in b['req'])
    if b.get('svc'):
        sv = m.svc[b['svc']]
        v += ev_svc(m, b['svc'], {p_: x for p_ in sv['params']})
    return v


def ev_term(m, t, env):
    if t[0] == 'const':
        return t[1]
    if t[0] == 'var':
        return t[1] * env[t[2]]
    if t[0] == 'unrel':
        return 0
    if t[0] == 'k6':
        b = m.bkm['K6']
        return t[1] * b['c'] + b['d'] + t[2] * env['In A']
    if t[0] == 'bkm':
        return ev_bkm(m, t[1], env[t[2]] if isinstance(t[2], str) else t[2])
    sv = m.svc[t[1]]
    r = ev_svc(m, t[1], dict(zip(sv['params'], t[2])))
    return r if len(sv['outs']) == 1 else sum(r[o] for o in sv['outs'])


def ev_dec(m, n, inp):
    d = m.dec[n]
    env = {}
    for i in d['inputs']:
        env[i] = inp[i]
    for r in d['decs']:
        env[r] = inp[r] if r in inp else ev_dec(m, r, inp)   # a decision service binds its input decisions to the supplied values
    if d['kind'] == 'inv2':
        w = d['w']
        return (env['In A'] * w[0] + w[1]) * 3 + (env['In A'] * w[2] + env['In B'] * w[3]) * 5
    if d['kind'] == 'inv':
        t0 = [t for t in d['terms'] if t[0] == 'bkm'][0]
        rest = [t for t in d['terms'] if t is not t0]
        return ev_bkm(m, t0[1], sum(ev_term(m, t, env) for t in rest))
    return sum(ev_term(m, t, env) for t in d['terms'])


def ev_svc(m, n, inp):
    s = m.svc[n]
    vals = {o: ev_dec(m, o, inp) for o in s['outs']}
    return vals[s['outs'][0]] if len(s['outs']) == 1 else vals


def show(v):
    if isinstance(v, dict):
        return '{' + ', '.join('%s: %s' % (k, show(v[k])) for k in sorted(v)) + '}'
    return str(v)


def main():
    a = sys.argv[1:]
    n = 60
    seed = 0
    if '--size' in a and a[a.index('--size') + 1] == 'thorough':
        n = 600
    if '--seed' in a:
        seed = int(a[a.index('--seed') + 1])
    ok, exe = replaydrv.build()
    if not ok:
        print('reqgraphdiff could not run: %s' % exe)
        return 2
    work = tempfile.mkdtemp(prefix='verif_reqgraph_', dir='/var/tmp')
    cases = 0
    fails = []
    try:
        for k in range(n):
            m = gen(seed * 100000 + k)
            rnd = random.Random(k)
            inp = {i: rnd.choice(PRIMES) for i in INPUTS}
            base = '{' + ', '.join('%s: %d' % (i, inp[i]) for i in INPUTS) + '}'
            extra = '{' + ', '.join('%s: %d' % (i, inp[i]) for i in INPUTS) + ', Unrelated: 77, Other Thing: "x", K9: 5, Dec 99: 1000}'
            path = os.path.join(work, 'm%d.xml' % k)
            open(path, 'w', encoding='utf-8').write(xml(m))
            # a third context supplies a value for every input decision of a service (their caller's business): only these services are compared under it
            supplied = {}
            for sv in m.svc.values():
                for x in sv['indec']:
                    supplied[x] = rnd.choice(PRIMES) * 1000
            third = '{' + ', '.join(['%s: %d' % (i, inp[i]) for i in INPUTS] + ['%s: %d' % (x, v) for x, v in supplied.items()]) + '}'
            pr = subprocess.run([exe, 'modelbatch', path, base, extra, third], capture_output=True, text=True, timeout=600)
            got = {}
            for line in pr.stdout.splitlines():
                t = line.split('\t')
                if len(t) == 3:
                    got[(t[0], t[1])] = t[2]
            if not got:
                cases += 1
                fails.append('model %d: %s' % (k, (pr.stdout + pr.stderr).strip()[:200].replace('\n', ' ')))
                continue
            for c in (base, extra):
                for name in m.order:
                    if name in m.svc and m.svc[name]['indec']:
                        continue   # the input decisions of a service are supplied by its caller: compared below, with their values in the context
                    cases += 1
                    # invoked by name, a decision service computes its input decisions from the inputs like any other decision
                    want = show(ev_dec(m, name, inp) if name in m.dec else ev_svc(m, name, inp))
                    g = got.get((name, c))
                    if g != want:
                        fails.append('model %d (seed %d) %s with %s => %s (expected %s); logic: %s' % (k, seed, name, c, (g or 'no answer')[:80], want,
                                     expr_text(m, m.dec[name])[:160] if name in m.dec else 'service %r' % m.svc[name]))
            for c in (base, extra):
                cases += 1
                d1 = ev_dec(m, 'Dec 1', inp)
                w = m.rel['w']
                want = '[{Dec 1: %d, In A: %d, total: %d}, {Dec 1: %d, In A: %d, total: %d}]' % (d1 + inp['In A'], inp['In A'] + w[0], d1 + w[1] * inp['In A'], inp['In B'], w[2], inp['In A'])
                g = got.get(('Rel', c))
                if g != want:
                    fails.append('model %d (seed %d) Rel (boxed relation) with %s => %s (expected %s)' % (k, seed, c, (g or 'no answer')[:120], want))
            a_ = m.app['w']
            cap = inp['In A'] * a_[3] + 1
            appendix = {'Pick': inp['In A'] * a_[1] + inp['In B'], 'Picking': inp['In A'] * a_[1] + inp['In B'], 'Half Caller': inp['In A'] * a_[2] * a_[0],
                        'Cap': cap, 'Cap Check': cap * a_[4], 'Cap Report': cap * a_[4] + a_[5]}
            for c in (base, extra):
                for (name, want) in appendix.items():
                    cases += 1
                    g = got.get((name, c))
                    if g != str(want):
                        fails.append('model %d (seed %d) %s (appendix: a service called with one input unbound / a decision and an input sharing a name) with %s => %s (expected %d)' % (k, seed, name, c, (g or 'no answer')[:80], want))
            for name in m.order:
                if name in m.svc and m.svc[name]['indec']:
                    cases += 1
                    inp3 = dict(inp)
                    inp3.update(supplied)
                    want = show(ev_svc(m, name, inp3))
                    g = got.get((name, third))
                    if g != want:
                        fails.append('model %d (seed %d) %s with %s => %s (expected %s); service %r' % (k, seed, name, third, (g or 'no answer')[:80], want, m.svc[name]))
            os.unlink(path)
    finally:
        import shutil
        shutil.rmtree(work, ignore_errors=True)
    print('reqgraphdiff cases=%d failures=%d' % (cases, len(fails)))
    for f in fails[:50]:
        print('FAIL ' + f)
    return 0


if __name__ == '__main__':
    sys.exit(main())
