#!/bin/bash
# usage: seed_round8.sh <PROP> <k1> <k2>   collect round-8 agent output (_out/1 -> k1, _out/2 -> k2), drop the agent's worktree, confirm and evaluate
# on scratch worktrees (seed_eval_wt.sh: /repo itself is not touched)
P=$1; K1=$2; K2=$3
for pair in "1 $K1" "2 $K2"; do
  set -- $pair
  mkdir -p /verif/seeded/$P-$2
  cp /tmp/seed/$P/_out/$1/* /verif/seeded/$P-$2/ 2>/dev/null
done
git -C /repo worktree remove --force /tmp/seed/$P 2>/dev/null
rm -rf /tmp/seed/$P
for k in $K1 $K2; do
  echo "=== $P-$k"
  test -f /verif/seeded/$P-$k/patch.diff || { echo "no patch delivered"; rmdir /verif/seeded/$P-$k 2>/dev/null; continue; }
  bash /verif/tools/seed_eval_wt.sh $P $k 2>&1 | tail -8
  python3 - <<PY
import json
p='/verif/seeded/$P-$k/meta.json'
m=json.load(open(p)); m["round"]=8; json.dump(m,open(p,'w'),indent=1)
PY
done
