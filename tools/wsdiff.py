#!/usr/bin/env python3
"""BOUNDED stand-in (not a proof) for C17 (and the definitions half of C18), which also stands in when a rewritten body of
workspace.rs leaves the extractor's reach: every sequence of up to N operations (quick 3, thorough 4) over

    add / replace of the five models (n1,a) (n1,b) (n2,a) (n2,b) (n3,bad - parses, does not build), remove of the pairs
    (n1,a) (n1,b) (n2,a) (n2,b) (n9,z) (n9,a) (n1,z), clear, deploy

is run on the real Workspace, followed by the probe  eval a, eval b, deploy, eval a, eval b, eval bad, eval n1, eval n2 (namespaces name nothing), add of each of the
four good models, deploy, eval a, eval b, eval n1;  every answer (ok / err) is compared with a reference written out from the property: a model can be
added iff no stored model has its namespace or its name; remove drops every stored model that has the namespace or the name;
replace = remove + add; evaluation is possible exactly for the models that were stored at the last deploy and build, no
successful modification having happened since (a rejected add is not a modification; what a remove that removes nothing does
to the deployed models is not stated: evaluations are not compared until the next deploy then). A second family runs every history of
up to 3 operations over two models whose namespaces and names differ by surrounding white space only.
prints `wsdiff cases=N failures=M`; exit 0 / 2."""
import itertools
import os
import sys
import tempfile

HERE = os.path.dirname(os.path.abspath(__file__))
sys.path.insert(0, os.path.dirname(HERE))
from vf import replaydrv  # noqa: E402

GOOD = [('n1', 'a'), ('n1', 'b'), ('n2', 'a'), ('n2', 'b')]
MODELS = GOOD + [('n3', 'bad')]
PAIRS = GOOD + [('n9', 'z'), ('n9', 'a'), ('n1', 'z')]   # also a pair that matches a stored model by its name only / by its namespace only
OPS = ['add:%s,%s' % m for m in MODELS] + ['replace:%s,%s' % m for m in MODELS] + ['remove:%s,%s' % p for p in PAIRS] + ['clear', 'deploy']
# (a model is evaluated by its NAME: a namespace of a deployed model names nothing - eval:n1, eval:n2)
PROBE = ['eval:a', 'eval:b', 'deploy', 'eval:a', 'eval:b', 'eval:bad', 'eval:n1', 'eval:n2'] + ['add:%s,%s' % m for m in GOOD] + ['deploy', 'eval:a', 'eval:b', 'eval:n1']


def reference(ops):
    stored = []           # [(ns, name)]
    deployed = set()      # names that evaluate
    known = True          # False: evaluation answers not stated until the next deploy
    out = []
    for op in ops:
        cmd, _, rest = op.partition(':')
        ns, _, name = rest.partition(',')
        if cmd == 'add':
            if any(s[0] == ns or s[1] == name for s in stored):
                out.append('err')
            else:
                stored.append((ns, name))
                deployed = set()
                out.append('ok')
        elif cmd == 'remove':
            keep = [s for s in stored if s[0] != ns and s[1] != name]
            if len(keep) == len(stored):
                known = False
            else:
                deployed = set()
            stored = keep
            out.append('()')
        elif cmd == 'replace':
            stored = [s for s in stored if s[0] != ns and s[1] != name]
            stored.append((ns, name))
            deployed = set()
            out.append('ok')
        elif cmd == 'clear':
            stored = []
            deployed = set()
            out.append('()')
        elif cmd == 'deploy':
            deployed = set(s[1] for s in stored if not s[1].startswith('bad'))
            known = True
            out.append('ok')
        elif cmd == 'eval':
            out.append(('ok' if rest in deployed else 'err') if known else '*')
    return out


def main():
    n = 3
    if '--len' in sys.argv:
        n = int(sys.argv[sys.argv.index('--len') + 1])
    seqs = []
    for k in range(0, n + 1):
        for t in itertools.product(OPS, repeat=k):
            seqs.append(list(t) + PROBE)
    # namespaces and names with surrounding white space (`~` stands for a space): the texts are taken as they are written, so ( n5 , c ) and
    # (n5,c) are different models that can be stored side by side, and each is removed by its own text only
    W = [('~n5~', '~c~'), ('n5', 'c')]
    wops = ['add:%s,%s' % m for m in W] + ['replace:%s,%s' % m for m in W] + ['remove:%s,%s' % m for m in W] + ['deploy']
    wprobe = ['eval:~c~', 'eval:c', 'deploy', 'eval:~c~', 'eval:c'] + ['add:%s,%s' % m for m in W] + ['deploy', 'eval:~c~', 'eval:c']
    for k in range(1, min(n, 3) + 1):
        for t in itertools.product(wops, repeat=k):
            seqs.append(list(t) + wprobe)
    with tempfile.NamedTemporaryFile('w', suffix='.txt', delete=False, dir='/var/tmp') as fh:
        for s in seqs:
            fh.write(' '.join(s) + '\n')
        path = fh.name
    try:
        rr = replaydrv.run('workspacebatch', [path], timeout=3000)
    finally:
        os.unlink(path)
    if not rr.get('ok'):
        print('wsdiff could not run: %s' % rr.get('error'))
        return 2
    got = rr['stdout'].splitlines()
    if len(got) != len(seqs):
        print('wsdiff could not run: driver answered %d lines for %d sequences' % (len(got), len(seqs)))
        return 2
    fails = []
    for s, g in zip(seqs, got):
        exp = reference(s)
        gs = g.split('|')
        bad = None
        if g == 'PANIC' or len(gs) != len(exp):
            bad = 'answered %s' % g[:80]
        else:
            for i, (e, a) in enumerate(zip(exp, gs)):
                if e != '*' and e != a:
                    bad = 'operation %d `%s` answered %s (expected %s)' % (i + 1, s[i], a, e)
                    break
        if bad:
            fails.append('%s : %s' % (' '.join(s), bad))
    print('wsdiff cases=%d failures=%d' % (len(seqs), len(fails)))
    for f in fails:
        print('FAIL ' + f)
    return 0


if __name__ == '__main__':
    sys.exit(main())
