#!/usr/bin/env python3
"""BOUNDED stand-in (not a proof) for the parts of C05 that sit in chrono / regex / string code or need a clock to observe: generated
expressions must each answer (a value or an error) within 10 seconds - no panic, no hang.

  A  iteration: for / some / every over 1..3 iteration contexts mixing lists, ascending and DESCENDING ranges and empty domains (the
     odometer of FeelIterator), with domains whose size product stays below 1000
  B  named zones around daylight-saving transitions: date-and-time and time values of five zones at every half hour in the five hours
     around each 2021 transition (also the non-existent and the ambiguous local times), compared, subtracted, rendered, shifted
  C  maximal durations: years-and-months and days-and-time literals with 1..20-digit components, negated, added, multiplied, rendered
  D  time offsets: time(h, m, s, offset) with offsets up to and beyond a day and at the i32 limits, compared, rendered, read back
  E  extreme dates: arithmetic at the ends of the year range, huge number arguments of date / time / duration constructors
  F  the three-argument time() and date() with fractional and repeating-decimal components
  I  control characters (NUL, C0, DEL, NEL, BOM) inside the string arguments of the functions that hand text to the decimal library, to
     regex and to chrono (number, date, time, duration, matches, replace, split, ...)
  H  context literals with unusual keys (empty, blank, symbols only, keywords) followed by more entries, names and paths
  G  nesting depth 50 and 200 of every nesting construct (parentheses, lists, contexts, negation, if, arithmetic, invocation, function
     definition, for, some, filter, path, between, in, type names) and long literals, each in its own driver process: no stack overflow

prints `feeltotal cases=N failures=M`; exit 0 / 2."""
import os
import sys
import tempfile

HERE = os.path.dirname(os.path.abspath(__file__))
sys.path.insert(0, os.path.dirname(HERE))
from vf import replaydrv  # noqa: E402


def cases():
    out = []
    # ---- A
    doms = ['[1,2,3]', '[]', '1..3', '3..1', '2..2', '[10,20]', '0..-2', '-1..1']
    for a in doms:
        out.append('for x in %s return x' % a)
        out.append('some x in %s satisfies x > 1' % a)
        for b in doms:
            out.append('for x in %s, y in %s return x + y' % (a, b))
            out.append('every x in %s, y in %s satisfies x + y > 0' % (a, b))
            for c in ('[1,2]', '2..1', '1..2', '[]'):
                out.append('for x in %s, y in %s, z in %s return x + y + z' % (a, b, c))
                out.append('some x in %s, y in %s, z in %s satisfies x + y + z > 100' % (a, b, c))
    out.append('for x in 1..10, y in 10..1, z in 1..9 return x * y * z')
    out.append('for x in 1..3, y in x..1 return y')
    out.append('for x in 3..1, y in 1..x return y')
    # ---- B
    trans = {'Europe/Warsaw': ['2021-03-28', '2021-10-31'], 'America/New_York': ['2021-03-14', '2021-11-07'], 'Australia/Lord_Howe': ['2021-04-04', '2021-10-03'],
             'America/Sao_Paulo': ['2018-11-04', '2019-02-17'], 'Asia/Kolkata': ['2021-06-01'], 'Pacific/Apia': ['2011-12-30', '2011-12-31']}
    for z, days in trans.items():
        for d in days:
            for h in range(0, 5):
                for m in ('00', '30'):
                    x = 'date and time("%sT%02d:%s:00@%s")' % (d, h, m, z)
                    u = 'date and time("%sT%02d:%s:00Z")' % (d, h, m)
                    out += ['%s = %s' % (x, x), '%s < %s' % (x, u), '%s - %s' % (x, u), '%s - %s' % (u, x), 'string(%s)' % x, '%s + duration("PT1H")' % x, '%s - duration("P1D")' % x,
                            '%s in [%s..%s]' % (x, u, x), 'day of week(%s)' % x, '%s.time offset' % x, '%s.timezone' % x, 'time(%s)' % x, 'date(%s)' % x,
                            'date and time(date("%s"), time("%02d:%s:00@%s"))' % (d, h, m, z)]
                    t = 'time("%02d:%s:00@%s")' % (h, m, z)
                    out += ['%s = %s' % (t, t), '%s < time("%02d:%s:00Z")' % (t, h, m), '%s - time("%02d:%s:00Z")' % (t, h, m), 'string(%s)' % t, '%s.time offset' % t]
    # ---- C
    for n in range(1, 21):
        nine = '9' * n
        for lit in ('P%sY' % nine, 'P%sM' % nine, 'P%sY%sM' % (nine, nine), '-P%sY' % nine, 'P%sD' % nine, 'PT%sH' % nine, 'PT%sM' % nine, 'PT%sS' % nine, 'P%sDT%sH%sM%sS' % (nine, nine, nine, nine),
                    '-P%sD' % nine, 'PT%s.%sS' % (nine, nine), 'PT0.%sS' % nine):
            d = 'duration("%s")' % lit
            out += [d, 'string(%s)' % d, '%s + %s' % (d, d), '%s - %s' % (d, d), '%s * 2' % d, '%s * 1e30' % d, '%s / 0.0000001' % d, '-%s' % d, 'abs(%s)' % d, '%s = %s' % (d, d), '%s < %s' % (d, d),
                    'date("2020-01-31") + %s' % d, 'date and time("2020-01-31T10:00:00") - %s' % d, 'time("10:00:00") + %s' % d, '%s / %s' % (d, d)]
        for f in ('years', 'months', 'days', 'hours', 'minutes', 'seconds'):
            out.append('duration("P%sD").%s' % (nine, f))
            out.append('duration("P%sY").%s' % (nine, f))
    # the largest magnitudes that are still valid literals (i64 months / i64 nanoseconds), where sums, products and negation overflow
    for lit in ('P768614336404564650Y', 'P768614336404564650Y7M', 'P768614336404564650Y8M', 'P9223372036854775807M', 'P9223372036854775808M', '-P9223372036854775807M', '-P768614336404564650Y8M',
                'P106751991167DT7H12M55S', 'P106751991167DT7H12M56S', '-P106751991167DT7H12M55S', 'PT9223372036S', 'PT9223372036.854775807S', 'PT9223372036.854775808S', '-PT9223372036.854775808S', 'PT2562047788015H',
                'PT153722867280912M', 'P106751991168D'):
        d = 'duration("%s")' % lit
        out += [d, 'string(%s)' % d, '%s + %s' % (d, d), '%s - (-%s)' % (d, d), '%s * 2' % d, '%s * -1' % d, '%s * 1e30' % d, '%s / 0.5' % d, '%s / 1e-30' % d, '-%s' % d, 'abs(%s)' % d, 'abs(-%s)' % d, '%s = -%s' % (d, d),
                '%s < -%s' % (d, d), 'date("2020-01-31") + %s' % d, 'date("2020-01-31") - %s' % d, 'date and time("2020-01-31T10:00:00") + %s' % d, 'date and time("2020-01-31T10:00:00Z") - %s' % d,
                'time("10:00:00") + %s' % d, 'time("10:00:00Z") - %s' % d, '%s / %s' % (d, d), '%s.years' % d, '%s.months' % d, '%s.days' % d, '%s.hours' % d, '%s.minutes' % d, '%s.seconds' % d,
                '%s + duration("P1M")' % d, '%s + duration("PT0.000000001S")' % d, '%s - duration("P1M")' % d, '%s - duration("PT1S")' % d]
    out += ['years and months duration(date("-999999999-01-01"), date("999999999-12-31"))', 'years and months duration(date("999999999-12-31"), date("-999999999-01-01"))',
            'date("999999999-12-31") - date("-999999999-01-01")', 'date and time("999999999-12-31T23:59:59") - date and time("-999999999-01-01T00:00:00")']
    # ---- D
    offs = ['PT0S', 'PT14H', 'PT14H59M59S', 'PT15H', 'PT18H', 'PT23H59M59S', 'P1D', 'P2D', '-P1D', '-PT14H', '-PT15H', 'P24855DT3H14M7S', 'P24855DT3H14M8S', '-P24855DT3H14M8S', '-P24855DT3H14M9S', 'P99999D', '-P99999D',
            'P49710DT6H28M16S', 'P106751991167D', 'PT0.5S', 'PT1S', '-PT1S']
    for o in offs:
        t = 'time(12, 0, 0, duration("%s"))' % o
        out += [t, 'string(%s)' % t, '%s = %s' % (t, t), '%s < time("12:00:00Z")' % t, '%s - time("12:00:00Z")' % t, '%s.time offset' % t, '%s + duration("PT1H")' % t, 'time(string(%s))' % t,
                'date and time(date("2020-01-01"), %s)' % t, 'date and time(date("2020-01-01"), %s) = date and time("2020-01-01T12:00:00Z")' % t, 'string(date and time(date("2020-01-01"), %s))' % t,
                '%s in [time("00:00:00Z")..time("23:59:59Z")]' % t]
    # offsets written in literals, beyond what is valid, of both signs: parsing, comparing, subtracting and printing must answer
    for off in ('-14:59', '-15:00', '-23:59', '-24:00', '-24:01', '-48:00', '-99:00', '-99:99', '+15:00', '+24:00', '+99:59', '-00:00', '+00:00:01', '-14:59:59', '-15:00:00'):
        t = 'time("10:20:30%s")' % off
        dt = 'date and time("2021-10-10T10:20:30%s")' % off
        out += [t, dt, 'string(%s)' % t, 'string(%s)' % dt, '%s = %s' % (t, t), '%s = %s' % (dt, dt), '%s < date and time("2021-10-10T10:20:30Z")' % dt, '%s - date and time("2021-10-10T10:20:30Z")' % dt,
                '%s - time("10:20:30Z")' % t, '%s.time offset' % t, '%s.time offset' % dt, '@"10:20:30%s"' % off, '@"2021-10-10T10:20:30%s"' % off, '%s in [%s..%s]' % (dt, dt, dt),
                'date and time(date("2021-10-10"), %s)' % t, '%s + duration("PT1H")' % dt, 'day of week(%s)' % dt]
    # ---- E
    for big in ('999999999', '-999999999', '2147483647', '2147483648', '-2147483649', '4294967296', '9223372036854775807', '9223372036854775808', '18446744073709551616', '1e30', '-1e30', '1e6144', '0.5', '-0.5'):
        out += ['date(%s, 1, 1)' % big, 'date(2020, %s, 1)' % big, 'date(2020, 1, %s)' % big, 'time(%s, 0, 0)' % big, 'time(0, %s, 0)' % big, 'time(0, 0, %s)' % big, 'time(0, 0, 0, duration("PT1H") * %s)' % big,
                'duration("P1D") * %s' % big, 'duration("P1Y") * %s' % big, 'duration("P1D") / %s' % big, 'duration("P1Y") / %s' % big, 'date("2020-01-01") + duration("P1D") * %s' % big,
                'date("2020-01-01") + duration("P1M") * %s' % big, 'date and time("2020-01-01T00:00:00") + duration("PT1S") * %s' % big, 'time("10:00:00") + duration("PT1S") * %s' % big]
    out += ['date("999999999-12-31") + duration("P1D")', 'date("-999999999-01-01") - duration("P1D")', 'date("999999999-12-31") + duration("P1M")', 'date("-999999999-01-01") - duration("P1Y")',
            'date and time("999999999-12-31T23:59:59") + duration("PT1S")', 'date and time("-999999999-01-01T00:00:00") - duration("PT1S")', 'date and time("999999999-12-31T23:59:59@Europe/Warsaw") + duration("P1D")',
            'date("999999999-12-31") = date("999999999-12-31")', 'day of year(date("999999999-12-31"))', 'week of year(date("-999999999-01-01"))', 'month of year(date("999999999-12-31"))', 'day of week(date("-999999999-01-01"))',
            'date and time("262144-01-01T00:00:00Z") = date and time("262144-01-01T00:00:00Z")', 'date and time("-262145-01-01T00:00:00Z") < date and time("2020-01-01T00:00:00Z")',
            'date and time("262144-01-01T00:00:00@Europe/Warsaw") - date and time("2020-01-01T00:00:00Z")']
    # ---- F
    for s in ('1/3', '59.9999999999', '0.0000000001', '59.999999999999999999999999999999', '2/3', '0.5', '59.5', '1/7', '10/3'):
        out += ['time(12, 0, %s)' % s, 'time(12, %s, 0)' % s, 'time(%s, 0, 0)' % s, 'time(12, 0, %s, duration("PT1H"))' % s, 'time(12, 0, %s, null)' % s, 'date(2020, 1, %s)' % s, 'date(2020, %s, 1)' % s, 'date(%s, 1, 1)' % s,
                'string(time(12, 0, %s))' % s, 'time(12, 0, %s).second' % s]
    # ---- H: unusual context keys (empty, blank, symbols only, keywords) followed by more entries, names and paths
    for k in ('""', '" "', '"+"', '"-"', '"a b"', '"a-b"', '"."', '"null"', '"if"', '"in"', '"1"', '"\\u0000"', '"a.b"', '"date and time"'):
        out += ['{%s: 1}' % k, '{%s: 1, a: 2}' % k, '{%s: 1, a: 2}.a' % k, '{%s: 1, a: 2, b: a + 1}' % k, '{%s: {%s: 1}, a: 1}' % (k, k), '[{%s: 1}, {a: 1}]' % k, '{a: 1, %s: a}' % k,
                'for x in [{%s: 1}] return x' % k, '{%s: 1, a b: 2, c: a b}' % k, '{%s: 1, %s: 2}' % (k, k), '{%s: 1}.%s' % (k, k.strip('"') or 'a'), 'get value({%s: 1}, %s)' % (k, k),
                'get entries({%s: 1})' % k, '{%s: function(x) x + 1, r: 1}' % k,
                # a name that is NOT bound (a built-in function, a free name) lexed while the odd key is in the parsing scope
                '{%s: 1, r: count([1, 2])}' % k, '{%s: 1, r: no such name}' % k, '{%s: 1, r: abs(-1) + unknown}' % k, '{%s: 1, r: for e in [1] return e + nothing}' % k,
                '{%s: 1, r: string length("x")}' % k]
    # ---- I: control characters (also NUL) inside string arguments of the functions that hand text to other libraries (decimal library, regex, chrono)
    for ch in ('\\u0000', '\\u0001', '\\u0009', '\\u000A', '\\u001F', '\\u007F', '\\u0085', '\\uFEFF'):
        for t in ('1%s' % ch, '%s1' % ch, '1%s2' % ch, '%s' % ch, '2020-01-02%s' % ch, '%s10:11:12' % ch, 'P1D%s' % ch, 'a%sb' % ch):
            q = '"%s"' % t
            out += ['number(%s, null, null)' % q, 'number(%s, ",", ".")' % q, 'number(%s, %s, ".")' % (q, '"%s"' % ch), 'date(%s)' % q, 'time(%s)' % q, 'date and time(%s)' % q, 'duration(%s)' % q,
                    'years and months duration(date(%s), date("2021-01-01"))' % q, 'matches(%s, "a")' % q, 'matches("a", %s)' % q, 'replace(%s, "a", "b")' % q, 'replace("abc", %s, "x")' % q,
                    'replace("abc", "b", %s)' % q, 'split(%s, "a")' % q, 'split("abc", %s)' % q, 'contains(%s, "a")' % q, 'string length(%s)' % q, 'upper case(%s)' % q, 'substring(%s, 1, 1)' % q,
                    'substring before(%s, "a")' % q, 'starts with(%s, "a")' % q, 'string(%s)' % q, '{%s: 1}' % q, '@%s' % q, '%s = %s' % (q, q), '%s < "a"' % q]
    # ---- J: damaged expressions (C05: parsing is total): every expression of the case files under replay/cases with ONE token deleted and cut
    # off after every token - an unbalanced bracket, a `between` without its `and`, an `if` without `else`, a dangling operator: an error, no panic
    import glob, re as _re
    tok = _re.compile(r'"(?:[^"\\]|\\.)*"|[A-Za-z_][A-Za-z_0-9]*|[0-9]+(?:\.[0-9]+)?|\.\.|<=|>=|!=|\*\*|->|[^\sA-Za-z_0-9]')
    seen = set()
    srcs = ['(1 between 2)', '[5 between 1]', '{a: 1 between 0} and 2', 'f(x, (2 between 1))', 'x between (1 and 2', 'for x in [1] return (x between 1)', '1 in (]', '[1..', 'if (a then b) else c',
            'function(x) (x', '{a: [1, {b: (2}]}', 'some x in [1] satisfies (x', '1 between 2 and', ')', ']', '}', '(]', '[)', '{]', '1 between ) and 2', '(((1 between 2)))', 'x[1 between 2]', 'a.b(1 between 2)']
    for f in sorted(glob.glob(os.path.join(os.path.dirname(HERE), 'replay', 'cases', '*.txt'))):
        for line in open(f, encoding='utf-8'):
            if ' ==> ' in line:
                srcs.append(line.split(' ==> ')[0].strip())
    for e in srcs:
        toks = tok.findall(e)
        if len(toks) > 40:
            continue
        cands = [e] + [' '.join(toks[:i] + toks[i + 1:]) for i in range(len(toks))] + [' '.join(toks[:i]) for i in range(1, len(toks))]
        for c in cands:
            if c and c not in seen:
                seen.add(c)
                out.append(c)
    return out


def nested(depth):
    """family G: every nesting construct nested `depth` times in itself (C05: nesting depth up to 200); each runs in its own
    driver process on the main thread (8 MiB stack), because a stack overflow aborts the process and cannot be caught"""
    d = depth
    return [
        '(' * d + '1' + ')' * d,
        '[' * d + '1' + ']' * d,
        '{a: ' * d + '1' + '}' * d,
        '-' * 1 + '(-' * d + '1' + ')' * d,
        '-' * d + '"a"',              # operands that are not numbers: every level answers null (and must not cost more than the level below)
        '-' * d + 'null',
        '-' * d + 'no such name',
        'not(' * d + '1' + ')' * d,
        '1' + ' + ("a"' * d + ')' * d,
        '"a"' + ' - (1' * d + ')' * d,
        'not(' * d + 'true' + ')' * d,
        'if true then ' * d + '1' + ' else 0' * d,
        '1' + ' + (1' * d + ')' * d,
        'sum([' * d + '1' + '])' * d,
        '(function(x) ' * d + 'x' + ')(1)' * d,
        'for x in [1] return ' * d + 'x',
        'some x in [1] satisfies ' * d + 'x = 1',
        '[1]' + '[1]' * d,
        '{a: 1}' + '.a' * 1 if d < 2 else '{a: ' * d + '1' + '}' * d + '.a' * d,
        '1 between 0 and (' * d + '2' + ')' * d,
        '1 in (' * d + '[0..2]' + ')' * d,
        'x instance of ' + 'list<' * d + 'number' + '>' * d,
        '"' + 'a' * (d * 100) + '"',
        '[' + ', '.join(['1'] * (d * 20)) + ']',
    ]


def main():
    cs = cases()
    with tempfile.NamedTemporaryFile('w', suffix='.txt', delete=False, dir='/var/tmp', encoding='utf-8') as fh:
        fh.write('\n'.join(cs) + '\n')
        path = fh.name
    try:
        rr = replaydrv.run('feeltotal', [path, '10'], timeout=2400)
    finally:
        os.unlink(path)
    if not rr.get('ok'):
        print('feeltotal could not run: %s' % rr.get('error'))
        return 2
    out = rr['stdout']
    import re as _re
    m = _re.search(r'cases=(\d+) failures=(\d+)', out)
    ncases, nfail = (int(m.group(1)), int(m.group(2))) if m else (0, 0)
    extra = []
    for depth in (50, 200):
        for e in nested(depth):
            ncases += 1
            r2 = replaydrv.run('feel', [e], timeout=120)
            rc = r2.get('returncode')
            shown = e if len(e) < 120 else e[:60] + ' ... ' + e[-40:]
            if not r2.get('ok'):
                print('feeltotal could not run: %s' % r2.get('error'))
                return 2
            if (r2.get('stdout') or '') == 'TIMEOUT':
                nfail += 1
                extra.append('FAIL nesting depth %d: %s => no answer within 120 s' % (depth, shown))
            elif rc != 0 or '=> PANIC' in (r2.get('stdout') or ''):
                nfail += 1
                extra.append('FAIL nesting depth %d: %s => %s' % (depth, shown, 'PANIC' if rc == 0 else 'process aborted (exit %s: stack overflow or crash)' % rc))
    body = '\n'.join(l for l in out.splitlines() if not l.startswith('feeltotal cases='))
    print('feeltotal cases=%d failures=%d' % (ncases, nfail))
    if body.strip():
        print(body)
    for l in extra:
        print(l)
    return 0


if __name__ == '__main__':
    sys.exit(main())
