#!/usr/bin/env python3
"""BOUNDED stand-in (not a proof) for the order half of C09 (and C01 / C03: comparisons, between, ranges, unary tests), which also stands in
when a rewritten body of the comparison builders leaves the extractor's reach: over an alphabet of numbers (equal values with different
scale), strings (empty, prefix pairs, non-ASCII), dates, times and dates and times (equal instants under different offsets, a microsecond apart), both duration kinds, null, a boolean and a list, every ordered pair under
< <= > >= and every triple of one kind under  x between a and b,  x in [a..b] (a..b) [a..b) (a..b],  x in (< a) (<= a) (> a) (>= a),  compared
with the definitions written out here: values of one ordered kind compare by their order, between is a <= x and x <= b (also for reversed
bounds: false), an open end is the strict comparison, every other pair is null. Negative number LITERALS are left out: as a range end or a unary test operand they are a recorded known
finding (the grammar has no signed numeric literal).
prints `orddiff cases=N failures=M`; exit 0 / 2."""
import datetime
import itertools
import os
import sys
import tempfile
from fractions import Fraction

HERE = os.path.dirname(os.path.abspath(__file__))
sys.path.insert(0, os.path.dirname(HERE))
from vf import replaydrv  # noqa: E402

NUMS = [('0', Fraction(0)), ('1', Fraction(1)), ('1.0', Fraction(1)), ('1.10', Fraction(11, 10)), ('2', Fraction(2)), ('0.5', Fraction(1, 2)), ('100', Fraction(100))]
# (strings are ordered by Unicode code points: a character of the upper Basic Multilingual Plane - U+FF21, U+FFFD - sorts BEFORE a supplementary
# one - U+1F600, U+10000 -, which UTF-16 code units would order the other way round)
STRS = [('""', ''), ('"a"', 'a'), ('"ab"', 'ab'), ('"b"', 'b'), ('"B"', 'B'), ('"ż"', 'ż'), ('"\uFF21"', '\uFF21'), ('"\U0001F600"', '\U0001F600'), ('"x\uFFFD"', 'x\uFFFD'), ('"x\U00010000"', 'x\U00010000')]
DATES = [('date("2020-01-02")', datetime.date(2020, 1, 2)), ('date("2020-01-03")', datetime.date(2020, 1, 3)), ('date("2019-12-31")', datetime.date(2019, 12, 31)), ('date("2020-02-01")', datetime.date(2020, 2, 1))]
YM = [('duration("P1Y")', 12), ('duration("P12M")', 12), ('duration("P1Y1M")', 13), ('duration("-P1M")', -1)]
DT = [('duration("P1D")', 86400), ('duration("PT24H")', 86400), ('duration("PT1S")', 1), ('duration("-PT1S")', -1)]
OTHER = [('null', None), ('true', True), ('[1]', [1])]
TIMES = [('time("10:00:00Z")', Fraction(36000)), ('time("11:00:00+01:00")', Fraction(36000)), ('time("10:00:01Z")', Fraction(36001)), ('time("09:59:59.5Z")', Fraction(71999, 2))]
DTM = [('date and time("2020-01-02T10:00:00Z")', Fraction(0)), ('date and time("2020-01-02T11:00:00+01:00")', Fraction(0)), ('date and time("2020-01-02T10:00:00.000001Z")', Fraction(1, 1000000)),
       ('date and time("2020-01-01T23:00:00-05:00")', Fraction(-21600))]
KINDS = {'n': NUMS, 's': STRS, 'd': DATES, 'ym': YM, 'dt': DT, 't': TIMES, 'dtm': DTM}


def b(v):
    return 'null' if v is None else ('true' if v else 'false')


def cases():
    out = []
    allv = [(t, k, v) for (k, vs) in KINDS.items() for (t, v) in vs] + [(t, 'o', v) for (t, v) in OTHER]
    # the four operators: values of one kind by their order (times and dates and times by their instant, durations by their length), everything else null
    for (ta, ka, va) in allv:
        for (tb, kb, vb) in allv:
            same = ka == kb and ka != 'o'
            for (op, f) in (('<', lambda x, y: x < y), ('<=', lambda x, y: x <= y), ('>', lambda x, y: x > y), ('>=', lambda x, y: x >= y)):
                out.append(('%s %s %s' % (ta, op, tb), b(f(va, vb) if same else None)))
    # between, ranges and unary tests within one kind (durations included), plus a few mixed-kind triples (null)
    for (k, vs) in KINDS.items():
        for ((tx, x), (ta, a), (tb, bb)) in itertools.product(vs, repeat=3):
            out.append(('%s between %s and %s' % (tx, ta, tb), b(a <= x and x <= bb)))
            for (lo, hi, fl, fh) in (('[', ']', lambda p, q: p <= q, lambda p, q: p <= q), ('(', ')', lambda p, q: p < q, lambda p, q: p < q),
                                     ('[', ')', lambda p, q: p <= q, lambda p, q: p < q), ('(', ']', lambda p, q: p < q, lambda p, q: p <= q)):
                out.append(('%s in %s%s..%s%s' % (tx, lo, ta, tb, hi), b(fl(a, x) and fh(x, bb))))
        for ((tx, x), (ta, a)) in itertools.product(vs, repeat=2):
            for (op, f) in (('<', lambda p, q: p < q), ('<=', lambda p, q: p <= q), ('>', lambda p, q: p > q), ('>=', lambda p, q: p >= q)):
                out.append(('%s in (%s %s)' % (tx, op, ta), b(f(x, a))))
    for (tx, ta, tb) in (('1', '"a"', '2'), ('"a"', '1', '2'), ('1', '0', '"z"'), ('null', '0', '2'), ('1', 'null', '2'), ('1', '0', 'null'), ('date("2020-01-02")', '1', '2'), ('true', 'false', 'true')):
        out.append(('%s between %s and %s' % (tx, ta, tb), 'null'))
        if 'null' not in (ta, tb):   # (null is no range end in the grammar)
            out.append(('%s in [%s..%s]' % (tx, ta, tb), '!true'))
    return out


def main():
    cs = cases()
    with tempfile.NamedTemporaryFile('w', suffix='.txt', delete=False, dir='/var/tmp', encoding='utf-8') as fh:
        for (e, x) in cs:
            fh.write('%s ==> %s\n' % (e, x))
        path = fh.name
    try:
        rr = replaydrv.run('feelcases', [path], timeout=1200)
    finally:
        os.unlink(path)
    if not rr.get('ok'):
        print('orddiff could not run: %s' % rr.get('error'))
        return 2
    print(rr['stdout'].replace('feelcases', 'orddiff'), end='')
    return 0


if __name__ == '__main__':
    sys.exit(main())
