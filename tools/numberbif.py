#!/usr/bin/env python3
"""BOUNDED stand-in (not a proof) for the built-in number(from, grouping separator, decimal separator) (C08, DMN 1.3 Table 72): the grouping
separator is a space, a comma, a period or null, the decimal separator a period, a comma or null, the two differ; `from` with the grouping
separators removed and the decimal separator read as a period is a numeric literal - otherwise the result is null. Every `from` text of a
fixed list x every pair of separators from {" ", ",", ".", null, "$", "", ";", 1}, positional and named form.
prints `numberbif cases=N failures=M` and every failure; exit 0 / 2."""
import os
import re
import sys
import tempfile

HERE = os.path.dirname(os.path.abspath(__file__))
sys.path.insert(0, os.path.dirname(HERE))
from vf import replaydrv  # noqa: E402

FROM = ['1000', '1 000', '1,000', '1.000', '1 000,5', '1 000.5', '1,000.5', '1.000,5', '1 5', '1,5', '1.5', '1$5', '1;5', '1 000 000,25', '1.000.000,25', '1,000,000.25',
        '12 34.5', '-1 000,5', '-1.5', '0,5', ',5', '.5', '1,,5', '1..5', '1, 5', '', ' ', '5 ', 'a', '1 000,5,5']
SEPS = ['" "', '","', '"."', 'null', '"$"', '""', '";"', '1']
LIT = re.compile(r'^-?([0-9]+(\.[0-9]+)?|\.[0-9]+)$')


def expect(frm, g, d):
    if g not in ('" "', '","', '"."', 'null') or d not in ('","', '"."', 'null'):
        return None
    if g != 'null' and g == d:
        return None
    t = frm
    if g != 'null':
        t = t.replace(g[1:-1], '')
    if d != 'null' and d != '"."':
        t = t.replace(d[1:-1], '.')
    return t if LIT.match(t) else None


def main():
    cases = []
    for frm in FROM:
        for g in SEPS:
            for d in SEPS:
                e = expect(frm, g, d)
                for call in ('number("%s", %s, %s)' % (frm, g, d), 'number(from: "%s", grouping separator: %s, decimal separator: %s)' % (frm, g, d)):
                    if e is None:
                        cases.append(('%s = null' % call, 'true'))
                    else:
                        lit = e if not e.startswith('-.') else '-0' + e[1:]
                        cases.append(('(%s) = %s' % (call, lit if not lit.startswith('.') else '0' + lit), 'true'))
    with tempfile.NamedTemporaryFile('w', suffix='.txt', delete=False, dir='/var/tmp', encoding='utf-8') as fh:
        for (x, e) in cases:
            fh.write('%s ==> %s\n' % (x, e))
        path = fh.name
    try:
        rr = replaydrv.run('feelcases', [path, 'all'], timeout=1200)
    finally:
        os.unlink(path)
    if not rr.get('ok'):
        print('numberbif could not run: %s' % rr.get('error'))
        return 2
    print(rr['stdout'].replace('feelcases', 'numberbif'), end='')
    return 0


if __name__ == '__main__':
    sys.exit(main())
