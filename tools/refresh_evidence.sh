#!/bin/bash
# Re-run every claimed check (quick) on the unchanged tree so that committed evidence comes from clean runs.
cd /verif
test -z "$(git -C /repo status --porcelain)" || { echo "/repo is dirty"; exit 3; }
rc=0
for p in $(python3 -c "import json;print(' '.join(c['property_id'] for c in json.load(open('MANIFEST.json'))['checks']))"); do
  python3 check.py $p --tier quick | tail -1 || rc=1
done
python3-vt tools/validate.py | grep -v "^ok" 
exit $rc
