#!/usr/bin/env python3
"""BOUNDED stand-in (not a proof) for the coercion half of C16 on the real code: every value of a family (numbers, strings, booleans, dates, null,
lists - empty, homogeneous, mixed, nested, singleton -, contexts with one / two entries, a list of contexts, a range) is handed to a function
whose parameter has every type of a family (simple types, Any, lists, contexts with fewer / other entries, a list of contexts, a range), i.e.
`(function(x: T) x)(V)`: the answer is V itself when its type conforms to T, the single item of a singleton list when that conforms, [V]
when T is a list type whose item type V conforms to, and null otherwise (DMN 1.3 10.3.2.9.4; conformance from typediff.py); coercing the
answer again changes nothing. Answers are compared by FEEL equality (contexts by their key sets, so a dropped entry shows).
prints `coercediff cases=N failures=M`; exit 0 / 2."""
import os
import sys
import tempfile

HERE = os.path.dirname(os.path.abspath(__file__))
sys.path.insert(0, os.path.dirname(HERE))
sys.path.insert(0, HERE)
from vf import replaydrv  # noqa: E402
import typediff as T  # noqa: E402

N, S, B, D, A, NUL = ('N',), ('S',), ('B',), ('D',), ('A',), ('0',)
L = lambda t: ('L', t)
C = lambda **kw: ('C', dict(kw))
TYPES = [(N, 'number'), (S, 'string'), (B, 'boolean'), (D, 'date'), (A, 'Any'), (L(N), 'list<number>'), (L(S), 'list<string>'), (L(A), 'list<Any>'), (L(L(N)), 'list<list<number>>'),
         (C(a=N), 'context<a: number>'), (C(a=N, b=S), 'context<a: number, b: string>'), (C(a=A), 'context<a: Any>'), (C(b=S), 'context<b: string>'), (L(C(a=N)), 'list<context<a: number>>'),
         (('R', N), 'range<number>')]
VALUES = [(N, '1'), (S, '"x"'), (B, 'true'), (D, 'date("2020-01-02")'), (NUL, 'null'), (L(N), '[1, 2]'), (L(NUL), '[]'), (L(A), '[1, "a"]'), (L(A), '[1, 2, "a"]'), (L(A), '[1, 2, "a", "b"]'), (L(A), '["a", 1, 2, 3]'), (L(N), '[1, 2, 3, 4, 5]'), (L(L(N)), '[[1], [2, 3]]'), (L(N), '[7]'), (L(S), '["s"]'),
          (L(L(N)), '[[5]]'), (C(a=N), '{a: 1}'), (C(a=N, b=S), '{a: 1, b: "x"}'), (C(b=S), '{b: "y"}'), (C(a=S), '{a: "z"}'), (L(C(a=N)), '[{a: 1}, {a: 2}]'), (L(C(a=N, b=S)), '[{a: 1, b: "q"}]'),
          (L(C(a=N)), '[{a: 3}]')]   # (a range value is left out: = on ranges is not defined, so the answer could not be compared)
SINGLE = {'[7]': (N, '7'), '["s"]': (S, '"s"'), '[[5]]': (L(N), '[5]'), '[{a: 1, b: "q"}]': (C(a=N, b=S), '{a: 1, b: "q"}'), '[{a: 3}]': (C(a=N), '{a: 3}')}


def expect(t, vt, v):
    if T.conf(vt, t):
        return v
    if v in SINGLE and T.conf(SINGLE[v][0], t):
        return SINGLE[v][1]
    if t[0] == 'L' and T.conf(vt, t[1]):
        return '[%s]' % v
    return 'null'


def main():
    cases = []
    for (t, ts) in TYPES:
        for (vt, v) in VALUES:
            e = expect(t, vt, v)
            call = '(function(x: %s) x)(%s)' % (ts, v)
            cases.append(('%s = %s' % (call, e), 'true'))
            if e != 'null':
                cases.append(('%s != null' % call, 'true'))
            cases.append(('(function(x: %s) x)(%s) = %s' % (ts, call, e), 'true'))   # coercing twice changes nothing
    with tempfile.NamedTemporaryFile('w', suffix='.txt', delete=False, dir='/var/tmp', encoding='utf-8') as fh:
        for (x, e) in cases:
            fh.write('%s ==> %s\n' % (x, e))
        path = fh.name
    try:
        rr = replaydrv.run('feelcases', [path, 'all'], timeout=1200)
    finally:
        os.unlink(path)
    if not rr.get('ok'):
        print('coercediff could not run: %s' % rr.get('error'))
        return 2
    print(rr['stdout'].replace('feelcases', 'coercediff'), end='')
    return 0


if __name__ == '__main__':
    sys.exit(main())
