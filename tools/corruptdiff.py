#!/usr/bin/env python3
"""BOUNDED stand-in (not a proof) for the last sentence of C19 - "arbitrary text is either recognised or rejected with an error, never
with a panic" - on single-character corruptions: ten generated drawings (both orientations; with and without information item name,
allowed values, several outputs, annotations), the two drawings shipped with the repository (*.dtb) and the ten drawings of the recognizer's own test gallery; in each, every character is
replaced by each of 28 characters (blank, every box-drawing character the recognizer knows, a letter, a digit, a line feed), deleted, and
preceded by one of four inserted characters, and the real dmntk_recognizer::build must answer Ok or Err within 10 seconds (--quick: six of the drawings).
prints `corruptdiff cases=N failures=M`; exit 0 / 2."""
import glob
import os
import shutil
import sys
import tempfile

HERE = os.path.dirname(os.path.abspath(__file__))
sys.path.insert(0, os.path.dirname(HERE))
sys.path.insert(0, HERE)
from vf import replaydrv  # noqa: E402
import drawdiff  # noqa: E402

REPO = os.environ.get('VERIF_REPO', '/repo')


def main():
    ts = drawdiff.tables()
    picked = []
    seen = set()
    for (kind, t) in ts:
        key = (kind, len(t['inputs']), len(t['outputs']), len(t['annotations']), bool(t['values'] and kind == 'H'), bool(t['name'] and kind == 'H'))
        sig = (kind, key[2] > 1, key[3] > 0, key[4], key[5])
        if sig in seen:
            continue
        seen.add(sig)
        picked.append((kind, t))
        if len(picked) >= 10:
            break
    work = tempfile.mkdtemp(prefix='verif_corrupt_', dir='/var/tmp')
    try:
        paths = []
        for i, (kind, t) in enumerate(picked):
            p = os.path.join(work, 'drawing%02d_%s.txt' % (i, 'rows' if kind == 'H' else 'columns'))
            with open(p, 'w', encoding='utf-8') as fh:
                fh.write(drawdiff.horizontal(t) if kind == 'H' else drawdiff.vertical(t))
            paths.append(p)
        for f in sorted(glob.glob(os.path.join(REPO, '**/*.dtb'), recursive=True)):
            if '/target/' in f:
                continue
            p = os.path.join(work, 'repo_' + os.path.basename(os.path.dirname(f)) + '_' + os.path.basename(f) + '.txt')
            shutil.copy(f, p)
            paths.append(p)
        # the drawings of the repository's own test gallery (raw string constants EX_nn of recognizer/src/tests/mod.rs)
        gallery = os.path.join(REPO, 'recognizer/src/tests/mod.rs')
        if os.path.exists(gallery):
            import re
            for m in re.finditer(r'pub const (EX_\w+): &str = r#"(.*?)"#;', open(gallery, encoding='utf-8').read(), re.S):
                p = os.path.join(work, 'gallery_%s.txt' % m.group(1))
                with open(p, 'w', encoding='utf-8') as fh:
                    fh.write(m.group(2))
                paths.append(p)
        if '--quick' in sys.argv:
            # quick tier: one generated drawing per orientation, three gallery drawings (among them one with rules as columns), one shipped drawing
            keep = [p for p in paths if 'drawing00_' in p or 'drawing06_' in p or 'gallery_EX_01' in p or 'gallery_EX_05' in p or 'gallery_EX_07' in p or p.endswith('0001.dtb.txt')]
            paths = keep or paths[:4]
        lf = os.path.join(work, 'list.txt')
        open(lf, 'w').write('\n'.join(paths) + '\n')
        rr = replaydrv.run('recognizecorrupt', [lf], timeout=3000)
        if not rr.get('ok'):
            print('corruptdiff could not run: %s' % rr.get('error'))
            return 2
        out = rr['stdout'].replace('recognizecorrupt', 'corruptdiff').replace(work + '/', '')
        # keep the corrupted drawings' sources for the replay file
        print(out, end='')
        return 0
    finally:
        shutil.rmtree(work, ignore_errors=True)


if __name__ == '__main__':
    sys.exit(main())
