#!/usr/bin/env python3
"""BOUNDED stand-in (not a proof) for C18 end to end, on the real service (dmntk_server::start_server on a loopback port inside the
replay driver): request sequences mixing definitions operations (clear / add / replace / remove / deploy over four models that share
namespaces and names pairwise, and one that does not build), evaluations (/evaluate and /tck/evaluate) and malformed requests
(truncated JSON body, missing parameters, invalid base64, invalid UTF-8 inside well-formed XML, truncated XML, unknown model, unknown
invocable, a body that is not a context, unknown endpoint), each malformed request at every position of every base sequence.

Every response must be a well-formed JSON document (strict parser); a failure is reported in the `errors` member, a success in
`data`; the answers equal those of a reference workspace written out from the property (a malformed or rejected request changes
nothing; replace substitutes the stored model; evaluation is possible exactly for what the last deploy built, no successful
modification since); and the service keeps answering after every malformed request.
prints `httpdiff cases=N failures=M` (cases = requests answered); exit 0 / 2."""
import itertools
import os
import sys
import tempfile

HERE = os.path.dirname(os.path.abspath(__file__))
sys.path.insert(0, os.path.dirname(HERE))
sys.path.insert(0, HERE)
from vf import replaydrv  # noqa: E402
import wsdiff  # noqa: E402

BASE = ['add:n1,a', 'add:n1,b', 'add:n2,a', 'add:n3,bad', 'replace:n2,a', 'replace:n1,b', 'remove:n1,a', 'remove:n1,b', 'clear', 'deploy', 'eval:a', 'tck:b']
MALFORMED = ['badjson:add', 'badjson:replace', 'nocontent:add', 'nocontent:remove', 'badb64:add', 'badb64:replace', 'badutf8:add/n2,b', 'badutf8:replace/n1,a', 'badxml:add', 'badxml:replace',
             'unknowneval', 'unknowninvocable:a', 'badcontext:a', 'tckempty', 'notfound', 'tckstring', 'tcknil', 'wrongtype:add', 'wrongtype:remove', 'stringforobject:replace',
             'longeval:even', 'longeval:odd', 'longtck:even', 'longtck:odd', 'longxsd:even', 'longxsd:odd']
PROBE = ['deploy', 'eval:a', 'eval:b', 'tck:a', 'add:n1,a', 'add:n2,b', 'deploy', 'eval:a', 'eval:b']


def expected(seq):
    """per request: (kind, detail or None) with kind in data / errors / '*' (not compared)"""
    ws_ops = []
    idx = []
    for t in seq:
        cmd = t.split(':')[0]
        if cmd in ('add', 'replace', 'remove', 'clear', 'deploy'):
            ws_ops.append(t)
            idx.append(len(ws_ops) - 1)
        elif cmd in ('eval', 'tck'):
            ws_ops.append('eval:' + t.split(':')[1])
            idx.append(len(ws_ops) - 1)
        else:
            idx.append(None)
    ref = wsdiff.reference(ws_ops)
    out = []
    for t, i in zip(seq, idx):
        cmd = t.split(':')[0]
        if i is None:
            # an unknown invocable of a deployed model: whether that is an error or a null result is not stated (only that the answer is JSON)
            out.append(('*', None) if cmd == 'unknowninvocable' else ('errors', None))
        else:
            r = ref[i]
            if r == '*':
                out.append(('*', None))
            elif cmd in ('eval', 'tck'):
                out.append(('data', 'Hello') if r == 'ok' else ('errors', None))
            else:
                out.append(('data', None) if r in ('ok', '()') else ('errors', None))
    return out


def main():
    quick = '--thorough' not in sys.argv
    seqs = []
    n = 2 if quick else 3
    bases = [list(t) for k in range(1, n + 1) for t in itertools.product(BASE, repeat=k)]
    if quick:
        bases += [list(t) for t in itertools.product(['add:n1,a', 'add:n2,b', 'replace:n2,a', 'remove:n1,b', 'deploy', 'eval:a'], repeat=3)]
    for b in bases:
        seqs.append(['clear'] + b + PROBE)
    small = [list(t) for k in range(1, 3) for t in itertools.product(['add:n1,a', 'add:n2,b', 'replace:n1,a', 'remove:n1,b', 'deploy', 'eval:a', 'clear'], repeat=k)]
    for b in small:
        for m in MALFORMED:
            for pos in range(len(b) + 1):
                seqs.append(['clear'] + b[:pos] + [m] + b[pos:] + PROBE)
    with tempfile.NamedTemporaryFile('w', suffix='.txt', delete=False, dir='/var/tmp') as fh:
        for s in seqs:
            fh.write(' '.join(s) + '\n')
        path = fh.name
    try:
        rr = replaydrv.run('http', [path], timeout=3000)
    finally:
        os.unlink(path)
    if not rr.get('ok'):
        print('httpdiff could not run: %s' % rr.get('error'))
        return 2
    got = [l for l in rr['stdout'].splitlines() if not l.startswith('dmntk ')]
    if 'SERVER-DID-NOT-START' in got or len(got) != len(seqs):
        print('httpdiff could not run: the service did not start or answered %d lines for %d sequences' % (len(got), len(seqs)))
        return 2
    fails = []
    nreq = 0
    for s, g in zip(seqs, got):
        answers = g.split('|')
        exp = expected(s)
        bad = None
        if len(answers) != len(s):
            bad = 'answered %d of %d requests' % (len(answers), len(s))
        else:
            for i, (tok, ans, (kind, detail)) in enumerate(zip(s, answers, exp)):
                nreq += 1
                parts = ans.split(':', 3)
                if len(parts) < 3:
                    bad = 'request %d `%s`: no answer (%s) - the service stopped answering' % (i + 1, tok, ans)
                    break
                status, js, k = parts[0], parts[1], parts[2]
                d = parts[3] if len(parts) > 3 else ''
                if js != 'json':
                    bad = 'request %d `%s`: the response body is not a JSON document: %s' % (i + 1, tok, d[:60])
                    break
                if kind == '*':
                    continue
                if k != kind:
                    bad = 'request %d `%s`: answered %s %s (expected %s)' % (i + 1, tok, k, d[:40], kind)
                    break
                if detail is not None and detail not in d:
                    bad = 'request %d `%s`: answered data %s (expected %s)' % (i + 1, tok, d[:40], detail)
                    break
        if bad:
            fails.append('%s : %s' % (' '.join(s), bad))
    print('httpdiff cases=%d failures=%d sequences=%d' % (nreq, len(fails), len(seqs)))
    for f in fails:
        print('FAIL ' + f)
    return 0


if __name__ == '__main__':
    sys.exit(main())
