#!/bin/bash
# usage: seed_eval.sh <PROP> <k> [--skip-confirm]
# Confirms a seeded change (demo passes without / fails with; suite unchanged), stores it under
# /verif/seeded/<PROP>-<k>/, then runs the property's quick check with the patch applied to /repo
# and undoes it straight afterwards.
set -u
P=$1; K=$2; SKIP=${3:-}
SRC=${SEED_SRC:-/tmp/seed/$P/_out/$K}
DST=/verif/seeded/$P-$K
mkdir -p $DST
cp $SRC/patch.diff $SRC/demo.diff $SRC/meta.json $DST/ 2>/dev/null
DEMO=$(python3 -c "import json;print(json.load(open('$DST/meta.json'))['demo_test'])")
# normalise the demo command to our scratch worktree
DEMO=$(echo "$DEMO" | sed "s#/tmp/seed/$P#/tmp/sv#g" | sed -E "s/ +\((or|equivalently|alternatively)[: ][^)]*\) *$//")
export CARGO_NET_OFFLINE=true
RES=$DST/confirm.txt
if [ "$SKIP" != "--skip-confirm" ]; then
  git -C /repo worktree remove --force /tmp/sv 2>/dev/null
  git -C /repo worktree add -q --detach /tmp/sv HEAD
  cd /tmp/sv
  export CARGO_TARGET_DIR=/tmp/sv-target
  git apply $DST/demo.diff || { echo "demo.diff does not apply" | tee $RES; exit 3; }
  bash -c "$DEMO" > /tmp/sv-demo1.log 2>&1; R1=$?
  git apply $DST/patch.diff || { echo "patch.diff does not apply" | tee $RES; exit 3; }
  bash -c "$DEMO" > /tmp/sv-demo2.log 2>&1; R2=$?
  git apply -R $DST/demo.diff
  # full suite with patch only
  cargo nextest run --workspace --no-fail-fast --offline > /tmp/sv-suite.log 2>&1
  SUITE=$(grep -E "Summary|tests run" /tmp/sv-suite.log | tail -1)
  FAILS=$(grep -E "^\s+FAIL " /tmp/sv-suite.log | sed 's/.*\] *//' | sort -u | tr '\n' ';')
  echo "demo_without_patch_exit=$R1 demo_with_patch_exit=$R2 suite: $SUITE fails: $FAILS" | tee $RES
  cd /verif
  git -C /repo worktree remove --force /tmp/sv
fi
# run the check against the patch
cd /repo && git apply $DST/patch.diff || { echo "patch does not apply to /repo HEAD"; exit 3; }
cd /verif
cp evidence/$P.json /tmp/evid_backup_$P.json 2>/dev/null
python3 check.py $P --tier quick > $DST/check_output.txt 2>&1; RC=$?
git -C /repo checkout -- .
cp /tmp/evid_backup_$P.json evidence/$P.json 2>/dev/null
echo "check exit=$RC" | tee -a $RES
grep -E "VIOLATION|UNDECIDED|KNOWN" $DST/check_output.txt | cut -c1-260
