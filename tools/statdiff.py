#!/usr/bin/env python3
"""BOUNDED stand-in (not a proof) for the aggregate / statistical built-ins of C08 that are not under contract (sum, mean, min, max,
count, median, mode, stddev): every list of length 0..4 over {1, 2, 3, 2.5, -1} in the list form, and lists of length 1..3 in
the variadic and the named (`list:`) form, against DMN 1.3 Table 75 / 76 computed with exact rational arithmetic (stddev: sample
standard deviation, compared to 28 significant digits).
prints `statdiff cases=N failures=M`; exit 0 / 2."""
import itertools
import os
import sys
from decimal import Decimal, getcontext
from fractions import Fraction

HERE = os.path.dirname(os.path.abspath(__file__))
sys.path.insert(0, os.path.dirname(HERE))
from vf import replaydrv  # noqa: E402

getcontext().prec = 60
ALPHA = ['1', '2', '3', '2.5', '-1']


def ref(fn, xs):
    v = [Fraction(x) for x in xs]
    n = len(v)
    if fn == 'count':
        return ('num', Fraction(n))
    if n == 0:
        return ('list', []) if fn == 'mode' else ('null', None)
    if fn == 'sum':
        return ('num', sum(v))
    if fn == 'mean':
        return ('num', sum(v) / n)
    if fn == 'min':
        return ('num', min(v))
    if fn == 'max':
        return ('num', max(v))
    if fn == 'product':
        p = Fraction(1)
        for x in v:
            p *= x
        return ('num', p)
    if fn == 'median':
        s = sorted(v)
        return ('num', s[n // 2] if n % 2 else (s[n // 2 - 1] + s[n // 2]) / 2)
    if fn == 'mode':
        best = max(v.count(x) for x in v)
        return ('list', sorted(set(x for x in v if v.count(x) == best)))
    if fn == 'stddev':
        if n < 2:
            return ('null', None)
        m = sum(v) / n
        var = sum((x - m) ** 2 for x in v) / (n - 1)
        return ('approx', (Decimal(var.numerator) / Decimal(var.denominator)).sqrt())
    raise ValueError(fn)


def close(got, exp, digits):
    try:
        g = Decimal(got)
    except Exception:
        return False
    if exp == 0:
        return abs(g) < Decimal(10) ** -digits
    return abs(g - exp) <= abs(exp) * Decimal(10) ** -digits


def main():
    plan = []
    for fn in ('sum', 'mean', 'min', 'max', 'count', 'median', 'mode', 'stddev'):   # product answers 'not implemented': not claimed
        for n in range(0, 5):
            for xs in itertools.product(ALPHA, repeat=n):
                plan.append((fn, xs, '%s([%s])' % (fn, ', '.join(xs))))
                if 1 <= n <= 3:
                    if fn != 'count':   # count has the list form only
                        plan.append((fn, xs, '%s(%s)' % (fn, ', '.join(xs))))
                    plan.append((fn, xs, '%s(list: [%s])' % (fn, ', '.join(xs))))
    # an item that is not a number (null, a string, a boolean) puts the list outside the domain: null - at every position of lists of 1..3
    # numbers, in the list, variadic and named forms (max is left out: this implementation skips null items there, the property does not say)
    for fn in ('sum', 'mean', 'min', 'median', 'mode', 'stddev'):
        for bad in ('null', '"a"', 'true'):
            for n in range(0, 4):
                for pos in range(0, n + 1):
                    xs = ['1', '2', '3'][:n]
                    items = xs[:pos] + [bad] + xs[pos:]
                    if fn == 'min' and bad == '"a"' and n == 0:
                        continue   # min / max also order strings: a list of strings only is inside the domain
                    plan.append((fn, None, '%s([%s])' % (fn, ', '.join(items))))
                    plan.append((fn, None, '%s(list: [%s])' % (fn, ', '.join(items))))
                    if len(items) >= 2:
                        plan.append((fn, None, '%s(%s)' % (fn, ', '.join(items))))
    rr = replaydrv.run('feel', [p[2] for p in plan], timeout=1200)
    if not rr.get('ok') or rr.get('returncode') != 0:
        print('statdiff could not run: %s' % (rr.get('error') or rr.get('returncode')))
        return 2
    got = rr['stdout'].splitlines()
    if len(got) != len(plan):
        print('statdiff could not run: driver answered %d lines for %d expressions' % (len(got), len(plan)))
        return 2
    fails = []
    for (fn, xs, e), line in zip(plan, got):
        g = line.split(' => ', 1)[1] if ' => ' in line else line
        kind, exp = ref(fn, xs) if xs is not None else ('null', None)
        if xs is not None and len(xs) == 1 and not e.startswith(fn + '(['):
            if '(list:' not in e:
                continue   # a single non-list argument: the variadic form with one argument is read as the list form (not compared)
        ok = False
        if not g.startswith('VALUE '):
            ok = False
        else:
            v = g[6:]
            if kind == 'null':
                ok = v.startswith('null')
            elif kind == 'num':
                ok = close(v, Decimal(exp.numerator) / Decimal(exp.denominator), 30)
            elif kind == 'approx':
                ok = close(v, exp, 28)
            elif kind == 'list':
                items = [t.strip() for t in v.strip('[]').split(',') if t.strip()]
                ok = v.startswith('[') and len(items) == len(exp) and all(close(a, Decimal(b.numerator) / Decimal(b.denominator), 30) for a, b in zip(items, exp))
        if not ok:
            shown = 'null' if kind == 'null' else (str(exp) if kind != 'list' else '[' + ', '.join(str(float(x)) for x in exp) + ']')
            fails.append('%s => %s (expected %s)' % (e, g[:80], shown))
    print('statdiff cases=%d failures=%d' % (len(plan), len(fails)))
    for f in fails:
        print('FAIL ' + f)
    return 0


if __name__ == '__main__':
    sys.exit(main())
