#!/usr/bin/env python3
"""usage: seed_prompts.py <round-word> <PROP>...  writes /tmp/seed/<PROP>.prompt.txt for a further seeding round (the agent gets the property
text and the list of earlier changes only) and creates the agent's worktree /tmp/seed/<PROP> at /repo's HEAD."""
import json, os, subprocess, sys, glob
ROUND = sys.argv[1]
props = {json.loads(l)['id']: json.loads(l) for l in open('/verif/properties.jsonl')}
tmpl = open('/verif/tools/seed_prompt_template.txt').read()
head = tmpl[:tmpl.index('{\n "id": "C19"')]
rest = tmpl[tmpl.index('Your task: design ONE OR TWO'):]
rest = rest[:rest.index('This is a FOURTH round.')]
for P in sys.argv[2:]:
    earlier = []
    for m in sorted(glob.glob('/verif/seeded/%s-*/meta.json' % P)):
        d = json.load(open(m))
        earlier.append('- files %s: %s' % (', '.join(d.get('files_changed', [])), (d.get('what_breaks') or '')[:330].replace('\n', ' ')))
    text = (head + json.dumps(props[P], indent=1) + '\n\n' + rest).replace('C19', P)
    text += ('This is a %s round. Earlier rounds already produced the changes listed below; choose DIFFERENT functions / sites and different kinds of mistake. Look for the parts of the property '
             'statement and of its quantifier (read both again, clause by clause) and the files of its anchor list that none of the earlier changes touches; changes that need an unusual combination of inputs, '
             'or that sit in helper functions several calls away from the obvious entry points, are welcome. Note that the repository HEAD contains recent `fix:` commits (see `git log --oneline | head -20`): '
             'do not simply revert one of them.\n' % ROUND) + '\n'.join(earlier) + '\n'
    open('/tmp/seed/%s.prompt.txt' % P, 'w').write(text)
    subprocess.run(['git', '-C', '/repo', 'worktree', 'remove', '--force', '/tmp/seed/' + P], capture_output=True)
    subprocess.run(['rm', '-rf', '/tmp/seed/' + P])
    r = subprocess.run(['git', '-C', '/repo', 'worktree', 'add', '--detach', '/tmp/seed/' + P, 'HEAD'], capture_output=True, text=True)
    print(P, len(earlier), 'earlier changes;', (r.stderr or r.stdout).strip().splitlines()[-1])
