"""Run Verus on a built unit, parse its diagnostics, map them back to obligations."""
import json
import os
import re
import subprocess
import time

from . import build as B

VERIF = B.VERIF
BUILD_DIR = os.environ.get('VERIF_BUILD', os.path.join(VERIF, 'build'))   # VERIF_BUILD: a scratch output directory for development runs

OBLIGATION_PATTERNS = [
    (re.compile(r'^postcondition not satisfied'), 'postcondition'),
    (re.compile(r'^precondition not satisfied'), 'precondition'),
    (re.compile(r'^precondition not met'), 'precondition'),   # custom texts of vstd preconditions, e.g. `precondition not met: index in bounds for this access`
    (re.compile(r'^assertion failed'), 'assertion'),
    (re.compile(r'^assertion not satisfied'), 'assertion'),
    (re.compile(r'^invariant not satisfied before loop'), 'invariant-entry'),
    (re.compile(r'^invariant not satisfied at end of loop body'), 'invariant-preserve'),
    (re.compile(r'^loop invariant not'), 'invariant'),
    (re.compile(r'^possible arithmetic underflow/overflow'), 'overflow'),
    (re.compile(r'^possible division by zero'), 'div-by-zero'),
    (re.compile(r'^possible bit shift underflow/overflow'), 'shift-overflow'),
    (re.compile(r'^decreases not satisfied'), 'termination'),
    (re.compile(r'^could not prove termination'), 'termination'),
    (re.compile(r'^possible .*(overflow|underflow|truncation)'), 'overflow'),
    (re.compile(r'^unable to prove assertion safe'), 'assertion'),
    (re.compile(r'^cannot show invariant holds'), 'invariant'),
    (re.compile(r'^failed precondition'), 'precondition'),
    (re.compile(r'^failed this postcondition'), 'postcondition'),
    (re.compile(r'^constructed value may fail to meet its declared type invariant'), 'type-invariant'),
]
RLIMIT_PATTERNS = [re.compile(r'Resource limit \(rlimit\) exceeded'), re.compile(r'rlimit'), re.compile(r'timed out')]


class UnitRun:
    def __init__(self, name, variant):
        self.name = name
        self.variant = variant
        self.built = None
        self.path = None
        self.returncode = None
        self.results = None       # verus verification-results
        self.times = None
        self.failed = []          # list of dict (obligation failures)
        self.undecided = []       # list of str (front-end errors, rlimit)
        self.cover_failed = set()
        self.wall_s = 0.0
        self.stderr_tail = ''
        self.cmd = ''
        self.fn_times = []


def origin_to_str(o):
    if o[0] == 'src':
        return '%s:%d' % (o[1], o[2])
    if o[0] == 'rw':
        return '%s (rewritten by %s)' % (origin_to_str(o[2]), o[1])
    if o[0] == 'clause':
        return 'clause %s' % o[1]
    if o[0] == 'vrs':
        return 'contracts/%s:%d' % (o[1], o[2])
    if o[0] == 'cover':
        return 'cover#%d' % o[1]
    return ':'.join(str(x) for x in o)


def base_src(o):
    while o[0] == 'rw':
        o = o[2]
    return o


def write_unit(built, variant):
    os.makedirs(BUILD_DIR, exist_ok=True)
    path = os.path.join(BUILD_DIR, '%s%s.rs' % (built.name, '' if variant == 'main' else '_' + variant))
    with open(path, 'w', encoding='utf-8') as f:
        f.write(built.text())
    return path


def run_verus(path, rlimit=None, extra=None, timeout=1800, threads=None):
    cmd = ['verus', path, '--output-json', '--time', '--error-format=json', '--triggers-mode', 'silent', '--multiple-errors', '40']
    # generous default: a changed body should fail its obligation, not exhaust the solver budget (Verus default is 10)
    cmd += ['--rlimit', str(rlimit if rlimit else 100)]
    if threads:
        cmd += ['--num-threads', str(threads)]
    if extra:
        cmd += extra
    t0 = time.time()
    try:
        p = subprocess.run(cmd, capture_output=True, text=True, timeout=timeout, cwd=BUILD_DIR)
        rc, out, err = p.returncode, p.stdout, p.stderr
    except subprocess.TimeoutExpired as e:
        rc, out, err = -9, (e.stdout or b'').decode('utf-8', 'replace') if isinstance(e.stdout, bytes) else (e.stdout or ''), 'TIMEOUT after %ds' % timeout
    return cmd, rc, out, err, time.time() - t0


def fn_of_line(built, idx):
    for (a, b, key) in built.fn_ranges:
        if a <= idx <= b:
            return key
    return None


def analyse(built, variant, cmd, rc, out, err, wall):
    r = UnitRun(built.name, variant)
    r.built = built
    r.returncode = rc
    r.wall_s = wall
    r.cmd = ' '.join(cmd)
    try:
        j = json.loads(out) if out.strip() else None
    except Exception:
        j = None
    if j:
        r.results = j.get('verification-results')
        r.times = j.get('times-ms')
        try:
            for mod in r.times['smt']['smt-run-module-times']:
                for fb in mod.get('function-breakdown', []):
                    r.fn_times.append(fb)
        except Exception:
            pass
    diags = []
    for line in err.splitlines():
        line = line.strip()
        if not line.startswith('{'):
            if line:
                r.stderr_tail += line + '\n'
            continue
        try:
            d = json.loads(line)
        except Exception:
            r.stderr_tail += line + '\n'
            continue
        diags.append(d)
    nlines = len(built.lines)
    for d in diags:
        lvl = d.get('level')
        msg = d.get('message', '')
        if lvl not in ('error',):
            # warnings / notes: rlimit notes may come as notes
            if any(p.search(msg) for p in RLIMIT_PATTERNS) and lvl in ('warning', 'note') and 'exceeded' in msg:
                r.undecided.append('rlimit: ' + msg)
            continue
        if msg.startswith('aborting due to'):
            continue
        kind = None
        for (rx, k) in OBLIGATION_PATTERNS:
            if rx.search(msg):
                kind = k
                break
        spans = d.get('spans', [])
        if kind is None:
            if any(p.search(msg) for p in RLIMIT_PATTERNS):
                where = ''
                for s in spans:
                    idx = s['line_start'] - 1
                    if 0 <= idx < nlines:
                        where = fn_of_line(built, idx) or ''
                r.undecided.append('rlimit: %s %s' % (msg, where))
            else:
                loc = ''
                for s in spans:
                    if s.get('is_primary'):
                        idx = s['line_start'] - 1
                        if 0 <= idx < nlines:
                            loc = ' at %s [%s]' % (origin_to_str(built.lines[idx].origin), built.lines[idx].text.strip())
                r.undecided.append('front-end: %s%s' % (msg, loc))
            continue
        # obligation failure: gather spans
        info = {'kind': kind, 'message': msg, 'spans': [], 'rendered': d.get('rendered', '')}
        clause_ids = []
        src_lines = []
        cover = None
        fnkey = None
        exit_text = None
        for s in spans:
            if not s['file_name'].endswith('.rs'):
                continue
            same_file = os.path.basename(s['file_name']).startswith(built.name) and '/' in s['file_name']
            idx = s['line_start'] - 1
            if not (0 <= idx < nlines) or 'vstd' in s['file_name'] or not same_file:
                info['spans'].append({'where': s['file_name'], 'label': s.get('label')})
                continue
            ln = built.lines[idx]
            o = ln.origin
            fk = fn_of_line(built, idx)
            if fk and not fnkey:
                fnkey = fk
            txt = s['text'][0]['text'].strip() if s.get('text') else ln.text.strip()
            hl = ''
            if s.get('text'):
                t0 = s['text'][0]
                hl = t0['text'][t0['highlight_start'] - 1:t0['highlight_end'] - 1]
            info['spans'].append({'where': origin_to_str(o), 'label': s.get('label'), 'text': txt, 'highlight': hl, 'primary': s.get('is_primary')})
            if o[0] == 'clause':
                clause_ids.append(o[1])
            elif o[0] == 'cover':
                cover = o[1]
            elif o[0] in ('src', 'rw'):
                src_lines.append((base_src(o), txt, s.get('label') or '', hl))
        info['fn'] = fnkey
        if cover is not None:
            r.cover_failed.add(cover)
            continue
        if not clause_ids and not src_lines:
            # the failure sits entirely in /verif's own spec/lemma text: the specification (or its
            # proof) no longer holds for the extracted definitions -> contract must be revisited
            where = '; '.join('%s [%s]' % (sp.get('where'), (sp.get('text') or '')[:100]) for sp in info['spans'])
            r.undecided.append('specification lemma not discharged (%s): %s' % (msg, where))
            continue
        # name the obligation
        exits = [x for x in src_lines if 'exit' in x[2] or 'end of the function' in x[2]]
        if exits:
            exit_text = exits[0][1]
        if clause_ids:
            # prefer a non-body_prefix clause id
            cid = clause_ids[0]
            info['obligation'] = cid
            info['clause'] = cid
            info['props'] = built.clauses.get(cid, {}).get('props', [])
        else:
            if src_lines:
                (bo, txt, label, hl) = src_lines[0]
                anchor = re.sub(r'\s+', ' ', txt)
                info['obligation'] = '%s::auto:%s@[%s]' % (fnkey or built.name, kind, anchor)
                info['src'] = '%s:%d' % (bo[1], bo[2])
            else:
                info['obligation'] = '%s::auto:%s' % (fnkey or built.name, kind)
            props = []
            for f in built.functions:
                if f['key'] == fnkey:
                    props = f.get('auto_props', [])
            info['props'] = props
        if exit_text:
            info['exit'] = re.sub(r'\s+', ' ', exit_text)
        if src_lines and 'src' not in info:
            info['src'] = '%s:%d' % (src_lines[0][0][1], src_lines[0][0][2])
        r.failed.append(info)
    if rc != 0 and not r.failed and not r.undecided and not r.cover_failed:
        r.undecided.append('verus exited with %s and no parsed diagnostics: %s' % (rc, (r.stderr_tail or err)[-2000:]))
    if rc == 0 and (not r.results or not r.results.get('success')):
        r.undecided.append('verus exit 0 but no success record')
    return r


def run_unit(udef, variant='main', rlimit=None, timeout=1800, threads=None):
    built = B.build_unit(udef, cover=(variant == 'cover'))
    path = write_unit(built, variant)
    cmd, rc, out, err, wall = run_verus(path, rlimit=rlimit, timeout=timeout, threads=threads)
    r = analyse(built, variant, cmd, rc, out, err, wall)
    r.path = path
    return r
