"""Build and run the replay driver (/verif/replay) against /repo's working tree (path-patched crates)."""
import os
import shutil
import subprocess
import threading

VERIF = os.path.dirname(os.path.dirname(os.path.abspath(__file__)))
REPO = os.environ.get('VERIF_REPO', '/repo')
TARGET = os.path.join(VERIF, 'build', 'replay-target')
ALT = os.environ.get('VERIF_ALT', '')   # suffix that keeps the scratch driver copies of parallel development runs apart
_lock = threading.Lock()
_built = {}


def build():
    """Returns (ok, message). The driver's Cargo.toml patches every dmntk-* crate to a path under /repo."""
    with _lock:
        if REPO in _built:
            return _built[REPO]
        src = os.path.join(VERIF, 'replay')
        work = src
        if REPO != '/repo':
            # analyse a scratch copy of the repository: rewrite the path patches
            work = os.path.join(VERIF, 'build', 'replay-alt' + ALT)
            shutil.rmtree(work, ignore_errors=True)
            shutil.copytree(src, work)
            p = os.path.join(work, 'Cargo.toml')
            t = open(p).read().replace('"/repo/', '"%s/' % REPO.rstrip('/'))
            open(p, 'w').write(t)
            pm = os.path.join(work, 'src', 'main.rs')
            tm = open(pm).read().replace('"/repo/', '"%s/' % REPO.rstrip('/'))
            open(pm, 'w').write(tm)
        lock = os.path.join(REPO, 'Cargo.lock')
        if os.path.exists(lock):
            shutil.copy(lock, os.path.join(work, 'Cargo.lock'))
        env = dict(os.environ, CARGO_NET_OFFLINE='true', CARGO_TARGET_DIR=TARGET if REPO == '/repo' else TARGET + '-alt' + ALT)
        # the C sources of feel-number are compiled by its build script (cc crate), which emits rerun-if-env-changed lines
        # and therefore is NOT re-run when a .c/.h file changes: detect that here and drop the stale objects from OUR target dir
        import hashlib, glob
        h = hashlib.sha256()
        for f in sorted(glob.glob(os.path.join(REPO, 'feel-number', 'decnumber', '*.[ch]')) + [os.path.join(REPO, 'feel-number', 'build.rs')]):
            with open(f, 'rb') as fh:
                h.update(f.encode() + b'\0' + fh.read())
        stamp = os.path.join(env['CARGO_TARGET_DIR'], '.decnumber-sha256')
        old = open(stamp).read() if os.path.exists(stamp) else None
        if old is not None and old != h.hexdigest():
            subprocess.run(['cargo', 'clean', '--offline', '-p', 'dmntk-feel-number'], cwd=work, env=env, capture_output=True, text=True, timeout=600)
        os.makedirs(env['CARGO_TARGET_DIR'], exist_ok=True)
        with open(stamp, 'w') as fh:
            fh.write(h.hexdigest())
        p = subprocess.run(['cargo', 'build', '--offline', '--quiet'], cwd=work, env=env, capture_output=True, text=True, timeout=1800)
        exe = os.path.join(env['CARGO_TARGET_DIR'], 'debug', 'verif-replay')
        res = (p.returncode == 0 and os.path.exists(exe), exe if p.returncode == 0 else p.stderr[-2000:])
        _built[REPO] = res
        return res


def run(driver, args, timeout=120):
    ok, exe = build()
    if not ok:
        return {'ok': False, 'error': 'replay driver did not build: ' + exe}
    try:
        p = subprocess.run([exe, driver] + list(args), capture_output=True, text=True, timeout=timeout)
        return {'ok': True, 'stdout': p.stdout, 'returncode': p.returncode}
    except subprocess.TimeoutExpired:
        return {'ok': True, 'stdout': 'TIMEOUT', 'returncode': -9}
