"""Rust-aware text scanner used by the extractor.

It does not parse Rust; it classifies every byte of a source file as code /
comment / string / char so that brace matching and anchor searches are not
fooled by braces or keywords inside literals and comments, and it locates items
(fn / impl / enum / struct / const / mod ...) by header text.
"""
import re

CODE, COMMENT, STRING, CHAR = 0, 1, 2, 3


def classify(text):
    """Return a bytearray `cls` with len(text) entries: CODE/COMMENT/STRING/CHAR."""
    n = len(text)
    cls = bytearray(n)
    i = 0
    while i < n:
        c = text[i]
        if c == '/' and i + 1 < n and text[i + 1] == '/':
            j = text.find('\n', i)
            if j < 0:
                j = n
            for k in range(i, j):
                cls[k] = COMMENT
            i = j
        elif c == '/' and i + 1 < n and text[i + 1] == '*':
            depth = 1
            j = i + 2
            while j < n and depth > 0:
                if text.startswith('/*', j):
                    depth += 1
                    j += 2
                elif text.startswith('*/', j):
                    depth -= 1
                    j += 2
                else:
                    j += 1
            for k in range(i, j):
                cls[k] = COMMENT
            i = j
        elif c == '"' or (c in 'br' and _raw_or_byte_string_start(text, i)):
            j = _string_end(text, i)
            for k in range(i, j):
                cls[k] = STRING
            i = j
        elif c == "'":
            j = _char_end(text, i)
            if j > 0:
                for k in range(i, j):
                    cls[k] = CHAR
                i = j
            else:
                i += 1  # lifetime
        else:
            i += 1
    return cls


def _raw_or_byte_string_start(text, i):
    # b"..", r"..", r#".."#, br".."; must not be part of an identifier
    if i > 0 and (text[i - 1].isalnum() or text[i - 1] == '_'):
        return False
    m = re.match(r'(b?r#*"|b")', text[i:i + 12])
    return m is not None


def _string_end(text, i):
    n = len(text)
    m = re.match(r'b?r(#*)"', text[i:i + 12])
    if m:
        hashes = m.group(1)
        close = '"' + hashes
        j = text.find(close, i + len(m.group(0)))
        return n if j < 0 else j + len(close)
    if text[i] == 'b':
        i += 1
    j = i + 1
    while j < n:
        if text[j] == '\\':
            j += 2
        elif text[j] == '"':
            return j + 1
        else:
            j += 1
    return n


def _char_end(text, i):
    """If text[i] starts a char literal return its end, else (lifetime) return -1."""
    n = len(text)
    if i + 1 >= n:
        return -1
    if text[i + 1] == '\\':
        j = i + 2
        # escape: \n, \', \\, \x41, \u{...}
        if j < n and text[j] == 'u':
            k = text.find('}', j)
            if k > 0 and k + 1 < n and text[k + 1] == "'":
                return k + 2
            return -1
        if j < n and text[j] == 'x':
            return j + 4 if j + 3 < n and text[j + 3] == "'" else -1
        return j + 2 if j + 1 < n and text[j + 1] == "'" else -1
    # 'c' where c is any single char (possibly multi-byte in utf-8, but we work on str)
    if i + 2 < n and text[i + 2] == "'":
        return i + 3
    return -1


class Source:
    def __init__(self, path, text=None):
        self.path = path
        if text is None:
            with open(path, encoding='utf-8') as f:
                text = f.read()
        self.text = text
        self.cls = classify(text)
        # line starts
        self.line_starts = [0]
        for m in re.finditer('\n', text):
            self.line_starts.append(m.end())

    def line_of(self, pos):
        """1-based line number of byte offset pos."""
        import bisect
        return bisect.bisect_right(self.line_starts, pos)

    def is_code(self, pos):
        return self.cls[pos] == CODE

    def match_brace(self, open_pos):
        """open_pos indexes a '{', '(' or '[' in code; return index of the matching closer."""
        t, cls = self.text, self.cls
        o = t[open_pos]
        c = {'{': '}', '(': ')', '[': ']'}[o]
        depth = 0
        i = open_pos
        n = len(t)
        while i < n:
            if cls[i] == CODE:
                if t[i] == o:
                    depth += 1
                elif t[i] == c:
                    depth -= 1
                    if depth == 0:
                        return i
            i += 1
        raise ValueError('unbalanced %r at %d in %s' % (o, open_pos, self.path))

    def find_code(self, needle, start=0, end=None):
        """Find needle starting at a CODE position within [start, end)."""
        t = self.text
        if end is None:
            end = len(t)
        i = start
        while True:
            j = t.find(needle, i, end)
            if j < 0:
                return -1
            if self.cls[j] == CODE:
                return j
            i = j + 1

    def find_all_code(self, needle, start=0, end=None):
        res = []
        i = start
        while True:
            j = self.find_code(needle, i, end)
            if j < 0:
                return res
            res.append(j)
            i = j + 1

    def depth_at(self, start, pos):
        """Brace depth of pos relative to start (counting only code braces)."""
        d = 0
        t, cls = self.text, self.cls
        for i in range(start, pos):
            if cls[i] == CODE:
                if t[i] == '{':
                    d += 1
                elif t[i] == '}':
                    d -= 1
        return d


class ExtractError(Exception):
    pass


def _norm(s):
    return re.sub(r'\s+', ' ', s.strip())


_HEADER_RE_CACHE = {}


def _header_regex(component):
    """Turn a path component like 'impl PartialEq for FeelNumber' or 'fn run' into a regex
    that matches the item header up to (not including) generics/paren/brace."""
    comp = _norm(component)
    parts = comp.split(' ')
    kw = parts[0]
    if kw == 'fn':
        name = parts[1]
        return re.compile(r'\bfn\s+' + re.escape(name) + r'\b')
    if kw in ('enum', 'struct', 'mod', 'trait', 'type', 'const', 'static', 'union'):
        name = parts[1]
        return re.compile(r'\b' + kw + r'\s+' + re.escape(name) + r'\b')
    if kw == 'impl' or kw.startswith('impl<'):
        rest = comp[4:].strip()
        if rest.startswith('<'):
            # explicit generics given in the path: match them literally
            pat = r'\bimpl\s*' + r'\s*'.join(re.escape(tok) for tok in re.findall(r"\w+|[^\w\s]", rest)) + r'\s*(?:where[^{]*)?\{'
        else:
            # allow arbitrary whitespace, and optional generics after 'impl'
            pat = r'\bimpl\b(?:\s*<[^{;]*?>)?\s*' + r'\s*'.join(re.escape(tok) for tok in re.findall(r'\w+|[^\w\s]', rest)) + r'\s*(?:where[^{]*)?\{'
        return re.compile(pat)
    if kw == 'macro_rules!':
        return re.compile(r'\bmacro_rules!\s+' + re.escape(parts[1]) + r'\b')
    raise ExtractError('unsupported path component %r' % component)


def locate(src, path):
    """Locate an item by a '::'-separated path of header components, e.g.
    'impl FeelType::fn is_equivalent' or 'mod errors::fn invalid_x' or 'enum FeelType'.
    Returns (start, end) byte offsets: start = first byte of the header line's item
    (including leading attributes / doc comments), end = one past the closing '}' or ';'.
    Also returns header_start (position of the keyword, after attributes)."""
    comps = [c for c in re.split(r'\s*::\s*(?=(?:fn|impl|mod|enum|struct|trait|const|static|type|macro_rules!)\b)', path)]
    lo, hi = 0, len(src.text)
    found = None
    for ci, comp in enumerate(comps):
        rx = _header_regex(comp)
        cands = []
        for m in rx.finditer(src.text, lo, hi):
            p = m.start()
            if not src.is_code(p):
                continue
            if src.depth_at(lo, p) != 0:
                continue
            cands.append(m)
        if len(cands) == 0:
            raise ExtractError('anchor lost: %r (component %r) not found in %s' % (path, comp, src.path))
        if len(cands) > 1:
            raise ExtractError('anchor ambiguous: %r (component %r) matches %d times in %s' % (path, comp, len(cands), src.path))
        m = cands[0]
        kw_pos = m.start()
        # item extends to matching '}' of first code '{' or to ';' whichever comes first at depth 0 of () and []
        i = kw_pos
        t = src.text
        end = None
        body_open = None
        pdepth = 0
        semi_item = _norm(comp).split(' ')[0] in ('const', 'static', 'type')
        while i < hi:
            if src.is_code(i):
                ch = t[i]
                if ch in '([' or (semi_item and ch == '{'):
                    pdepth += 1
                elif ch in ')]' or (semi_item and ch == '}'):
                    pdepth -= 1
                elif ch == '{' and pdepth == 0:
                    body_open = i
                    end = src.match_brace(i) + 1
                    break
                elif ch == ';' and pdepth == 0:
                    end = i + 1
                    break
            i += 1
        if end is None:
            raise ExtractError('could not delimit item %r in %s' % (path, src.path))
        found = (kw_pos, end, body_open)
        if ci + 1 < len(comps):
            if body_open is None:
                raise ExtractError('component %r of %r has no body' % (comp, path))
            lo, hi = body_open + 1, end - 1
    kw_pos, end, body_open = found
    # walk back to the beginning of the line, then over preceding attribute / doc / visibility lines
    ls = src.text.rfind('\n', 0, kw_pos) + 1
    start = ls
    while start > 0:
        pl_end = start - 1
        pl_start = src.text.rfind('\n', 0, pl_end) + 1
        line = src.text[pl_start:pl_end].strip()
        if line.startswith('#[') or line.startswith('///') or line.startswith('#!['):
            start = pl_start
        else:
            break
    return start, end, kw_pos, body_open
