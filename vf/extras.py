"""Step (F): counterexample search and replay on the real code. Never creates a violation;
only upgrades a failed obligation with a concrete failing input when one is found."""
import json
import os
import subprocess


def find_witness(unit_module, fail, prop):
    hook = getattr(unit_module, 'witness', None)
    if hook is None:
        return None
    try:
        return hook(fail, prop)
    except Exception as e:  # tooling problem: no witness
        return {'confirmed_on_real_code': False, 'note': 'witness search crashed: %r' % (e,)}


def run_replay(spec):
    """spec: {'driver': name, 'args': [...]} - re-run the replay driver built against /repo."""
    from . import replaydrv
    return replaydrv.run(spec['driver'], spec.get('args', []))
