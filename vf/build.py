"""Unit builder: extracts real items from /repo, applies the logged rewrite rules and
contract splices of a unit definition, and emits one Verus file with a line-origin map.

Nothing here proves anything; it only guarantees that the text handed to Verus is the
text of /repo's working tree plus named, logged edits.
"""
import hashlib
import os
import re
from . import rsscan
from .rsscan import ExtractError

REPO = os.environ.get('VERIF_REPO', '/repo')
VERIF = os.path.dirname(os.path.dirname(os.path.abspath(__file__)))


class Line:
    __slots__ = ('text', 'origin')

    def __init__(self, text, origin):
        self.text = text
        self.origin = origin  # tuple

    def __repr__(self):
        return 'Line(%r,%r)' % (self.text, self.origin)


class Chunk:
    """A list of Lines with text-level edit operations that keep origins."""

    def __init__(self, lines):
        self.lines = lines

    @classmethod
    def from_src(cls, src, start, end, relpath):
        text = src.text[start:end]
        first = src.line_of(start)
        lines = [Line(t, ('src', relpath, first + i)) for i, t in enumerate(text.split('\n'))]
        return cls(lines)

    @classmethod
    def from_text(cls, text, origin):
        return cls([Line(t, origin) for t in text.split('\n')])

    def text(self):
        return '\n'.join(l.text for l in self.lines)

    def _offsets(self):
        offs = []
        p = 0
        for l in self.lines:
            offs.append(p)
            p += len(l.text) + 1
        return offs

    def line_index(self, pos):
        import bisect
        return bisect.bisect_right(self._offsets(), pos) - 1

    def code_find_all(self, needle, regex=False):
        """All occurrences of needle at CODE positions (not in comments/strings) as (start,end)."""
        t = self.text()
        cls = rsscan.classify(t)
        res = []
        if regex:
            for m in re.finditer(needle, t):
                if cls[m.start()] == rsscan.CODE:
                    res.append((m.start(), m.end(), m))
        else:
            i = 0
            while True:
                j = t.find(needle, i)
                if j < 0:
                    break
                if cls[j] == rsscan.CODE:
                    res.append((j, j + len(needle), None))
                i = j + 1
        return res

    def replace_span(self, start, end, new_text, origin_tag):
        """Replace bytes [start,end) with new_text; lines touched keep the origin of the first
        touched line, wrapped as ('rw', tag, orig)."""
        li0 = self.line_index(start)
        li1 = self.line_index(max(start, end - 1)) if end > start else li0
        offs = self._offsets()
        pre = self.lines[li0].text[:start - offs[li0]]
        post = self.lines[li1].text[end - offs[li1]:]
        base = self.lines[li0].origin
        new_lines = (pre + new_text + post).split('\n')
        repl = [Line(t, ('rw', origin_tag, base)) for t in new_lines]
        self.lines[li0:li1 + 1] = repl

    def insert_lines(self, idx, text, origin):
        new = [Line(t, origin) for t in text.split('\n')]
        self.lines[idx:idx] = new


def sha256(s):
    return hashlib.sha256(s.encode('utf-8')).hexdigest()


_SRC_CACHE = {}


def load_src(relpath):
    full = os.path.join(REPO, relpath)
    if full not in _SRC_CACHE:
        if not os.path.exists(full):
            raise ExtractError('source file missing: %s' % relpath)
        _SRC_CACHE[full] = rsscan.Source(full)
    return _SRC_CACHE[full]


LOOP_RE = re.compile(r'\b(for|while|loop)\b')


def find_loops(chunk):
    """Return list of (kw_start, brace_pos) for each loop keyword in code, textual order.
    `for` inside `impl .. for ..` or HRTB `for<'a>` are excluded."""
    t = chunk.text()
    cls = rsscan.classify(t)
    res = []
    for m in LOOP_RE.finditer(t):
        p = m.start()
        if cls[p] != rsscan.CODE:
            continue
        kw = m.group(1)
        if kw == 'for':
            # exclude `impl X for Y` and `for<'a>`
            after = t[m.end():m.end() + 2]
            if after.startswith('<'):
                continue
            before = t[max(0, p - 200):p]
            if re.search(r'\bimpl\b[^{;]*$', before):
                continue
        # body brace: first '{' in code at paren depth 0 after keyword
        i = m.end()
        depth = 0
        brace = None
        while i < len(t):
            if cls[i] == rsscan.CODE:
                ch = t[i]
                if ch in '([':
                    depth += 1
                elif ch in ')]':
                    depth -= 1
                elif ch == '{' and depth == 0:
                    brace = i
                    break
                elif ch == ';' and depth == 0:
                    break
            i += 1
        if brace is None:
            continue
        res.append((p, brace, kw))
    return res


class RewriteLog:
    def __init__(self):
        self.entries = []

    def add(self, rule, where, before, after):
        self.entries.append({'rule': rule, 'where': where, 'before': before, 'after': after})


def apply_R1(chunk, loop_idx, log, where):
    """R1: `for (i, x) in E.iter().enumerate() {` -> `for i in 0..E.len() { let x = &E[i];`
    (iter_mut -> &mut E[i])."""
    loops = find_loops(chunk)
    if loop_idx >= len(loops):
        raise ExtractError('R1: loop #%d not found in %s' % (loop_idx, where))
    p, brace, kw = loops[loop_idx]
    t = chunk.text()
    hdr = t[p:brace + 1]
    m = re.fullmatch(r'for\s*\(\s*(\w+)\s*,\s*(\w+|\([\w\s,]+\))\s*\)\s+in\s+(.+?)\.(iter|iter_mut)\(\)\.enumerate\(\)\s*\{', hdr, re.S)
    if not m:
        raise ExtractError('R1: loop #%d header %r in %s is not an enumerate loop' % (loop_idx, hdr, where))
    i, x, e, it = m.group(1), m.group(2), m.group(3).strip(), m.group(4)
    amp = '&mut ' if it == 'iter_mut' else '&'
    new = 'for %s in 0..%s.len() { let %s = %s%s[%s];' % (i, e, x, amp, e, i)
    chunk.replace_span(p, brace + 1, new, 'R1')
    log.add('R1', where, hdr, new)


def apply_R2(chunk, loop_idx, log, where):
    """R2: `for PAT in M {` / `in &M` / `in M.deref()` -> `for PAT in M.iter() {`."""
    loops = find_loops(chunk)
    if loop_idx >= len(loops):
        raise ExtractError('R2: loop #%d not found in %s' % (loop_idx, where))
    p, brace, kw = loops[loop_idx]
    t = chunk.text()
    hdr = t[p:brace + 1]
    m = re.fullmatch(r'for\s+(.+?)\s+in\s+&?\s*([\w\.]+?)(?:\.deref\(\))?\s*\{', hdr, re.S)
    if not m:
        raise ExtractError('R2: loop #%d header %r in %s is not a plain map loop' % (loop_idx, hdr, where))
    new = 'for %s in %s.iter() {' % (m.group(1), m.group(2))
    chunk.replace_span(p, brace + 1, new, 'R2')
    log.add('R2', where, hdr, new)


def apply_R16(chunk, loop_idx, log, where):
    """R16: `for PAT in E.iter().flatten() { BODY }` (E: a collection of Option<T>) ->
    `for PAT_opt in E.iter() { if let Some(PAT) = PAT_opt { BODY } }`: Iterator::flatten over Options
    yields exactly the Some payloads, in order."""
    loops = find_loops(chunk)
    if loop_idx >= len(loops):
        raise ExtractError('R16: loop #%d not found in %s' % (loop_idx, where))
    p, brace, kw = loops[loop_idx]
    t = chunk.text()
    hdr = t[p:brace + 1]
    m = re.fullmatch(r'for\s+(\w+)\s+in\s+(.+?)\.iter\(\)\.flatten\(\)\s*\{', hdr, re.S)
    if not m:
        raise ExtractError('R16: loop #%d header %r in %s is not an iter().flatten() loop' % (loop_idx, hdr, where))
    src = rsscan.Source('<chunk>', t)
    close = src.match_brace(brace)
    var, e = m.group(1), m.group(2).strip()
    # closing brace first (offsets after it stay valid), then the header
    chunk.replace_span(close, close + 1, '} }', 'R16')
    new = 'for %s_opt in %s.iter() { if let Some(%s) = %s_opt {' % (var, e, var, var)
    chunk.replace_span(p, brace + 1, new, 'R16')
    log.add('R16', where, hdr, new + ' ... } }')


def apply_R17(chunk, log, where, count=None):
    """R17: `RECV.and_then(|PAT| BODY)` -> `match RECV { Ok(PAT) => BODY, Err(e_) => Err(e_) }` and
    `RECV.map(|PAT| BODY)` -> `match RECV { Ok(PAT) => Ok(BODY), Err(e_) => Err(e_) }` for a Result-valued receiver that is a
    method call on `self` (the definition of Result::and_then / Result::map with the closure called in place; the closures
    capture `&mut self`, which the verifier does not support). Applied from the last occurrence to the first."""
    n = 0
    while True:
        t = chunk.text()
        src = rsscan.Source('<chunk>', t)
        occ = [m for m in re.finditer(r'\.\s*(and_then|map)\s*\(\s*\|([^|]*)\|\s*', t) if src.is_code(m.start())]
        if not occ:
            break
        m = occ[-1]
        kind, pat = m.group(1), m.group(2).strip()
        q = t.index('(', m.start())
        c = src.match_brace(q)
        # receiver: the last `self.method(` whose closing parenthesis is directly in front of this `.and_then`
        recv = None
        for r in re.finditer(r'\bself\s*\.\s*\w+\s*\(', t[:m.start()]):
            if not src.is_code(r.start()):
                continue
            rq = r.end() - 1
            rc = src.match_brace(rq)
            if t[rc + 1:m.start()].strip() == '':
                recv = r.start()
        if recv is None:
            raise ExtractError('R17: receiver of .%s not recognised in %s' % (kind, where))
        recv_text = re.sub(r'\s+', ' ', t[recv:m.start()]).replace(' .', '.').strip()
        if kind == 'and_then':
            chunk.replace_span(c, c + 1, ', Err(e_) => Err(e_) }', 'R17')
            chunk.replace_span(recv, m.end(), 'match %s { Ok(%s) => ' % (recv_text, pat), 'R17')
        else:
            chunk.replace_span(c, c + 1, '), Err(e_) => Err(e_) }', 'R17')
            chunk.replace_span(recv, m.end(), 'match %s { Ok(%s) => Ok(' % (recv_text, pat), 'R17')
        log.add('R17', where, '%s.%s(|%s| ..)' % (recv_text, kind, pat), 'match %s { Ok(%s) => .., Err(e_) => Err(e_) }' % (recv_text, pat))
        n += 1
    if count is not None and n != count:
        raise ExtractError('rule R17 expected %d rewrites in %s, did %d' % (count, where, n))


def apply_regex_rule(chunk, rule, pattern, repl, log, where, count=None, flags=re.S):
    """Generic logged regex rewrite on code positions (single pass: matches are found in the text as it
    is and replaced from the last to the first, so a replacement is never rescanned).
    count=None: any number (>= 0); otherwise the exact number of rewrites expected."""
    occ = chunk.code_find_all(pattern, regex=True)
    n = 0
    for (s_, e_, m) in reversed(occ):
        new = m.expand(repl) if isinstance(repl, str) else repl(m)
        if new == m.group(0):
            continue
        chunk.replace_span(s_, e_, new, rule)
        log.add(rule, where, m.group(0), new)
        n += 1
    if count is not None and n != count:
        raise ExtractError('rule %s expected %d rewrites in %s, did %d' % (rule, count, where, n))
    return n


def strip_macro_stmt(chunk, names, log, where):
    """R6: remove statement-position macro calls NAME!( ... ); (trace!, println!, ...)."""
    n = 0
    while True:
        t = chunk.text()
        cls = rsscan.classify(t)
        found = False
        for m in re.finditer(r'\b(' + '|'.join(names) + r')!\s*\(', t):
            if cls[m.start()] != rsscan.CODE:
                continue
            # find matching paren
            depth = 0
            i = m.end() - 1
            while i < len(t):
                if cls[i] == rsscan.CODE:
                    if t[i] == '(':
                        depth += 1
                    elif t[i] == ')':
                        depth -= 1
                        if depth == 0:
                            break
                i += 1
            j = i + 1
            while j < len(t) and t[j] in ' \t':
                j += 1
            if j < len(t) and t[j] == ';':
                j += 1
            old = t[m.start():j]
            chunk.replace_span(m.start(), j, '', 'R6')
            log.add('R6', where, old, '')
            n += 1
            found = True
            break
        if not found:
            break
    return n


def apply_R12(chunk, log, where):
    """R12: `RECV.rem(ARG)` -> `(RECV % ARG)`, `RECV.div(ARG)` -> `(RECV / ARG)` for primitive integers
    (std::ops::Rem/Div method calls are the operators). RECV is the maximal postfix chain to the left."""
    n = 0
    while True:
        t = chunk.text()
        cls = rsscan.classify(t)
        m = None
        for mm in re.finditer(r'\.(rem|div)\(', t):
            if cls[mm.start()] == rsscan.CODE:
                m = mm
                break
        if m is None:
            break
        # argument: up to matching paren
        depth = 0
        j = m.end() - 1
        while j < len(t):
            if cls[j] == rsscan.CODE:
                if t[j] == '(':
                    depth += 1
                elif t[j] == ')':
                    depth -= 1
                    if depth == 0:
                        break
            j += 1
        arg = t[m.end():j]
        # receiver: scan backwards over identifier chars, dots, and balanced () []
        i = m.start()
        k = i
        while k > 0:
            c = t[k - 1]
            if c.isalnum() or c in '_.':
                k -= 1
            elif c in ')]':
                close = c
                opn = '(' if c == ')' else '['
                d = 0
                q = k - 1
                while q >= 0:
                    if t[q] == close:
                        d += 1
                    elif t[q] == opn:
                        d -= 1
                        if d == 0:
                            break
                    q -= 1
                k = q
            else:
                break
        recv = t[k:i]
        if not recv.strip():
            raise ExtractError('R12: no receiver for %s in %s' % (m.group(0), where))
        op = '%' if m.group(1) == 'rem' else '/'
        new = '(%s %s %s)' % (recv, op, arg)
        old = t[k:j + 1]
        chunk.replace_span(k, j + 1, new, 'R12')
        log.add('R12', where, old, new)
        n += 1
        if n > 100:
            raise ExtractError('R12 does not terminate in %s' % where)
    return n


def apply_R3(chunk, names, log, where):
    """R3: `value_null!(ARGS)` (and the other diagnostic-message macros in `names`) with a non-empty
    argument list -> `value_null!()`: the diagnostic message (a format! of Display values) is dropped."""
    n = 0
    pos = 0
    while True:
        t = chunk.text()
        cls = rsscan.classify(t)
        m = None
        for mm in re.finditer(r'\b(' + '|'.join(names) + r')!\s*\(', t):
            if mm.start() < pos or cls[mm.start()] != rsscan.CODE:
                continue
            m = mm
            break
        if m is None:
            break
        depth = 0
        j = m.end() - 1
        while j < len(t):
            if cls[j] == rsscan.CODE:
                if t[j] == '(':
                    depth += 1
                elif t[j] == ')':
                    depth -= 1
                    if depth == 0:
                        break
            j += 1
        args = t[m.end():j]
        if args.strip() == '' and m.group(1) == 'value_null':
            pos = j + 1
            continue
        old_txt = t[m.start():j + 1]
        new_txt = 'value_null!()'
        chunk.replace_span(m.start(), j + 1, new_txt, 'R3')
        log.add('R3', where, old_txt, new_txt)
        pos = m.start() + len(new_txt)
        n += 1
    return n


CLOSURE_RE = re.compile(r'Box::new\(move \|(\w+): &Scope\| \{')


def lift_named_closure(chunk, header_re, signature, log, where):
    """R4 (local closure): the block of a closure bound with `let NAME = |..| { .. };` becomes the body of a function
    with the given signature (captured variables such as `self` become parameters). Everything else is dropped."""
    t = chunk.text()
    cls = rsscan.classify(t)
    occ = [m for m in re.finditer(header_re, t) if cls[m.end() - 1] == rsscan.CODE]
    if len(occ) != 1:
        raise ExtractError('R4: closure header %r matches %d times in %s' % (header_re, len(occ), where))
    m = occ[0]
    open_pos = m.end() - 1
    if t[open_pos] != '{':
        raise ExtractError('R4: closure header regex must end at the opening brace in %s' % where)
    src = rsscan.Source('<chunk>', t)
    close_pos = src.match_brace(open_pos)
    li0 = chunk.line_index(open_pos)
    li1 = chunk.line_index(close_pos)
    body = chunk.lines[li0 + 1:li1]
    if 'head' in m.groupdict() and m.group('head'):
        # the closure's body is one expression that opens the block (`|scope| match lhe(scope) { arms }`): that head - the part of the
        # header named `head`, ending with the opening brace - is kept in front of the block, which is closed again
        body = [Line('  ' + m.group('head'), ('rw', 'R4', chunk.lines[li0].origin))] + body + [Line('  }', ('rw', 'R4', chunk.lines[li1].origin))]
    new_lines = [Line(signature + ' {', ('rw', 'R4', chunk.lines[li0].origin))] + body + [Line('}', ('rw', 'R4', chunk.lines[li1].origin))]
    log.add('R4', where, 'local closure %s of %s' % (m.group(0), where), signature)
    chunk.lines = new_lines


def lift_tail(chunk, start_re, signature, log, where):
    """R28 (tail lifting): the trailing statements of a function - from the statement matched by start_re up to the function's closing brace -
    become the body of a function with the given signature (the locals they read become parameters). Everything before is dropped."""
    t = chunk.text()
    cls = rsscan.classify(t)
    occ = [m for m in re.finditer(start_re, t) if cls[m.start()] == rsscan.CODE]
    if len(occ) != 1:
        raise ExtractError('R28: tail anchor %r matches %d times in %s' % (start_re, len(occ), where))
    li0 = chunk.line_index(occ[0].start())
    # the closing brace of the enclosing function is the last line of the chunk
    li1 = len(chunk.lines) - 1
    while li1 > li0 and chunk.lines[li1].text.strip() == '':
        li1 -= 1
    if chunk.lines[li1].text.strip() != '}':
        raise ExtractError('R28: %s does not end with a closing brace line' % where)
    body = chunk.lines[li0:li1]
    chunk.lines = [Line(signature + ' {', ('rw', 'R28', chunk.lines[li0].origin))] + body + [Line('}', ('rw', 'R28', chunk.lines[li1].origin))]
    log.add('R28', where, 'statements of %s from `%s` to its end' % (where, occ[0].group(0)), signature)


def lift_closure(chunk, index, name, log, where, extra_params=None, ret_type='Value', lead_params=None):
    """R4: the block of the index-th `Box::new(move |scope: &Scope| { .. })` closure of a build_* function
    becomes the body of `pub fn name(..) -> Value`. Leading `let v = ev(scope);` statements (operand
    evaluation through captured sub-evaluators) become parameters `v: Value`. Everything else of the
    enclosing function (closure construction, boxing, captured evaluators) is dropped."""
    t = chunk.text()
    cls = rsscan.classify(t)
    occ = [m for m in CLOSURE_RE.finditer(t) if cls[m.start()] == rsscan.CODE]
    if index >= len(occ):
        raise ExtractError('R4: closure #%d not found in %s (found %d)' % (index, where, len(occ)))
    m = occ[index]
    scope_name = m.group(1)
    open_pos = m.end() - 1
    src = rsscan.Source('<chunk>', t)
    close_pos = src.match_brace(open_pos)
    li0 = chunk.line_index(open_pos)
    li1 = chunk.line_index(close_pos)
    if li1 <= li0:
        raise ExtractError('R4: single-line closure in %s not supported' % where)
    body = chunk.lines[li0 + 1:li1]
    params = []
    k = 0
    while k < len(body):
        st = body[k].text.strip()
        if st == '' or st.startswith('//'):
            k += 1
            continue
        mm = re.fullmatch(r'let (mut )?(\w+) = (\w+)\(' + re.escape(scope_name) + r'\)(?: as Value)?;', st)
        if not mm:
            break
        params.append((mm.group(2), bool(mm.group(1)), mm.group(3)))
        k += 1
    rest = body[k:]
    plist = ', '.join('%s%s: Value' % ('mut ' if mut else '', v) for (v, mut, _) in params)
    if lead_params:
        plist = ', '.join(list(lead_params) + ([plist] if plist else []))
    if extra_params:
        plist = ', '.join([plist] + list(extra_params)) if plist else ', '.join(extra_params)
    hdr_origin = ('rw', 'R4', chunk.lines[li0].origin)
    new_lines = [Line('pub fn %s(%s) -> %s {' % (name, plist, ret_type), hdr_origin)] + rest + [Line('}', ('rw', 'R4', chunk.lines[li1].origin))]
    log.add('R4', where, 'closure #%d of %s: operands %s evaluated by captured evaluators %s' % (index, where, [p[0] for p in params], [p[2] for p in params]),
            'pub fn %s(%s) -> %s' % (name, plist, ret_type))
    chunk.lines = new_lines
    return [p[0] for p in params]


def name_return(sig_text, ret):
    """`fn f(..) -> T` => `fn f(..) -> (ret: T)`; sig_text is from 'fn' up to (excluding) body '{'."""
    cls = rsscan.classify(sig_text)
    # find parameter list
    i = sig_text.find('(')
    # skip generics with parentheses? (Fn(..) bounds in generics) - take first '(' after fn name and optional <...>
    m = re.match(r'\s*(?:pub(?:\([^)]*\))?\s+)?(?:const\s+)?(?:unsafe\s+)?fn\s+\w+\s*', sig_text)
    if not m:
        raise ExtractError('cannot parse fn signature %r' % sig_text)
    p = m.end()
    if p < len(sig_text) and sig_text[p] == '<':
        depth = 0
        while p < len(sig_text):
            if sig_text[p] == '<':
                depth += 1
            elif sig_text[p] == '>' and sig_text[p - 1] != '-':
                depth -= 1
                if depth == 0:
                    p += 1
                    break
            p += 1
    while sig_text[p] in ' \t\n':
        p += 1
    if sig_text[p] != '(':
        raise ExtractError('cannot find parameter list in %r' % sig_text)
    depth = 0
    q = p
    while q < len(sig_text):
        if cls[q] == rsscan.CODE:
            if sig_text[q] == '(':
                depth += 1
            elif sig_text[q] == ')':
                depth -= 1
                if depth == 0:
                    break
        q += 1
    rest = sig_text[q + 1:]
    m2 = re.match(r'(\s*->\s*)(.*?)(\s*(?:\bwhere\b.*)?)$', rest, re.S)
    if not m2:
        # no return type
        return sig_text
    rtype = m2.group(2).strip()
    return sig_text[:q + 1] + m2.group(1) + '(' + ret + ': ' + rtype + ')' + m2.group(3)


class Built:
    def __init__(self, name):
        self.name = name
        self.lines = []       # Line objects of the final file
        self.functions = []   # dicts: name, src, span, sha256, clauses
        self.clauses = {}     # clause id -> dict(fn, kind, props, text)
        self.rewrites = RewriteLog()
        self.cover_points = {}  # k -> description
        self.fn_ranges = []   # (first_line_idx, last_line_idx, fn_key) in final file
        self.trusted = []
        self.notes = []

    def text(self):
        return '\n'.join(l.text for l in self.lines) + '\n'


def _clause_lines(kind, clauses, fnkey, built, default_props):
    """clauses: list of (id, expr, props?) -> list of Line; registers them."""
    out = []
    if not clauses:
        return out
    out.append(Line('    ' + kind, ('gen', 'clause-keyword')))
    for c in clauses:
        cid, expr = c[0], c[1]
        props = list(c[2]) if len(c) > 2 else list(default_props)
        full = fnkey + '::' + ('pre.' if kind == 'requires' else '') + cid
        if full in built.clauses:
            raise ExtractError('duplicate clause id %s' % full)
        built.clauses[full] = {'fn': fnkey, 'kind': kind, 'props': props, 'text': expr}
        for j, el in enumerate((expr.rstrip().rstrip(',') + ',').split('\n')):
            out.append(Line('      ' + el, ('clause', full)))
    return out


def build_fn_chunk(chunk, fspec, fnkey, built, cover, relwhere):
    """chunk holds exactly one fn item (attributes + signature + body). Apply spec."""
    log = built.rewrites
    default_props = fspec.get('props', [])
    # --- rewrite rules on the body first (they may move braces)
    for r in fspec.get('rewrites', []):
        kind = r[0]
        if kind == 'R1':
            apply_R1(chunk, r[1], log, fnkey)
        elif kind == 'R17':
            apply_R17(chunk, log, fnkey, r[1] if len(r) > 1 else None)
        elif kind == 'R2':
            apply_R2(chunk, r[1], log, fnkey)
        elif kind == 'R6':
            strip_macro_stmt(chunk, r[1], log, fnkey)
        elif kind == 'R12':
            apply_R12(chunk, log, fnkey)
        elif kind == 'R16':
            apply_R16(chunk, r[1], log, fnkey)
        elif kind == 'R3':
            apply_R3(chunk, r[1] if len(r) > 1 else ['value_null'], log, fnkey)
        elif kind == 'RX':
            # ('RX', rule_name, pattern, repl, count)
            apply_regex_rule(chunk, r[1], r[2], r[3], log, fnkey, count=r[4] if len(r) > 4 else None)
        else:
            raise ExtractError('unknown rewrite %r' % (r,))
    nloops = len(find_loops(chunk))
    if 'loops' in fspec and fspec['loops'] != nloops:
        raise ExtractError('contract must be revisited: %s has %d loops, contract written for %d' % (fnkey, nloops, fspec['loops']))
    # --- loop specs, applied from last to first so that offsets stay valid
    lspecs = fspec.get('loop_specs', {})
    cover_loop_ids = []
    for li in sorted(lspecs.keys(), reverse=True):
        ls = lspecs[li]
        loops = find_loops(chunk)
        if li >= len(loops):
            raise ExtractError('loop #%d not found in %s' % (li, fnkey))
        p, brace, kw = loops[li]
        # body suffix (proof block right before the loop body's closing brace); done first so that
        # the offsets of the opening brace stay valid
        if ls.get('body_suffix'):
            tsrc = rsscan.Source('<chunk>', chunk.text())
            close = tsrc.match_brace(brace)
            cid = fnkey + '::loop%d.body_suffix' % li
            built.clauses[cid] = {'fn': fnkey, 'kind': 'proof', 'props': ls.get('props', default_props), 'text': ls['body_suffix']}
            cl_idx = chunk.line_index(close)
            cl_off = chunk._offsets()[cl_idx]
            cl_line = chunk.lines[cl_idx]
            cpre, cpost = cl_line.text[:close - cl_off], cl_line.text[close - cl_off:]
            repl = []
            if cpre.strip():
                repl.append(Line(cpre, cl_line.origin))
            for el in ls['body_suffix'].split('\n'):
                repl.append(Line('      ' + el, ('clause', cid)))
            repl.append(Line(cpost, cl_line.origin))
            chunk.lines[cl_idx:cl_idx + 1] = repl
        # body prefix (proof block at start of the loop body)
        body_lines = []
        if cover:
            k = len(built.cover_points)
            built.cover_points[k] = '%s loop#%d body entry' % (fnkey, li)
            body_lines.append(Line('      proof { assert(!vcover(%d)); }' % k, ('cover', k)))
        if ls.get('body_prefix'):
            cid = fnkey + '::loop%d.body_prefix' % li
            built.clauses[cid] = {'fn': fnkey, 'kind': 'proof', 'props': ls.get('props', default_props), 'text': ls['body_prefix']}
            for el in ls['body_prefix'].split('\n'):
                body_lines.append(Line('      ' + el, ('clause', cid)))
        # split at brace: text before brace stays, spec lines, then '{' + rest
        lidx = chunk.line_index(brace)
        offs = chunk._offsets()
        col = brace - offs[lidx]
        line = chunk.lines[lidx]
        pre, post = line.text[:col], line.text[col + 1:]
        spec_lines = []
        spec_lines += _clause_lines('invariant_except_break', [('loop%d.xb.%s' % (li, c[0]),) + tuple(c[1:]) for c in ls.get('invariant_except_break', [])], fnkey, built, ls.get('props', default_props))
        spec_lines += _clause_lines('invariant', [('loop%d.%s' % (li, c[0]),) + tuple(c[1:]) for c in ls.get('invariant', [])], fnkey, built, ls.get('props', default_props))
        spec_lines += _clause_lines('ensures', [('loop%d.post.%s' % (li, c[0]),) + tuple(c[1:]) for c in ls.get('ensures', [])], fnkey, built, ls.get('props', default_props))
        if ls.get('decreases'):
            spec_lines.append(Line('    decreases ' + ls['decreases'], ('clause', fnkey + '::loop%d.decreases' % li)))
            built.clauses[fnkey + '::loop%d.decreases' % li] = {'fn': fnkey, 'kind': 'decreases', 'props': ls.get('props', default_props), 'text': ls['decreases']}
        new = [Line(pre, line.origin)] + spec_lines + [Line('    {', line.origin)] + body_lines
        if post.strip():
            new.append(Line(post, line.origin))
        chunk.lines[lidx:lidx + 1] = new
        if ls.get('iter_name'):
            # `for PAT in EXPR` -> `for PAT in NAME: EXPR`
            t = chunk.text()
            loops2 = find_loops(chunk)
            p2, brace2, _ = loops2[li]
            hdr = t[p2:brace2]
            m = re.match(r'(for\s+.+?\s+in\s+)', hdr, re.S)
            if not m:
                raise ExtractError('cannot name iterator of loop #%d in %s' % (li, fnkey))
            chunk.replace_span(p2 + m.end(), p2 + m.end(), ls['iter_name'] + ': ', 'ghost-iter-name')
    # --- anchored splices
    for sp in fspec.get('splices', []):
        anchor = sp['anchor']
        occ = chunk.code_find_all(anchor)
        # ignore occurrences inside clause lines
        occ = [o for o in occ if chunk.lines[chunk.line_index(o[0])].origin[0] in ('src', 'rw')]
        nth = sp.get('nth')
        if nth is None:
            if len(occ) != 1:
                raise ExtractError('anchor %r matches %d times in %s (need exactly 1)' % (anchor, len(occ), fnkey))
            s, e, _ = occ[0]
        else:
            if nth >= len(occ) or -nth > len(occ):
                raise ExtractError('anchor %r occurrence #%d not found in %s' % (anchor, nth, fnkey))
            s, e, _ = occ[nth]
        cid = fnkey + '::' + sp['id']
        built.clauses[cid] = {'fn': fnkey, 'kind': sp['op'], 'props': sp.get('props', default_props), 'text': sp['text']}
        if sp['op'] == 'before':
            idx = chunk.line_index(s)
            chunk.insert_lines(idx, sp['text'], ('clause', cid))
        elif sp['op'] == 'after':
            idx = chunk.line_index(e - 1) + 1
            chunk.insert_lines(idx, sp['text'], ('clause', cid))
        elif sp['op'] == 'replace':
            if 'rule' not in sp:
                raise ExtractError('replace splice %s needs a rule tag' % cid)
            old = chunk.text()[s:e]
            chunk.replace_span(s, e, sp['text'], sp['rule'])
            log.add(sp['rule'], fnkey, old, sp['text'])
        else:
            raise ExtractError('unknown splice op %r' % sp['op'])
    # --- signature: name the return value, add header clauses
    t = chunk.text()
    cls = rsscan.classify(t)
    m = None
    for mm in re.finditer(r'\bfn\s+\w+', t):
        if cls[mm.start()] == rsscan.CODE:
            m = mm
            break
    if m is None:
        raise ExtractError('no fn in chunk for %s' % fnkey)
    # start of signature including pub
    sig_start = t.rfind('\n', 0, m.start()) + 1
    # body brace: first '{' in code at paren depth 0 after fn
    i = m.end()
    depth = 0
    body = None
    while i < len(t):
        if cls[i] == rsscan.CODE:
            if t[i] in '([':
                depth += 1
            elif t[i] in ')]':
                depth -= 1
            elif t[i] == '{' and depth == 0:
                body = i
                break
        i += 1
    if body is None:
        raise ExtractError('fn %s has no body' % fnkey)
    sig = t[sig_start:body]
    new_sig = sig
    if fspec.get('ret'):
        new_sig = name_return(sig.rstrip(), fspec['ret'])
    if fspec.get('sig_rewrite'):
        for (pat, rep) in fspec['sig_rewrite']:
            if not re.search(pat, new_sig):
                raise ExtractError('sig_rewrite %r did not apply to %s' % (pat, fnkey))
            new_sig2 = re.sub(pat, rep, new_sig)
            if new_sig2 != new_sig:
                log.add('R7-sig', fnkey, new_sig, new_sig2)
            new_sig = new_sig2
    if new_sig.rstrip() != sig.rstrip():
        chunk.replace_span(sig_start, body, new_sig.rstrip() + '\n', 'ret-name')
    # header lines go right before the '{' line
    t = chunk.text()
    cls = rsscan.classify(t)
    # recompute body position
    m = None
    for mm in re.finditer(r'\bfn\s+\w+', t):
        if cls[mm.start()] == rsscan.CODE:
            m = mm
            break
    i = m.end()
    depth = 0
    while i < len(t):
        if cls[i] == rsscan.CODE:
            if t[i] in '([':
                depth += 1
            elif t[i] in ')]':
                depth -= 1
            elif t[i] == '{' and depth == 0:
                body = i
                break
        i += 1
    lidx = chunk.line_index(body)
    offs = chunk._offsets()
    col = body - offs[lidx]
    line = chunk.lines[lidx]
    pre, post = line.text[:col], line.text[col + 1:]
    hdr = []
    hdr += _clause_lines('requires', fspec.get('requires', []), fnkey, built, default_props)
    hdr += _clause_lines('ensures', fspec.get('ensures', []), fnkey, built, default_props)
    if fspec.get('decreases'):
        cid = fnkey + '::decreases'
        built.clauses[cid] = {'fn': fnkey, 'kind': 'decreases', 'props': default_props, 'text': fspec['decreases']}
        hdr.append(Line('    decreases ' + fspec['decreases'], ('clause', cid)))
    body_lines = []
    if cover:
        k = len(built.cover_points)
        built.cover_points[k] = '%s body entry' % fnkey
        body_lines.append(Line('    proof { assert(!vcover(%d)); }' % k, ('cover', k)))
    if fspec.get('body_prefix'):
        cid = fnkey + '::body_prefix'
        built.clauses[cid] = {'fn': fnkey, 'kind': 'proof', 'props': default_props, 'text': fspec['body_prefix']}
        for el in fspec['body_prefix'].split('\n'):
            body_lines.append(Line('    ' + el, ('clause', cid)))
    new = []
    if pre.strip():
        new.append(Line(pre, line.origin))
    new += hdr + [Line('  {', line.origin)] + body_lines
    if post.strip():
        new.append(Line(post, line.origin))
    chunk.lines[lidx:lidx + 1] = new
    # attributes to add in front
    if fspec.get('attrs'):
        chunk.insert_lines(0, fspec['attrs'], ('gen', 'verifier-attr'))
    return chunk


def drop_attr_lines(chunk, keep_derive=None):
    """Drop doc comments and attribute lines in front of / inside an extracted item.
    keep_derive: None -> drop all #[derive]; str -> replace every derive line with it."""
    out = []
    for l in chunk.lines:
        s = l.text.strip()
        if s.startswith('///') or s.startswith('//!'):
            continue
        if s.startswith('#[derive'):
            if keep_derive:
                out.append(Line(re.sub(r'#\[derive\([^\]]*\)\]', keep_derive, l.text), ('rw', 'derive', l.origin)))
            continue
        if s.startswith('#[must_use]') or s.startswith('#[inline') or s.startswith('#[allow') or s.startswith('#[doc') or s.startswith('#[serde') or s.startswith('#[derivative'):
            continue
        out.append(l)
    chunk.lines = out


def build_unit(udef, cover=False):
    """udef: dict with name, parts. Returns Built."""
    b = Built(udef['name'])
    L = b.lines
    for ln in udef.get('file_attrs', []):
        L.append(Line(ln, ('gen', 'file-attr')))
    L.append(Line('#![allow(unused_imports, unused_variables, dead_code, unused_mut, unused_parens, non_snake_case, unreachable_code, unreachable_patterns, unused_assignments, non_camel_case_types)]', ('gen', 'header')))
    L.append(Line('use vstd::prelude::*;', ('gen', 'header')))
    for u in udef.get('uses', []):
        L.append(Line(u, ('gen', 'header')))
    L.append(Line('verus! {', ('gen', 'header')))
    if cover:
        L.append(Line('pub uninterp spec fn vcover(k: int) -> bool;', ('gen', 'cover-decl')))
    for part in udef['parts']:
        kind = part['kind']
        if kind == 'vrs':
            path = os.path.join(VERIF, 'contracts', part['file'])
            with open(path, encoding='utf-8') as f:
                txt = f.read()
            for i, t in enumerate(txt.rstrip('\n').split('\n')):
                L.append(Line(t, ('vrs', part['file'], i + 1)))
            continue
        if kind == 'text':
            for t in part['text'].split('\n'):
                L.append(Line(t, ('gen', part.get('note', 'text'))))
            continue
        relpath = part['src']
        src = load_src(relpath)
        start, end, kw_pos, body_open = rsscan.locate(src, part['path'])
        chunk = Chunk.from_src(src, start, end, relpath)
        raw = src.text[start:end]
        first_line = src.line_of(start)
        last_line = src.line_of(end - 1)
        key = part.get('key') or (udef['name'] + '::' + part['path'].replace('impl ', '').replace('fn ', '').replace(' ', '_'))
        if kind == 'item':
            drop_attr_lines(chunk, part.get('derive'))
            for r in part.get('rewrites', []):
                if r[0] == 'RX':
                    apply_regex_rule(chunk, r[1], r[2], r[3], b.rewrites, key, count=r[4] if len(r) > 4 else None)
                elif r[0] == 'R6':
                    strip_macro_stmt(chunk, r[1], b.rewrites, key)
                else:
                    raise ExtractError('unknown item rewrite %r' % (r,))
            if part.get('attrs'):
                chunk.insert_lines(0, part['attrs'], ('gen', 'verifier-attr'))
            if part.get('auto_props'):
                # an item verified as a whole against a spec impl (e.g. `impl PartialOrd for T`): failures inside it
                # are attributed to these properties
                b.functions.append({'key': key, 'kind': 'fn', 'src': relpath, 'lines': [first_line, last_line], 'sha256': sha256(raw),
                                    'auto_props': part.get('auto_props', []), 'props': part.get('auto_props', [])})
                b.fn_ranges.append((len(L), len(L) + len(chunk.lines) - 1, key))
            else:
                b.functions.append({'key': key, 'kind': 'item', 'src': relpath, 'lines': [first_line, last_line], 'sha256': sha256(raw)})
            L.extend(chunk.lines)
        elif kind == 'closure':
            drop_attr_lines(chunk)
            fnkey = key
            if part.get('tail_from'):
                lift_tail(chunk, part['tail_from'], part['signature'], b.rewrites, fnkey)
            elif part.get('closure_header'):
                lift_named_closure(chunk, part['closure_header'], part['signature'], b.rewrites, fnkey)
            else:
                lift_closure(chunk, part.get('index', 0), part['name'], b.rewrites, fnkey, part.get('extra_params'), part.get('ret_type', 'Value'), part.get('lead_params'))
            build_fn_chunk(chunk, part, fnkey, b, cover and part.get('cover', True), relpath)
            first_idx = len(L)
            if part.get('impl_header'):
                L.append(Line(part['impl_header'], ('gen', 'impl-wrap')))
            L.extend(chunk.lines)
            if part.get('impl_header'):
                L.append(Line('}', ('gen', 'impl-wrap')))
            b.fn_ranges.append((first_idx, len(L) - 1, fnkey))
            b.functions.append({'key': fnkey, 'kind': 'fn', 'src': relpath, 'lines': [first_line, last_line], 'sha256': sha256(raw),
                                'auto_props': part.get('auto_props', []), 'props': part.get('props', []), 'lifted_closure': True})
        elif kind == 'fn':
            drop_attr_lines(chunk)
            fnkey = key
            build_fn_chunk(chunk, part, fnkey, b, cover and part.get('cover', True), relpath)
            # wrap in impl header if path has an impl component
            comps = re.split(r'\s*::\s*(?=(?:fn|impl|mod)\b)', part['path'])
            impls = [c for c in comps if c.startswith('impl')]
            first_idx = len(L)
            if impls and not part.get('no_wrap'):
                hdr = part.get('impl_header') or (impls[-1] + ' {')
                L.append(Line(hdr, ('gen', 'impl-wrap')))
                L.extend(chunk.lines)
                L.append(Line('}', ('gen', 'impl-wrap')))
            else:
                L.extend(chunk.lines)
            b.fn_ranges.append((first_idx, len(L) - 1, fnkey))
            b.functions.append({'key': fnkey, 'kind': 'fn', 'src': relpath, 'lines': [first_line, last_line], 'sha256': sha256(raw),
                                'auto_props': part.get('auto_props', []), 'props': part.get('props', [])})
        else:
            raise ExtractError('unknown part kind %r' % kind)
    L.append(Line('} // verus!', ('gen', 'footer')))
    L.append(Line('fn main() {}', ('gen', 'footer')))
    return b
