"""Developer helper: python3 -m vf.dev <unit> [--cover] [--rlimit N] [--raw]
Builds the unit, runs Verus, prints mapped failures. Not a registered check."""
import importlib.util, os, sys, json
from . import build as B, run as R

def load_unit(name):
    p = os.path.join(B.VERIF, 'units', name + '.py')
    spec = importlib.util.spec_from_file_location('unit_' + name, p)
    m = importlib.util.module_from_spec(spec)
    spec.loader.exec_module(m)
    return m.UNIT

def main():
    args = sys.argv[1:]
    name = args[0]
    variant = 'cover' if '--cover' in args else 'main'
    rl = None
    if '--rlimit' in args:
        rl = float(args[args.index('--rlimit') + 1])
    u = load_unit(name)
    try:
        r = R.run_unit(u, variant, rlimit=rl)
    except B.ExtractError as e:
        print('UNDECIDED extraction:', e)
        sys.exit(2)
    print('file', r.path, 'rc', r.returncode, 'wall %.1fs' % r.wall_s, 'results', r.results)
    for u_ in r.undecided:
        print('UNDECIDED', u_)
    for f in r.failed:
        print('FAILED', f['obligation'], 'props', f['props'], 'exit', f.get('exit'))
        if '--raw' in args:
            print(f['rendered'])
        else:
            for s in f['spans']:
                print('    ', s.get('label') or '', '|', s.get('where'), '|', s.get('text', '')[:150])
    if variant == 'cover':
        missing = sorted(set(r.built.cover_points) - r.cover_failed)
        print('cover points', len(r.built.cover_points), 'failed (good)', len(r.cover_failed), 'vacuous:', [r.built.cover_points[k] for k in missing])
    if r.stderr_tail.strip():
        print('stderr:', r.stderr_tail[-3000:])
    for ft in sorted(r.fn_times, key=lambda x: -x.get('time', 0))[:8]:
        print('   time', ft.get('function'), ft.get('time'), 'ms rlimit', ft.get('rlimit'), ft.get('success'))

main()
