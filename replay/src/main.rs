//! Replay driver: runs inputs against the real code of /repo (path-patched) through public APIs.
//! usage: verif-replay feel <expr>            evaluate a FEEL expression (empty scope) under catch_unwind
//!        verif-replay coerce <case>          C16 coercion cases
use dmntk_feel::values::{Value, Values};
use dmntk_feel::{FeelType, Scope};
use dmntk_feel::FeelNumber;
use dmntk_model::model::NamedElement;

// The server crate exports only start_server; its DTO module is compiled into the driver from the repository's source file.
#[allow(dead_code)]
#[path = "/repo/server/src/dto.rs"]
mod dto;

fn eval(expr: &str) -> String {
  let e = expr.to_string();
  let r = std::panic::catch_unwind(move || {
    let scope = Scope::default();
    match dmntk_feel_parser::parse_expression(&scope, &e, false) {
      Ok(node) => match dmntk_feel_evaluator::prepare(&node) {
        Ok(ev) => format!("VALUE {}", ev(&scope)),
        Err(er) => format!("BUILD-ERROR {}", er),
      },
      Err(er) => format!("PARSE-ERROR {}", er),
    }
  });
  match r {
    Ok(s) => s,
    Err(_) => "PANIC".to_string(),
  }
}

/// eval under a watchdog: TIMEOUT when no answer within `secs` seconds (the evaluating thread is abandoned)
fn eval_within(expr: &str, secs: u64) -> String {
  let (tx, rx) = std::sync::mpsc::channel();
  let e = expr.to_string();
  std::thread::Builder::new().stack_size(64 * 1024 * 1024).spawn(move || { let _ = tx.send(eval(&e)); }).expect("spawn");
  match rx.recv_timeout(std::time::Duration::from_secs(secs)) { Ok(s) => s, Err(_) => "TIMEOUT".to_string() }
}

/// null messages are not part of a value: Null(_) -> Null(None), recursively
fn norm(v: &Value) -> Value {
  match v {
    Value::Null(_) => Value::Null(None),
    Value::List(items) => Value::List(Values::new(items.as_vec().iter().map(norm).collect())),
    Value::Context(ctx) => { let mut c = dmntk_feel::context::FeelContext::default(); for (k, x) in ctx.iter() { c.set_entry(k, norm(x)); } Value::Context(c) }
    other => other.clone(),
  }
}

/// FEEL expressions for the TCK / JSON value grid: 32 scalars of every kind and the lists / contexts built from them (depth 2)
fn value_grid(odd_key: bool) -> Vec<String> {
  let scalars: Vec<&str> = vec![r#""""#, r#""a""#, r#"" padded ""#, r#""line\n""#, r#"" ""#, r#""\ttab""#, r#""ż \"q\" \\ end""#, r#""line\nbreak""#, r#""tab\tand \u0001 control""#, "0", "1", "-1", "1.5", "0.1", "100", "12345678901234567890.123456789", "0.000001", "-0.5", "10 ** 30",
    "true", "false", "null", r#"date("2020-02-29")"#, r#"date("0044-03-15")"#, r#"time("10:11:12")"#, r#"time("10:11:12.5Z")"#, r#"time("10:11:12+02:00")"#, r#"time("23:59:59-00:30")"#,
    r#"date and time("2020-01-02T03:04:05")"#, r#"date and time("2020-01-02T03:04:05Z")"#, r#"date and time("2020-01-02T03:04:05.25+01:00")"#,
    r#"duration("P1Y2M")"#, r#"duration("-P11M")"#, r#"duration("P1DT2H3M4S")"#, r#"duration("-PT0.5S")"#, r#"duration("P0D")"#];
  let mut level: Vec<String> = scalars.iter().map(|s| s.to_string()).collect();
  // every control character U+0000..U+001F, U+007F and the two characters JSON escapes by name, each inside a string
  for cp in (0u32..0x20).chain([0x7Fu32, 0x22, 0x5C, 0x2028]) { level.push(format!("\"x\\u{:04X}y\"", cp)); }
  let mut all: Vec<String> = level.clone();
  for _depth in 0..2 {
    let mut next: Vec<String> = vec!["[]".to_string(), "{}".to_string()];
    for (i, e) in level.iter().enumerate() {
      next.push(format!("[{}]", e));
      next.push(format!("{{a: {}}}", e));
      if i + 1 < level.len() { next.push(format!("[{}, {}]", e, level[i + 1])); if odd_key { next.push(format!(r#"{{first name: {}, "q\"k": {}}}"#, e, level[i + 1])); } else { next.push(format!("{{first name: {}, b: {}}}", e, level[i + 1])); } }
    }
    all.extend(next.iter().cloned());
    level = next;
  }
  all
}

/// does the JSON document decode to the value? strings, booleans, null, lists and contexts structurally; numbers by their text;
/// dates, times and durations as JSON strings of their FEEL text
fn json_matches(v: &Value, j: &serde_json::Value) -> bool {
  match (v, j) {
    (Value::Null(_), serde_json::Value::Null) => true,
    (Value::Boolean(b), serde_json::Value::Bool(c)) => b == c,
    (Value::String(s), serde_json::Value::String(t)) => s == t,
    (Value::Number(n), serde_json::Value::Number(m)) => n.to_string().parse::<f64>().ok() == m.as_f64(), // serde_json holds numbers as f64: compare at that precision
    (Value::List(items), serde_json::Value::Array(a)) => items.as_vec().len() == a.len() && items.as_vec().iter().zip(a.iter()).all(|(x, y)| json_matches(x, y)),
    (Value::Context(ctx), serde_json::Value::Object(o)) => ctx.iter().count() == o.len() && ctx.iter().all(|(k, x)| o.get(&k.to_string()).map(|y| json_matches(x, y)).unwrap_or(false)),
    (Value::Date(_), serde_json::Value::String(t)) | (Value::Time(_), serde_json::Value::String(t)) | (Value::DateTime(_), serde_json::Value::String(t))
    | (Value::DaysAndTimeDuration(_), serde_json::Value::String(t)) | (Value::YearsAndMonthsDuration(_), serde_json::Value::String(t)) => v.to_string() == *t,
    _ => false,
  }
}

fn model(ns: &str, name: &str) -> dmntk_model::model::Definitions {
  // a model whose name starts with `bad` parses but does not build (its decision logic is not a FEEL expression)
  let logic = if name.starts_with("bad") { "1 +* (" } else { "\"Hello\"" };
  let xml = format!(r#"<?xml version="1.0" encoding="UTF-8"?>
<definitions namespace="{}" name="{}" id="_d1" xmlns="https://www.omg.org/spec/DMN/20191111/MODEL/">
  <decision name="Greeting Message" id="_dec1">
    <variable typeRef="string" name="Greeting Message"/>
    <literalExpression><text>{}</text></literalExpression>
  </decision>
</definitions>"#, ns, name, logic.replace('"', "&quot;"));
  dmntk_model::parse(&xml).unwrap()
}

fn model_xml(ns: &str, name: &str) -> String {
  let logic = if name.starts_with("bad") { "1 +* (" } else { "\"Hello\"" };
  format!(r#"<?xml version="1.0" encoding="UTF-8"?>
<definitions namespace="{}" name="{}" id="_d1" xmlns="https://www.omg.org/spec/DMN/20191111/MODEL/">
  <description>model {}</description>
  <decision name="Greeting Message" id="_dec1">
    <variable typeRef="string" name="Greeting Message"/>
    <literalExpression><text>{}</text></literalExpression>
  </decision>
</definitions>"#, ns, name, name, logic.replace('"', "&quot;"))
}

fn base64(bytes: &[u8]) -> String {
  const T: &[u8; 64] = b"ABCDEFGHIJKLMNOPQRSTUVWXYZabcdefghijklmnopqrstuvwxyz0123456789+/";
  let mut out = String::new();
  for chunk in bytes.chunks(3) {
    let b = [chunk[0], *chunk.get(1).unwrap_or(&0), *chunk.get(2).unwrap_or(&0)];
    let n = ((b[0] as u32) << 16) | ((b[1] as u32) << 8) | b[2] as u32;
    out.push(T[(n >> 18) as usize & 63] as char);
    out.push(T[(n >> 12) as usize & 63] as char);
    out.push(if chunk.len() > 1 { T[(n >> 6) as usize & 63] as char } else { '=' });
    out.push(if chunk.len() > 2 { T[n as usize & 63] as char } else { '=' });
  }
  out
}

/// one HTTP request to the real service on the loopback port; answers `status:json|notjson:data|errors|neither:detail`
fn http_request(port: u16, token: &str) -> String {
  use std::io::{Read, Write};
  let (cmd, rest) = match token.split_once(':') { Some((c, r)) => (c, r), None => (token, "") };
  let (a, b) = rest.split_once(',').unwrap_or((rest, ""));
  let content = |xml: &[u8]| format!("{{\"content\":\"{}\"}}", base64(xml));
  let mut invalid_utf8 = model_xml(a, b).into_bytes();
  if let Some(pos) = invalid_utf8.windows(6).position(|w| w == b"model ") { invalid_utf8[pos] = 0xFF; }   // inside the description text: the XML stays well formed
  let (method, path, body): (&str, String, String) = match cmd {
    "clear" => ("POST", "/definitions/clear".to_string(), String::new()),
    "deploy" => ("POST", "/definitions/deploy".to_string(), String::new()),
    "add" => ("POST", "/definitions/add".to_string(), content(model_xml(a, b).as_bytes())),
    "replace" => ("POST", "/definitions/replace".to_string(), content(model_xml(a, b).as_bytes())),
    "remove" => ("POST", "/definitions/remove".to_string(), format!("{{\"namespace\":\"{}\",\"name\":\"{}\"}}", a, b)),
    "eval" => ("POST", format!("/evaluate/{}/Greeting%20Message", rest), "{}".to_string()),
    "tck" => ("POST", "/tck/evaluate".to_string(), format!("{{\"model\":\"{}\",\"invocable\":\"Greeting Message\",\"input\":[]}}", rest)),
    // malformed requests (rest = add | replace | remove where it matters)
    "badjson" => ("POST", format!("/definitions/{}", rest), "{\"content\": ".to_string()),
    "nocontent" => ("POST", format!("/definitions/{}", rest), "{}".to_string()),
    "badb64" => ("POST", format!("/definitions/{}", a), "{\"content\":\"!!! this is not base64 !!!\"}".to_string()),
    "badutf8" => ("POST", format!("/definitions/{}", cmd_target(rest)), content(&{ let mut t = model_xml(target_ns(rest), target_name(rest)).into_bytes(); if let Some(pos) = t.windows(6).position(|w| w == b"model ") { t[pos] = 0xFF; } t })),
    "badxml" => ("POST", format!("/definitions/{}", a), content(b"<definitions")),
    "unknowneval" => ("POST", "/evaluate/no-such-model/Greeting%20Message".to_string(), "{}".to_string()),
    "unknowninvocable" => ("POST", format!("/evaluate/{}/NoSuchDecision", rest), "{}".to_string()),
    "badcontext" => ("POST", format!("/evaluate/{}/Greeting%20Message", rest), "{ this is : not a context".to_string()),
    "tckempty" => ("POST", "/tck/evaluate".to_string(), "{}".to_string()),
    // well-formed JSON with a string (or another type) where the endpoint expects something else: the extractor's message quotes the text
    "tckstring" => ("POST", "/tck/evaluate".to_string(), "{\"model\":\"a\",\"invocable\":\"Greeting Message\",\"input\":\"none \\\"quoted\\\" \\\\ text\"}".to_string()),
    "tcknil" => ("POST", "/tck/evaluate".to_string(), "{\"model\":\"a\",\"invocable\":\"Greeting Message\",\"input\":[{\"name\":\"x\",\"value\":{\"simple\":{\"type\":\"xsd:string\",\"text\":\"a\",\"isNil\":\"false\"}}}]}".to_string()),
    "wrongtype" => ("POST", format!("/definitions/{}", rest), "{\"content\": [\"a\"], \"namespace\": {\"q\": 1}, \"name\": true}".to_string()),
    "stringforobject" => ("POST", format!("/definitions/{}", rest), "\"just a \\\"string\\\"\"".to_string()),
    // failures whose message repeats more than a thousand bytes of two-byte characters sent by the caller, from an even and from an odd byte offset
    "longeval" => ("POST", format!("/evaluate/{}{}/Greeting%20Message", if rest == "odd" { "a" } else { "" }, "%C5%BC".repeat(600)), "{}".to_string()),
    "longtck" => ("POST", "/tck/evaluate".to_string(), format!("{{\"model\":\"{}{}\",\"invocable\":\"Greeting Message\",\"input\":[]}}", if rest == "odd" { "a" } else { "" }, "\u{17C}".repeat(600))),
    "longxsd" => ("POST", "/tck/evaluate".to_string(), format!("{{\"model\":\"a\",\"invocable\":\"Greeting Message\",\"input\":[{{\"name\":\"x\",\"value\":{{\"simple\":{{\"type\":\"xsd:decimal\",\"text\":\"{}{}\",\"isNil\":false}}}}}}]}}", if rest == "odd" { "a" } else { "" }, "\u{17C}".repeat(700))),
    "notfound" => ("GET", "/no/such/endpoint".to_string(), String::new()),
    _ => ("GET", "/system/info".to_string(), String::new()),
  };
  let _ = invalid_utf8;
  let mut stream = match std::net::TcpStream::connect(("127.0.0.1", port)) { Ok(s) => s, Err(_) => return "noconnection".to_string() };
  let _ = stream.set_read_timeout(Some(std::time::Duration::from_secs(10)));
  let req = format!("{} {} HTTP/1.1\r\nHost: verif\r\nConnection: close\r\nContent-Type: application/json\r\nContent-Length: {}\r\n\r\n", method, path, body.len());
  if stream.write_all(req.as_bytes()).is_err() || stream.write_all(body.as_bytes()).is_err() { return "noanswer".to_string(); }
  let mut raw: Vec<u8> = vec![];
  let _ = stream.read_to_end(&mut raw);
  let text = String::from_utf8_lossy(&raw).to_string();
  let status = text.split_whitespace().nth(1).unwrap_or("000").to_string();
  let payload = match text.split_once("\r\n\r\n") { Some((_, p)) => p.to_string(), None => String::new() };
  match serde_json::from_str::<serde_json::Value>(&payload) {
    Ok(doc) => {
      let errors = doc.get("errors").and_then(|e| e.as_array()).map(|a| !a.is_empty()).unwrap_or(false);
      let data = doc.get("data");
      let kind = if errors { "errors" } else if data.is_some() { "data" } else { "neither" };
      let detail = if errors { String::new() } else { data.map(|d| d.to_string()).unwrap_or_default() };
      format!("{}:json:{}:{}", status, kind, detail.replace('|', "/").replace(' ', "_"))
    }
    Err(_) => format!("{}:notjson::{}", status, payload.chars().take(60).collect::<String>().replace('|', "/").replace(' ', "_")),
  }
}
fn cmd_target(rest: &str) -> &str { rest.split('/').next().unwrap_or("add") }
fn target_ns(rest: &str) -> &str { rest.split('/').nth(1).and_then(|x| x.split(',').next()).unwrap_or("n1") }
fn target_name(rest: &str) -> &str { rest.split('/').nth(1).and_then(|x| x.split(',').nth(1)).unwrap_or("a") }

/// one workspace operation on the real Workspace: add:<ns>,<name>  remove:<ns>,<name>  replace:<ns>,<name>  clear  deploy  eval:<name>
fn workspace_op(ws: &mut dmntk_workspace::Workspace, op: &str) -> String {
  let (cmd, rest) = match op.split_once(':') { Some((c, r)) => (c, r), None => (op, "") };
  // `~` stands for a space in a namespace or a name (operations are separated by blanks)
  let rest_s = rest.replace('~', " ");
  let rest = rest_s.as_str();
  let (ns, name) = rest.split_once(',').unwrap_or((rest, ""));
  match cmd {
    "add" => if ws.add(model(ns, name)).is_ok() { "ok".to_string() } else { "err".to_string() },
    "replace" => if ws.replace(model(ns, name)).is_ok() { "ok".to_string() } else { "err".to_string() },
    "remove" => { ws.remove(ns, name); "()".to_string() }
    "clear" => { ws.clear(); "()".to_string() }
    "deploy" => if ws.deploy().is_ok() { "ok".to_string() } else { "err".to_string() },
    "eval" => if ws.evaluate_invocable(rest, "Greeting Message", &dmntk_feel::context::FeelContext::default()).is_ok() { "ok".to_string() } else { "err".to_string() },
    _ => "?".to_string(),
  }
}

/// `null(message)` -> `null` everywhere in a rendered value (the message is diagnostic text, not part of the value)
fn strip_null_messages(s: &str) -> String {
  let cs: Vec<char> = s.chars().collect();
  let mut out = String::new();
  let mut i = 0;
  while i < cs.len() {
    if cs[i..].starts_with(&['n', 'u', 'l', 'l', '(']) && (i == 0 || !cs[i - 1].is_alphanumeric()) {
      out.push_str("null");
      let mut depth = 0i32;
      let mut j = i + 4;
      while j < cs.len() {
        if cs[j] == '(' { depth += 1; }
        if cs[j] == ')' { depth -= 1; if depth == 0 { j += 1; break; } }
        j += 1;
      }
      i = j;
    } else {
      out.push(cs[i]);
      i += 1;
    }
  }
  out
}

fn main() {
  // panics are caught and reported by the commands; VERIF_PANIC_MESSAGES=1 shows where they come from
  if std::env::var("VERIF_PANIC_MESSAGES").is_err() { std::panic::set_hook(Box::new(|_| {})); }
  let args: Vec<String> = std::env::args().collect();
  match args.get(1).map(|s| s.as_str()) {
    Some("feel") => {
      for e in &args[2..] {
        println!("{} => {}", e, eval(e));
      }
    }
    Some("coerce") => {
      let one = Value::Number(FeelNumber::from_i128(1));
      let inner = Value::List(Values::new(vec![one.clone()]));
      let outer = Value::List(Values::new(vec![inner.clone()]));
      let t = FeelType::list(&FeelType::Number);
      println!("coerce list<number> <- [[1]] => {}", t.coerced(&outer));
      let f0n = FeelType::function(&[], &FeelType::Number);
      let f0s = FeelType::function(&[], &FeelType::String);
      println!("function<>->number equivalent function<>->string => {}", f0n.is_equivalent(&f0s));
      println!("function<>->number conformant function<>->string => {}", f0n.is_conformant(&f0s));
    }
    Some("workspace") => {
      // ops: add:<ns>,<name>  remove:<ns>,<name>  replace:<ns>,<name>  clear  deploy  eval:<name>
      let mut ws = dmntk_workspace::Workspace::new(None);
      for op in &args[2..] {
        let (cmd, rest) = match op.split_once(':') { Some((c, r)) => (c, r), None => (op.as_str(), "") };
        let (ns, name) = rest.split_once(',').unwrap_or((rest, ""));
        let out = match cmd {
          "add" => format!("{:?}", ws.add(model(ns, name)).map_err(|e| e.to_string())),
          "replace" => format!("{:?}", ws.replace(model(ns, name)).map_err(|e| e.to_string())),
          "remove" => { ws.remove(ns, name); "()".to_string() }
          "clear" => { ws.clear(); "()".to_string() }
          "deploy" => format!("{:?}", ws.deploy().map_err(|e| e.to_string())),
          "eval" => format!("{:?}", ws.evaluate_invocable(rest, "Greeting Message", &dmntk_feel::context::FeelContext::default()).map(|v| v.to_string()).map_err(|e| e.to_string())),
          _ => "?".to_string(),
        };
        println!("{} => {}", op, out);
      }
    }
    Some("http") => {
      // http <file>: BOUNDED stand-in (not a proof) for C18 end to end: the real service (dmntk_server::start_server) is started on a
      // loopback port; each line of the file is a sequence of request tokens (see http_request) sent one after the other, each on its
      // own connection, the first one always being `clear`; prints one line per sequence with the answers joined by `|`.
      let port = { let l = std::net::TcpListener::bind(("127.0.0.1", 0)).expect("bind"); l.local_addr().unwrap().port() };
      let p2 = port.to_string();
      std::thread::spawn(move || { let _ = actix_web::rt::System::new("verif").block_on(dmntk_server::start_server(Some("127.0.0.1".to_string()), Some(p2), None)); });
      let mut up = false;
      for _ in 0..100 { if std::net::TcpStream::connect(("127.0.0.1", port)).is_ok() { up = true; break; } std::thread::sleep(std::time::Duration::from_millis(100)); }
      if !up { println!("SERVER-DID-NOT-START"); std::process::exit(0); }
      let text = std::fs::read_to_string(&args[2]).unwrap_or_default();
      let mut out = String::new();
      for line in text.lines() {
        let answers: Vec<String> = line.split_whitespace().map(|t| http_request(port, t)).collect();
        out.push_str(&answers.join("|")); out.push('\n');
      }
      print!("{}", out);
      std::process::exit(0);
    }
    Some("httpvalues") => {
      // BOUNDED stand-in (not a proof) for C18: the body of POST /evaluate/{model}/{decision} on the real service is, character for
      // character, {"data": <the JSON rendering of the value>} for echo decisions over long numbers, strings that need escaping,
      // temporal values and lists / contexts of them (whatever the handler does between the evaluator and the socket must not
      // change a digit)
      use dmntk_common::Jsonify;
      let port = { let l = std::net::TcpListener::bind(("127.0.0.1", 0)).expect("bind"); l.local_addr().unwrap().port() };
      let p2 = port.to_string();
      std::thread::spawn(move || { let _ = actix_web::rt::System::new("verif").block_on(dmntk_server::start_server(Some("127.0.0.1".to_string()), Some(p2), None)); });
      let mut up = false;
      for _ in 0..100 { if std::net::TcpStream::connect(("127.0.0.1", port)).is_ok() { up = true; break; } std::thread::sleep(std::time::Duration::from_millis(100)); }
      if !up { println!("SERVER-DID-NOT-START"); std::process::exit(0); }
      let mut exprs: Vec<String> = vec!["1/3", "2/3", "12345678901234567890123.25", "-0.000000000000000000000000000000001234", "10**30", "10**-30", "9999999999999999999999999999999999", "18446744073709551616",
        "9007199254740993", "0.1", "1.10", "100", "-0", "123456789.123456789123456789", "[1/3, 2/3]", "{a: 1/3, b: [12345678901234567890123.25]}", "1/7 * 1e20"].iter().map(|s| s.to_string()).collect();
      exprs.extend(value_grid(false).into_iter().take(120));
      if let Some(n) = args.get(2).and_then(|a| a.parse::<usize>().ok()) { exprs.truncate(n); }
      let scope = Scope::default();
      // only expressions that build (one that does not would keep the whole echo model from being deployed)
      exprs.retain(|e| dmntk_feel_parser::parse_expression(&scope, e, false).and_then(|n| dmntk_feel_evaluator::prepare(&n)).is_ok());
      let esc = |t: &str| t.replace('&', "&amp;").replace('<', "&lt;").replace('>', "&gt;").replace('"', "&quot;");
      let mut xml = String::from("<?xml version=\"1.0\" encoding=\"UTF-8\"?>\n<definitions namespace=\"https://verif/values\" name=\"values\" id=\"_v\" xmlns=\"https://www.omg.org/spec/DMN/20191111/MODEL/\">\n");
      for (k, e) in exprs.iter().enumerate() {
        xml.push_str(&format!("  <decision name=\"D{}\" id=\"_d{}\"><variable name=\"D{}\"/><literalExpression><text>{}</text></literalExpression></decision>\n", k, k, k, esc(e)));
      }
      xml.push_str("</definitions>\n");
      let raw = |method: &str, path: &str, body: &str| -> String {
        use std::io::{Read, Write};
        let mut stream = match std::net::TcpStream::connect(("127.0.0.1", port)) { Ok(s) => s, Err(_) => return "noconnection".to_string() };
        let _ = stream.set_read_timeout(Some(std::time::Duration::from_secs(10)));
        let req = format!("{} {} HTTP/1.1\r\nHost: verif\r\nConnection: close\r\nContent-Type: application/json\r\nContent-Length: {}\r\n\r\n", method, path, body.len());
        if stream.write_all(req.as_bytes()).is_err() || stream.write_all(body.as_bytes()).is_err() { return "noanswer".to_string(); }
        let mut bytes: Vec<u8> = vec![];
        let _ = stream.read_to_end(&mut bytes);
        let text = String::from_utf8_lossy(&bytes).to_string();
        match text.split_once("\r\n\r\n") { Some((_, p)) => p.to_string(), None => String::new() }
      };
      let _ = raw("POST", "/definitions/clear", "");
      let added = raw("POST", "/definitions/add", &format!("{{\"content\":\"{}\"}}", base64(xml.as_bytes())));
      let deployed = raw("POST", "/definitions/deploy", "");
      let mut cases = 0usize;
      let mut nfail = 0usize;
      let mut failures: Vec<String> = vec![];
      if !added.contains("\"data\"") || !deployed.contains("\"data\"") { nfail += 1; failures.push(format!("the echo model was not added / deployed: {} / {}", added.chars().take(120).collect::<String>(), deployed.chars().take(120).collect::<String>())); }
      for (k, e) in exprs.iter().enumerate() {
        let direct = match dmntk_feel_parser::parse_expression(&scope, e, false).and_then(|n| dmntk_feel_evaluator::prepare(&n)) { Ok(ev) => ev(&scope), Err(_) => continue };
        if let Value::Null(Some(_)) = direct { if e != "null" { continue; } }
        cases += 1;
        let expected = format!("{{\"data\":{}}}", direct.jsonify());
        let got = raw("POST", &format!("/evaluate/values/D{}", k), "{}");
        if got != expected { nfail += 1; if failures.len() < 5 { failures.push(format!("{} answered {} (expected {})", e, got.chars().take(120).collect::<String>(), expected.chars().take(120).collect::<String>())); } }
      }
      println!("httpvalues cases={} failures={}", cases, nfail);
      for f in failures { println!("FAIL {}", f); }
      std::process::exit(0);
    }
    Some("workspacebatch") => {
      // workspacebatch <file>: each line is a sequence of workspace operations separated by blanks, run on a fresh Workspace;
      // prints one line per sequence: the answers joined by `|` (or PANIC)
      let text = std::fs::read_to_string(&args[2]).unwrap_or_default();
      let mut out = String::new();
      for line in text.lines() {
        let l = line.to_string();
        let r = std::panic::catch_unwind(move || {
          let mut ws = dmntk_workspace::Workspace::new(None);
          l.split_whitespace().map(|op| workspace_op(&mut ws, op)).collect::<Vec<String>>().join("|")
        }).unwrap_or("PANIC".to_string());
        out.push_str(&r); out.push('\n');
      }
      print!("{}", out);
    }
    Some("strbif") => {
      // BOUNDED stand-in (not a proof): substring before / substring after / contains / starts with / ends with over all
      // strings of length <= 3 and match strings of length <= 2 from an alphabet of 1-, 2-, 3- and 4-byte characters,
      // against a character-sequence reference; every call under catch_unwind.
      let alphabet: Vec<char> = vec!['a', 'b', 'ż', '€', '🐎'];
      let mut strings: Vec<String> = vec![String::new()];
      let mut frontier = vec![String::new()];
      for _ in 0..3 {
        let mut next = vec![];
        for s in &frontier { for c in &alphabet { let mut t = s.clone(); t.push(*c); next.push(t); } }
        strings.extend(next.iter().cloned());
        frontier = next;
      }
      let matches: Vec<String> = strings.iter().filter(|s| s.chars().count() <= 2).cloned().collect();
      let mut cases = 0usize;
      let mut failures: Vec<String> = vec![];
      for s in &strings {
        for m in &matches {
          let sc: Vec<char> = s.chars().collect();
          let mc: Vec<char> = m.chars().collect();
          let found = if mc.is_empty() { Some(0) } else { (0..sc.len()).find(|i| sc.len() - i >= mc.len() && sc[*i..*i + mc.len()] == mc[..]) };
          let (exp_before, exp_after): (String, String) = match found {
            Some(i) => (sc[..i].iter().collect(), sc[i + mc.len()..].iter().collect()),
            None => (String::new(), String::new()),
          };
          for (bif, expected) in [("substring before", format!("\"{}\"", exp_before)), ("substring after", format!("\"{}\"", exp_after)),
                                  ("contains", format!("{}", found.is_some())),
                                  ("starts with", format!("{}", sc.len() >= mc.len() && sc[..mc.len()] == mc[..])),
                                  ("ends with", format!("{}", sc.len() >= mc.len() && sc[sc.len() - mc.len()..] == mc[..]))] {
            let expr = format!("{}(\"{}\",\"{}\")", bif, s, m);
            let out = eval(&expr);
            cases += 1;
            if out != format!("VALUE {}", expected) && failures.len() < 5 {
              failures.push(format!("{} => {} (expected {})", expr, out, expected));
            }
          }
        }
      }
      println!("strbif cases={} failures={}", cases, failures.len());
      for f in failures { println!("FAIL {}", f); }
    }
    Some("recognize") => {
      // recognize <file>...: dmntk_recognizer::build on the file's text under catch_unwind
      for f in &args[2..] {
        let text = std::fs::read_to_string(f).unwrap_or_default();
        let r = std::panic::catch_unwind(move || match dmntk_recognizer::build(&text) {
          Ok(dt) => format!("OK hit_policy={:?} inputs={} outputs={} rules={}", dt.hit_policy, dt.input_clauses.len(), dt.output_clauses.len(), dt.rules.len()),
          Err(e) => format!("ERROR {}", e),
        });
        println!("{} => {}", f, r.unwrap_or("PANIC".to_string()));
      }
    }
    Some("numops") => {
      // numops <file>: each line `op a [b]` (decimal strings, scientific notation allowed) is evaluated with the real
      // FeelNumber API; prints `op a b => result` with the result in scientific notation (Debug), or null for None.
      let text = std::fs::read_to_string(&args[2]).unwrap_or_default();
      let mut out = String::new();
      for line in text.lines() {
        let t: Vec<&str> = line.split_whitespace().collect();
        if t.len() < 2 { continue; }
        let (op, a_s) = (t[0].to_string(), t[1].to_string());
        let b_s = t.get(2).map(|s| s.to_string()).unwrap_or("0".to_string());
        let r = std::panic::catch_unwind(move || {
          let a = FeelNumber::from_string(&a_s);
          let b = FeelNumber::from_string(&b_s);
          let opt = |o: Option<FeelNumber>| o.map(|n| format!("{:?}", n)).unwrap_or("null".to_string());
          match op.as_str() {
            "add" => format!("{:?}", a + b), "sub" => format!("{:?}", a - b), "mul" => format!("{:?}", a * b), "div" => format!("{:?}", a / b),
            "rem" => format!("{:?}", a % b), "neg" => format!("{:?}", -a), "abs" => format!("{:?}", a.abs()),
            "floor" => format!("{:?}", a.floor()), "ceiling" => format!("{:?}", a.ceiling()), "round" => format!("{:?}", a.round(&b)),
            "sqrt" => opt(a.sqrt()), "exp" => format!("{:?}", a.exp()), "ln" => opt(a.ln()), "pow" => opt(a.pow(&b)),
            "odd" => format!("{}", a.odd()), "even" => format!("{}", a.even()), "integer" => format!("{}", a.is_integer()),
            "usize" => a.to_usize().map(|v| v.to_string()).unwrap_or("null".to_string()), "isize" => a.to_isize().map(|v| v.to_string()).unwrap_or("null".to_string()),
            "eq" => format!("{}", a == b), "lt" => format!("{}", a < b), "le" => format!("{}", a <= b), "gt" => format!("{}", a > b), "ge" => format!("{}", a >= b),
            _ => "?".to_string(),
          }
        }).unwrap_or("PANIC".to_string());
        out.push_str(&format!("{} => {}\n", line.trim(), r));
      }
      print!("{}", out);
    }
    Some("numtext") => {
      // numtext <file>: BOUNDED stand-in for C07. Lines:
      //   `N <text>`   FeelNumber::from_str(text) -> `display | json | readback` (readback: from_str(display) == the number), or INVALID
      //   `L <digits[.digits]>`  the text as a FEEL literal through parse + evaluate -> the value in the library's reduced scientific form
      //   `X <kind> <text>`  Value::try_from_xsd_<kind>(text) (kind: integer / decimal / double) -> the same form, or INVALID
      use std::str::FromStr;
      use dmntk_feel::values::Value as V;
      let text = std::fs::read_to_string(&args[2]).unwrap_or_default();
      let mut out = String::new();
      for line in text.lines() {
        let l = line.to_string();
        let r = std::panic::catch_unwind(move || {
          let t: Vec<&str> = l.split_whitespace().collect();
          match t.as_slice() {
            ["N", x] => match FeelNumber::from_str(x) {
              Ok(n) => { let d = n.to_string(); let j = dmntk_common::Jsonify::jsonify(&Value::Number(n)); let back = FeelNumber::from_str(&d).map(|m| m == n).unwrap_or(false); format!("{} | {} | {}", d, j, back) }
              Err(_) => "INVALID".to_string(),
            },
            ["L", x] => { let scope = Scope::default(); match dmntk_feel_parser::parse_expression(&scope, x, false) { Ok(node) => match dmntk_feel_evaluator::prepare(&node) { Ok(ev) => match ev(&scope) { V::Number(n) => format!("{:?}", n), other => format!("NOT-A-NUMBER {}", other) }, Err(e) => format!("BUILD-ERROR {}", e) }, Err(e) => format!("PARSE-ERROR {}", e) } }
            ["X", k, x] => { let r = match *k { "integer" => V::try_from_xsd_integer(x), "decimal" => V::try_from_xsd_decimal(x), _ => V::try_from_xsd_double(x) }; match r { Ok(V::Number(n)) => format!("{:?}", n), Ok(o) => format!("NOT-A-NUMBER {}", o), Err(_) => "INVALID".to_string() } }
            _ => "?".to_string(),
          }
        }).unwrap_or("PANIC".to_string());
        out.push_str(&format!("{} => {}\n", line.trim(), r));
      }
      print!("{}", out);
    }
    Some("trees") => {
      // trees <file>: each line is a FEEL expression over the names a b c d x y (bound in the parsing scope, so that they
      // lex as single-word names); prints the Debug rendering of the parsed AstNode, or PARSE-ERROR.
      let text = std::fs::read_to_string(&args[2]).unwrap_or_default();
      let mut out = String::new();
      for line in text.lines() {
        let e = line.replace('\u{241E}', "\n");   // U+241E stands for a line feed inside an expression
        let r = std::panic::catch_unwind(move || {
          let scope = Scope::default();
          for n in ["a", "b", "c", "d", "x", "y"] { scope.set_entry(&n.into(), Value::Number(FeelNumber::from_i128(1))); }
          // a line that starts with `UT:` is parsed as unary tests (the start symbol of decision table input entries)
          if let Some(ut) = e.strip_prefix("UT:") {
            return match dmntk_feel_parser::parse_unary_tests(&scope, ut, false) { Ok(node) => format!("{:?}", node), Err(_) => "PARSE-ERROR".to_string() };
          }
          match dmntk_feel_parser::parse_expression(&scope, &e, false) { Ok(node) => format!("{:?}", node), Err(_) => "PARSE-ERROR".to_string() }
        }).unwrap_or("PANIC".to_string());
        out.push_str(&r); out.push('\n');
      }
      print!("{}", out);
    }
    Some("tck") => {
      // BOUNDED stand-in (not a proof): values -> TCK DTO -> JSON text (serde_json) -> TCK DTO -> value must give the value back
      // (null messages aside), for scalars of every TCK kind and for lists / contexts nested up to depth 3.
      use std::convert::TryFrom;
      let scope = Scope::default();
      let lit = |e: &str| -> Value { match dmntk_feel_parser::parse_expression(&scope, e, false).and_then(|n| dmntk_feel_evaluator::prepare(&n)) { Ok(ev) => ev(&scope), Err(_) => Value::Null(None) } };
      let all = value_grid(false); // component names are FEEL names: a key that is not a name does not come back through parse_longest_name
      let mut cases = 0usize;
      let mut failures: Vec<String> = vec![];
      let mut nfail = 0usize;
      for e in &all {
        let v = lit(e);
        if let Value::Null(Some(_)) = v { if e != "null" { continue; } }
        cases += 1;
        let e2 = e.clone();
        let r = std::panic::catch_unwind(std::panic::AssertUnwindSafe(move || -> std::result::Result<(), String> {
          let d = dto::ValueDto::try_from(&v).map_err(|x| format!("encode error {}", x))?;
          let text = serde_json::to_string(&d).map_err(|x| format!("serialize error {}", x))?;
          let d2: dto::ValueDto = serde_json::from_str(&text).map_err(|x| format!("the service's own JSON does not parse: {} in {}", x, text))?;
          let w = dto::WrappedValue::try_from(&d2).map_err(|x| format!("decode error {} for {}", x, text))?;
          let same = norm(&v) == norm(&w.0);
          if same { Ok(()) } else { Err(format!("came back as {} via {}", w.0, text)) }
        }));
        let msg = match r { Ok(Ok(())) => None, Ok(Err(m)) => Some(m), Err(_) => Some("PANIC".to_string()) };
        if let Some(m) = msg { nfail += 1; if failures.len() < 5 { failures.push(format!("{} {}", e2, m.chars().take(300).collect::<String>())); } }
      }
      // typed values as a client sends them: every xsd type tag with texts at and beyond the machine integer ranges; the decoded value must be
      // the FEEL value of the same text (the tags name the lexical space, not a machine type), an invalid text must be an error, never a panic
      let typed: Vec<(&str, &str, Option<&str>)> = vec![
        ("xsd:integer", "0", Some("0")), ("xsd:integer", "-7", Some("-7")), ("xsd:integer", "9223372036854775807", Some("9223372036854775807")),
        ("xsd:integer", "9223372036854775808", Some("9223372036854775808")), ("xsd:integer", "-9223372036854775809", Some("-9223372036854775809")),
        ("xsd:integer", "18446744073709551616", Some("18446744073709551616")), ("xsd:integer", "12345678901234567890123", Some("12345678901234567890123")),
        ("xsd:integer", "1234567890123456789012345678901234", Some("1234567890123456789012345678901234")), ("xsd:integer", "abc", None), ("xsd:integer", "", None),
        ("xsd:decimal", "0.1", Some("0.1")), ("xsd:decimal", "-12345678901234567890.123456789", Some("-12345678901234567890.123456789")), ("xsd:decimal", "1e", None),
        ("xsd:double", "1.5", Some("1.5")), ("xsd:double", "1E+3", Some("1000")), ("xsd:double", "-2.5E-3", Some("-0.0025")), ("xsd:double", "x", None),
        ("xsd:boolean", "true", Some("true")), ("xsd:boolean", "false", Some("false")), ("xsd:boolean", "1", Some("true")), ("xsd:boolean", "0", Some("false")), ("xsd:boolean", "yes", None),
        ("xsd:string", "a\"b", Some("\"a\\\"b\"")), ("xsd:date", "2021-03-04", Some("date(\"2021-03-04\")")), ("xsd:date", "2021-02-30", None),
        ("xsd:time", "10:20:30.132147786Z", Some("time(\"10:20:30.132147786Z\")")), ("xsd:time", "25:00:00", None),
        ("xsd:dateTime", "2021-03-04T10:20:30+01:00", Some("date and time(\"2021-03-04T10:20:30+01:00\")")), ("xsd:dateTime", "2021-03-04", None),
        ("xsd:duration", "P1Y2M", Some("duration(\"P1Y2M\")")), ("xsd:duration", "-PT1.5S", Some("duration(\"-PT1.5S\")")), ("xsd:duration", "PT300M", Some("duration(\"PT5H\")")), ("xsd:duration", "P", None),
        ("xsd:duration", "P2D", Some("duration(\"P2D\")")), ("xsd:duration", "-P10D", Some("duration(\"-P10D\")")), ("xsd:duration", "P1Y", Some("duration(\"P1Y\")")), ("xsd:duration", "-P3M", Some("duration(\"-P3M\")")), ("xsd:duration", "PT48H", Some("duration(\"P2D\")")),
      ];
      for (tag, text, expected) in typed {
        cases += 1;
        let json = format!("{{\"simple\":{{\"type\":{},\"text\":{},\"isNil\":false}}}}", serde_json::to_string(tag).unwrap(), serde_json::to_string(text).unwrap());
        let want = expected.map(|e| lit(e));
        let r = std::panic::catch_unwind(std::panic::AssertUnwindSafe(|| -> std::result::Result<(), String> {
          let d: dto::ValueDto = serde_json::from_str(&json).map_err(|x| format!("request does not parse: {}", x))?;
          match (dto::WrappedValue::try_from(&d), &want) {
            (Ok(w), Some(v)) => if norm(v) == norm(&w.0) { Ok(()) } else { Err(format!("decoded as {}", w.0)) },
            (Ok(w), None) => Err(format!("an invalid text was accepted as {}", w.0)),
            (Err(x), Some(_)) => Err(format!("a valid text was rejected: {}", x)),
            (Err(_), None) => Ok(()),
          }
        }));
        let msg = match r { Ok(Ok(())) => None, Ok(Err(m)) => Some(m), Err(_) => Some("PANIC".to_string()) };
        if let Some(m) = msg { nfail += 1; if failures.len() < 5 { failures.push(format!("{} {} {}", tag, text, m.chars().take(300).collect::<String>())); } }
      }
      println!("tck cases={} failures={}", cases, nfail);
      for f in failures { println!("FAIL {}", f); }
    }
    Some("json") => {
      // BOUNDED stand-in (not a proof): Value::jsonify (the body of the /evaluate response) must be a JSON document that decodes to the value
      use dmntk_common::Jsonify;
      let scope = Scope::default();
      let lit = |e: &str| -> Value { match dmntk_feel_parser::parse_expression(&scope, e, false).and_then(|n| dmntk_feel_evaluator::prepare(&n)) { Ok(ev) => ev(&scope), Err(_) => Value::Null(None) } };
      let mut cases = 0usize;
      let mut failures: Vec<String> = vec![];
      let mut nfail = 0usize;
      for e in &value_grid(true) {
        let v = lit(e);
        if let Value::Null(Some(_)) = v { if e != "null" { continue; } }
        cases += 1;
        let text = format!("{{\"data\":{}}}", v.jsonify());
        let ok = match serde_json::from_str::<serde_json::Value>(&text) { Ok(doc) => doc.get("data").map(|d| json_matches(&v, d)).unwrap_or(false), Err(_) => false };
        if !ok { nfail += 1; if failures.len() < 5 { failures.push(format!("{} rendered as {}", e, text.chars().take(300).collect::<String>())); } }
      }
      // context KEYS with every control character, DEL, C1 controls, format characters and the characters JSON escapes by name (keys are
      // rendered by a different call site than string values), bare and nested in a list / another context
      for cp in (0u32..0x20).chain([0x7Fu32, 0x80, 0x85, 0xAD, 0x200B, 0x2028, 0x2029, 0xFEFF, 0x22, 0x5C, 0x2F]) {
        for wrap in ["{{\"k\\u{:04X}z\": 1}}", "[{{\"k\\u{:04X}z\": \"v\"}}]", "{{a: {{\"\\u{:04X}\": null}}}}"] {
          let e = wrap.replace("{:04X}", &format!("{:04X}", cp)).replace("{{", "{").replace("}}", "}");
          let v = lit(&e);
          if let Value::Null(_) = v { continue; }
          cases += 1;
          let text = format!("{{\"data\":{}}}", v.jsonify());
          let ok = match serde_json::from_str::<serde_json::Value>(&text) { Ok(doc) => doc.get("data").map(|d| json_matches(&v, d)).unwrap_or(false), Err(_) => false };
          if !ok { nfail += 1; if failures.len() < 5 { failures.push(format!("{} rendered as {}", e, text.chars().take(300).collect::<String>())); } }
        }
      }
      // numbers against their value written out here (not against the number's own text form): small and large magnitudes of both
      // signs, results whose decimal128 form has a positive or a large negative exponent, zeros with an exponent
      let numbers: Vec<(&str, f64)> = vec![("-0.0000001", -1e-7), ("-0.00000015", -1.5e-7), ("0.0000001", 1e-7), ("0.00000015", 1.5e-7), ("-(1/4)*0.000001", -2.5e-7), ("(1/4)*0.000001", 2.5e-7),
        ("1000*1000", 1e6), ("-1000*1000", -1e6), ("1500*1000", 1.5e6), ("10 ** 30", 1e30), ("-(10 ** 30)", -1e30), ("10 ** -30", 1e-30), ("-(10 ** -30)", -1e-30), ("1.25 * 10 ** 20", 1.25e20), ("-1.25 * 10 ** -20", -1.25e-20),
        ("number(\"0E+3\", null, \".\")", 0.0), ("number(\"0E-10\", null, \".\")", 0.0), ("number(\"-1.5E+3\", null, \".\")", -1500.0), ("number(\"1.5E-9\", null, \".\")", 1.5e-9), ("0 * 1000", 0.0), ("-0.5", -0.5), ("-12.75", -12.75), ("0.000001", 1e-6), ("-0.000001", -1e-6)];
      for (e, expected) in numbers {
        for wrap in ["{}", "[{}]", "{{n: {}}}"] {
          let expr = wrap.replace("{}", e).replace("{{", "{").replace("}}", "}");
          let v = lit(&expr);
          if let Value::Null(_) = v { continue; }
          cases += 1;
          let text = format!("{{\"data\":{}}}", v.jsonify());
          let ok = match serde_json::from_str::<serde_json::Value>(&text) {
            Ok(doc) => { let d = &doc["data"]; let num = if d.is_array() { &d[0] } else if d.is_object() { &d["n"] } else { d }; num.as_f64().map(|x| (x - expected).abs() <= expected.abs() * 1e-12).unwrap_or(false) }
            Err(_) => false,
          };
          if !ok { nfail += 1; if failures.len() < 5 { failures.push(format!("{} rendered as {} (expected the number {:e})", expr, text.chars().take(300).collect::<String>(), expected)); } }
        }
      }
      println!("json cases={} failures={}", cases, nfail);
      for f in failures { println!("FAIL {}", f); }
    }
    Some("feelcases") => {
      // feelcases <file> [all]: (all: every failure is listed, not the first five) lines `expression ==> expected output`; evaluates each expression (empty scope) and compares the
      // rendered value with the expectation (`null` matches any null). Prints cases / failures in the bounded stand-in format.
      let text = std::fs::read_to_string(&args[2]).unwrap_or_default();
      let mut cases = 0usize;
      let mut failures: Vec<String> = vec![];
      let mut nfail = 0usize;
      for line in text.lines() {
        if let Some((e, expected)) = line.split_once(" ==> ") {
          cases += 1;
          let got = strip_null_messages(&eval(e.trim()));
          let exp = expected.trim();
          // `!v`: any answer but v (and no panic / error)
          let ok = if exp == "null" { got.starts_with("VALUE null") } else if let Some(not) = exp.strip_prefix('!') { got.starts_with("VALUE ") && got != format!("VALUE {}", not) } else { got == format!("VALUE {}", exp) };
          if !ok { nfail += 1; if failures.len() < 5 || args.get(3).map(|a| a == "all").unwrap_or(false) { failures.push(format!("{} => {} (expected {})", e.trim(), got.chars().take(160).collect::<String>(), exp)); } }
        }
      }
      println!("feelcases cases={} failures={}", cases, nfail);
      for f in failures { println!("FAIL {}", f); }
    }
    Some("feelseq") => {
      // feelseq <file> <rounds>: BOUNDED stand-in for the repeatability clause of C13. Every line is an expression; each is parsed and prepared ONCE
      // (empty scope), then all prepared evaluators are evaluated <rounds> times on ONE thread, forward in even rounds and backward in odd ones;
      // prints `round<TAB>index<TAB>value` for every evaluation (null messages stripped). The caller compares with values obtained in fresh processes.
      let text = std::fs::read_to_string(&args[2]).unwrap_or_default();
      let rounds: usize = args.get(3).and_then(|s| s.parse().ok()).unwrap_or(3);
      let h = std::thread::Builder::new().stack_size(1024 * 1024 * 1024).spawn(move || {
        let scope = Scope::default();
        let mut evs = vec![];
        for line in text.lines() {
          let r = std::panic::catch_unwind(std::panic::AssertUnwindSafe(|| dmntk_feel_parser::parse_expression(&scope, line, false).and_then(|n| dmntk_feel_evaluator::prepare(&n))));
          evs.push(match r { Ok(Ok(ev)) => Some(ev), _ => None });
        }
        let mut out = String::new();
        for r in 0..rounds {
          let order: Vec<usize> = if r % 2 == 0 { (0..evs.len()).collect() } else { (0..evs.len()).rev().collect() };
          for i in order {
            let v = match &evs[i] { Some(ev) => std::panic::catch_unwind(std::panic::AssertUnwindSafe(|| strip_null_messages(&format!("{}", ev(&scope))))).unwrap_or("PANIC".to_string()), None => "NOT-PREPARED".to_string() };
            out.push_str(&format!("{}\t{}\t{}\n", r, i, v));
          }
        }
        out
      }).expect("spawn");
      print!("{}", h.join().unwrap_or("PANIC\n".to_string()));
    }
    Some("feeltotal") => {
      // feeltotal <file> [secs]: BOUNDED stand-in (not a proof) for C05: every line is an expression; parsing + evaluating it must
      // answer (a value or an error) within <secs> seconds (default 10): no panic, no hang. Stops at the first hang.
      let text = std::fs::read_to_string(&args[2]).unwrap_or_default();
      let secs: u64 = args.get(3).and_then(|s| s.parse().ok()).unwrap_or(10);
      let mut cases = 0usize;
      let mut failures: Vec<String> = vec![];
      let mut nfail = 0usize;
      for line in text.lines().map(|l| l.trim()).filter(|l| !l.is_empty()) {
        cases += 1;
        let got = eval_within(line, secs);
        if got == "PANIC" || got == "TIMEOUT" {
          nfail += 1;
          failures.push(format!("{} => {}", line, if got == "PANIC" { "PANIC".to_string() } else { format!("no answer within {} s", secs) }));
          if got == "TIMEOUT" { break; }
        }
      }
      println!("feeltotal cases={} failures={}", cases, nfail);
      for f in failures { println!("FAIL {}", f); }
      std::process::exit(0);
    }
    Some("biftotal") => {
      // BOUNDED stand-in (not a proof) for C05 on the built-in functions: every built-in name (file, one per line) applied to every
      // tuple of 0..2 arguments from a 26-value grid and to every triple from a 10-value grid must return a value: no panic.
      let names = std::fs::read_to_string(&args[2]).unwrap_or_default();
      let grid: Vec<&str> = vec!["null", "0", "1", "-1", "2.5", "18446744073709551616", "\"\"", "\"a\"", "\"ż€\"", "true", "[]", "[null]", "[1,2]", "[\"a\"]", "[[1]]", "{}", "{a: 1}",
        "date(\"2020-01-31\")", "time(\"10:00:00\")", "date and time(\"2020-01-01T10:00:00\")", "duration(\"P1D\")", "duration(\"P1M\")", "function(x, y) x < y",
        "-9223372036854775808", "9223372036854775807", "-9223372036854775807"];   // the limits of the machine integers positions and lengths are converted to
      let small: Vec<&str> = vec!["null", "0", "-1", "18446744073709551616", "\"a\"", "[]", "[null]", "[1,2]", "-9223372036854775808", "9223372036854775807"];
      let mut cases = 0usize;
      let mut failures: Vec<String> = vec![];
      let mut nfail = 0usize;
      let mut run = |e: String| { cases += 1; if eval(&e) == "PANIC" { nfail += 1; if failures.len() < 5 { failures.push(format!("{} => PANIC", e)); } } };
      for name in names.lines().map(|l| l.trim()).filter(|l| !l.is_empty()) {
        run(format!("{}()", name));
        for a in &grid { run(format!("{}({})", name, a)); }
        for a in &grid { for b in &grid { run(format!("{}({}, {})", name, a, b)); } }
        for a in &small { for b in &small { for c in &small { run(format!("{}({}, {}, {})", name, a, b, c)); } } }
      }
      println!("biftotal cases={} failures={}", cases, nfail);
      for f in failures { println!("FAIL {}", f); }
    }
    Some("models") => {
      // models <listfile>: each line is the path of an XML text; parse it as a DMN model, build the model evaluator and evaluate every
      // invocable with an empty input context and with four contexts binding every input data (to a number / string / context / list), all under catch_unwind. Prints one line per file: OK n | ERROR | PANIC <where>.
      let list = std::fs::read_to_string(&args[2]).unwrap_or_default();
      let mut out = String::new();
      for path in list.lines().map(|l| l.trim()).filter(|l| !l.is_empty()) {
        let xml = std::fs::read_to_string(path).unwrap_or_default();
        let r = std::panic::catch_unwind(move || {
          match dmntk_model::parse(&xml) {
            Err(_) => "ERROR parse".to_string(),
            Ok(defs) => match dmntk_model_evaluator::ModelEvaluator::new(&defs) {
              Err(_) => "ERROR build".to_string(),
              Ok(me) => {
                let mut names: Vec<String> = vec![];
                for d in defs.decisions() { names.push(d.name().to_string()); }
                for b in defs.business_knowledge_models() { names.push(b.name().to_string()); }
                for ds in defs.decision_services() { names.push(ds.name().to_string()); }
                // with an empty input context, and with every input data (and every invocable's name) bound to a number, a string, a context and a list
                let mut ctxs = vec![dmntk_feel::context::FeelContext::default()];
                let samples = [Value::Number(FeelNumber::from_i128(1)), Value::String("x".to_string()), { let mut c = dmntk_feel::context::FeelContext::default(); c.set_entry(&"a".into(), Value::Number(FeelNumber::from_i128(1))); Value::Context(c) },
                               Value::List(Values::new(vec![Value::Number(FeelNumber::from_i128(1))]))];
                for sample in samples.iter() {
                  let mut c = dmntk_feel::context::FeelContext::default();
                  for i in defs.input_data() { if let Ok(nm) = dmntk_feel_parser::parse_longest_name(i.name()) { c.set_entry(&nm, sample.clone()); } }
                  ctxs.push(c);
                }
                for ctx in &ctxs { for n in &names { let _ = me.evaluate_invocable(n, ctx); } }
                format!("OK {}", names.len())
              }
            },
          }
        });
        // one line per file, flushed at once: a stack overflow aborts the process and must be attributed to the right file
        use std::io::Write;
        println!("{} {}", path, r.unwrap_or("PANIC".to_string()));
        let _ = std::io::stdout().flush();
        let _ = &out;
      }
    }
    Some("modelbatch") | Some("modelbatchk") => {
      // (modelbatchk: the knowledge models are invoked by name too, after the decision services)
      let with_bkm = args[1] == "modelbatchk";
      // modelbatch <xml-file> <context-text>...: build the model once, evaluate every decision, then every decision service (document order) for every context
      let xml = std::fs::read_to_string(&args[2]).unwrap_or_default();
      let ctxs: Vec<String> = args[3..].to_vec();
      let r = std::panic::catch_unwind(move || {
        let mut out = String::new();
        match dmntk_model::parse(&xml) {
          Err(e) => out.push_str(&format!("PARSE-ERROR {}\n", e)),
          Ok(defs) => match dmntk_model_evaluator::ModelEvaluator::new(&defs) {
            Err(e) => out.push_str(&format!("BUILD-ERROR {}\n", e)),
            Ok(me) => {
              let scope = Scope::default();
              for c in &ctxs {
                match dmntk_feel_evaluator::evaluate_context(&scope, c) {
                  Err(e) => out.push_str(&format!("CONTEXT-ERROR {}\n", e)),
                  Ok(ctx) => {
                    let mut names: Vec<String> = defs.decisions().iter().map(|d| d.name().to_string()).chain(defs.decision_services().iter().map(|d| d.name().to_string())).collect();
                    if with_bkm { names.extend(defs.business_knowledge_models().iter().map(|d| d.name().to_string())); }
                    for name in names {
                      let v = std::panic::catch_unwind(std::panic::AssertUnwindSafe(|| me.evaluate_invocable(&name, &ctx).to_string())).unwrap_or("PANIC".to_string());
                      out.push_str(&format!("{}\t{}\t{}\n", name, c, v));
                    }
                  }
                }
              }
            }
          },
        }
        out
      });
      print!("{}", r.unwrap_or("PANIC\n".to_string()));
    }
    Some("types") => {
      // types: a family of FEEL types up to nesting depth 2, every ordered pair: is_equivalent and is_conformant of the real code.
      // Each type is printed in a small prefix notation that the reference implementation (tools/typediff.py) reads.
      let b: Vec<(String, FeelType)> = vec![("A".into(), FeelType::Any), ("0".into(), FeelType::Null), ("N".into(), FeelType::Number), ("S".into(), FeelType::String), ("B".into(), FeelType::Boolean), ("D".into(), FeelType::Date)];
      let core: Vec<(String, FeelType)> = b[..4].to_vec();
      let mut all: Vec<(String, FeelType)> = b.clone();
      let mut level1: Vec<(String, FeelType)> = vec![];
      for (n, t) in &core { level1.push((format!("L({})", n), FeelType::list(t))); level1.push((format!("R({})", n), FeelType::range(t))); }
      for (n, t) in &core { level1.push((format!("F(;{})", n), FeelType::function(&[], t))); }
      for (n, t) in &core { for (m, u) in &core[1..] { level1.push((format!("F({};{})", n, m), FeelType::function(&[t.clone()], u))); } }
      for (n, t) in &core[2..] { for (m, u) in &core[..3] { level1.push((format!("F({},{};S)", n, m), FeelType::function(&[t.clone(), u.clone()], &FeelType::String))); } }
      for (n, t) in &core { level1.push((format!("C(a={})", n), FeelType::context(&[(&"a".into(), t)]))); }
      for (n, t) in &core[1..3] { for (m, u) in &core[..3] { level1.push((format!("C(a={},b={})", n, m), FeelType::context(&[(&"a".into(), t), (&"b".into(), u)]))); } }
      level1.push(("C()".into(), FeelType::context(&[])));
      all.extend(level1.iter().cloned());
      // depth 2: list / range / function / context over a few depth-1 types
      let pick: Vec<(String, FeelType)> = level1.iter().filter(|(n, _)| ["L(N)", "L(A)", "R(N)", "F(N;S)", "F(;S)", "C(a=N)", "C(a=N,b=A)", "C()"].contains(&n.as_str())).cloned().collect();
      for (n, t) in &pick { all.push((format!("L({})", n), FeelType::list(t))); all.push((format!("F({};S)", n), FeelType::function(&[t.clone()], &FeelType::String))); all.push((format!("F(;{})", n), FeelType::function(&[], t))); all.push((format!("C(a={})", n), FeelType::context(&[(&"a".into(), t)]))); }
      let mut out = String::new();
      for (n1, t1) in &all { for (n2, t2) in &all {
        let r = std::panic::catch_unwind(|| (t1.is_equivalent(t2), t1.is_conformant(t2)));
        match r { Ok((e, c)) => out.push_str(&format!("{}\t{}\t{}\t{}\n", n1, n2, e, c)), Err(_) => out.push_str(&format!("{}\t{}\tPANIC\tPANIC\n", n1, n2)) }
      } }
      print!("{}", out);
    }
    Some("purity") => {
      // purity <file>: BOUNDED stand-in (not a proof) for C13 / C01: every line is an expression over the names a = 9, b = 2, base = 8,
      // xs = [1,2,3], people = [{name: "n1", age: 30, item: 1}, {name: "n2", age: 40, item: 2}], f = function(x) x + base.
      // Parsing must leave the parsing scope as it found it; evaluating must leave the scope as it found it, evaluating a second time
      // must give the same value, and afterwards `a + b + base` must still be 19 over the same scope.
      let text = std::fs::read_to_string(&args[2]).unwrap_or_default();
      let mut cases = 0usize;
      let mut nfail = 0usize;
      let mut failures: Vec<String> = vec![];
      for line in text.lines().map(|l| l.trim()).filter(|l| !l.is_empty()) {
        cases += 1;
        let e = line.to_string();
        let r = std::panic::catch_unwind(std::panic::AssertUnwindSafe(move || -> std::result::Result<(), String> {
          let scope = Scope::default();
          let setup = "{a: 9, b: 2, base: 8, xs: [1,2,3], people: [{name: \"n1\", age: 30, item: 1}, {name: \"n2\", age: 40, item: 2}]}";
          let ctx = dmntk_feel_evaluator::evaluate_context(&scope, setup).map_err(|e| format!("setup: {}", e))?;
          for (k, v) in ctx.iter() { scope.set_entry(k, v.clone()); }
          let fnode = dmntk_feel_parser::parse_expression(&scope, "function(x) x + base", false).map_err(|e| format!("setup: {}", e))?;
          let fval = dmntk_feel_evaluator::prepare(&fnode).map_err(|e| format!("setup: {}", e))?(&scope);
          scope.set_entry(&"f".into(), fval);
          let before = scope.to_string();
          let node = match dmntk_feel_parser::parse_expression(&scope, &e, false) { Ok(n) => n, Err(_) => return Ok(()) };   // the property speaks of successful parses
          if scope.to_string() != before { return Err(format!("parsing changed the scope from {} into {}", before, scope)); }
          let ev = match dmntk_feel_evaluator::prepare(&node) { Ok(ev) => ev, Err(_) => return Ok(()) };
          let v1 = ev(&scope).to_string();
          if scope.to_string() != before { return Err(format!("evaluating (=> {}) changed the scope from {} into {}", v1, before, scope)); }
          let v2 = ev(&scope).to_string();
          if v1 != v2 { return Err(format!("first evaluation => {}, second evaluation => {}", v1, v2)); }
          let probe = dmntk_feel_parser::parse_expression(&scope, "a + b + base", false).map_err(|e| format!("probe: {}", e))?;
          let pv = dmntk_feel_evaluator::prepare(&probe).map_err(|e| format!("probe: {}", e))?(&scope).to_string();
          if pv != "19" { return Err(format!("afterwards `a + b + base` => {} (expected 19)", pv)); }
          Ok(())
        }));
        match r {
          Ok(Ok(())) => {}
          Ok(Err(m)) => { nfail += 1; if failures.len() < 5 { failures.push(format!("{} : {}", line, m)); } }
          Err(_) => { nfail += 1; if failures.len() < 5 { failures.push(format!("{} => PANIC", line)); } }
        }
      }
      println!("purity cases={} failures={}", cases, nfail);
      for f in failures { println!("FAIL {}", f); }
    }
    Some("recognizecorrupt") => {
      // recognizecorrupt <listfile>: BOUNDED stand-in (not a proof) for "arbitrary text is either recognised or rejected with an error,
      // never with a panic" on single-character corruptions: for every drawing listed, every character position is replaced by each of
      // 28 characters (blank, every box-drawing character the recognizer knows, a letter, a digit, a line feed), deleted, and preceded by one of four inserted characters; the real
      // dmntk_recognizer::build must answer (Ok or Err) within 10 seconds.
      let list = std::fs::read_to_string(&args[2]).unwrap_or_default();
      let alphabet: Vec<char> = " ─│┌┐└┘├┤┬┴┼═║╞╟╡╢╤╥╧╨╪╫╬x1\n".chars().collect();
      let mut cases = 0usize;
      let mut nfail = 0usize;
      let mut failures: Vec<String> = vec![];
      'files: for path in list.lines().map(|l| l.trim()).filter(|l| !l.is_empty()) {
        let text: Vec<char> = std::fs::read_to_string(path).unwrap_or_default().chars().collect();
        let (mut line, mut col) = (1usize, 1usize);
        for i in 0..text.len() {
          let original = text[i];
          let mut variants: Vec<(String, Vec<char>)> = vec![];
          for &c in &alphabet {
            if c != original { let mut t = text.clone(); t[i] = c; variants.push((format!("replaced by {:?}", c), t)); }
          }
          let mut t = text.clone(); t.remove(i); variants.push(("deleted".to_string(), t));
          for &c in &['│', '═', ' ', '\n'] { let mut t = text.clone(); t.insert(i, c); variants.push((format!("preceded by an inserted {:?}", c), t)); }
          for (what, t) in variants {
            cases += 1;
            let input: String = t.into_iter().collect();
            let (tx, rx) = std::sync::mpsc::channel();
            std::thread::spawn(move || { let r = std::panic::catch_unwind(move || dmntk_recognizer::build(&input).is_ok()); let _ = tx.send(r.is_ok()); });
            match rx.recv_timeout(std::time::Duration::from_secs(10)) {
              Ok(true) => {}
              Ok(false) => { nfail += 1; if failures.len() < 5 { failures.push(format!("{} with the character {:?} at line {} column {} {} => PANIC", path, original, line, col, what)); } }
              Err(_) => { nfail += 1; failures.push(format!("{} with the character {:?} at line {} column {} {} => no answer within 10 s", path, original, line, col, what)); break 'files; }
            }
          }
          if original == '\n' { line += 1; col = 1; } else { col += 1; }
        }
      }
      println!("recognizecorrupt cases={} failures={}", cases, nfail);
      for f in failures { println!("FAIL {}", f); }
      std::process::exit(0);
    }
    Some("recognizedump") => {
      // recognizedump <listfile>: each line is the path of a text drawing; prints one line per file with every field of the recognised
      // decision table, tab separated (or ERROR / PANIC)
      let list = std::fs::read_to_string(&args[2]).unwrap_or_default();
      for path in list.lines().map(|l| l.trim()).filter(|l| !l.is_empty()) {
        let text = std::fs::read_to_string(path).unwrap_or_default();
        let r = std::panic::catch_unwind(move || match dmntk_recognizer::build(&text) {
          Ok(dt) => {
            let esc = |s: &str| s.replace('\\', "\\\\").replace('\t', "\\t").replace('\n', "\\n");
            let mut f: Vec<String> = vec![];
            f.push(format!("hp={:?}", dt.hit_policy));
            f.push(format!("agg={:?}", dt.aggregation));
            f.push(format!("orient={:?}", dt.preferred_orientation));
            f.push(format!("name={}", dt.information_item_name.as_deref().map(esc).unwrap_or("-".to_string())));
            f.push(format!("label={}", dt.output_label.as_deref().map(esc).unwrap_or("-".to_string())));
            for c in &dt.input_clauses { f.push(format!("in={}|{}", esc(&c.input_expression), c.input_values.as_deref().map(esc).unwrap_or("-".to_string()))); }
            for c in &dt.output_clauses { f.push(format!("out={}|{}", c.name.as_deref().map(esc).unwrap_or("-".to_string()), c.output_values.as_deref().map(esc).unwrap_or("-".to_string()))); }
            for a in &dt.annotations { f.push(format!("ann={}", esc(&a.name))); }
            for rule in &dt.rules {
              f.push(format!("rule={}=>{}##{}", rule.input_entries.iter().map(|e| esc(&e.text)).collect::<Vec<String>>().join("|"),
                rule.output_entries.iter().map(|e| esc(&e.text)).collect::<Vec<String>>().join("|"), rule.annotation_entries.iter().map(|e| esc(&e.text)).collect::<Vec<String>>().join("|")));
            }
            f.join("\t")
          }
          Err(e) => format!("ERROR {}", e),
        });
        use std::io::Write;
        println!("{}", r.unwrap_or("PANIC".to_string()));
        let _ = std::io::stdout().flush();
      }
    }
    Some("escapes") => {
      // BOUNDED stand-in (not a proof): every scalar value of a sample (every <step>-th code point, the first and last of every
      // plane, the surrogate boundaries' neighbours) written as \uXXXX (BMP), \UXXXXXX and - above the BMP - as a UTF-16 surrogate
      // pair inside a string literal must parse to the one-character string; step 1 = every code point.
      let step: u32 = args.get(2).and_then(|s| s.parse().ok()).unwrap_or(257);
      let scope = Scope::default();
      let mut cps: Vec<u32> = (0x20u32..0x110000).step_by(step as usize).collect();
      for p in 0u32..17 { cps.push(p * 0x10000); cps.push(p * 0x10000 + 0xFFFF); cps.push(p * 0x10000 + 0x8000); }
      cps.extend([0xD7FF, 0xE000, 0x7F, 0x80, 0x7FF, 0x800, 0xFFFD, 0x10000, 0x10FFFF, 0x20000, 0x2FFFF, 0x1F4C0]);
      let mut cases = 0usize; let mut nfail = 0usize; let mut failures: Vec<String> = vec![];
      for cp in cps {
        let ch = match char::from_u32(cp) { Some(c) => c, None => continue };
        if ch == '"' || ch == '\\' { continue; }
        let mut spellings: Vec<String> = vec![format!("\"\\U{:06X}\"", cp)];
        if cp < 0x10000 { spellings.push(format!("\"\\u{:04X}\"", cp)); } else { let v = cp - 0x10000; spellings.push(format!("\"\\u{:04X}\\u{:04X}\"", 0xD800 + (v >> 10), 0xDC00 + (v & 0x3FF))); }
        for s in spellings {
          cases += 1;
          let s2 = s.clone();
          let r = std::panic::catch_unwind(std::panic::AssertUnwindSafe(|| dmntk_feel_parser::parse_expression(&scope, &s2, false)));
          let ok = match &r { Ok(Ok(dmntk_feel::AstNode::String(t))) => t.chars().count() == 1 && t.chars().next() == Some(ch), _ => false };
          if !ok { nfail += 1; if failures.len() < 5 { failures.push(format!("{} (U+{:04X}) => {}", s, cp, match r { Ok(Ok(n)) => format!("{:?}", n).chars().take(80).collect::<String>(), Ok(Err(e)) => format!("error {}", e).chars().take(80).collect::<String>(), Err(_) => "PANIC".to_string() })); } }
        }
      }
      println!("escapes cases={} failures={}", cases, nfail);
      for f in failures { println!("FAIL {}", f); }
    }
    Some("scopes") => {
      // BOUNDED stand-in (not a proof): every stack of up to <max> contexts in which each context either binds `x` (to its
      // level) and/or `y z` or not: Scope::get_entry and Scope::search_deep must return the innermost binding, and
      // a lookup must not change the scope's rendering.
      let max: u32 = args.get(2).and_then(|s| s.parse().ok()).unwrap_or(4);
      let mut cases = 0usize;
      let mut failures: Vec<String> = vec![];
      let names: Vec<dmntk_feel::Name> = vec!["x".into(), dmntk_feel::Name::new(&["y", "z"])];
      for depth in 0..=max {
        for mask in 0..(1u32 << (2 * depth)) {
          let scope = Scope::new();
          let mut expected: Vec<Option<u32>> = vec![None, None];
          for level in 0..depth {
            let mut ctx = dmntk_feel::context::FeelContext::default();
            for (k, n) in names.iter().enumerate() {
              if mask & (1 << (2 * level + k as u32)) != 0 { ctx.set_entry(n, Value::Number(FeelNumber::from_i128((10 * level + k as u32) as i128))); expected[k] = Some(10 * level + k as u32); }
            }
            scope.push(ctx);
          }
          let before = scope.to_string();
          for (k, n) in names.iter().enumerate() {
            let exp = expected[k].map(|v| Value::Number(FeelNumber::from_i128(v as i128)).to_string());
            let got = scope.get_entry(n).map(|v| v.to_string());
            let got_deep = scope.search_deep(&[n.clone()]).map(|v| v.to_string());
            cases += 2;
            if got != exp && failures.len() < 5 { failures.push(format!("scope {} get_entry({}) => {:?} (expected the innermost binding {:?})", before, n, got, exp)); }
            if got_deep != exp && failures.len() < 5 { failures.push(format!("scope {} search_deep([{}]) => {:?} (expected the innermost binding {:?})", before, n, got_deep, exp)); }
          }
          if scope.to_string() != before && failures.len() < 5 { failures.push(format!("scope {} changed by lookups into {}", before, scope)); }
        }
      }
      println!("scopes cases={} failures={}", cases, failures.len());
      for f in failures { println!("FAIL {}", f); }
    }
    Some("names") => {
      // BOUNDED stand-in (not a proof) for the string half of C10: every name made of up to <max> parts (words a, b, ż1 and
      // the additional symbols), bound programmatically (Name::new), must resolve to its value when written canonically
      // and with single spaces between all parts, alone and followed by ` + 1`, with and without its words bound too.
      let max: usize = args.get(2).and_then(|s| s.parse().ok()).unwrap_or(3);
      let words = ["a", "b", "ż1"];
      let symbols = ["+", "-", "/", "*", ".", "'"];
      let mut lists: Vec<Vec<&str>> = words.iter().map(|w| vec![*w]).collect();
      let mut frontier = lists.clone();
      for _ in 1..max {
        let mut next = vec![];
        for l in &frontier { for x in words.iter().chain(symbols.iter()) { let mut t = l.clone(); t.push(*x); next.push(t); } }
        lists.extend(next.iter().cloned());
        frontier = next;
      }
      // words that BEGIN with a digit (they can follow a space or an additional symbol, not open a name): `Top 10 customers`, `Q-1`
      for extra in [vec!["a", "10"], vec!["a", "10", "b"], vec!["a", "-", "1"], vec!["a", ".", "5"], vec!["a", "b", "2"], vec!["a", "+", "10", "b"], vec!["b", "10", "a", "2"], vec!["ż1", "1"],
                    vec!["a", "/", "2"], vec!["a", "2b", "b"], vec!["b", "'", "9a"], vec!["a", "*", "3", "-", "b"]] { lists.push(extra); }
      let mut cases = 0usize;
      let mut failures: Vec<String> = vec![];
      let mut nfail = 0usize;
      let is_sym = |x: &str| symbols.contains(&x);
      for parts in &lists {
        // the property's domain: words separated by spaces or joined by ONE additional symbol
        if is_sym(parts[parts.len() - 1]) { continue; }
        // `//` and `/*` open a comment in the FEEL grammar: they cannot be written inside a name
        if parts.windows(2).any(|w| w[0] == "/" && (w[1] == "/" || w[1] == "*")) { continue; }
        // two additional symbols in a row (`fr**n*s`): such a name resolves when it stands alone, written canonically, with none of its
        // words bound - the repository's own parser tests use some; everything else about them is outside what works (and is not claimed)
        let adjacent = parts.windows(2).any(|w| is_sym(w[0]) && is_sym(w[1]));
        // the name as it is written: words separated by one space, additional symbols glued to their neighbours (written out here,
        // not taken from Name::new, so that the name the value is bound under does not depend on the code under test)
        let mut canonical = String::new();
        for (i, part) in parts.iter().enumerate() { if i > 0 && !is_sym(parts[i - 1]) && !is_sym(part) { canonical.push(' '); } canonical.push_str(part); }
        let name = dmntk_feel::Name::from(canonical.as_str());
        let spaced = parts.join(" ");
        for with_words in [false, true] {
          for (ti, text) in [canonical.clone(), spaced.clone()].into_iter().enumerate() {
            for (suffix, expected) in [("", "10"), (" + 1", "11")] {
              if adjacent && (with_words || ti == 1 || !suffix.is_empty()) { continue; }
              let input = format!("{}{}", text, suffix);
              let (n2, i2, p2) = (name.clone(), input.clone(), parts.clone());
              let r = std::panic::catch_unwind(move || {
                let scope = Scope::default();
                if with_words { for w in ["a", "b", "ż1"] { scope.set_entry(&w.into(), Value::Number(FeelNumber::from_i128(2))); } }
                let _ = p2;
                scope.set_entry(&n2, Value::Number(FeelNumber::from_i128(10)));
                match dmntk_feel_parser::parse_expression(&scope, &i2, false) {
                  Ok(node) => match dmntk_feel_evaluator::prepare(&node) { Ok(ev) => format!("{}", ev(&scope)), Err(e) => format!("BUILD-ERROR {}", e) },
                  Err(e) => format!("PARSE-ERROR {}", e),
                }
              }).unwrap_or("PANIC".to_string());
              cases += 1;
              if r != expected {
                nfail += 1;
                if failures.len() < 5 { failures.push(format!("name `{}` bound to 10{}; input `{}` => {} (expected {})", canonical, if with_words { " (a, b, ż1 bound to 2)" } else { "" }, input, r, expected)); }
              }
            }
          }
        }
      }
      // entry names of contexts INSIDE bound values (a nested context, the items of a bound list at every position, also after a
      // null / a number / a context without that entry) are bound names too: `N - 1` is a subtraction from the entry named N
      for nm in [vec!["interest", "rate"], vec!["x", "y", "z"], vec!["p"]] {
        let name = dmntk_feel::Name::new(&nm);
        let mut with = dmntk_feel::context::FeelContext::default();
        with.set_entry(&name, Value::Number(FeelNumber::from_i128(5)));
        let mut other = dmntk_feel::context::FeelContext::default();
        other.set_entry(&"id".into(), Value::Number(FeelNumber::from_i128(1)));
        let fillers: Vec<(&str, Value)> = vec![("null", Value::Null(None)), ("a number", Value::Number(FeelNumber::from_i128(7))), ("a context without it", Value::Context(other.clone()))];
        for pos in 0..3usize {
          for (fname, filler) in &fillers {
            let mut items = vec![filler.clone(); 3];
            items[pos] = Value::Context(with.clone());
            let input = format!("loans[{} - 1 > 2]", name);
            let (n2, i2, it2) = (name.clone(), input.clone(), items.clone());
            let r = std::panic::catch_unwind(std::panic::AssertUnwindSafe(move || {
              let scope = Scope::default();
              let _ = n2;
              scope.set_entry(&"loans".into(), Value::List(dmntk_feel::values::Values::new(it2)));
              match dmntk_feel_parser::parse_expression(&scope, &i2, false) {
                Ok(node) => match dmntk_feel_evaluator::prepare(&node) { Ok(ev) => format!("{}", ev(&scope)), Err(e) => format!("BUILD-ERROR {}", e) },
                Err(e) => format!("PARSE-ERROR {}", e),
              }
            })).unwrap_or("PANIC".to_string());
            cases += 1;
            let expected = format!("[{}]", Value::Context(with.clone()));
            // (a one-item filter result may be rendered as the item itself: singleton lists and their item are interchangeable in FEEL)
            if r != expected && r != format!("{}", Value::Context(with.clone())) { nfail += 1; if failures.len() < 5 { failures.push(format!("loans = a list whose item #{} is {{{}: 5}} and whose other items are {}; input `{}` => {} (expected {})", pos + 1, name, fname, input, r, expected)); } }
          }
        }
        let input = format!("c.{} - 1", name);
        let (i2, w2) = (input.clone(), with.clone());
        let r = std::panic::catch_unwind(std::panic::AssertUnwindSafe(move || {
          let scope = Scope::default();
          scope.set_entry(&"c".into(), Value::Context(w2));
          match dmntk_feel_parser::parse_expression(&scope, &i2, false) {
            Ok(node) => match dmntk_feel_evaluator::prepare(&node) { Ok(ev) => format!("{}", ev(&scope)), Err(e) => format!("BUILD-ERROR {}", e) },
            Err(e) => format!("PARSE-ERROR {}", e),
          }
        })).unwrap_or("PANIC".to_string());
        cases += 1;
        if r != "4" { nfail += 1; if failures.len() < 5 { failures.push(format!("c = {{{}: 5}}; input `{}` => {} (expected 4)", name, input, r)); } }
      }
      // names introduced by context entries: the key of an entry is bound for the LATER entries, not while its own value is read
      // (there the characters still denote the operator over the outer names); a = 9, b = 2 bound outside
      for (input, expected) in [("{\"a-b\": a - b}", "{a-b: 7}"), ("{\"a-b\": a-b}", "{a-b: 7}"), ("{\"a/b\": a / b}", "{a/b: 4.5}"), ("{\"a*b\": a * b}", "{a*b: 18}"),
                                ("{\"a+b\": a + b}", "{a+b: 11}"), ("{\"a-b\": 1, c: a-b}", "{a-b: 1, c: 1}"), ("{\"a-b\": 1, c: a - b}", "{a-b: 1, c: 1}"), ("{a: a + 1}", "{a: 10}"), ("{k: 1, r: k + 1}", "{k: 1, r: 2}"),
                                ("{\"k w\": 1, r: k w + 1}", "{k w: 1, r: 2}"), ("{k w: 1, r: k w + 1}", "{k w: 1, r: 2}"), ("{c: {\"a-b\": a - b}, d: a - b}", "{c: {a-b: 7}, d: 7}"),
                                ("[{\"a-b\": 1}, a - b]", "[{a-b: 1}, 7]")] {
        let i2 = input.to_string();
        let r = std::panic::catch_unwind(std::panic::AssertUnwindSafe(move || {
          let scope = Scope::default();
          scope.set_entry(&"a".into(), Value::Number(FeelNumber::from_i128(9)));
          scope.set_entry(&"b".into(), Value::Number(FeelNumber::from_i128(2)));
          match dmntk_feel_parser::parse_expression(&scope, &i2, false) {
            Ok(node) => match dmntk_feel_evaluator::prepare(&node) { Ok(ev) => format!("{}", ev(&scope)), Err(e) => format!("BUILD-ERROR {}", e) },
            Err(e) => format!("PARSE-ERROR {}", e),
          }
        })).unwrap_or("PANIC".to_string());
        cases += 1;
        if r != expected { nfail += 1; if failures.len() < 5 { failures.push(format!("a = 9, b = 2; input `{}` => {} (expected {})", input, r, expected)); } }
      }
      println!("names cases={} failures={}", cases, nfail);
      for f in failures { println!("FAIL {}", f); }
    }
    Some("model") => {
      // model <xml-file> <invocable-name> <feel-context-text>: parse the model, build its evaluator, evaluate the invocable
      let xml = std::fs::read_to_string(&args[2]).unwrap_or_default();
      let inv = args.get(3).cloned().unwrap_or_default();
      let ctx_text = args.get(4).cloned().unwrap_or("{}".to_string());
      let r = std::panic::catch_unwind(move || {
        match dmntk_model::parse(&xml) {
          Err(e) => format!("PARSE-ERROR {}", e),
          Ok(defs) => match dmntk_model_evaluator::ModelEvaluator::new(&defs) {
            Err(e) => format!("BUILD-ERROR {}", e),
            Ok(me) => {
              let scope = Scope::default();
              match dmntk_feel_evaluator::evaluate_context(&scope, &ctx_text) {
                Err(e) => format!("CONTEXT-ERROR {}", e),
                Ok(ctx) => format!("VALUE {}", me.evaluate_invocable(&inv, &ctx)),
              }
            }
          },
        }
      });
      println!("{}", r.unwrap_or("PANIC".to_string()));
    }
    _ => eprintln!("usage"),
  }
}
