"""Unit `bifs`: list / string position built-ins of feel-evaluator/src/bifs/core.rs (C08, C05)."""
import os, sys
sys.path.insert(0, os.path.dirname(os.path.abspath(__file__)))
import _common as C
K = 'feel-evaluator/src/bifs/core.rs'
V = 'feel/src/values.rs'
P = ['C08']
A = ['C08', 'C05']
R3 = ('R3', ['value_null', 'invalid_argument_type'])

def bif(name, **kw):
    d = {'kind': 'fn', 'src': K, 'path': 'fn ' + name, 'key': 'bifs::' + name, 'props': P, 'auto_props': A, 'loops': 0, 'ret': 'r',
         'rewrites': [R3], 'body_prefix': 'broadcast use axiom_num_int_facts, axiom_num_not_lt_int;\nproof { if list is List { assert(list->List_0.0@.len() == list->List_0.0.len()); } }'}
    d.update(kw)
    return d

def vfn(name, ensures, **kw):
    d = {'kind': 'fn', 'src': V, 'path': 'impl Values::fn ' + name, 'key': 'bifs::Values::' + name, 'props': P, 'auto_props': A, 'loops': 0, 'ensures': ensures}
    d.update(kw)
    return d

LIST = 'list->List_0.0@'
POS = 'num_as_int(position_value->Number_0)'
UNIT = {
    'name': 'bifs',
    'uses': C.USES,
    'parts': C.NAME + C.FEELTYPE + [
        {'kind': 'text', 'text': 'pub uninterp spec fn equiv(a: FeelType, b: FeelType) -> bool;', 'note': 'unused-here'},
        {'kind': 'item', 'src': 'feel/src/context.rs', 'path': 'type FeelContextEntries'},
        {'kind': 'item', 'src': 'feel/src/context.rs', 'path': 'struct FeelContext',
         'rewrites': [('RX', 'R7', r'pub struct FeelContext\(FeelContextEntries\)', 'pub struct FeelContext(pub FeelContextEntries)', 1)]},
        {'kind': 'item', 'src': V, 'path': 'struct Values',
         'rewrites': [('RX', 'R7', r'pub struct Values\(Vec<Value>\)', 'pub struct Values(pub Vec<Value>)', 1)]},
        {'kind': 'item', 'src': V, 'path': 'enum Value'},
        {'kind': 'item', 'src': V, 'path': 'macro_rules! value_null'},
        {'kind': 'item', 'src': V, 'path': 'const VALUE_TRUE'},
        {'kind': 'item', 'src': V, 'path': 'const VALUE_FALSE'},
        {'kind': 'vrs', 'file': 'bifs/prelude.vrs'},
        {'kind': 'vrs', 'file': 'common/value_traits.vrs'},
        {'kind': 'text', 'note': 'A-derive', 'text': 'impl Clone for Values { #[verifier::external_body] fn clone(&self) -> (r: Values) ensures r == *self { unimplemented!() } }'},
        {'kind': 'vrs', 'file': 'bifs/spec.vrs'},
        vfn('new', [('post', 'r.0 == values')], ret='r'),
        vfn('len', [('post', 'r == self.0@.len()')], ret='r'),
        vfn('as_vec', [('post', '*r == self.0')], ret='r'),
        vfn('insert', [('post', 'final(self).0@ == old(self).0@.insert(index as int, value)')], requires=[('in_range', 'index <= old(self).0@.len()')]),
        vfn('remove', [('post', 'final(self).0@ == old(self).0@.remove(index as int)')], requires=[('in_range', 'index < old(self).0@.len()')]),
        vfn('add', [('post', 'final(self).0@ == old(self).0@.push(value)')]),
        vfn('reverse', [('post', 'final(self).0@ =~= old(self).0@.reverse()')]),
        bif('sublist2',
            ensures=[('null_outside_domain', '!(list is List && position_value is Number && %s is Some && sublist_spec(%s, %s->Some_0, None) is Some) ==> r is Null' % (POS, LIST, POS)),
                     ('sublist', '(list is List && position_value is Number && %s is Some && sublist_spec(%s, %s->Some_0, None) is Some) ==> r is List && r->List_0.0@ =~= sublist_spec(%s, %s->Some_0, None)->Some_0' % (POS, LIST, POS, LIST, POS))]),
        bif('sublist3',
            ensures=[('null_outside_domain', '!(list is List && position_value is Number && length_value is Number && %s is Some && num_as_int(length_value->Number_0) is Some && sublist_spec(%s, %s->Some_0, num_as_int(length_value->Number_0)) is Some) ==> r is Null' % (POS, LIST, POS)),
                     ('sublist', '(list is List && position_value is Number && length_value is Number && %s is Some && num_as_int(length_value->Number_0) is Some && sublist_spec(%s, %s->Some_0, num_as_int(length_value->Number_0)) is Some) ==> r is List && r->List_0.0@ =~= sublist_spec(%s, %s->Some_0, num_as_int(length_value->Number_0))->Some_0' % (POS, LIST, POS, LIST, POS))]),
        bif('insert_before',
            ensures=[('null_outside_domain', '!(list is List && position_value is Number && %s is Some && insert_before_spec(%s, %s->Some_0, *new_item_value) is Some) ==> r is Null' % (POS, LIST, POS)),
                     ('inserted', '(list is List && position_value is Number && %s is Some && insert_before_spec(%s, %s->Some_0, *new_item_value) is Some) ==> r is List && r->List_0.0@ =~= insert_before_spec(%s, %s->Some_0, *new_item_value)->Some_0' % (POS, LIST, POS, LIST, POS))]),
        bif('remove',
            ensures=[('null_outside_domain', '!(list is List && position_value is Number && %s is Some && remove_spec(%s, %s->Some_0) is Some) ==> r is Null' % (POS, LIST, POS)),
                     ('removed', '(list is List && position_value is Number && %s is Some && remove_spec(%s, %s->Some_0) is Some) ==> r is List && r->List_0.0@ =~= remove_spec(%s, %s->Some_0)->Some_0' % (POS, LIST, POS, LIST, POS))]),
        bif('reverse',
            ensures=[('reversed', 'list is List ==> r is List && r->List_0.0@ =~= %s.reverse()' % LIST), ('null_otherwise', '!(list is List) ==> r is Null')]),
        bif('count', rewrites=[R3, ('RX', 'R11', r'items\.as_vec\(\)\.len\(\)\.into\(\)', 'num_from_usize(items.as_vec().len())', 1)],
            ensures=[('counted', 'list is List ==> r is Number && num_as_int(r->Number_0) == Some(%s.len() as int)' % LIST), ('null_otherwise', '!(list is List) ==> r is Null')]),
        bif('not', body_prefix='', ensures=[('negation', 'negand is Boolean ==> r == Value::Boolean(!negand->Boolean_0)'), ('null_otherwise', '!(negand is Boolean) ==> r is Null')]),
        bif('all', body_prefix='', loops=1,
            ensures=[('all_spec', 'match all_spec(values@) { Some(b) => r == Value::Boolean(b), None => r is Null }')],
            loop_specs={0: {'iter_name': 'it', 'invariant': [
                ('seq', 'it.seq() =~= values@.map_values(|v: Value| &v)'),
                ('no_false_so_far', 'forall |j: int| 0 <= j < it.index@ ==> #[trigger] values@[j] != Value::Boolean(false)'),
                ('all_true_flag', 'all_true <==> forall |j: int| 0 <= j < it.index@ ==> #[trigger] values@[j] == Value::Boolean(true)')],
                'body_prefix': 'proof { assert(*value == values@[it.index@ as int]); }'}}),
        bif('substring', body_prefix='broadcast use axiom_num_int_facts, axiom_num_not_lt_int;\nproof { if input_string_value is String { axiom_string_len_bound(input_string_value->String_0); } }',
            rewrites=[R3,
                      ('RX', 'R13', r'input_string\.chars\(\)\.skip\(([^()]+|index as usize)\)\.take\(count\)\.collect\(\)', r'str_skip_take(input_string, \1, count)', 2),
                      ('RX', 'R13', r'input_string\.chars\(\)\.skip\(([^()]+|index as usize)\)\.collect\(\)', r'str_skip(input_string, \1)', 2)],
            ensures=[('substring_with_length',
                      '(input_string_value is String && start_position_value is Number && num_as_int(start_position_value->Number_0) is Some && length_value is Number) ==> '
                      '(match substring_spec(input_string_value->String_0@, num_as_int(start_position_value->Number_0)->Some_0, Some(num_trunc(length_value->Number_0))) { '
                      'Some(sub) => r is String && r->String_0@ =~= sub, None => r is Null })'),
                     ('substring_to_end',
                      '(input_string_value is String && start_position_value is Number && num_as_int(start_position_value->Number_0) is Some && length_value is Null) ==> '
                      '(match substring_spec(input_string_value->String_0@, num_as_int(start_position_value->Number_0)->Some_0, None) { Some(sub) => r is String && r->String_0@ =~= sub, None => r is Null })'),
                     ('null_on_wrong_types', '!(input_string_value is String && start_position_value is Number && (length_value is Number || length_value is Null)) ==> r is Null')]),
        bif('list_contains', body_prefix='', loops=1,
            ensures=[('membership', 'list is List ==> r == Value::Boolean(exists |i: int| 0 <= i < %s.len() && veq(#[trigger] %s[i], *element))' % (LIST, LIST)),
                     ('null_otherwise', '!(list is List) ==> r is Null')],
            loop_specs={0: {'iter_name': 'it', 'invariant': [
                ('ctx', '*list is List, list->List_0 == *items'),
                ('seq', 'it.seq() =~= items.0@.map_values(|v: Value| &v)'),
                ('not_found_so_far', 'forall |j: int| 0 <= j < it.index@ ==> !veq(#[trigger] items.0@[j], *element)')],
                'body_prefix': 'proof { assert(*item == items.0@[it.index@ as int]); }'}}),
        bif('index_of', body_prefix='', loops=1,
            rewrites=[R3, ('R1', 0), ('RX', 'R11', r'Value::Number\(\(i \+ 1\)\.into\(\)\)', 'Value::Number(num_from_usize(i + 1))', 1),
                      ('RX', 'R14', r'let mut indexes = vec!\[\];', 'let mut indexes: Vec<Value> = vec![];', 1)],
            ensures=[('positions_of_equal_items', 'list is List ==> r is List && (forall |k: int| 0 <= k < r->List_0.0@.len() ==> (#[trigger] r->List_0.0@[k]) is Number && num_as_int(r->List_0.0@[k]->Number_0) is Some '
                      '&& 1 <= num_as_int(r->List_0.0@[k]->Number_0)->Some_0 <= %s.len() && veq(%s[num_as_int(r->List_0.0@[k]->Number_0)->Some_0 - 1], *element))' % (LIST, LIST)),
                     ('all_equal_items_reported', 'list is List ==> forall |i: int| 0 <= i < %s.len() && veq(#[trigger] %s[i], *element) ==> exists |k: int| 0 <= k < r->List_0.0@.len() && (#[trigger] r->List_0.0@[k]) is Number && num_as_int(r->List_0.0@[k]->Number_0) == Some(i + 1)' % (LIST, LIST)),
                     ('null_otherwise', '!(list is List) ==> r is Null')],
            loop_specs={0: {'iter_name': 'itx', 'invariant': [
                ('ctx', '*list is List, list->List_0 == *items, itx.seq().len() == items.0@.len()'),
                ('sound', 'forall |k: int| 0 <= k < indexes@.len() ==> (#[trigger] indexes@[k]) is Number && num_as_int(indexes@[k]->Number_0) is Some && 1 <= num_as_int(indexes@[k]->Number_0)->Some_0 <= i && veq(items.0@[num_as_int(indexes@[k]->Number_0)->Some_0 - 1], *element)'),
                ('complete', 'forall |j: int| 0 <= j < i && veq(#[trigger] items.0@[j], *element) ==> exists |k: int| 0 <= k < indexes@.len() && (#[trigger] indexes@[k]) is Number && num_as_int(indexes@[k]->Number_0) == Some(j + 1)')],
                'body_prefix': 'let ghost before = indexes@;',
                'body_suffix': 'proof { assert forall |j: int| 0 <= j < i + 1 && veq(#[trigger] items.0@[j], *element) implies exists |k: int| 0 <= k < indexes@.len() && (#[trigger] indexes@[k]) is Number && num_as_int(indexes@[k]->Number_0) == Some(j + 1) by {\n  if j < i { let k = choose |k: int| 0 <= k < before.len() && (#[trigger] before[k]) is Number && num_as_int(before[k]->Number_0) == Some(j + 1); assert(indexes@[k] == before[k]); } else { assert(indexes@[indexes@.len() - 1] is Number); }\n} }'}}),
        bif('append', body_prefix='', loops=1,
            ensures=[('appended', 'list is List ==> r is List && r->List_0.0@ =~= %s + values@' % LIST), ('null_otherwise', '!(list is List) ==> r is Null')],
            loop_specs={0: {'iter_name': 'it', 'invariant': [
                ('ctx', '*list is List, list->List_0 == *items'),
                ('seq', 'it.seq() =~= values@.map_values(|v: Value| &v)'),
                ('so_far', 'appended.0@ =~= items.0@ + values@.subrange(0, it.index@ as int)')],
                'body_prefix': 'proof { assert(*value == values@[it.index@ as int]); }'}}),
        {'kind': 'vrs', 'file': 'bifs/lists2.vrs'},
        bif('concatenate', body_prefix='', loops=2,
            rewrites=[R3, ('RX', 'R14', r'let mut concatenated = vec!\[\];', 'let mut concatenated: Vec<Value> = vec![];', 1)],
            ensures=[('the_lists_one_after_another', 'all_lists(values@) ==> r is List && r->List_0.0@ =~= concat_upto(values@, values@.len() as int)'),
                     ('null_when_an_argument_is_not_a_list', '!all_lists(values@) ==> r is Null')],
            loop_specs={0: {'iter_name': 'ito', 'invariant': [
                                ('seq', 'ito.seq() =~= values@.map_values(|v: Value| &v)'),
                                ('lists_so_far', 'forall |j: int| 0 <= j < ito.index@ ==> (#[trigger] values@[j]) is List'),
                                ('concatenated_so_far', 'concatenated@ =~= concat_upto(values@, ito.index@ as int)')],
                            'body_prefix': 'proof { assert(*value == values@[ito.index@ as int]); }'},
                        1: {'iter_name': 'iti', 'invariant': [
                                ('ctx', '*value is List, value->List_0 == *items, *value == values@[ito.index@ as int], 0 <= ito.index@ < values@.len()'),
                                ('seq', 'iti.seq() =~= items.0@.map_values(|v: Value| &v)'),
                                ('items_so_far', 'concatenated@ =~= concat_upto(values@, ito.index@ as int) + items.0@.subrange(0, iti.index@ as int)')],
                            'body_prefix': 'proof { assert(*item == items.0@[iti.index@ as int]); }'}}),
        bif('distinct_values', body_prefix='', loops=1,
            rewrites=[R3, ('RX', 'R13', r'result\.iter\(\)\.all\(\|v\| !evaluate_equals\(v, item\)\)', 'none_equals(&result, item)', 1),
                      ('RX', 'R14', r'let mut result = vec!\[\];', 'let mut result: Vec<Value> = vec![];', 1)],
            ensures=[('first_occurrences_in_order', 'value is List ==> r is List && r->List_0.0@ =~= dedup_items(Seq::<Value>::empty(), value->List_0.0@, value->List_0.0@.len() as int)'),
                     ('null_otherwise', '!(value is List) ==> r is Null')],
            loop_specs={0: {'iter_name': 'it', 'invariant': [
                                ('ctx', '*value is List, value->List_0 == *items'),
                                ('seq', 'it.seq() =~= items.0@.map_values(|v: Value| &v)'),
                                ('so_far', 'result@ =~= dedup_items(Seq::<Value>::empty(), items.0@, it.index@ as int)')],
                            'body_prefix': 'proof { assert(*item == items.0@[it.index@ as int]); }'}}),
        bif('union', body_prefix='', loops=2,
            rewrites=[R3, ('RX', 'R13', r'result\.iter\(\)\.all\(\|a\| !evaluate_equals\(a, item\)\)', 'none_equals(&result, item)', 1),
                      ('RX', 'R14', r'let mut result = vec!\[\];', 'let mut result: Vec<Value> = vec![];', 1)],
            ensures=[('first_occurrences_over_all_lists_in_order', 'all_lists(lists@) ==> r is List && r->List_0.0@ =~= union_upto(lists@, lists@.len() as int)'),
                     ('null_when_an_argument_is_not_a_list', '!all_lists(lists@) ==> r is Null')],
            loop_specs={0: {'iter_name': 'ito', 'invariant': [
                                ('seq', 'ito.seq() =~= lists@.map_values(|v: Value| &v)'),
                                ('lists_so_far', 'forall |j: int| 0 <= j < ito.index@ ==> (#[trigger] lists@[j]) is List'),
                                ('union_so_far', 'result@ =~= union_upto(lists@, ito.index@ as int)')],
                            'body_prefix': 'proof { assert(*list == lists@[ito.index@ as int]); }'},
                        1: {'iter_name': 'iti', 'invariant': [
                                ('ctx', '*list is List, list->List_0 == *items, *list == lists@[ito.index@ as int], 0 <= ito.index@ < lists@.len()'),
                                ('seq', 'iti.seq() =~= items.0@.map_values(|v: Value| &v)'),
                                ('items_so_far', 'result@ =~= dedup_items(union_upto(lists@, ito.index@ as int), items.0@, iti.index@ as int)')],
                            'body_prefix': 'proof { assert(*item == items.0@[iti.index@ as int]); }'}}),
        bif('flatten_value', body_prefix='', loops=1, ret=None, decreases='*value',
            sig_rewrite=[(r'^(\s*)fn ', r'\1pub fn ')],
            ensures=[('appends_the_flattened_items', 'value is List ==> final(flattened)@ =~= old(flattened)@ + flat_items(value->List_0, 0)'),
                     ('nothing_for_a_non_list', '!(value is List) ==> final(flattened)@ =~= old(flattened)@')],
            loop_specs={0: {'iter_name': 'it', 'invariant': [
                                ('ctx', '*value is List, value->List_0 == *items'),
                                ('seq', 'it.seq() =~= items.0@.map_values(|v: Value| &v)'),
                                ('so_far', 'flattened@ + flat_items(*items, it.index@ as int) =~= old(flattened)@ + flat_items(*items, 0)')],
                            'body_prefix': 'proof { assert(*item == items.0@[it.index@ as int]); vstd::std_specs::vec::axiom_vec_index_decreases(items.0, it.index@ as int); assert(decreases_to!(*value => value->List_0)); assert(decreases_to!(*items => items.0)); assert(decreases_to!(*value => *item)); }\nlet ghost before = flattened@;',
                            'body_suffix': 'proof { assert(flat_items(*items, it.index@ as int) =~= (if item is List { flat_items(item->List_0, 0) } else { seq![*item] }) + flat_items(*items, it.index@ + 1)); '
                                           'assert(flattened@ =~= before + (if item is List { flat_items(item->List_0, 0) } else { seq![*item] })); }'}}),
        bif('flatten', body_prefix='', loops=0,
            rewrites=[R3, ('RX', 'R14', r'let mut flattened = vec!\[\];', 'let mut flattened: Vec<Value> = vec![];', 1)],
            ensures=[('nested_lists_replaced_by_their_items', 'value is List ==> r is List && r->List_0.0@ =~= flat_items(value->List_0, 0)'),
                     ('null_otherwise', '!(value is List) ==> r is Null')]),
        bif('sum', body_prefix='', loops=1,
            rewrites=[R3, ('RX', 'R1s', r'for value in values\.iter\(\)\.skip\(1\) \{', 'for i_ in 1..values.len() {\n        let value = &values[i_];', 1), ('RX', 'R11', r'sum \+= v;', 'num_add_assign(&mut sum, v);', 1)],
            ensures=[('left_to_right_sum', '(values@.len() > 0 && all_numbers(values@)) ==> r == Value::Number(sum_upto(values@, values@.len() as int))'),
                     ('null_for_no_or_other_items', '!(values@.len() > 0 && all_numbers(values@)) ==> r is Null')],
            loop_specs={0: {'invariant': [
                                ('first', 'values@.len() > 0, values@[0] is Number'),
                                ('numbers_so_far', 'forall |j: int| 0 <= j < i_ ==> (#[trigger] values@[j]) is Number'),
                                ('sum_so_far', 'sum == sum_upto(values@, i_ as int)')]}}),
        bif('mean', body_prefix='', loops=1,
            rewrites=[R3, ('RX', 'R11', r'sum \+= \*n([;,])', r'num_add_assign(&mut sum, *n)\1', 1), ('RX', 'R11', r'FeelNumber::zero\(\)', 'num_zero()', 1),
                      ('RX', 'R11', r'sum / values\.len\(\)\.into\(\)', 'num_div_count(sum, values.len())', 1)],
            ensures=[('sum_divided_by_the_number_of_items', '(values@.len() > 0 && all_numbers(values@)) ==> r == Value::Number(n_div_count(sum0_upto(values@, values@.len() as int), values@.len() as int))'),
                     ('null_for_no_or_other_items', '!(values@.len() > 0 && all_numbers(values@)) ==> r is Null')],
            loop_specs={0: {'iter_name': 'it', 'invariant': [
                                ('seq', 'it.seq() =~= values@.map_values(|v: Value| &v)'),
                                ('numbers_so_far', 'values@.len() > 0 && forall |j: int| 0 <= j < it.index@ ==> (#[trigger] values@[j]) is Number'),
                                ('sum_so_far', 'sum == sum0_upto(values@, it.index@ as int)')],
                            'body_prefix': 'proof { assert(*value == values@[it.index@ as int]); }'}}),
        bif('max', body_prefix='', loops=2,
            rewrites=[R3, ('RX', 'R1s', r'for value in values\.iter\(\)\.skip\(1\) \{', 'for i_ in 1..values.len() {\n        let value = &values[i_];', 2)],
            ensures=[('greatest_number_nulls_skipped', '(values@.len() > 0 && values@[0] is Number && numbers_or_nulls(values@)) ==> r == Value::Number(max_upto(values@, values@.len() as int))'),
                     ('null_for_no_items', 'values@.len() == 0 ==> r is Null'),
                     ('null_for_other_items', '(values@.len() > 0 && values@[0] is Number && !numbers_or_nulls(values@)) ==> r is Null'),
                     ('strings_or_null', '(values@.len() > 0 && !(values@[0] is Number)) ==> r is String || r is Null')],
            loop_specs={0: {'invariant': [
                                ('first', 'values@.len() > 0, values@[0] is Number, values@[0]->Number_0 == *n'),
                                ('numbers_or_nulls_so_far', 'forall |j: int| 1 <= j < i_ ==> (#[trigger] values@[j]) is Number || values@[j] is Null'),
                                ('max_so_far', 'max == max_upto(values@, i_ as int)')]},
                        1: {'invariant': [('first', 'values@.len() > 0, values@[0] is String')]}}),
        bif('min', body_prefix='', loops=2,
            rewrites=[R3, ('RX', 'R1s', r'for value in values\.iter\(\)\.skip\(1\) \{', 'for i_ in 1..values.len() {\n        let value = &values[i_];', 2)],
            ensures=[('least_number', '(values@.len() > 0 && all_numbers(values@)) ==> r == Value::Number(min_upto(values@, values@.len() as int))'),
                     ('null_for_no_items', 'values@.len() == 0 ==> r is Null'),
                     ('null_for_other_items', '(values@.len() > 0 && values@[0] is Number && !all_numbers(values@)) ==> r is Null'),
                     ('strings_or_null', '(values@.len() > 0 && !(values@[0] is Number)) ==> r is String || r is Null')],
            loop_specs={0: {'invariant': [
                                ('first', 'values@.len() > 0, values@[0] is Number, values@[0]->Number_0 == *n'),
                                ('numbers_so_far', 'forall |j: int| 0 <= j < i_ ==> (#[trigger] values@[j]) is Number'),
                                ('min_so_far', 'min == min_upto(values@, i_ as int)')]},
                        1: {'invariant': [('first', 'values@.len() > 0, values@[0] is String')]}}),
    ],
}

NOT_DECIDED = {
    'C08': [
        'regex based functions (matches, replace, split), string/number conversions, sort with a FEEL comparator, median, mode, stddev, product (sum, mean, min, max are under contract for numbers; min / max of strings only as "a string or null"), get value / get entries, contains / starts with / ends with / substring before / after (str searching), upper/lower case',
        'any(list): known finding (pinned by tests), see known_findings.json; flatten, union, distinct values, concatenate are under contract relative to value equality (veq, unit compare)',
        'the length argument of substring is truncated to its integer part (implementation choice); results outside the domain are null',
    ],
    'C05': ['automatic overflow / index obligations of the contracted functions only'],
}
ASSUMPTIONS = [
    'A-dec: FeelNumber predicates/conversions (is_positive, is_negative, abs, trunc, to_usize, to_isize, one, <) behave as the numeric facts stated in contracts/bifs/prelude.vrs',
    'A-std: chars().count() is the number of characters; chars().skip(a).take(b).collect() / skip(a).collect() are the corresponding sub-sequences (R13 stubs); String::len is the UTF-8 byte length; a String holds at most isize::MAX bytes; <[T]>::to_vec clones; reverse reverses',
    'evaluate_equals(a, b) is true iff the values are deeply equal (proved in unit compare, imported as a stub)',
    'R1, R3, R11, R13, R14 (type ascription on an empty vec![])',
]

BOUNDED = {
    'C05': [{'name': 'string-search-builtins', 'driver': 'strbif', 'args': [],
             'functions': ['core::substring_before', 'core::substring_after', 'core::contains', 'core::starts_with', 'core::ends_with'],
             'bound': 'all strings of length <= 3 over {a, b, U+017C (2 bytes), U+20AC (3 bytes), U+1F40E (4 bytes)} x all match strings of length <= 2, through parse+evaluate under catch_unwind, '
                      'against a character-sequence reference (these functions index str by byte offsets, which Verus cannot reason about)'}],
}
BOUNDED['C05'] = BOUNDED['C05'] + [{'name': 'temporal-extremes-and-iteration-answer', 'script': 'feeltotal.py', 'args': [],
    'functions': ['FeelIterator::run (through for / some / every)', 'temporal::get_zone_offset / compare / subtract', 'FeelYearsAndMonthsDuration / FeelDaysAndTimeDuration literals and arithmetic', 'core::time_3 / time_4 / date_3',
                  'date and date-time arithmetic at the ends of the year range'],
    'bound': '7735 generated expressions, each must answer (value or error) within 10 s, no panic (the last 36 - every nesting construct nested 50 and 200 times in itself, and long literals - each in its own driver process, so that a stack overflow is seen as an aborted process): for / some / every over 1..3 iteration contexts of lists, ascending, descending and empty ranges; date-and-time / time values of six named zones '
             'at every half hour around their daylight-saving transitions (non-existent and ambiguous local times included) compared, subtracted, rendered, shifted; duration literals with 1..20-digit components and the largest valid ones, '
             'negated, added, multiplied, divided, rendered; time(h, m, s, offset) with 22 offsets up to the i32 limits; date / time / duration constructors with 14 extreme numbers; fractional and repeating-decimal time / date components'}]
BOUNDED['C08'] = [b for b in BOUNDED['C05'] if b['name'] == 'string-search-builtins'] + [{'name': 'boolean-list-builtins', 'script': 'boolbif.py', 'args': [], 'functions': ['core::all', 'core::any'],
    'bound': 'all / any over every list of length 0..4 from {true, false, null, 1, "a"} (list form; named form and variadic form up to length 3): 2184 evaluations against DMN 1.3 Table 75'}]
BOUNDED['C05'] = BOUNDED['C05'] + [{'name': 'built-ins-never-panic', 'script': 'biftotal.py', 'args': [],
    'functions': ['every built-in function of feel-evaluator/src/bifs (names read from feel/src/bif.rs), positional form'],
    'bound': 'each of the 73 built-in names applied to every tuple of 0, 1 and 2 arguments from a 23-value grid (null, numbers incl. 2^64, strings incl. multi-byte, booleans, empty / null / nested lists, contexts, '
             'date, time, date and time, both durations, a function) and to every triple from an 8-value grid: 77 745 evaluations under catch_unwind, no panic'}]
# list contains / index of / distinct values / union compare items with the equality of unit compare: its differential serves C08 too
BOUNDED['C08'] = BOUNDED['C08'] + [{'name': 'list-and-string-positions-differential', 'script': 'listdiff.py', 'args': [],
                                   'functions': ['core::sublist2 / sublist3 / substring / insert_before / remove / reverse / append / concatenate / flatten / union / distinct_values / count / index_of / list_contains', 'their positional and named wrappers'],
                                   'bound': 'every list of length 0..4 from {1, 2, 3}, every position -6..6 and length 0..5, pairs of lists for concatenate / union / flatten, lists of length 0..3 whose items are lists themselves (also empty ones) or null - an item is ONE item for every function but flatten -, strings with non-ASCII and supplementary-plane characters at every position, '
                                            'positions that are zero, null, not numbers or beyond the machine integers, the named forms: 17 440 evaluations against the definitions written out in Python (the same as the verified contracts); also decides these functions when a rewritten body leaves the extractor\'s reach'}]
BOUNDED['C08'] = BOUNDED['C08'] + [{'name': 'equality-differential', 'script': 'eqdiff.py', 'args': [], 'functions': ['core::list_contains', 'core::index_of', 'core::distinct_values', 'core::union', 'builders::evaluate_equals'],
    'bound': 'every ordered pair from a 41-value alphabet under =, !=, list contains, index of (and distinct values / union on seven lists): about 4 000 evaluations; where items of different kinds meet inside lists / contexts only "not equal to true" is demanded'}]
BOUNDED['C08'] = BOUNDED['C08'] + [{'name': 'aggregates-differential', 'script': 'statdiff.py', 'args': [], 'functions': ['core::sum', 'core::mean', 'core::min', 'core::max', 'core::count', 'core::median', 'core::mode', 'core::stddev'],
    'bound': 'sum, mean, min, max, count, median, mode, stddev over every list of length 0..4 from {1, 2, 3, 2.5, -1} in the list form and of length 1..3 in the variadic and named forms (about 8 000 evaluations) against DMN 1.3 Table 75 / 76 '
             'computed with exact rational arithmetic (stddev to 28 digits); product answers "not implemented" and is not claimed'}]

BOUNDED['C08'] = BOUNDED['C08'] + [{'name': 'number-separators', 'script': 'numberbif.py', 'args': [], 'functions': ['core::number', 'bifs::positional::bif_number', 'bifs::named::bif_number'],
    'bound': 'number(from, grouping separator, decimal separator) for 30 texts x every pair of separators from {" ", ",", ".", null, "$", "", ";", 1}, positional and named form (3 840 evaluations) against DMN 1.3 Table 72: '
             'grouping separator a space / comma / period / null, decimal separator a period / comma / null, the two different, the text without grouping separators and with the decimal separator read as a period a numeric literal - else null'}]

BOUNDED['C08'] = BOUNDED['C08'] + [{'name': 'regular-expression-flags', 'driver': 'feelcases', 'args': ['/verif/replay/cases/C08_regex_flags.txt', 'all'], 'functions': ['core::matches', 'core::replace (flags i, m, s, x, q)', 'core::split (the delimiter is a pattern)', 'named::bif_matches / bif_replace / bif_max / bif_min'],
    'bound': '29 calls of matches / replace, positional and named: each of the flags i (case), m (line boundaries inside the input), s (the dot matches a line break), x (blanks in the pattern), q (the pattern literally) with an input on which it makes the difference, with and without the flag, and two flags combined in both orders; 9 further calls: split with a delimiter that is ONE pattern character (`.`, `(`, `|`, an escaped `+`), named and positional max / min over a list holding one list (38 cases)'}]
