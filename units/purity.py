"""Unit `purity`: the closures / functions of feel-evaluator/src/builders.rs that push temporary contexts (C13)."""
import os, re, sys
sys.path.insert(0, os.path.dirname(os.path.abspath(__file__)))
import _common as C
from vf import rsscan, build as VB
import copy
import scope as SC
B = 'feel-evaluator/src/builders.rs'
S = 'feel/src/scope.rs'
I = 'feel-evaluator/src/iterations.rs'
M = 'model-evaluator/src/builders/mod.rs'
X = 'feel/src/context.rs'
V = 'feel/src/values.rs'
P = ['C13']
A = ['C13', 'C05']
# expression builders: a temporary context left on (or missing from) the stack changes what the REST of the expression evaluates to (C01:
# the result depends only on the expression text and the values bound to its free names)
PE = ['C13', 'C01']
AE = ['C13', 'C01', 'C05']
PRE = 'broadcast use vstd::std_specs::btree::group_btree_axioms;\nproof { axiom_name_key(); }'
R8 = ('RX', 'R8', r'self\.contexts\.borrow_mut\(\)', 'self.contexts', None)
STACK_SAME = 'final(scope).contexts@ =~= old(scope).contexts@'
BOXED_CALL = ('ev_value(*function_evaluator, old(scope).contexts@) is FunctionDefinition ==> exists |c: FeelContext| c.0@ == bind_formulas(%s@, old(scope).contexts@, %s@.len() as int) '
              '&& r == coerced_value(ev_value(*function_evaluator, old(scope).contexts@)->FunctionDefinition_2, body_value(ev_value(*function_evaluator, old(scope).contexts@)->FunctionDefinition_1, old(scope).contexts@.push(c)))')

def FOR_EACH(v):
    # R13: `V.iter().for_each(|(a, b)| STMT);` -> `for (a, b) in V.iter() { STMT; }` (same calls in the same order)
    return ('RX', 'R13', v + r'\.iter\(\)\.for_each\(\|\((\w+), (\w+)\)\| ([^;]+)\);', 'for (\\1, \\2) in ' + v + '.iter() { \\3; }', 1)

def sfn(name, **kw):
    d = {'kind': 'fn', 'src': S, 'path': 'impl Scope::fn ' + name, 'key': 'purity::Scope::' + name, 'props': P, 'auto_props': A, 'loops': 0,
         'rewrites': [R8], 'body_prefix': PRE, 'sig_rewrite': [(r'\(&self', '(&mut self')]}
    d.update(kw)
    return d

def _lookup_copies():
    out = []
    for p in SC.UNIT['parts']:
        if p.get('kind') == 'fn' and p.get('path') in ('impl FeelContext::fn search_deep', 'impl Scope::fn get_entry', 'impl Scope::fn search_deep', 'impl FeelContext::fn get_entry'):
            p = copy.deepcopy(p)
            p['key'] = p['key'].replace('scope::', 'purity::lookup::')
            p['props'] = []
            p['auto_props'] = []
            for k in ('requires', 'ensures'):
                if k in p:
                    p[k] = [tuple(c[:2]) for c in p[k]]
            out.append(p)
    return out
LOOKUPS = _lookup_copies()

UNIT = {
    'name': 'purity',
    'uses': C.USES,
    'parts': C.NAME + C.FEELTYPE + [
        {'kind': 'text', 'text': 'pub uninterp spec fn equiv(a: FeelType, b: FeelType) -> bool;', 'note': 'unused-here'},
        {'kind': 'vrs', 'file': 'iterations/prelude.vrs'},
        {'kind': 'item', 'src': X, 'path': 'type FeelContextEntries'},
        {'kind': 'item', 'src': X, 'path': 'struct FeelContext',
         'rewrites': [('RX', 'R7', r'pub struct FeelContext\(FeelContextEntries\)', 'pub struct FeelContext(pub FeelContextEntries)', 1)]},
        {'kind': 'item', 'src': V, 'path': 'struct Values',
         'rewrites': [('RX', 'R7', r'pub struct Values\(Vec<Value>\)', 'pub struct Values(pub Vec<Value>)', 1)]},
        {'kind': 'item', 'src': V, 'path': 'enum Value'},
        {'kind': 'item', 'src': V, 'path': 'macro_rules! value_null'},
        {'kind': 'vrs', 'file': 'common/value_traits.vrs'},
        {'kind': 'item', 'src': S, 'path': 'struct Scope',
         'rewrites': [('RX', 'R8', r'contexts: RefCell<Vec<FeelContext>>,', 'pub contexts: Vec<FeelContext>,', 1)]},
        {'kind': 'vrs', 'file': 'purity/prelude.vrs'},
        {'kind': 'fn', 'src': X, 'path': 'impl FeelContext::fn set_entry', 'key': 'purity::FeelContext::set_entry',
         'props': P, 'auto_props': A, 'loops': 0, 'body_prefix': PRE, 'ensures': [('post', 'final(self).0@ == old(self).0@.insert(*name, value)')]},
        sfn('push', ensures=[('pushes', 'final(self).contexts@ == old(self).contexts@.push(ctx)')]),
        sfn('pop', ret='r', ensures=[('pops', 'old(self).contexts@.len() > 0 ==> final(self).contexts@ == old(self).contexts@.drop_last()'),
                                     ('empty', 'old(self).contexts@.len() == 0 ==> final(self).contexts@ == old(self).contexts@')]),
        sfn('set_entry', ensures=[('only_top_changes', 'final(self).contexts@.len() == old(self).contexts@.len() && forall |i: int| 0 <= i < old(self).contexts@.len() - 1 ==> final(self).contexts@[i] == old(self).contexts@[i]'),
                                  ('the_top_context_gets_the_entry', 'old(self).contexts@.len() > 0 ==> final(self).contexts@.last().0@ == old(self).contexts@.last().0@.insert(*name, value)', ['C13', 'C01'])]),
        {'kind': 'fn', 'src': X, 'path': 'impl FeelContext::fn contains_entry', 'key': 'purity::FeelContext::contains_entry',
         'props': P, 'auto_props': A, 'loops': 0, 'body_prefix': PRE, 'ret': 'r', 'ensures': [('post', 'r == self.0@.contains_key(*name)')]},
        # part of the context API that the bodies under contract do not use today; kept so that a changed body that does still extracts
        {'kind': 'fn', 'src': X, 'path': 'impl FeelContext::fn len', 'key': 'purity::FeelContext::len', 'props': P, 'auto_props': A, 'loops': 0, 'ret': 'r', 'body_prefix': PRE,
         'ensures': [('number_of_entries', 'r == self.0@.len()')]},
        {'kind': 'fn', 'src': X, 'path': 'impl FeelContext::fn is_empty', 'key': 'purity::FeelContext::is_empty', 'props': P, 'auto_props': A, 'loops': 0, 'ret': 'r', 'body_prefix': PRE,
         'ensures': [('no_entries', 'r == (self.0@.len() == 0)')]},
        # predicates of the value API that the bodies under contract do not use today; kept so that a changed body that does still extracts
        {'kind': 'fn', 'src': V, 'path': 'impl Value::fn is_null', 'key': 'purity::Value::is_null', 'props': P, 'auto_props': A, 'loops': 0, 'ret': 'r',
         'ensures': [('null_test', 'r == (self is Null)')]},
        {'kind': 'fn', 'src': V, 'path': 'impl Value::fn is_true', 'key': 'purity::Value::is_true', 'props': P, 'auto_props': A, 'loops': 0, 'ret': 'r',
         'ensures': [('true_test', 'r == (*self == Value::Boolean(true))')]},
        {'kind': 'fn', 'src': V, 'path': 'impl Value::fn is_number', 'key': 'purity::Value::is_number', 'props': P, 'auto_props': A, 'loops': 0, 'ret': 'r',
         'ensures': [('number_test', 'r == (self is Number)')]},
        {'kind': 'fn', 'src': V, 'path': 'impl Values::fn new', 'key': 'purity::Values::new', 'props': P, 'auto_props': A, 'loops': 0, 'ret': 'r', 'ensures': [('holds_the_items', 'r.0 == values')]},
        {'kind': 'fn', 'src': V, 'path': 'impl Values::fn as_vec', 'key': 'purity::Values::as_vec', 'props': P, 'auto_props': A, 'loops': 0, 'ret': 'r',
         'ensures': [('view', 'r@ == self.0@')]},
        {'kind': 'fn', 'src': B, 'path': 'fn eval_function_positional', 'key': 'purity::eval_function_positional', 'props': PE, 'auto_props': AE, 'loops': 1, 'ret': 'r',
         'sig_rewrite': [(r'^(\s*)fn ', r'\1pub fn '), (r'scope: &Scope', 'scope: &mut Scope')],
         'rewrites': [('R3',), ('R1', 0), ('RX', 'R11', r'FeelContext::default\(\)', 'feel_context_default()', None)],
         'body_prefix': PRE,
         'ensures': [('caller_scope_untouched', STACK_SAME),
                     ('too_few_arguments_is_null', 'arguments@.len() < parameters@.len() ==> r is Null', ['C01', 'C16']),
                     ('parameters_bound_to_coerced_arguments_in_order', 'arguments@.len() >= parameters@.len() ==> exists |ctx: FeelContext| #[trigger] call_result(old(scope).contexts@, ctx, *body, result_type) == r '
                                                                        '&& ctx.0@ =~= bind_pos(parameters@, arguments@, parameters@.len() as int)', ['C01', 'C16'])],
         'loop_specs': {0: {'props': ['C13', 'C01', 'C16'],
                            'invariant': [('scope_not_touched', 'scope.contexts@ == old(scope).contexts@'),
                                          ('bound_so_far', 'i <= parameters@.len() && i <= arguments@.len() && ctx.0@ =~= bind_pos(parameters@, arguments@, i as int)')],
                            'body_prefix': PRE}}},
        {'kind': 'fn', 'src': B, 'path': 'fn eval_function_named', 'key': 'purity::eval_function_named', 'props': PE, 'auto_props': AE, 'loops': 1, 'ret': 'r',
         'sig_rewrite': [(r'^(\s*)fn ', r'\1pub fn '), (r'scope: &Scope', 'scope: &mut Scope')],
         'rewrites': [('R3',), ('RX', 'R2v', r'for \(parameter_name, parameter_type\) in parameters \{', 'for (parameter_name, parameter_type) in parameters.iter() {', None),
                      ('RX', 'R11', r'FeelContext::default\(\)', 'feel_context_default()', None)],
         'body_prefix': PRE,
         'ensures': [('caller_scope_untouched', STACK_SAME),
                     ('missing_named_argument_is_null', '(arguments is NamedParameters && !all_named(parameters@, arguments->NamedParameters_0@)) ==> r is Null', ['C01', 'C16']),
                     ('parameters_bound_to_coerced_arguments_by_name', '(arguments is NamedParameters && all_named(parameters@, arguments->NamedParameters_0@)) ==> exists |ctx: FeelContext| '
                      '#[trigger] call_result(old(scope).contexts@, ctx, *body, result_type) == r && ctx.0@ =~= bind_named(parameters@, arguments->NamedParameters_0@, parameters@.len() as int)', ['C01', 'C16'])],
         'loop_specs': {0: {'iter_name': 'itp', 'props': ['C13', 'C01', 'C16'],
                            'invariant': [('scope_not_touched', 'scope.contexts@ == old(scope).contexts@'),
                                          ('args', '*arguments is NamedParameters && arguments->NamedParameters_0 == *map'),
                                          ('seq', 'itp.seq() =~= parameters@.map_values(|c: (Name, FeelType)| &c)'),
                                          ('bound_so_far', 'ctx.0@ =~= bind_named(parameters@, map@, itp.index@ as int) && forall |j: int| 0 <= j < itp.index@ ==> map@.contains_key((#[trigger] parameters@[j]).0)')],
                            'body_prefix': PRE + '\nproof { assert(*parameter_name == parameters@[itp.index@ as int].0 && *parameter_type == parameters@[itp.index@ as int].1); }'}}},
        {'kind': 'closure', 'src': B, 'path': 'fn build_filter', 'name': 'filter', 'key': 'purity::build_filter', 'props': PE, 'auto_props': AE, 'loops': 1, 'ret': 'r',
         'lead_params': ['scope: &mut Scope'], 'extra_params': ['rhe: &Evaluator', 'name_item: Name'],
         'rewrites': [('R3',), ('RX', 'R8e', r'\b(lhe|rhe)\(scope\)', r'\1.call(scope)', 3),
                      ('RX', 'R11', r'FeelContext::default\(\)', 'feel_context_default()', None),
                      ('RX', 'R11', r'usize::try_from\(index\)', 'usize_try_from_number(index)', 1),
                      ('RX', 'R11', r'usize::try_from\(index\.abs\(\)\)', 'usize_try_from_number(index.abs())', 1),
                      ('RX', 'R11', r'Values::default\(\)', 'Values::new(vec![])', 1),
                      ('RX', 'R2v', r'for value in values\.as_vec\(\) \{', 'for value in values.as_vec().iter() {', 1)],
         'splices': [{'id': 'ghost_frames', 'op': 'before', 'anchor': 'for value in', 'text': 'let ghost mut fr: Seq<Seq<FeelContext>> = Seq::empty();'},
                     {'id': 'frames_of_item', 'op': 'before', 'anchor': ' = rhe', 'nth': 0, 'text':
                      'let ghost frames = scope.contexts@.subrange(old(scope).contexts@.len() as int, scope.contexts@.len() as int);\n'
                      'proof { assert(item_frames_ok(*value, name_item, frames)); assert(scope.contexts@ =~= old(scope).contexts@ + frames); fr = fr.push(frames); }'}],
         'ensures': [('caller_scope_untouched', STACK_SAME),
                     ('the_value_the_filter_denotes', 'filter_denotes(lhv, *rhe, old(scope).contexts@, name_item, r)', ['C01'])],
         'loop_specs': {0: {'iter_name': 'itv',
                            'invariant': [('balanced_per_item', 'scope.contexts@ =~= old(scope).contexts@'),
                                          ('seq', 'itv.seq() =~= values.0@.map_values(|v: Value| &v)'),
                                          ('kept_so_far', 'filter_run(values.0@, name_item, fr, itv.index@ as int) && filtered_values@ =~= kept(values.0@, *rhe, old(scope).contexts@, fr, itv.index@ as int)', ['C01'])],
                            'body_prefix': PRE + '\nproof { assert(*value == values.0@[itv.index@ as int]); }\nlet ghost fr0 = fr;',
                            'body_suffix': 'proof { lemma_kept_prefix(values.0@, *rhe, old(scope).contexts@, fr0, fr, itv.index@ as int); assert(fr.len() == itv.index@ + 1 && fr[itv.index@ as int] == fr.last()); '
                                           'assert(filter_run(values.0@, name_item, fr, itv.index@ + 1)); }'}}},
        {'kind': 'closure', 'src': B, 'path': 'fn build_if', 'key': 'purity::build_if', 'name': 'if_then_else', 'props': ['C01', 'C13'], 'auto_props': AE, 'loops': 0, 'ret': 'r',
         'closure_header': r'Ok\(Box::new\(move \|scope: &Scope\| (?P<head>match lhe\(scope\) \{)',
         'signature': 'pub fn if_then_else(scope: &mut Scope, lhe: &Evaluator, mhe: &Evaluator, rhe: &Evaluator) -> Value',
         'rewrites': [('R3',), ('RX', 'R8e', r'\b(lhe|mhe|rhe)\(scope\)', r'\1.call(scope)', 3)],
         'ensures': [('caller_scope_untouched', STACK_SAME),
                     ('a_condition_that_is_not_true_takes_the_else_branch', 'match ev_value(*lhe, old(scope).contexts@) { Value::Boolean(true) => r == ev_value(*mhe, old(scope).contexts@), '
                      'Value::Boolean(false) => r == ev_value(*rhe, old(scope).contexts@), Value::Null(_) => r == ev_value(*rhe, old(scope).contexts@), _ => r is Null }')]},
        {'kind': 'closure', 'src': I, 'path': 'impl ForExpressionEvaluator::fn evaluate', 'key': 'purity::ForExpressionEvaluator::evaluate#iteration',
         'name': 'for_iteration', 'props': PE, 'auto_props': AE, 'loops': 0,
         'closure_header': r'self\.feel_iterator\.run\(\|ctx\| \{',
         'signature': 'pub fn for_iteration(scope: &mut Scope, evaluator: &Evaluator, name_partial: &Name, results: &mut Vec<Value>, ctx: &FeelContext)',
         'rewrites': [('RX', 'R8e', r'\bevaluator\(scope\)', 'evaluator.call(scope)', None), ('RX', 'R4c', r'&self\.name_partial', 'name_partial', 1)],
         'body_prefix': PRE,
         'splices': [{'id': 'round_context', 'op': 'before', 'anchor': 'scope.push(iteration_context.clone());',
                      'text': 'proof {\n  let l = iteration_context.0@[*name_partial]->List_0.0@;\n  assert(l.len() == results@.len());\n  assert forall |i: int| 0 <= i < l.len() implies l[i] == results@[i] by { }\n'
                              '  assert(with_partial(iteration_context, *ctx, *name_partial, results@));\n}'}],
         'ensures': [('caller_scope_untouched', STACK_SAME),
                     ('appends_the_body_value_over_the_bound_variables_and_partial', 'exists |c: FeelContext| #[trigger] with_partial(c, *ctx, *name_partial, old(results)@) '
                      '&& final(results)@ == old(results)@.push(ev_value(*evaluator, old(scope).contexts@.push(c)))', ['C01'])]},
        {'kind': 'closure', 'src': I, 'path': 'impl SomeExpressionEvaluator::fn evaluate', 'key': 'purity::SomeExpressionEvaluator::evaluate#iteration',
         'name': 'some_iteration', 'props': PE, 'auto_props': AE, 'loops': 0,
         'closure_header': r'self\.feel_iterator\.run\(\|ctx\| \{',
         'signature': 'pub fn some_iteration(scope: &mut Scope, evaluator: &Evaluator, result: &mut bool, ctx: &FeelContext)',
         'rewrites': [('RX', 'R8e', r'\bevaluator\(scope\)', 'evaluator.call(scope)', None), ('RX', 'R4c', r'\bresult\b(?!:)', '*result', None)],
         'ensures': [('caller_scope_untouched', STACK_SAME),
                     ('true_once_any_round_is_true', '*final(result) == (*old(result) || ev_value(*evaluator, old(scope).contexts@.push(*ctx)) == Value::Boolean(true))', ['C01'])]},
        {'kind': 'closure', 'src': I, 'path': 'impl EveryExpressionEvaluator::fn evaluate', 'key': 'purity::EveryExpressionEvaluator::evaluate#iteration',
         'name': 'every_iteration', 'props': PE, 'auto_props': AE, 'loops': 0,
         'closure_header': r'self\.feel_iterator\.run\(\|ctx\| \{',
         'signature': 'pub fn every_iteration(scope: &mut Scope, evaluator: &Evaluator, result: &mut bool, ctx: &FeelContext)',
         'rewrites': [('RX', 'R8e', r'\bevaluator\(scope\)', 'evaluator.call(scope)', None), ('RX', 'R4c', r'\bresult\b(?!:)', '*result', None)],
         'ensures': [('caller_scope_untouched', STACK_SAME),
                     ('false_once_any_round_is_false', '*final(result) == (*old(result) && ev_value(*evaluator, old(scope).contexts@.push(*ctx)) != Value::Boolean(false))', ['C01'])]},
        {'kind': 'closure', 'src': B, 'path': 'fn build_context', 'name': 'context_literal', 'key': 'purity::build_context', 'props': PE, 'auto_props': AE, 'loops': 1, 'ret': 'r',
         'lead_params': ['scope: &mut Scope'], 'extra_params': ['evaluators: &Vec<Evaluator>'],
         'rewrites': [('R3',), ('RX', 'R8e', r'\bevaluator\(scope\)', 'evaluator.call(scope)', None),
                      ('RX', 'R11', r'FeelContext::default\(\)', 'feel_context_default()', None),
                      ('RX', 'R2v', r'for evaluator in &evaluators \{', 'for evaluator in evaluators.iter() {', 1)],
         'splices': [{'id': 'ghost_trace', 'op': 'before', 'anchor': 'for evaluator in',
                      'text': 'let ghost mut cs: Seq<FeelContext> = seq![scope.contexts@.last()];'}],
         'ensures': [('caller_scope_untouched', STACK_SAME),
                     ('each_entry_sees_the_entries_before_it', 'r is Context && exists |cs: Seq<FeelContext>| #[trigger] ctx_run(evaluators@, old(scope).contexts@, cs, evaluators@.len() as int) '
                      '&& r->Context_0.0@ =~= cs[evaluators@.len() as int].0@', ['C01'])],
         'loop_specs': {0: {'iter_name': 'ite',
                            'invariant': [('one_temporary_context', 'scope.contexts@.len() == old(scope).contexts@.len() + 1 && scope.contexts@.drop_last() =~= old(scope).contexts@'),
                                          ('seq', 'ite.seq() =~= evaluators@.map_values(|e: Evaluator| &e)'),
                                          ('entries_so_far', 'ctx_run(evaluators@, old(scope).contexts@, cs, ite.index@ as int) && cs[ite.index@ as int] == scope.contexts@.last() '
                                                             '&& evaluated_ctx.0@ =~= scope.contexts@.last().0@', ['C01'])],
                            'body_prefix': PRE + '\nproof { assert(*evaluator == evaluators@[ite.index@ as int]); assert(scope.contexts@ =~= old(scope).contexts@.push(cs[ite.index@ as int])); }\nlet ghost cs0 = cs;',
                            'body_suffix': 'proof { cs = cs0.push(scope.contexts@.last()); assert(ctx_run(evaluators@, old(scope).contexts@, cs, ite.index@ + 1)); }'}},
         },
        {'kind': 'closure', 'src': B, 'path': 'fn build_list', 'name': 'list_literal', 'key': 'purity::build_list', 'props': ['C01', 'C13'], 'auto_props': AE, 'loops': 1, 'ret': 'r',
         'lead_params': ['scope: &mut Scope'], 'extra_params': ['evaluators: &Vec<Evaluator>'],
         'rewrites': [('RX', 'R8e', r'\bevaluator\(scope\)', 'evaluator.call(scope)', 1),
                      ('RX', 'R2v', r'for evaluator in &evaluators \{', 'for evaluator in evaluators.iter() {', 1)],
         'ensures': [('caller_scope_untouched', STACK_SAME),
                     ('the_values_of_the_items_in_order', 'r is List && r->List_0.0@.len() == evaluators@.len() && forall |i: int| 0 <= i < evaluators@.len() ==> r->List_0.0@[i] == ev_value(#[trigger] evaluators@[i], old(scope).contexts@)', ['C01'])],
         'loop_specs': {0: {'iter_name': 'ite',
                            'invariant': [('scope_not_touched', 'scope.contexts@ == old(scope).contexts@'),
                                          ('seq', 'ite.seq() =~= evaluators@.map_values(|e: Evaluator| &e)'),
                                          ('values_so_far', 'values@.len() == ite.index@ && forall |i: int| 0 <= i < ite.index@ ==> values@[i] == ev_value(#[trigger] evaluators@[i], old(scope).contexts@)', ['C01'])],
                            'body_prefix': 'proof { assert(*evaluator == evaluators@[ite.index@ as int]); }'}}},
        {'kind': 'closure', 'src': B, 'path': 'fn build_expression_list', 'name': 'expression_list', 'key': 'purity::build_expression_list', 'props': ['C01', 'C13'], 'auto_props': AE, 'loops': 1, 'ret': 'r',
         'lead_params': ['scope: &mut Scope'], 'extra_params': ['evaluators: &Vec<Evaluator>'],
         'rewrites': [('RX', 'R8e', r'\bevaluator\(scope\)', 'evaluator.call(scope)', 1),
                      ('RX', 'R2v', r'for evaluator in &evaluators \{', 'for evaluator in evaluators.iter() {', 1)],
         'ensures': [('caller_scope_untouched', STACK_SAME),
                     ('the_values_of_the_items_in_order', 'r is ExpressionList && r->ExpressionList_0.0@.len() == evaluators@.len() && forall |i: int| 0 <= i < evaluators@.len() ==> r->ExpressionList_0.0@[i] == ev_value(#[trigger] evaluators@[i], old(scope).contexts@)', ['C01'])],
         'loop_specs': {0: {'iter_name': 'ite',
                            'invariant': [('scope_not_touched', 'scope.contexts@ == old(scope).contexts@'),
                                          ('seq', 'ite.seq() =~= evaluators@.map_values(|e: Evaluator| &e)'),
                                          ('values_so_far', 'values@.len() == ite.index@ && forall |i: int| 0 <= i < ite.index@ ==> values@[i] == ev_value(#[trigger] evaluators@[i], old(scope).contexts@)', ['C01'])],
                            'body_prefix': 'proof { assert(*evaluator == evaluators@[ite.index@ as int]); }'}}},
        {'kind': 'closure', 'src': B, 'path': 'fn build_negated_list', 'name': 'negated_list', 'key': 'purity::build_negated_list', 'props': ['C01', 'C13'], 'auto_props': AE, 'loops': 1, 'ret': 'r',
         'lead_params': ['scope: &mut Scope'], 'extra_params': ['evaluators: &Vec<Evaluator>'],
         'rewrites': [('RX', 'R8e', r'\bevaluator\(scope\)', 'evaluator.call(scope)', 1),
                      ('RX', 'R2v', r'for evaluator in &evaluators \{', 'for evaluator in evaluators.iter() {', 1)],
         'ensures': [('caller_scope_untouched', STACK_SAME),
                     ('the_values_of_the_items_in_order', 'r is NegatedCommaList && r->NegatedCommaList_0.0@.len() == evaluators@.len() && forall |i: int| 0 <= i < evaluators@.len() ==> r->NegatedCommaList_0.0@[i] == ev_value(#[trigger] evaluators@[i], old(scope).contexts@)', ['C01'])],
         'loop_specs': {0: {'iter_name': 'ite',
                            'invariant': [('scope_not_touched', 'scope.contexts@ == old(scope).contexts@'),
                                          ('seq', 'ite.seq() =~= evaluators@.map_values(|e: Evaluator| &e)'),
                                          ('values_so_far', 'values@.len() == ite.index@ && forall |i: int| 0 <= i < ite.index@ ==> values@[i] == ev_value(#[trigger] evaluators@[i], old(scope).contexts@)', ['C01'])],
                            'body_prefix': 'proof { assert(*evaluator == evaluators@[ite.index@ as int]); }'}}},
        # ---- names: a name is its innermost binding in the stack, else the built-in function of that name, else null; a qualified name is the
        # innermost context path of its segments. Scope::get_entry / search_deep are re-verified here under the contracts of unit scope (that
        # unit reports them) so that the two closures are checked against contracts that hold on this tree.
        {'kind': 'vrs', 'file': 'scope/spec.vrs'},
        {'kind': 'vrs', 'file': 'purity/names.vrs'},
    ] + LOOKUPS + [
        {'kind': 'closure', 'src': B, 'path': 'fn build_name', 'name': 'name_value', 'key': 'purity::build_name', 'props': ['C01', 'C10', 'C13'], 'auto_props': AE, 'loops': 0, 'ret': 'r',
         'closure_header': r'Ok\(Box::new\(move \|scope: &Scope\| \{',
         'signature': 'pub fn name_value(scope: &Scope, name: Name) -> Value',
         'rewrites': [('R3',), ('RX', 'R11', r'Bif::from_str\(&name\.to_string\(\)\)', 'bif_from_name(&name)', 1)],
         'ensures': [('innermost_binding_then_built_in_function_then_null', 'match stack_lookup(scope.contexts@, name) { Some(v) => r == v, None => match bif_named(name) { Some(b) => r == Value::BuiltInFunction(b), None => r is Null } }')]},
        {'kind': 'closure', 'src': B, 'path': 'fn build_qualified_name', 'name': 'qualified_name_value', 'key': 'purity::build_qualified_name', 'props': ['C01', 'C10', 'C13'], 'auto_props': AE, 'loops': 1, 'ret': 'r',
         'lead_params': ['scope: &mut Scope'], 'extra_params': ['evaluators: &Vec<Evaluator>'],
         'rewrites': [('R3',), ('RX', 'R8e', r'\bevaluator\(scope\)', 'evaluator.call(scope)', 1),
                      ('RX', 'R2v', r'for evaluator in &evaluators \{', 'for evaluator in evaluators.iter() {', 1),
                      ('RX', 'R14', r'let mut names = vec!\[\];', 'let mut names: Vec<Name> = vec![];', 1),
                      ('RX', 'R17', r'scope\.search_deep\(&names\)\.unwrap_or_else\(\|\| value_null!\(\)\)', 'match scope.search_deep(&names) { Some(v_) => v_, None => value_null!() }', 1)],
         'ensures': [('caller_scope_untouched', STACK_SAME),
                     ('innermost_context_path_of_the_segments', 'match stack_path(old(scope).contexts@, segment_names(evaluators@, old(scope).contexts@, evaluators@.len() as int)) { Some(v) => r == v, None => r is Null }')],
         'loop_specs': {0: {'iter_name': 'ite',
                            'invariant': [('scope_not_touched', 'scope.contexts@ == old(scope).contexts@'),
                                          ('seq', 'ite.seq() =~= evaluators@.map_values(|e: Evaluator| &e)'),
                                          ('segments_so_far', 'names@ =~= segment_names(evaluators@, old(scope).contexts@, ite.index@ as int)')],
                            'body_prefix': 'proof { assert(*evaluator == evaluators@[ite.index@ as int]); }'}}},
        {'kind': 'closure', 'src': B, 'path': 'fn build_function_invocation_positional', 'name': 'invoke_positional', 'key': 'purity::build_function_invocation_positional', 'props': ['C01', 'C13'], 'auto_props': AE, 'loops': 0, 'ret': 'r',
         'lead_params': ['scope: &mut Scope'], 'extra_params': ['argument_evaluators: &Vec<Evaluator>'],
         'rewrites': [('R3',), ('RX', 'R13', r'argument_evaluators\.iter\(\)\.map\(\|evaluator\| evaluator\(scope\)\)\.collect::<Vec<Value>>\(\)', 'evaluate_all(argument_evaluators, scope)', 1),
                      ('RX', 'R11', r'bifs::positional::evaluate_bif\(bif, &arguments\)', 'evaluate_bif_positional(bif, &arguments)', 1)],
         'splices': [{'id': 'argument_values', 'op': 'before', 'anchor': 'match function {', 'text': 'proof { assert(values_of(argument_evaluators@, old(scope).contexts@, arguments@)); }'}],
         'ensures': [('caller_scope_untouched', STACK_SAME),
                     ('the_function_gets_the_argument_values_in_order', 'exists |args: Seq<Value>| #[trigger] values_of(argument_evaluators@, old(scope).contexts@, args) && call_positional(function, old(scope).contexts@, args, r)', ['C01'])]},
        {'kind': 'closure', 'src': B, 'path': 'fn build_function_invocation_named', 'name': 'invoke_named', 'key': 'purity::build_function_invocation_named', 'props': ['C01', 'C13'], 'auto_props': AE, 'loops': 0, 'ret': 'r',
         'lead_params': ['scope: &mut Scope'],
         'rewrites': [('R3',), ('RX', 'R11', r'bifs::named::evaluate_bif\(bif, &arguments\)', 'evaluate_bif_named(bif, &arguments)', 1)],
         'ensures': [('caller_scope_untouched', STACK_SAME),
                     ('the_function_gets_the_named_arguments', 'call_named(function, old(scope).contexts@, arguments, r)', ['C01'])]},
        {'kind': 'closure', 'src': B, 'path': 'fn build_function_definition', 'name': 'function_definition', 'key': 'purity::build_function_definition', 'props': ['C01'], 'auto_props': ['C01', 'C05'], 'loops': 0, 'ret': 'r',
         'rewrites': [('R3',)],
         'ensures': [('parameters_and_body_as_written', '(lhv is FormalParameters && rhv is FunctionBody) ==> r == Value::FunctionDefinition(lhv->FormalParameters_0, rhv->FunctionBody_0, FeelType::Any)'),
                     ('null_otherwise', '!(lhv is FormalParameters && rhv is FunctionBody) ==> r is Null')]},
        {'kind': 'closure', 'src': M, 'path': 'fn build_context_evaluator', 'name': 'boxed_context', 'key': 'purity::model::build_context_evaluator', 'props': P, 'auto_props': A, 'loops': 1, 'ret': 'r',
         'lead_params': ['scope: &mut Scope'], 'extra_params': ['entry_evaluators: &Vec<(Option<Name>, Evaluator)>'],
         'rewrites': [('RX', 'R8e', r'\bevaluator\(scope\)', 'evaluator.call(scope)', None),
                      ('RX', 'R11', r'FeelContext::default\(\)', 'feel_context_default()', None),
                      ('RX', 'R2v', r'for \(opt_name, evaluator\) in &entry_evaluators \{', 'for (opt_name, evaluator) in entry_evaluators.iter() {', 1)],
         'splices': [{'id': 'ghost_trace', 'op': 'before', 'anchor': 'for (opt_name, evaluator) in', 'text': 'let ghost mut cs: Seq<FeelContext> = seq![scope.contexts@.last()];'}],
         'ensures': [('caller_scope_untouched', STACK_SAME, ['C13', 'C04']),
                     ('each_entry_sees_the_entries_before_it_the_result_entry_decides',
                      'exists |cs: Seq<FeelContext>, k: int| 0 <= k <= entry_evaluators@.len() && #[trigger] boxed_run(entry_evaluators@, old(scope).contexts@, cs, k) '
                      '&& (if k < entry_evaluators@.len() { entry_evaluators@[k].0 is None && r == ev_value(entry_evaluators@[k].1, old(scope).contexts@.push(cs[k])) } '
                      'else { r is Context && r->Context_0.0@ =~= cs[k].0@ })', ['C04', 'C13'])],
         'loop_specs': {0: {'iter_name': 'ite',
                            'invariant': [('one_temporary_context', 'scope.contexts@.len() == old(scope).contexts@.len() + 1 && scope.contexts@.drop_last() =~= old(scope).contexts@', ['C13', 'C04']),
                                          ('pairs', 'ite.seq().len() == entry_evaluators@.len() && forall |j: int| 0 <= j < ite.seq().len() ==> *(#[trigger] ite.seq()[j]) == entry_evaluators@[j]', ['C04']),
                                          ('entries_so_far', 'boxed_run(entry_evaluators@, old(scope).contexts@, cs, ite.index@ as int) && cs[ite.index@ as int] == scope.contexts@.last() '
                                                             '&& evaluated_context.0@ =~= scope.contexts@.last().0@', ['C04', 'C13'])],
                            'body_prefix': PRE + '\nproof { assert(scope.contexts@ =~= old(scope).contexts@.push(cs[ite.index@ as int])); assert(*opt_name == entry_evaluators@[ite.index@ as int].0 && *evaluator == entry_evaluators@[ite.index@ as int].1); }\nlet ghost cs0 = cs;\nlet ghost top0 = scope.contexts@.last();',
                            'body_suffix': 'proof { cs = cs0.push(scope.contexts@.last());\n  assert(entry_evaluators@[ite.index@ as int].0 is Some);\n'
                                           '  assert(scope.contexts@.last().0@ =~= top0.0@.insert(entry_evaluators@[ite.index@ as int].0->Some_0, ev_value(entry_evaluators@[ite.index@ as int].1, old(scope).contexts@.push(top0))));\n'
                                           '  assert forall |j: int| 0 <= j < ite.index@ + 1 implies (#[trigger] entry_evaluators@[j]).0 is Some by { }\n'
                                           '  assert forall |j: int| 0 <= j < ite.index@ + 1 implies (#[trigger] cs[j + 1]).0@ =~= cs[j].0@.insert(entry_evaluators@[j].0->Some_0, ev_value(entry_evaluators@[j].1, old(scope).contexts@.push(cs[j]))) by {\n'
                                           '    if j < ite.index@ { assert(cs[j + 1] == cs0[j + 1]); assert(cs[j] == cs0[j]); } else { assert(cs[j] == cs0[j]); assert(cs0[j] == top0); }\n  }\n'
                                           '  assert(cs[0] == cs0[0]); assert(cs.len() == ite.index@ + 2);\n'
                                           '  assert(boxed_run(entry_evaluators@, old(scope).contexts@, cs, ite.index@ + 1)); }'}}},
        {'kind': 'closure', 'src': M, 'path': 'fn build_function_definition_evaluator', 'name': 'boxed_function_definition', 'key': 'purity::model::build_function_definition_evaluator', 'props': P, 'auto_props': A, 'loops': 1, 'ret': 'r',
         'lead_params': ['scope: &mut Scope'], 'extra_params': ['parameters: &Vec<(Name, Evaluator)>', 'function_evaluator: &Evaluator'],
         'rewrites': [('R3',), FOR_EACH('parameters'), ('RX', 'R8e', r'\b(evaluator|function_evaluator)\(scope\)', r'\1.call(scope)', 2),
                      ('RX', 'R8e', r'body\.evaluate\(scope\)', 'function_body_evaluate(&body, scope)', 1),
                      ('RX', 'R11', r'FeelContext::default\(\)', 'feel_context_default()', None)],
         'ensures': [('caller_scope_untouched', STACK_SAME, ['C13', 'C04']),
                     ('the_function_over_the_bound_formulas_coerced', BOXED_CALL % ('parameters', 'parameters'), ['C04', 'C13']),
                     ('null_when_not_a_function', '!(ev_value(*function_evaluator, old(scope).contexts@) is FunctionDefinition) ==> r is Null', ['C04', 'C13'])],
         'loop_specs': {0: {'iter_name': 'it', 'invariant': [('scope_not_touched', 'scope.contexts@ == old(scope).contexts@'),
                                          ('pairs', 'it.seq().len() == parameters@.len() && forall |j: int| 0 <= j < it.seq().len() ==> *(#[trigger] it.seq()[j]) == parameters@[j]', ['C04']),
                                          ('formulas_over_the_callers_stack', 'params_ctx.0@ == bind_formulas(parameters@, old(scope).contexts@, it.index@ as int)', ['C04', 'C13'])]}}},
        {'kind': 'closure', 'src': M, 'path': 'fn build_invocation_evaluator', 'name': 'boxed_invocation', 'key': 'purity::model::build_invocation_evaluator', 'props': P, 'auto_props': A, 'loops': 1, 'ret': 'r',
         'lead_params': ['scope: &mut Scope'], 'extra_params': ['bindings: &Vec<(Name, Evaluator)>', 'function_evaluator: &Evaluator'],
         'rewrites': [('R3',), FOR_EACH('bindings'), ('RX', 'R8e', r'\b(evaluator|function_evaluator)\(scope\)', r'\1.call(scope)', 2),
                      ('RX', 'R8e', r'body\.evaluate\(scope\)', 'function_body_evaluate(&body, scope)', 1),
                      ('RX', 'R11', r'FeelContext::default\(\)', 'feel_context_default()', None)],
         'ensures': [('caller_scope_untouched', STACK_SAME, ['C13', 'C04']),
                     ('the_function_over_the_bound_formulas_coerced', BOXED_CALL % ('bindings', 'bindings'), ['C04', 'C13']),
                     ('null_when_not_a_function', '!(ev_value(*function_evaluator, old(scope).contexts@) is FunctionDefinition) ==> r is Null', ['C04', 'C13'])],
         'loop_specs': {0: {'iter_name': 'it', 'invariant': [('scope_not_touched', 'scope.contexts@ == old(scope).contexts@'),
                                          ('pairs', 'it.seq().len() == bindings@.len() && forall |j: int| 0 <= j < it.seq().len() ==> *(#[trigger] it.seq()[j]) == bindings@[j]', ['C04']),
                                          ('formulas_over_the_callers_stack', 'params_ctx.0@ == bind_formulas(bindings@, old(scope).contexts@, it.index@ as int)', ['C04', 'C13'])]}}},
        {'kind': 'closure', 'src': M, 'path': 'fn build_relation_evaluator', 'name': 'boxed_relation', 'key': 'purity::model::build_relation_evaluator', 'props': P, 'auto_props': A, 'loops': 2, 'ret': 'r',
         'lead_params': ['scope: &mut Scope'], 'extra_params': ['rows: &Vec<Vec<(Name, Evaluator)>>'],
         'rewrites': [('RX', 'R8e', r'\bevaluator\(scope\)', 'evaluator.call(scope)', 1),
                      ('RX', 'R11', r'FeelContext::default\(\)', 'feel_context_default()', None),
                      ('RX', 'R14', r'let mut results = vec!\[\];', 'let mut results: Vec<Value> = vec![];', 1),
                      ('RX', 'R2v', r'for row in &rows \{', 'for row in rows.iter() {', 1),
                      ('RX', 'R2v', r'for \(name, evaluator\) in row \{', 'for (name, evaluator) in row.iter() {', 1)],
         'ensures': [('caller_scope_untouched', STACK_SAME, ['C13', 'C04']),
                     ('one_context_per_row_every_cell_over_the_callers_stack', 'r is List && r->List_0.0@.len() == rows@.len() && forall |j: int| 0 <= j < rows@.len() ==> (#[trigger] r->List_0.0@[j]) is Context '
                      '&& r->List_0.0@[j]->Context_0.0@ == bind_formulas(rows@[j]@, old(scope).contexts@, rows@[j]@.len() as int)', ['C04', 'C13'])],
         'loop_specs': {0: {'iter_name': 'itr', 'invariant': [('scope_not_touched', 'scope.contexts@ == old(scope).contexts@', ['C13', 'C04']),
                                          ('rows', 'itr.seq().len() == rows@.len() && forall |j: int| 0 <= j < itr.seq().len() ==> *(#[trigger] itr.seq()[j]) == rows@[j]', ['C04']),
                                          ('rows_so_far', 'results@.len() == itr.index@ && forall |j: int| 0 <= j < itr.index@ ==> (#[trigger] results@[j]) is Context && results@[j]->Context_0.0@ == bind_formulas(rows@[j]@, old(scope).contexts@, rows@[j]@.len() as int)', ['C04', 'C13'])]},
                        1: {'iter_name': 'itc', 'invariant': [('scope_not_touched', 'scope.contexts@ == old(scope).contexts@', ['C13', 'C04']),
                                          ('cells', 'itc.seq().len() == row@.len() && forall |j: int| 0 <= j < itc.seq().len() ==> *(#[trigger] itc.seq()[j]) == row@[j]', ['C04']),
                                          ('the_row', '*row == rows@[itr.index@ as int]', ['C04']),
                                          ('cells_over_the_callers_stack', 'evaluated_context.0@ == bind_formulas(row@, old(scope).contexts@, itc.index@ as int)', ['C04', 'C13'])]}}},
        {'kind': 'fn', 'src': B, 'path': 'fn eval_function_definition', 'key': 'purity::eval_function_definition', 'props': PE, 'auto_props': AE, 'loops': 0, 'ret': 'r',
         'sig_rewrite': [(r'^(\s*)fn ', r'\1pub fn '), (r'scope: &Scope', 'scope: &mut Scope')],
         'rewrites': [('R3',), ('RX', 'R8e', r'body\.evaluate\(scope\)', 'function_body_evaluate(body, scope)', 1)],
         'ensures': [('caller_scope_untouched', STACK_SAME), ('body_over_the_argument_context_then_coerced', 'r == call_result(old(scope).contexts@, *ctx, *body, result_type)', ['C01', 'C16'])]},
    ],
}

PR = 'feel-parser/src/parser.rs'
LX = 'feel-parser/src/lexer.rs'
SCOPE_ACTIONS = {
    # action: (kind, extra requires)
    'action_context_begin': 'push', 'action_context_end': 'pop', 'action_context_entry': 'top',
    'action_every': 'pop', 'action_every_begin': 'push', 'action_for': 'pop', 'action_for_begin': 'push',
    'action_some': 'pop', 'action_some_begin': 'push',
    'action_formal_parameter_with_type': 'top', 'action_formal_parameter_without_type': 'top',
    'action_formal_parameters_begin': 'push', 'action_function_body': 'pop', 'action_function_body_external': 'pop',
    'action_iteration_context_variable_name': 'top', 'action_quantified_expression_variable_name': 'top',
}
POST = {'push': ('pushes_one_temporary_context', 'pushed_one(stk(*old(self)), stk(*final(self)))'),
        'pop': ('pops_the_temporary_context', 'popped_one(stk(*old(self)), stk(*final(self)))'),
        'top': ('writes_only_into_top_context', 'top_only(stk(*old(self)), stk(*final(self)))')}
VALUE_STACK_PRE = {
    'action_formal_parameter_with_type': '1 <= old(self).yy_len && old(self).yy_len as int <= old(self).yy_value_stack@.len()',
    'action_formal_parameter_without_type': '1 <= old(self).yy_len && old(self).yy_len as int <= old(self).yy_value_stack@.len()',
    'action_iteration_context_variable_name': 'old(self).yy_value_stack@.len() >= 1',
    'action_quantified_expression_variable_name': 'old(self).yy_value_stack@.len() >= 1',
}

def action(name):
    kind = SCOPE_ACTIONS[name]
    d = {'kind': 'fn', 'src': PR, 'path': "impl<'parser> ReduceActions for Parser<'parser>::fn " + name, 'key': 'purity::Parser::' + name,
         'props': P + ['C10'], 'auto_props': A, 'loops': 0, 'ret': 'r', 'impl_header': 'impl Parser {',
         'sig_rewrite': [(r'^(\s*)fn ', r'\1pub fn ')],
         'rewrites': [('R3',), ('RX', 'R6', r'trace_action!\(self, "[^"]*"\);', '', 1),
                      ('RX', 'R8a', r'self\.scope\.', 'self.yy_lexer.scope.', None),
                      ('RX', 'R11', r'self\.yy_node_stack\.pop\(\)\.ok_or_else\(err_pop\)\?', 'node_or_err(self.yy_node_stack.pop())?', None),
                      ('RX', 'R11', r'FeelContext::default\(\)', 'feel_context_default()', None),
                      ('RX', 'R11', r'Name::from\("partial"\)', 'name_from_str("partial")', None)],
         'ensures': [POST[kind]]}
    if name in VALUE_STACK_PRE:
        d['requires'] = [('value_stack_holds_the_rhs', VALUE_STACK_PRE[name])]
    return d

def lexfn(name, kind):
    return {'kind': 'fn', 'src': LX, 'path': "impl<'lexer> Lexer<'lexer>::fn " + name, 'key': 'purity::Lexer::' + name, 'props': P, 'auto_props': A, 'loops': 0,
            'impl_header': 'impl Lexer {', 'rewrites': [('R3',), ('RX', 'R11', r'FeelContext::default\(\)', 'feel_context_default()', None)],
            'ensures': [(POST[kind][0], POST[kind][1].replace('stk(*old(self))', 'old(self).scope.contexts@').replace('stk(*final(self))', 'final(self).scope.contexts@'))]}

POST['same'] = ('leaves_the_scope_alone', 'stk(*final(self)) =~= stk(*old(self))')
ACCESS = re.compile(r'\bscope\b|yy_lexer\s*\.\s*(push_to_scope|pop_from_scope|add_name_to_scope)\b')

def parser_functions():
    """(name, body text, has access path to the scope) for every fn of parser.rs's two impl blocks, from the working tree."""
    src = rsscan.Source(os.path.join(VB.REPO, PR))
    out = []
    for hdr in ("impl<'parser> Parser<'parser>", "impl<'parser> ReduceActions for Parser<'parser>"):
        s0, e0, kw, body_open = rsscan.locate(src, hdr)
        for m in re.finditer(r'\bfn\s+(\w+)', src.text[body_open:e0]):
            pos = body_open + m.start()
            if not src.is_code(pos) or src.depth_at(body_open + 1, pos) != 0:
                continue
            b = src.text.find('{', pos)
            while not src.is_code(b):
                b = src.text.find('{', b + 1)
            e = src.match_brace(b)
            code = ''.join(ch if src.cls[b + k] == rsscan.CODE else ' ' for k, ch in enumerate(src.text[b:e + 1]))
            out.append((hdr, m.group(1), bool(ACCESS.search(code))))
    return out

PFUNS = parser_functions()
# every reduce action that has an access path to the scope is under contract: the ones listed above with their bracket
# role, any other one with "leaves the scope alone" (the expected role of an action the property does not mention)
EXTRA_ACTIONS = sorted(n for (h, n, acc) in PFUNS if acc and h.startswith("impl<'parser> ReduceActions") and n not in SCOPE_ACTIONS)
for n in EXTRA_ACTIONS:
    SCOPE_ACTIONS[n] = 'same'

def frame_parser(repo):
    """Frame: outside the contracted actions, nothing in parser.rs has an access path to the scope except Parser::new
    (which stores the reference and hands it to the lexer)."""
    res = []
    for (h, n, acc) in PFUNS:
        if h.startswith("impl<'parser> ReduceActions"):
            continue  # contracted when acc (see EXTRA_ACTIONS), framed by absence of an access path otherwise
        if acc and n != 'new':
            raise Exception('parser function %s has an access path to the scope and no contract (needs contract)' % n)
    res.append({'name': 'parser.rs: only Parser::new and the contracted reduce actions mention the scope', 'ok': True,
                'detail': '%d functions scanned, %d reduce actions with an access path under contract, %d without access path' % (
                    len(PFUNS), len(SCOPE_ACTIONS), len([1 for (h, n, acc) in PFUNS if not acc]))})
    return res

FRAME_CHECKS = {'C13': [frame_parser]}

PARSER_PARTS = [
    {'kind': 'item', 'src': 'feel/src/ast.rs', 'path': 'enum AstNode'},
    {'kind': 'item', 'src': LX, 'path': 'enum TokenValue'},
    {'kind': 'item', 'src': 'feel-parser/src/lalr.rs', 'path': 'enum TokenType'},
    # the real struct, so that a function that starts to use another (or a new) field of the lexer still extracts; R8a: the scope reference becomes the one owner
    {'kind': 'item', 'src': LX, 'path': 'struct Lexer',
     'rewrites': [('RX', 'R8a', r"pub struct Lexer<'lexer> \{", 'pub struct Lexer {', 1), ('RX', 'R8a', r"\n  scope: &'lexer Scope,", '\n  pub scope: Scope,', 1),
                  ('RX', 'R7', r'\n  (\w+): ', r'\n  pub \1: ', None)]},
    {'kind': 'vrs', 'file': 'purity/parser.vrs'},
    lexfn('push_to_scope', 'push'), lexfn('pop_from_scope', 'pop'), lexfn('add_name_to_scope', 'top'),
] + [action(n) for n in sorted(SCOPE_ACTIONS)]
UNIT['parts'] += PARSER_PARTS

ASSUMPTIONS = ['R8: Scope.contexts is RefCell<Vec<FeelContext>>; the RefCell is erased and &Scope becomes &mut Scope (run-time borrow checks are dropped)',
               'A-eval: a call of a captured sub-evaluator / FunctionBody::evaluate returns with the stack of contexts as it found it (induction hypothesis over the expression tree; not proved for Bif / external function bodies)',
               'R8a: the parser\'s scope reference and its lexer\'s scope reference are the same object (Parser::new passes its own reference to Lexer::new)',
               'A-grammar: every begin action is the mid-rule action of exactly one production whose reduce action is the matching end action (generated production comments in lalr.rs); the driver calls actions only through lalr::reduce',
               'FeelIterator::run has no access path to the scope other than the handler it is given (it is not passed the scope)']
NOT_DECIDED = {'C10': ['names introduced while parsing (context keys, formal parameters, iteration variables, `partial`) are registered in a temporary context that the matching end action removes: decided per reduce action (same clauses as C13), their pairing over a derivation is A-grammar'],
               'C13': ['repeatability of values across evaluation histories (whole-history; follows from scope neutrality only for evaluators without interior state, which is not proved)',
                       'a failed parse may leave temporary contexts on the parsing scope (the property only speaks of successful parses)',
                       'balance of begin/end actions over a derivation is a grammar-level fact (A-grammar)']}

# fall-back for the invocation functions (also decides them when a rewritten loop leaves the extractor's reach)
BOUNDED = {'C01': [{'name': 'function-invocation-arity', 'driver': 'feelcases', 'args': ['/verif/replay/cases/C01_invocation.txt'],
                    'functions': ['eval_function_positional', 'eval_function_named', 'eval_function_definition (feel-evaluator builders.rs)'],
                    'bound': '58 calls (42 generated, 13 of them named / positional calls of functions with typed parameters of different types, in and out of declaration order, with arguments that need the singleton conversions): user-defined functions of arity 0..3 called positionally with 0..arity arguments and by name with every non-empty subset of the parameter names (too few / missing arguments give null, '
                             'a complete call gives the value), typed parameters coercing or nulling the argument, a missing parameter not captured from the caller, a parameter whose argument is null or coerced to null not captured from a same-named entry of the caller, calls with surplus arguments answering without a panic, and user-defined functions bound to the name of a built-in function (the binding wins, positionally and by name) (bounded duplicate of the Verus contracts)'}]}

_PURE = {'name': 'evaluation-leaves-the-scope-alone', 'driver': 'purity', 'args': ['/verif/replay/cases/C13_purity.txt'],
         'functions': ['build_context', 'build_filter', 'build_for / build_some / build_every and the iteration evaluators', 'eval_function_positional / named / definition', 'the parser actions that push and pop parsing contexts'],
         'bound': '54 expressions that push temporary contexts (context literals, filters over lists of contexts incl. items with an `item` entry, for / some / every with 1..2 variables, function invocations positional / named / parameterless / '
                  'nested / recursive / external, and their combinations) over a scope binding a, b, base, xs, people, f: parsing and evaluating leave the rendering of the scope unchanged, a second evaluation gives the same value, and '
                  '`a + b + base` is still 19 afterwards (bounded duplicate of the Verus contracts; stands in when a changed body leaves the extractor\'s reach)'}
BOUNDED['C13'] = BOUNDED.get('C13', []) + [_PURE]
_MODELPURE = {'name': 'boxed-invocations-leave-the-context-alone', 'script': 'modelpure.py', 'args': [],
              'functions': ['build_invocation_evaluator', 'build_function_definition_evaluator', 'build_context_evaluator (model-evaluator/src/builders/mod.rs)'],
              'bound': '7 evaluations of three models whose decision is a boxed context with two boxed invocations that bind an argument under the name of an input (`Amount`) and an entry between them that reads that name: '
                       'the invoked expression is a function, an unknown name, a number, or a text given as input; the entries that follow see the input again'}
BOUNDED['C01'] = BOUNDED['C01'] + [_PURE]
BOUNDED['C13'] = BOUNDED.get('C13', []) + [_MODELPURE]
# C16: the declared parameter type is the one the argument is coerced to, whichever way and order the argument is passed
BOUNDED['C16'] = [b for b in BOUNDED['C01'] if b['name'] == 'function-invocation-arity']
# the repeatability clause of C13 (whole histories) has no function-level contract: a bounded stand-in over evaluation sequences
_REPEAT = {'name': 'same-evaluator-same-inputs-same-value', 'script': 'repeatdiff.py', 'args': [],
           'functions': ['dmntk_feel_evaluator::prepare + the prepared evaluators', 'ModelEvaluator::evaluate_invocable (decision tables with header cells over the inputs, knowledge models, services)'],
           'bound': 'about 350 expressions (the case files under replay/cases and recursive functions at depths 5..400) prepared once and evaluated in 4 rounds on one thread, forward and backward: every value equals the value '
                    'the expression gives in a process of its own; one model evaluator answering sequences of 7..9 input contexts in which contexts recur, for a model of decision tables whose output values / default output '
                    'entries / allowed input values are expressions over the inputs and for 10 generated requirement graphs: every answer equals the answer of a fresh evaluator for that context alone (about 1 700 evaluations)'}
BOUNDED['C13'] = BOUNDED.get('C13', []) + [_REPEAT]
