"""Unit `dto`: server/src/dto.rs - the conversions between values and the TCK DTOs the evaluate endpoint receives and answers (C18:
"typed values sent and received in TCK format round-trip unchanged"). The encoders (TryFrom<&Value> for ValueDto, TryFrom<Value> for
OutputNodeDto) and the eight decoders (TryFrom<..> for WrappedValue) are extracted as free functions (R21) and each conversion call is
resolved to the function rustc resolves it to (R12); the contract of a decoder is "answers what the DTO denotes" (spec `denotes`), the
contract of an encoder is "the DTO it builds denotes the value" - so decode(encode(v)) == v for every transportable value, at every
nesting depth. The text forms of scalars and names are outside Verus' reach: assumed to round-trip (A-text), exercised by the bounded
stand-in tck-dto-round-trip."""
import os, sys
sys.path.insert(0, os.path.dirname(os.path.abspath(__file__)))
import _common as C
D = 'server/src/dto.rs'
V = 'feel/src/values.rs'
X = 'feel/src/context.rs'
P = ['C18']
A = ['C18', 'C05']
AX = 'broadcast use vstd::std_specs::btree::group_btree_axioms;\nproof { axiom_name_key(); axiom_text_round_trip(); lemma_kinds(); }'

def sig(name, params, ret):
    return [(r'fn try_from\([^)]*\) -> \(r: Result<Self, Self::Error>\)', 'pub fn %s(%s) -> (r: Result<%s, DmntkError>)' % (name, params, ret))]

def dec(path, name, params, **kw):
    d = {'kind': 'fn', 'src': D, 'path': 'impl TryFrom<%s> for WrappedValue::fn try_from' % path, 'key': 'dto::' + name, 'props': P, 'auto_props': A, 'ret': 'r',
         'no_wrap': True, 'sig_rewrite': sig(name, params, 'WrappedValue')}
    d.update(kw)
    return d

DEFAULT = ('RX', 'R11', r'Default::default\(\)', 'value_dto_default()', None)
TEXT = ('RX', 'R13', r'&v\.to_string\(\)', '&value_text(v)', 7)
ENC_REWRITES = [DEFAULT, TEXT,
                ('RX', 'R13', r'name\.to_string\(\)', 'name_to_string(name)', 1),
                ('RX', 'R12', r'value\.try_into\(\)\?', 'enc_value(value)?', 2),
                ('RX', 'R14', r'let mut components = vec!\[\];', 'let mut components: Vec<ComponentDto> = vec![];', 1),
                ('RX', 'R14', r'let mut items = vec!\[\];', 'let mut items: Vec<ValueDto> = vec![];', 1),
                ('RX', 'R2v', r'for value in list\.as_vec\(\) \{', 'for value in list.as_vec().iter() {', 1)]

def enc_loops(v0, ctx, lst):
    """loop contracts of the context / list arms of an encoder; v0: ghost copy of the encoded value"""
    return {
        0: {'iter_name': 'it',
            'invariant': [
                ('ctx', '%s is Context, %s->Context_0 == %s' % (v0, v0, ctx)),
                ('seq_in_map', 'forall |j: int| 0 <= j < it.seq().len() ==> CTX.0@.contains_key(*(#[trigger] it.seq()[j]).0) && CTX.0@[*it.seq()[j].0] == *it.seq()[j].1'.replace('CTX', 'ctx')),
                ('map_in_seq', 'forall |kk: Name| ctx.0@.contains_key(kk) ==> exists |j: int| 0 <= j < it.seq().len() && *(#[trigger] it.seq()[j]).0 == kk'),
                ('one_component_per_entry', 'components@.len() == it.index@'),
                ('components_readable', 'transportable(%s) ==> fold_ctx(pairs_of(components)) is Some' % v0),
                ('components_are_the_entries_seen', 'transportable(%s) ==> forall |k: Name| #[trigger] fold_ctx(pairs_of(components))->Some_0.contains_key(k) <==> seen(it.seq(), it.index@ as int, k)' % v0),
                ('components_carry_the_entry_values', 'transportable(%s) ==> forall |k: Name| #[trigger] fold_ctx(pairs_of(components))->Some_0.contains_key(k) ==> fold_ctx(pairs_of(components))->Some_0[k] == abs(ctx.0@[k])' % v0),
                ('all_entries_at_the_end', 'transportable(%s) && it.index@ == it.seq().len() ==> fold_ctx(pairs_of(components)) == Some(abs_map(ctx.0@))' % v0)],
            'body_prefix': AX + '''
proof {
  assert(ctx.0@.contains_key(*name) && ctx.0@[*name] == *value);
  assert(decreases_to!(%s => %s->Context_0));
  assert(decreases_to!(%s => ctx.0@[*name]));
}
let ghost before = components;''' % (v0, v0, ctx),
            'body_suffix': '''proof {
  let c = components@[components@.len() - 1];
  assert(pairs_of(components).drop_last() =~= pairs_of(before));
  assert(pairs_of(components).last() == pair_of(c));
  if transportable(%s) {
    assert(transportable(*value));
    assert(name_of_text(name_text(*name)) == Some(*name));
    let m0 = fold_ctx(pairs_of(before))->Some_0;
    let m1 = m0.insert(*name, abs(*value));
    assert(fold_ctx(pairs_of(components)) == Some(m1));
    assert forall |k: Name| #[trigger] m1.contains_key(k) <==> seen(it.seq(), it.index@ + 1, k) by {
      if m1.contains_key(k) {
        if k == *name { assert(*it.seq()[it.index@ as int].0 == k); } else {
          let j = choose |j: int| 0 <= j < it.index@ && *(#[trigger] it.seq()[j]).0 == k;
          assert(*it.seq()[j].0 == k);
        }
      }
      if seen(it.seq(), it.index@ + 1, k) {
        let j = choose |j: int| 0 <= j < it.index@ + 1 && *(#[trigger] it.seq()[j]).0 == k;
        if j < it.index@ { assert(seen(it.seq(), it.index@ as int, k)); }
      }
    }
    assert(it.index@ + 1 == it.seq().len() ==> m1 =~= abs_map(ctx.0@)) by { if it.index@ + 1 == it.seq().len() {
      assert forall |k: Name| m1.contains_key(k) <==> ctx.0@.contains_key(k) by {
        if ctx.0@.contains_key(k) { let j = choose |j: int| 0 <= j < it.seq().len() && *(#[trigger] it.seq()[j]).0 == k; assert(seen(it.seq(), it.index@ + 1, k)); }
      }
      assert(m1 =~= abs_map(ctx.0@));
    } }
  }
}''' % v0},
        1: {'iter_name': 'it',
            'invariant': [
                ('lst', '%s is List, %s->List_0 == %s' % (v0, v0, lst)),
                ('seq', 'it.seq() =~= list.0@.map_values(|v: Value| &v)'),
                ('one_item_per_item', 'items@.len() == it.index@'),
                ('items_denote_the_list_items', 'transportable(%s) ==> forall |j: int| 0 <= j < it.index@ ==> #[trigger] dens_of(items)[j] == Some(abs(list.0@[j]))' % v0)],
            'body_prefix': AX + '''
proof {
  assert(*value == list.0@[it.index@ as int]);
  vstd::std_specs::vec::axiom_vec_index_decreases(list.0, it.index@ as int);
  assert(decreases_to!(%s => %s->List_0));
  assert(decreases_to!(%s => list.0));
  assert(decreases_to!(list.0 => list.0@[it.index@ as int]));
}
let ghost before = items;''' % (v0, v0, lst),
            'body_suffix': '''proof {
  if transportable(%s) {
    assert(transportable(list.0@[it.index@ as int]));
    assert forall |j: int| 0 <= j < it.index@ + 1 implies #[trigger] dens_of(items)[j] == Some(abs(list.0@[j])) by {
      if j < it.index@ { assert(items@[j] == before@[j]); assert(dens_of(before)[j] == Some(abs(list.0@[j]))); }
    }
  }
}''' % v0},
    }

def enc_splices(v0expr, ctx, lst, ok='Ok(ValueDto {'):
    return [{'id': 'ghost_value', 'op': 'before', 'anchor': 'let mut components', 'text': ('let ghost v0 = %s;\n' % v0expr if v0expr else '') + 'proof { assert(Map::<Name, AVal>::empty() =~= abs_map(Map::<Name, Value>::empty())); }'},
            {'id': 'context_denoted', 'op': 'before', 'anchor': ok, 'nth': 9, 'text': 'proof { lemma_abs_ctx(%s); }' % ctx},
            {'id': 'ghost_value_list', 'op': 'before', 'anchor': 'let mut items', 'text': 'let ghost v0 = %s;' % v0expr if v0expr else 'proof { }'},
            {'id': 'list_denoted', 'op': 'before', 'anchor': ok, 'nth': 10,
             'text': 'proof { if transportable(v0) { lemma_abs_list(%s); assert(unwrap_all(dens_of(items)) =~= Seq::new(list.0@.len(), |i: int| abs(list.0@[i]))); } }' % lst}]

UNIT = {
    'name': 'dto',
    'uses': C.USES + ['use std::convert::{TryFrom, TryInto};'],
    'parts': C.NAME + C.FEELTYPE + [
        {'kind': 'text', 'text': 'pub uninterp spec fn equiv(a: FeelType, b: FeelType) -> bool;', 'note': 'unused-here'},
        {'kind': 'vrs', 'file': 'common/leaves.vrs'},
        {'kind': 'item', 'src': X, 'path': 'type FeelContextEntries'},
        {'kind': 'item', 'src': X, 'path': 'struct FeelContext', 'rewrites': [('RX', 'R7', r'pub struct FeelContext\(FeelContextEntries\)', 'pub struct FeelContext(pub FeelContextEntries)', 1)]},
        {'kind': 'item', 'src': V, 'path': 'struct Values', 'rewrites': [('RX', 'R7', r'pub struct Values\(Vec<Value>\)', 'pub struct Values(pub Vec<Value>)', 1)]},
        {'kind': 'item', 'src': V, 'path': 'enum Value'},
        {'kind': 'item', 'src': V, 'path': 'macro_rules! value_null'},
        {'kind': 'vrs', 'file': 'common/value_traits.vrs'},
        {'kind': 'item', 'src': D, 'path': 'struct WrappedValue'},
        {'kind': 'item', 'src': D, 'path': 'struct InputNodeDto'},
        {'kind': 'item', 'src': D, 'path': 'struct OutputNodeDto'},
        {'kind': 'item', 'src': D, 'path': 'struct ValueDto'},
        {'kind': 'item', 'src': D, 'path': 'struct SimpleDto'},
        {'kind': 'item', 'src': D, 'path': 'struct ComponentDto'},
        {'kind': 'item', 'src': D, 'path': 'struct ListDto'},
        {'kind': 'vrs', 'file': 'dto/prelude.vrs'},
        {'kind': 'vrs', 'file': 'dto/spec.vrs'},
        {'kind': 'item', 'src': X, 'path': 'impl Deref for FeelContext', 'key': 'dto::FeelContext::deref',
         'rewrites': [('RX', 'contract', r'fn deref\(&self\) -> &Self::Target \{', 'fn deref(&self) -> (r: &Self::Target) ensures *r == self.0 {', 1)]},
        {'kind': 'fn', 'src': X, 'path': 'impl FeelContext::fn set_entry', 'key': 'dto::FeelContext::set_entry', 'props': P, 'auto_props': A, 'loops': 0,
         'body_prefix': 'broadcast use vstd::std_specs::btree::group_btree_axioms;\nproof { axiom_name_key(); }',
         'ensures': [('sets_one_entry', 'final(self).0@ == old(self).0@.insert(*name, value)')]},
        {'kind': 'fn', 'src': X, 'path': 'impl From<FeelContext> for Value::fn from', 'key': 'dto::value_from_context', 'props': P, 'auto_props': A, 'loops': 0, 'ret': 'r', 'no_wrap': True,
         'sig_rewrite': [(r'fn from\(ctx: FeelContext\) -> \(r: Self\)', 'pub fn value_from_context(ctx: FeelContext) -> (r: Value)')],
         'ensures': [('a_context_value', 'r == Value::Context(ctx)')]},
        {'kind': 'fn', 'src': V, 'path': 'impl Values::fn new', 'key': 'dto::Values::new', 'props': P, 'auto_props': A, 'ret': 'r', 'ensures': [('post', 'r.0 == values')], 'loops': 0},
        {'kind': 'fn', 'src': V, 'path': 'impl Values::fn as_vec', 'key': 'dto::Values::as_vec', 'props': P, 'auto_props': A, 'ret': 'r', 'ensures': [('post', '*r == self.0')], 'loops': 0},
        {'kind': 'fn', 'src': D, 'path': 'impl SimpleDto::fn some', 'key': 'dto::SimpleDto::some', 'props': P, 'auto_props': A, 'loops': 0, 'ret': 'r',
         'ensures': [('typed_text', 'r is Some && r->Some_0.typ is Some && r->Some_0.typ->Some_0@ == typ@ && r->Some_0.text is Some && r->Some_0.text->Some_0@ == text@ && !r->Some_0.nil')]},
        {'kind': 'fn', 'src': D, 'path': 'impl SimpleDto::fn nil', 'key': 'dto::SimpleDto::nil', 'props': P, 'auto_props': A, 'loops': 0, 'ret': 'r',
         'ensures': [('nil', 'r is Some && r->Some_0.typ is None && r->Some_0.text is None && r->Some_0.nil')]},
        {'kind': 'fn', 'src': D, 'path': 'impl ListDto::fn items', 'key': 'dto::ListDto::items', 'props': P, 'auto_props': A, 'loops': 0, 'ret': 'r',
         'ensures': [('a_list_is_never_nil', 'r is Some && r->Some_0.items == items && !r->Some_0.nil')]},
        # ------------------------------------------------------------------ decoders
        dec('&SimpleDto', 'dec_simple', 'value: &SimpleDto', loops=0, body_prefix='proof { lemma_kinds(); }',
            rewrites=[('RX', 'R23', r'match typ\.as_str\(\) \{', 'match () {', 1),
                      ('RX', 'R23', r'(?m)^(\s*)("xsd:\w+") =>', r'\1_ if string_is(typ, \2) =>', 9),
                      ('RX', 'R13', r'Value::try_from_xsd_(\w+)\(text\)\?', r'try_from_xsd("\1", text)?', 8),
                      ('RX', 'R5', r'&format!\("unrecognized type: `\{\}` in value", typ\)', '"unrecognized type"', 1)],
            ensures=[('reads_what_the_simple_dto_denotes', 'dec_ok(r, den_simple(*value))')]),
        dec('&ValueDto', 'dec_value', 'value: &ValueDto', loops=0, decreases='*value, 2nat',
            rewrites=[('RX', 'R12', r'WrappedValue::try_from\(value_dto\)', 'dec_simple(value_dto)', 1),
                      ('RX', 'R12', r'WrappedValue::try_from\(components\)', 'dec_components(components)', 1),
                      ('RX', 'R12', r'WrappedValue::try_from\(list\)', 'dec_list(list)', 1)],
            ensures=[('reads_what_the_dto_denotes', 'dec_ok(r, denotes(*value))')]),
        dec('&ComponentDto', 'dec_component', 'value: &ComponentDto', loops=0, decreases='*value, 3nat',
            rewrites=[('RX', 'R12', r'WrappedValue::try_from\(v\)', 'dec_value(v)', 1)],
            ensures=[('reads_what_the_component_denotes', 'dec_ok(r, den_comp(*value))')]),
        dec('&ListDto', 'dec_list', 'value: &ListDto', loops=0, decreases='*value, 3nat',
            rewrites=[('RX', 'R12', r'WrappedValue::try_from\(&value\.items\)', 'dec_items(&value.items)', 1)],
            ensures=[('reads_what_the_list_denotes', 'dec_ok(r, den_list(*value))')]),
        dec('&Vec<ValueDto>', 'dec_items', 'items: &Vec<ValueDto>', loops=1, decreases='*items, 3nat',
            rewrites=[('RX', 'R12', r'WrappedValue::try_from\(item\)\?', 'dec_value(item)?', 1),
                      ('RX', 'R14', r'let mut values = vec!\[\];', 'let mut values: Vec<Value> = vec![];', 1),
                      ('RX', 'R2v', r'for item in items \{', 'for item in items.iter() {', 1)],
            loop_specs={0: {'iter_name': 'it', 'invariant': [
                ('seq', 'it.seq() =~= items@.map_values(|v: ValueDto| &v)'),
                ('one_value_per_item', 'values@.len() == it.index@'),
                ('values_are_what_the_items_denote', 'forall |j: int| 0 <= j < it.index@ ==> (#[trigger] dens_of(*items)[j]) is Some && abs(values@[j]) == dens_of(*items)[j]->Some_0')],
                'body_prefix': 'proof { assert(*item == items@[it.index@ as int]); assert(dens_of(*items)[it.index@ as int] == denotes(*item)); }'}},
            splices=[{'id': 'list_denoted', 'op': 'before', 'anchor': 'Ok(WrappedValue(Value::List(Values::new(values))))',
                      'text': 'proof { lemma_abs_list(Values(values)); assert(Seq::new(values@.len(), |i: int| abs(values@[i])) =~= unwrap_all(dens_of(*items))); }'}],
            ensures=[('reads_what_the_items_denote', 'dec_ok(r, den_items(*items))')]),
        dec('&Vec<ComponentDto>', 'dec_components', 'items: &Vec<ComponentDto>', loops=1, decreases='*items, 3nat',
            rewrites=[('RX', 'R12', r'WrappedValue::try_from\(item\)\?', 'dec_component(item)?', 1),
                      ('RX', 'R11', r'let mut ctx: FeelContext = Default::default\(\);', 'let mut ctx: FeelContext = feel_context_default();', 1),
                      ('RX', 'R17', r'let item_name = item\.name\.as_ref\(\)\.ok_or_else\(\|\| (invalid_parameter\("[^"]*"\))\)\?;', r'let item_name = match item.name.as_ref() { Some(x) => x, None => return Err(\1) };', 1),
                      ('RX', 'R7', r'dmntk_feel_parser::parse_longest_name\(', 'parse_longest_name(', 1),
                      ('RX', 'R12', r'ctx\.into\(\)', 'value_from_context(ctx)', 1),
                      ('RX', 'R2v', r'for item in items \{', 'for item in items.iter() {', 1)],
            loop_specs={0: {'iter_name': 'it', 'invariant': [
                ('seq', 'it.seq() =~= items@.map_values(|v: ComponentDto| &v)'),
                ('context_is_the_entries_so_far', 'fold_ctx(pairs_of(*items).subrange(0, it.index@ as int)) == Some(abs_map(ctx.0@))')],
                'body_prefix': '''proof {
  assert(*item == items@[it.index@ as int]);
  lemma_fold_step(pairs_of(*items), it.index@ as int);
  if !pair_ok(pairs_of(*items)[it.index@ as int]) { lemma_fold_bad(pairs_of(*items), it.index@ as int); }
}'''}},
            splices=[{'id': 'empty', 'op': 'after', 'anchor': 'let mut ctx: FeelContext = feel_context_default();', 'text': 'proof { assert(abs_map(ctx.0@) =~= Map::<Name, AVal>::empty()); }'},
                     {'id': 'insert', 'op': 'before', 'anchor': 'ctx.set_entry(&key, value.0);', 'text': 'proof { lemma_abs_map_insert(ctx.0@, key, value.0); }'},
                     {'id': 'context_denoted', 'op': 'before', 'anchor': 'Ok(WrappedValue(value_from_context(ctx)))',
                      'text': 'proof { assert(pairs_of(*items).subrange(0, items@.len() as int) =~= pairs_of(*items)); lemma_abs_ctx(ctx); }'}],
            ensures=[('reads_what_the_components_denote', 'dec_ok(r, den_comps(*items))')]),
        # ------------------------------------------------------------------ encoders
        {'kind': 'fn', 'src': D, 'path': 'impl TryFrom<&Value> for ValueDto::fn try_from', 'key': 'dto::enc_value', 'props': P, 'auto_props': A, 'ret': 'r', 'no_wrap': True,
         'sig_rewrite': sig('enc_value', 'value: &Value', 'ValueDto'), 'attrs': '#[verifier::loop_isolation(false)]', 'decreases': '*value', 'loops': 2,
         'body_prefix': AX, 'rewrites': ENC_REWRITES,
         'loop_specs': enc_loops('v0', '*ctx', '*list'), 'splices': enc_splices('*value', '*ctx', '*list'),
         'ensures': [('always_answers', 'r is Ok'),
                     ('the_dto_denotes_the_value', 'transportable(*value) ==> denotes(r->Ok_0) == Some(abs(*value))')]},
        {'kind': 'fn', 'src': D, 'path': 'impl TryFrom<Value> for OutputNodeDto::fn try_from', 'key': 'dto::enc_output', 'props': P, 'auto_props': A, 'ret': 'r', 'no_wrap': True,
         'sig_rewrite': sig('enc_output', 'value: Value', 'OutputNodeDto'), 'attrs': '#[verifier::loop_isolation(false)]', 'loops': 2,
         'body_prefix': AX + '\nlet ghost v0 = value;', 'rewrites': [('RX', 'R13', r'&v\.to_string\(\)', '&value_text(&v)', 7)] + [r for r in ENC_REWRITES if r is not TEXT],
         'loop_specs': enc_loops('v0', 'ctx', 'list'), 'splices': enc_splices(None, 'ctx', 'list', ok='Ok(OutputNodeDto {'),
         'ensures': [('always_answers', 'r is Ok'),
                     ('the_dto_denotes_the_value', 'transportable(value) ==> r->Ok_0.value is Some && denotes(r->Ok_0.value->Some_0) == Some(abs(value))')]},
        dec('&InputNodeDto', 'dec_input', 'input_node_dto: &InputNodeDto', loops=0,
            rewrites=[('RX', 'R12', r'WrappedValue::try_from\(value_dto\)', 'dec_value(value_dto)', 1)],
            ensures=[('reads_what_the_input_denotes', 'dec_ok(r, den_input(*input_node_dto))')]),
        dec('&Vec<InputNodeDto>', 'dec_inputs', 'items: &Vec<InputNodeDto>', loops=1,
            rewrites=[('RX', 'R12', r'WrappedValue::try_from\(item\)\?', 'dec_input(item)?', 1),
                      ('RX', 'R11', r'let mut ctx: FeelContext = Default::default\(\);', 'let mut ctx: FeelContext = feel_context_default();', 1),
                      ('RX', 'R7', r'dmntk_feel_parser::parse_longest_name\(', 'parse_longest_name(', 1),
                      ('RX', 'R12', r'ctx\.into\(\)', 'value_from_context(ctx)', 1),
                      ('RX', 'R2v', r'for item in items \{', 'for item in items.iter() {', 1)],
            loop_specs={0: {'iter_name': 'it', 'invariant': [
                ('seq', 'it.seq() =~= items@.map_values(|v: InputNodeDto| &v)'),
                ('context_is_the_inputs_so_far', 'fold_ctx(input_pairs(items@).subrange(0, it.index@ as int)) == Some(abs_map(ctx.0@))')],
                'body_prefix': '''proof {
  assert(*item == items@[it.index@ as int]);
  lemma_fold_step(input_pairs(items@), it.index@ as int);
  if !pair_ok(input_pairs(items@)[it.index@ as int]) { lemma_fold_bad(input_pairs(items@), it.index@ as int); }
}
let ghost m_before = ctx.0@;''',
                'body_suffix': 'proof { lemma_abs_map_insert(m_before, name, ctx.0@[name]); }'}},
            splices=[{'id': 'empty', 'op': 'after', 'anchor': 'let mut ctx: FeelContext = feel_context_default();', 'text': 'proof { assert(abs_map(ctx.0@) =~= Map::<Name, AVal>::empty()); }'},
                     {'id': 'context_denoted', 'op': 'before', 'anchor': 'Ok(WrappedValue(value_from_context(ctx)))',
                      'text': 'proof { assert(input_pairs(items@).subrange(0, items@.len() as int) =~= input_pairs(items@)); lemma_abs_ctx(ctx); }'}],
            ensures=[('reads_what_the_inputs_denote', 'dec_ok(r, den_inputs(items@))')]),
    ],
}

ASSUMPTIONS = ['A-text: the text form of a typed scalar (Display of Value) is read back as that value by Value::try_from_xsd_<reader of its kind>, and Name::to_string is read back by parse_longest_name as that name (uninterpreted text_of / read_xsd / name_text / name_of_text; exercised on the real conversions by the bounded stand-in tck-dto-round-trip)',
               'A-derive: #[derive(Default)] on ValueDto gives three None fields and on FeelContext the empty context',
               'R21/R12: the methods of the TryFrom / From impls are verified as free functions and each try_from / try_into / into call is replaced by a call of the function rustc resolves it to (a change of the argument type makes the unit undecided, not verified)',
               'R23: a match on string literals is rewritten to guards over string_is(text, literal) (literal equality assumed to be text equality)',
               'values are compared through abs: strings by their characters, contexts by their entries, lists by their items, nulls regardless of their diagnostic message']
