"""Unit `recognizer`: recognizer/src (rect, point, canvas search primitives, plane accessors, orientation) (C19)."""
import os, re, sys
sys.path.insert(0, os.path.dirname(os.path.abspath(__file__)))
from vf import build as VB
RC = 'recognizer/src/rect.rs'
PT = 'recognizer/src/point.rs'
CV = 'recognizer/src/canvas.rs'
PL = 'recognizer/src/plane.rs'
RG = 'recognizer/src/recognizer.rs'
ER = 'recognizer/src/errors.rs'
P = ['C19']
A = ['C19', 'C05']

def error_stubs():
    """signatures of the error constructors of recognizer/src/errors.rs, bodies dropped (opaque DmntkError)"""
    t = open(os.path.join(VB.REPO, ER), encoding='utf-8').read()
    out = []
    for m in re.finditer(r'pub fn (\w+)\(([^)]*)\) -> DmntkError \{', t):
        out.append('#[verifier::external_body] pub fn %s(%s) -> DmntkError { unimplemented!() }' % (m.group(1), m.group(2)))
    return '\n'.join(out)

def fn(src, impl, name, **kw):
    d = {'kind': 'fn', 'src': src, 'path': ('impl %s::fn %s' % (impl, name)) if impl else 'fn ' + name, 'key': 'recognizer::%s%s' % ((impl + '::') if impl else '', name),
         'props': P, 'auto_props': A, 'loops': 0, 'sig_rewrite': [(r'^(\s*)(pub )?fn ', r'\1pub fn ')]}
    if impl:
        d['impl_header'] = 'impl %s {' % impl
    d.update(kw)
    return d

WF0 = 'cv_wf(*old(self))'
KEEP = 'final(self).content == old(self).content && cv_wf(*final(self))'
MOVE = 'only_cursor(*old(self), *final(self)) && cv_wf(*final(self))'
LAYER = 'layer < LAYER_COUNT'
FOUND = ('r is Ok ==> r->Ok_0.1 == final(self).cursor && in_grid(*old(self), r->Ok_0.1) && at(old(self).content@, r->Ok_0.1.x as int, r->Ok_0.1.y as int, layer as int) == r->Ok_0.0 && among(searched@, r->Ok_0.0)')
ERRKEEP = 'r is Err ==> final(self).cursor == old(self).cursor'
CHAR = 'proof { axiom_char_eq(); }'
RN = [('RX', 'R11', r'let text = text\.trim\(\);\s*if let Ok\(rule_number\) = usize::from_str\(text\) \{', 'if let Ok(rule_number) = rule_number_from(text) {', 1)]
VLEN = 'broadcast use axiom_vec_len_fits, axiom_plane_rows_fit, axiom_plane_cells_fit;'
FMT = ('RX', 'R5', r'&format!\("row=\{\} col=\{\} cell=\{:\?\}", row, col, cell\)', '""', 1)
BODY0 = 'old(self).body_rect is Some ==> (old(self).body_rect->Some_0.left < old(self).body_rect->Some_0.right <= grid_w(old(self).content@) && old(self).body_rect->Some_0.top < old(self).body_rect->Some_0.bottom <= old(self).content@.len())'
PAINT = 'text_kept(old(self).content@, final(self).content@) && grid_rect(final(self).content@) && only_content(*old(self), *final(self))'
PAINT_INV = 'text_kept(old(self).content@, self.content@) && only_content(*old(self), *self)'
RECT_OK = ('r is Ok ==> r->Ok_0.left == top_left.x && r->Ok_0.top == top_left.y && r->Ok_0.left + 1 < r->Ok_0.right <= grid_w(old(self).content@) && r->Ok_0.top + 1 < r->Ok_0.bottom <= old(self).content@.len()')

def search_dir(name, var, forward):
    """contract of a directional search: var 'x' (row scan) or 'y' (column scan); forward: towards larger coordinates"""
    other = 'y' if var == 'x' else 'x'
    c = 'old(self).cursor.%s' % var          # start coordinate
    cs = 'self.cursor.%s' % var
    def at(cv, j):
        return 'at(%s, %s, %s, layer as int)' % ((cv, j, 'old(self).cursor.y as int') if var == 'x' else (cv, 'old(self).cursor.x as int', j))
    def at_s(j):
        return 'at(self.content@, %s, %s, layer as int)' % ((j, 'y as int') if var == 'x' else ('x as int', j))
    limit = 'grid_w(old(self).content@)' if var == 'x' else 'old(self).content@.len()'
    limit_s = 'grid_w(self.content@)' if var == 'x' else 'self.content@.len()'
    p = 'r->Ok_0.1.%s' % var
    if forward:
        between = lambda j, k: '%s < %s < %s' % (c, j, k)
        ahead = lambda k: '%s < %s < %s' % (c, k, limit)
        scanned = '%s <= %s < %s && forall |j: int| %s < j <= %s ==> among(allowed@, #[trigger] %s) && !among(searched@, %s)' % (cs, var, limit_s, cs, var, at_s('j'), at_s('j'))
        moved = '%s > %s' % (p, c)
        dec = '%s - %s' % (limit_s, var)
    else:
        between = lambda j, k: '%s < %s < %s' % (k, j, c)
        ahead = lambda k: '0 <= %s < %s' % (k, c)
        scanned = '%s <= %s && forall |j: int| %s <= j < %s ==> among(allowed@, #[trigger] %s) && !among(searched@, %s)' % (var, cs, var, cs, at_s('j'), at_s('j'))
        moved = '%s < %s' % (p, c)
        dec = var
    same = 'r->Ok_0.1.%s == old(self).cursor.%s' % (other, other)
    return fn(CV, 'Canvas', name, ret='r', loops=1, body_prefix=CHAR,
              requires=[('wf', WF0), ('layer', LAYER), ('row_not_empty', 'grid_w(old(self).content@) > 0')],
              ensures=[('only_cursor_moves', MOVE), ('found', FOUND), ('error_keeps_cursor', ERRKEEP), ('direction', 'r is Ok ==> %s && %s' % (same, moved)),
                       ('only_allowed_between', 'r is Ok ==> forall |j: int| %s ==> among(allowed@, #[trigger] %s)' % (between('j', p), at('old(self).content@', 'j'))),
                       ('nearest', 'r is Ok ==> forall |j: int| %s ==> !among(searched@, #[trigger] %s)' % (between('j', p), at('old(self).content@', 'j'))),
                       ('found_whenever_reachable', 'r is Err ==> forall |k: int| %s && among(searched@, %s) ==> exists |j: int| %s && !among(allowed@, #[trigger] %s) && !among(searched@, %s)'
                        % (ahead('k'), at('old(self).content@', 'k'), between('j', 'k'), at('old(self).content@', 'j'), at('old(self).content@', 'j')))],
              loop_specs={0: {'invariant': [('grid', 'only_cursor(*old(self), *self) && self.cursor == old(self).cursor && cv_wf(*self) && grid_w(self.content@) > 0 && layer < LAYER_COUNT && %s == self.cursor.%s' % (other, other)),
                                            ('scanned', scanned)],
                              'decreases': dec, 'body_prefix': CHAR}},
              splices=[{'id': 'blocked', 'op': 'before', 'anchor': 'return Err(canvas_character_is_not_allowed(ch, allowed.to_vec()));',
                        'text': 'proof { let jj = %s as int; assert(!among(allowed@, %s) && !among(searched@, %s)); }' % (var, at_s('jj'), at_s('jj'))}])

def crossing(name, variant):
    return fn(PL, 'Plane', name, ret='r', loops=2, rewrites=[('R1', 1), ('R1', 0)],
              ensures=[('first_crossing', 'r is Some ==> %s(*self, r->Some_0)' % {'HorizontalDoubleCrossing': 'first_horz', 'VerticalDoubleCrossing': 'first_vert'}[variant]), ('none', 'r is None ==> no_cell(*self, |c: Cell| c is %s)' % variant)],
              loop_specs={0: {'invariant': [('none_above', 'forall |yy: int, xx: int| pl_in(*self, yy, xx) && yy < y ==> !(#[trigger] pl(*self, yy, xx) is %s)' % variant)]},
                          1: {'invariant': [('row', 'y < self.content@.len() && *row == self.content@[y as int]'),
                                            ('none_before', 'forall |yy: int, xx: int| pl_in(*self, yy, xx) && before(yy, xx, y as int, x as int) ==> !(#[trigger] pl(*self, yy, xx) is %s)' % variant)]}})

UNIT = {
    'name': 'recognizer',
    'uses': [],
    'parts': [
        {'kind': 'item', 'src': PT, 'path': 'struct Point'},
        {'kind': 'item', 'src': PT, 'path': 'const POINT_ZERO'},
        {'kind': 'item', 'src': PT, 'path': 'type Points'},
        {'kind': 'item', 'src': RC, 'path': 'struct Rect'},
        {'kind': 'item', 'src': RC, 'path': 'type Rectangles'},
        {'kind': 'item', 'src': CV, 'path': 'const LAYER_COUNT'},
        {'kind': 'item', 'src': CV, 'path': 'type Layer'},
        {'kind': 'item', 'src': CV, 'path': 'const LAYER_TEXT'},
        {'kind': 'item', 'src': CV, 'path': 'const LAYER_THIN'},
        {'kind': 'item', 'src': CV, 'path': 'const LAYER_BODY'},
        {'kind': 'item', 'src': CV, 'path': 'const LAYER_GRID'},
        {'kind': 'item', 'src': CV, 'path': 'const CHAR_WHITE'},
        {'kind': 'item', 'src': CV, 'path': 'const CHAR_OUTER'},
        {'kind': 'item', 'src': CV, 'path': 'const CORNERS_TOP_LEFT'},
        {'kind': 'item', 'src': CV, 'path': 'const CORNERS_TOP_RIGHT'},
        {'kind': 'item', 'src': CV, 'path': 'const CORNERS_BOTTOM_RIGHT'},
        {'kind': 'item', 'src': CV, 'path': 'const CORNERS_BOTTOM_LEFT'},
        {'kind': 'item', 'src': CV, 'path': 'type Layers'},
        {'kind': 'item', 'src': CV, 'path': 'struct Canvas',
         'rewrites': [('RX', 'R7', r'\n  (content|cursor|cross|cross_horz|cross_vert|body_rect):', r'\n  pub \1:', 6)]},
        {'kind': 'item', 'src': RC, 'path': 'const RECT_ZERO'},
        {'kind': 'item', 'src': 'model/src/model/mod.rs', 'path': 'enum BuiltinAggregator'},
        {'kind': 'item', 'src': 'model/src/model/mod.rs', 'path': 'enum HitPolicy'},
        {'kind': 'item', 'src': 'model/src/model/mod.rs', 'path': 'enum DecisionTableOrientation'},
        {'kind': 'item', 'src': PL, 'path': 'enum Cell'},
        {'kind': 'item', 'src': PL, 'path': 'enum HitPolicyPlacement'},
        {'kind': 'item', 'src': PL, 'path': 'enum RuleNumbersPlacement'},
        {'kind': 'item', 'src': PL, 'path': 'struct Plane', 'rewrites': [('RX', 'R7', r'\n  content:', r'\n  pub content:', 1)]},
        {'kind': 'item', 'src': RG, 'path': 'struct Recognizer'},
        {'kind': 'vrs', 'file': 'recognizer/prelude.vrs'},
        {'kind': 'text', 'note': 'error constructors of recognizer/src/errors.rs: signatures extracted, bodies dropped', 'text': error_stubs()},
        {'kind': 'vrs', 'file': 'recognizer/spec.vrs'},
        fn(PT, 'Point', 'new', ret='r', ensures=[('coords', 'r.x == x && r.y == y')]),
        fn(PT, 'Point', 'overlays', ret='r', ensures=[('same_position', 'r == (*self == p)')]),
        fn(PT, 'Point', 'unwrap', ret='r', ensures=[('coords', 'r == (self.x, self.y)')]),
        fn(RC, 'Rect', 'new', ret='r', ensures=[('coords', 'r.left == left && r.top == top && r.right == right && r.bottom == bottom')]),
        fn(RC, 'Rect', 'inc_top', ret='r', requires=[('no_overflow', 'self.top + offset <= usize::MAX')],
           ensures=[('moved_top', 'r.left == self.left && r.top == self.top + offset && r.right == self.right && r.bottom == self.bottom')]),
        fn(RC, 'Rect', 'unpack', ret='r', ensures=[('coords', 'r == (self.left, self.top, self.right, self.bottom)')]),
        fn(RC, 'Rect', 'contains', ret='res', ensures=[('inclusion', 'res == (r.left >= self.left && r.top >= self.top && r.right <= self.right && r.bottom <= self.bottom)')]),
        fn(RC, 'Rect', 'width', ret='r', requires=[('ordered', 'self.left <= self.right')], ensures=[('width', 'r == self.right - self.left')]),
        fn(RC, 'Rect', 'height', ret='r', requires=[('ordered', 'self.top <= self.bottom')], ensures=[('height', 'r == self.bottom - self.top')]),
        fn(CV, 'Canvas', 'move_to', requires=[('grid', 'grid_rect(old(self).content@)')],
           ensures=[('only_cursor_moves', MOVE), ('clamped', 'final(self).cursor.y == (if point.y < old(self).content@.len() { point.y as int } else { old(self).content@.len() - 1 }) '
                                                  '&& final(self).cursor.x == (if point.x < grid_w(old(self).content@) { point.x as int } else if grid_w(old(self).content@) > 0 { grid_w(old(self).content@) - 1 } else { 0 })')]),
        fn(CV, 'Canvas', 'search', ret='r', loops=3, body_prefix=CHAR,
           requires=[('wf', WF0), ('layer', LAYER)],
           ensures=[('only_cursor_moves', MOVE), ('found', FOUND), ('error_keeps_cursor', ERRKEEP)],
           loop_specs={0: {'invariant': [('grid', 'only_cursor(*old(self), *self) && self.cursor == old(self).cursor && cv_wf(*self) && layer < LAYER_COUNT && x == self.cursor.x && y == self.cursor.y && y < self.content@.len()')], 'body_prefix': CHAR},
                       1: {'invariant': [('grid', 'only_cursor(*old(self), *self) && self.cursor == old(self).cursor && cv_wf(*self) && layer < LAYER_COUNT && y == self.cursor.y')], 'body_prefix': CHAR},
                       2: {'invariant': [('grid', 'only_cursor(*old(self), *self) && self.cursor == old(self).cursor && cv_wf(*self) && layer < LAYER_COUNT && r < self.content@.len()')], 'body_prefix': CHAR}}),
        search_dir('search_up', 'y', False), search_dir('search_left', 'x', False), search_dir('search_right', 'x', True), search_dir('search_down', 'y', True),
        fn(CV, 'Canvas', 'close_rectangle', ret='r',
           requires=[('fits', 'bottom_right.x < usize::MAX && bottom_right.y < usize::MAX')],
           ensures=[('closed', 'r is Ok ==> closing == top_left && r->Ok_0 == (Rect { left: top_left.x, top: top_left.y, right: (bottom_right.x + 1) as usize, bottom: (bottom_right.y + 1) as usize })'),
                    ('not_closed', 'r is Err ==> closing != top_left')]),
        fn(CV, 'Canvas', 'recognize_region', ret='r', rewrites=[('R17',)], body_prefix=CHAR,
           requires=[('wf', WF0), ('layer', LAYER), ('row_not_empty', 'grid_w(old(self).content@) > 0')],
           ensures=[('grid_kept', KEEP), ('rect_inside_grid', RECT_OK)]),
        fn(CV, 'Canvas', 'recognize_rectangle', ret='r', rewrites=[('R17',)], body_prefix=CHAR,
           requires=[('wf', WF0), ('layer', LAYER), ('row_not_empty', 'grid_w(old(self).content@) > 0')],
           ensures=[('grid_kept', KEEP), ('rect_inside_grid', RECT_OK)]),
        fn(CV, 'Canvas', 'recognize_body_rect', ret='r', rewrites=[('R17',)], body_prefix=CHAR,
           requires=[('wf', WF0)],
           ensures=[('grid_kept', KEEP), ('rect_inside_grid', 'r is Ok ==> r->Ok_0.left < r->Ok_0.right <= grid_w(old(self).content@) && r->Ok_0.top < r->Ok_0.bottom <= old(self).content@.len()')]),
        fn(CV, 'Canvas', 'recognize_crossings', ret='r', rewrites=[('R17',)],
           body_prefix=CHAR + '\nproof { assert(forall |c: char| among([\'╬\']@, c) <==> c == \'╬\'); assert(forall |c: char| among([\'═\', \'╪\']@, c) <==> (c == \'═\' || c == \'╪\')); '
                              'assert(forall |c: char| among([\'║\', \'╫\']@, c) <==> (c == \'║\' || c == \'╫\')); }',
           requires=[('wf', WF0), ('fresh', 'old(self).cross_horz is None && old(self).cross_vert is None')],
           ensures=[('grid_kept', KEEP),
                    ('main_crossing_is_a_double_crossing', 'r is Ok ==> final(self).cross is Some && in_grid(*old(self), final(self).cross->Some_0) && at(old(self).content@, final(self).cross->Some_0.x as int, final(self).cross->Some_0.y as int, 0) == \'╬\''),
                    ('annotation_crossing_right_of_the_main_one', '(r is Ok && final(self).cross_horz is Some) ==> final(self).cross_horz->Some_0.y == final(self).cross->Some_0.y && dbl_right(*old(self), final(self).cross->Some_0, final(self).cross_horz->Some_0.x as int)'),
                    ('annotation_crossing_found_whenever_drawn', '(r is Ok && exists |k: int| dbl_right(*old(self), final(self).cross->Some_0, k)) ==> final(self).cross_horz is Some'),
                    ('annotation_crossing_below_the_main_one', '(r is Ok && final(self).cross_vert is Some) ==> final(self).cross_vert->Some_0.x == final(self).cross->Some_0.x && dbl_down(*old(self), final(self).cross->Some_0, final(self).cross_vert->Some_0.y as int)'),
                    ('annotation_crossing_below_found_whenever_drawn', '(r is Ok && exists |k: int| dbl_down(*old(self), final(self).cross->Some_0, k)) ==> final(self).cross_vert is Some'),
                    ('crossings_inside_grid', 'r is Ok ==> final(self).cross is Some && in_grid(*old(self), final(self).cross->Some_0) '
                                          '&& (final(self).cross_horz is Some ==> in_grid(*old(self), final(self).cross_horz->Some_0)) && (final(self).cross_vert is Some ==> in_grid(*old(self), final(self).cross_vert->Some_0))')]),
        fn(CV, 'Canvas', 'text_from_rect', ret='res', loops=2,
           rewrites=[('RX', 'R18', r'for row in self\.content\[\(r\.top \+ 1\)\.\.\(r\.bottom - 1\)\]\.iter\(\) \{',
                      'proof { assert(r.top + 1 <= r.bottom - 1 <= self.content@.len()); } /* R18: slice range bounds */\n    for row_i in (r.top + 1)..(r.bottom - 1) { let row = &self.content[row_i];', 1),
                     ('RX', 'R18', r'for column in row\[\(r\.left \+ 1\)\.\.\(r\.right - 1\)\]\.iter\(\) \{',
                      'proof { assert(r.left + 1 <= r.right - 1 <= row@.len()); } /* R18: slice range bounds */\n      for col_i in (r.left + 1)..(r.right - 1) { let column = &row[col_i];', 1)],
           requires=[('grid', 'grid_rect(self.content@)'), ('layer', LAYER), ('rect_inside_grid', 'r.left + 1 < r.right <= grid_w(self.content@) && r.top + 1 < r.bottom <= self.content@.len()')],
           loop_specs={0: {'invariant': [('grid', 'grid_rect(self.content@) && layer < LAYER_COUNT && r.left + 1 < r.right <= grid_w(self.content@) && r.top + 1 < r.bottom <= self.content@.len()')]},
                       1: {'invariant': [('grid', 'grid_rect(self.content@) && layer < LAYER_COUNT && r.left + 1 < r.right <= grid_w(self.content@) && row@.len() == grid_w(self.content@)')]}}),
        fn(CV, 'Canvas', 'recognize_information_item_name', ret='r', rewrites=[('R17',)], body_prefix=CHAR,
           requires=[('wf', 'grid_rect(old(self).content@)')],
           ensures=[('grid_kept', KEEP)]),
        fn(CV, 'Canvas', 'find_top_left_corners', ret='r', loops=2, body_prefix=CHAR,
           requires=[('grid', 'grid_rect(self.content@)'), ('layer', LAYER)],
           ensures=[('corners_inside_grid', 'forall |i: int| 0 <= i < r@.len() ==> in_grid(*self, #[trigger] r@[i])')],
           loop_specs={0: {'invariant': [('grid', 'grid_rect(self.content@) && layer < LAYER_COUNT'), ('inside', 'forall |i: int| 0 <= i < points@.len() ==> in_grid(*self, #[trigger] points@[i])')], 'body_prefix': CHAR},
                       1: {'invariant': [('grid', 'grid_rect(self.content@) && layer < LAYER_COUNT && y < self.content@.len()'), ('inside', 'forall |i: int| 0 <= i < points@.len() ==> in_grid(*self, #[trigger] points@[i])')], 'body_prefix': CHAR}}),
        fn(CV, 'Canvas', 'recognize_regions', ret='r', loops=1,
           rewrites=[('RX', 'R14', r'let mut rectangles = vec!\[\];', 'let mut rectangles: Vec<Rect> = vec![];', 1)],
           requires=[('wf', WF0)],
           ensures=[('grid_kept', KEEP), ('regions_inside_grid', 'r is Ok ==> forall |i: int| 0 <= i < r->Ok_0@.len() ==> rect_in_grid(*old(self), #[trigger] r->Ok_0@[i])')],
           loop_specs={0: {'iter_name': 'itp', 'invariant': [('grid', 'self.content == old(self).content && cv_wf(*self) && layer < LAYER_COUNT'),
                                         ('points', 'forall |i: int| 0 <= i < itp.seq().len() ==> in_grid(*old(self), #[trigger] itp.seq()[i])'),
                                         ('inside', 'forall |i: int| 0 <= i < rectangles@.len() ==> rect_in_grid(*old(self), #[trigger] rectangles@[i])')]}}),
        fn(CV, 'Canvas', 'plane', ret='r', loops=5, body_prefix=CHAR + '\n' + VLEN,
           rewrites=[('R1', 4), ('RX', 'R11', r'let mut plane: Plane = Default::default\(\);', 'let mut plane: Plane = plane_default();', 1),
                     # R27: a counted for loop whose body uses `continue` -> the same loop as a while, the counter advanced at the top of the body (Verus has no `continue` in for loops)
                     ('RX', 'R27', r'for i in 0\.\.width \{', 'let mut i_: usize = 0;\n          while i_ < width {\n            let i = i_; i_ += 1;', 2),
                     ('RX', 'R14', r'let mut cross_col = None;', 'let mut cross_col: Option<usize> = None;', 1),
                     ('RX', 'R14', r'let mut cross_horz_col = None;', 'let mut cross_horz_col: Option<usize> = None;', 1),
                     ('RX', 'R14', r'let mut row = 0;', 'let mut row: usize = 0;', 1), ('RX', 'R14', r'let mut col;', 'let mut col: usize;', 1), ('RX', 'R14', r'let mut width = 0;', 'let mut width: usize = 0;', 1)],
           requires=[('wf', WF0)],
           ensures=[('grid_kept', 'final(self).content == old(self).content')],
           loop_specs={0: {'iter_name': 'ity', 'body_prefix': CHAR + '\n' + VLEN + '\nproof { assert(y == ity.seq()[ity.index@ as int]); assert(y < self.content@.len()); }', 'invariant': [('rows', 'ity.seq().len() == old(self).content@.len() && forall |j: int| 0 <= j < ity.seq().len() ==> #[trigger] ity.seq()[j] == j'), ('grid', 'self.content == old(self).content && cv_wf(*self)'), ('regions_inside', 'forall |i: int| 0 <= i < regions@.len() ==> rect_in_grid(*old(self), #[trigger] regions@[i])'), ('current_row_exists', 'plane.content@.len() == row + 1')]},
                       1: {'body_prefix': CHAR + '\n' + VLEN, 'invariant': [('grid', 'self.content == old(self).content && cv_wf(*self)'), ('regions_inside', 'forall |i: int| 0 <= i < regions@.len() ==> rect_in_grid(*old(self), #[trigger] regions@[i])'), ('current_row_exists', 'plane.content@.len() == row + 1'), ('row_of_the_grid', 'y < self.content@.len()'), ('counter', 'i_ <= width')], 'decreases': 'width - i_'},
                       2: {'body_prefix': CHAR + '\n' + VLEN, 'invariant': [('grid', 'self.content == old(self).content && cv_wf(*self)'), ('regions_inside', 'forall |i: int| 0 <= i < regions@.len() ==> rect_in_grid(*old(self), #[trigger] regions@[i])'), ('current_row_exists', 'plane.content@.len() == row + 1'), ('row_of_the_grid', 'y < self.content@.len()'), ('counter', 'i_ <= width')], 'decreases': 'width - i_'},
                       3: {'iter_name': 'itx', 'body_prefix': CHAR + '\n' + VLEN + '\nproof { assert(x == itx.seq()[itx.index@ as int]); assert(x < self.content@[y as int]@.len()); assert(grid_w(self.content@) == self.content@[y as int]@.len()); }', 'invariant': [('columns', 'itx.seq().len() == old(self).content@[y as int]@.len() && forall |j: int| 0 <= j < itx.seq().len() ==> #[trigger] itx.seq()[j] == j'), ('grid', 'self.content == old(self).content && cv_wf(*self)'), ('regions_inside', 'forall |i: int| 0 <= i < regions@.len() ==> rect_in_grid(*old(self), #[trigger] regions@[i])'), ('current_row_exists', 'plane.content@.len() == row + 1'), ('row_of_the_grid', 'y < self.content@.len()'), ('cells_counted', 'col <= plane.content@[row as int]@.len()')]},
                       4: {'body_prefix': CHAR + '\n' + VLEN, 'invariant': [('grid', 'self.content == old(self).content && cv_wf(*self)'), ('regions_inside', 'forall |i: int| 0 <= i < regions@.len() ==> rect_in_grid(*old(self), #[trigger] regions@[i])'), ('current_row_exists', 'plane.content@.len() == row + 1'), ('row_of_the_grid', 'y < self.content@.len() && x < self.content@[y as int]@.len()'), ('cells_counted', 'col <= plane.content@[row as int]@.len()'),
                                                              ('the_rectangle', 'rect_in_grid(*old(self), rect)'), ('a_found_region_is_a_cell', 'found ==> col < plane.content@[row as int]@.len()')]}}),
        fn(CV, 'Canvas', 'copy_layer', loops=2,
           requires=[('grid', 'grid_rect(old(self).content@)'), ('layers', 'src < LAYER_COUNT && 1 <= dst < LAYER_COUNT')],
           ensures=[('text_layer_kept', PAINT)],
           loop_specs={0: {'invariant': [('grid', 'grid_rect(self.content@) && src < LAYER_COUNT && 1 <= dst < LAYER_COUNT'), ('kept', PAINT_INV)]},
                       1: {'iter_name': 'itx', 'invariant': [('grid', 'grid_rect(self.content@) && src < LAYER_COUNT && 1 <= dst < LAYER_COUNT && y < self.content@.len() && itx.seq().len() == self.content@[y as int]@.len()'), ('kept', PAINT_INV)]}}),
        fn(CV, 'Canvas', 'prepare_regions', loops=2,
           rewrites=[('RX', 'R1m', r'for row in self\.content\.iter_mut\(\) \{', 'for row_i in 0..self.content.len() {', 1),
                     ('RX', 'R1m', r'for col in row\.iter_mut\(\) \{', 'for col_i in 0..self.content[row_i].len() {', 1),
                     ('RX', 'R1m', r'\bcol\[', 'self.content[row_i][col_i][', None)],
           requires=[('grid', 'grid_rect(old(self).content@)'), ('layers', 'src < LAYER_COUNT && 1 <= dst < LAYER_COUNT')],
           ensures=[('text_layer_kept', PAINT)],
           loop_specs={0: {'invariant': [('grid', 'grid_rect(self.content@) && src < LAYER_COUNT && 1 <= dst < LAYER_COUNT'), ('kept', PAINT_INV)]},
                       1: {'iter_name': 'itx', 'invariant': [('grid', 'grid_rect(self.content@) && src < LAYER_COUNT && 1 <= dst < LAYER_COUNT && row_i < self.content@.len() && itx.seq().len() == self.content@[row_i as int]@.len()'), ('kept', PAINT_INV)]}}),
        fn(CV, 'Canvas', 'remove_information_item_region', loops=6,
           requires=[('grid', 'grid_rect(old(self).content@)'), ('layers', 'src < LAYER_COUNT && 1 <= dst < LAYER_COUNT'), ('body_inside_grid', BODY0)],
           ensures=[('text_layer_kept', PAINT)],
           loop_specs={k: {'invariant': [('grid', 'grid_rect(self.content@) && src < LAYER_COUNT && 1 <= dst < LAYER_COUNT && left < right <= grid_w(self.content@) && top < bottom <= self.content@.len()' + extra), ('kept', PAINT_INV)]}
                       for (k, extra) in [(0, ''), (1, ' && y < top'), (2, ' && y < top && left <= x < right'), (3, ''), (4, ''), (5, ' && top < y < bottom')]}),
        fn(CV, 'Canvas', 'make_grid', loops=6,
           rewrites=[('RX', 'R19', r'match self\.content\[y\]\[x\]\[dst\] \{', 'let cell_ = self.content[y][x][dst]; match cell_ {', 2)],
           requires=[('grid', 'grid_rect(old(self).content@)'), ('layers', 'src < LAYER_COUNT && 1 <= dst < LAYER_COUNT'), ('body_inside_grid', BODY0)],
           ensures=[('text_layer_kept', PAINT)],
           loop_specs={k: {'invariant': [('grid', 'grid_rect(self.content@) && src < LAYER_COUNT && 1 <= dst < LAYER_COUNT && left < right <= grid_w(self.content@) && top < bottom <= self.content@.len()' + extra), ('kept', PAINT_INV)]}
                       for (k, extra) in [(0, ''), (1, ' && top <= y < bottom'), (2, ' && top <= y < bottom'), (3, ''), (4, ' && left <= x < right'), (5, ' && left <= x < right')]}),
        fn(PL, 'Cell', 'is_main_double_crossing', ret='r', ensures=[('variant', 'r == (*self is MainDoubleCrossing)')]),
        fn(PL, 'Cell', 'is_horizontal_double_crossing', ret='r', ensures=[('variant', 'r == (*self is HorizontalDoubleCrossing)')]),
        fn(PL, 'Cell', 'is_vertical_double_crossing', ret='r', ensures=[('variant', 'r == (*self is VerticalDoubleCrossing)')]),
        fn(PL, 'HitPolicyPlacement', 'is_top_left', ret='r', ensures=[('variant', 'r == (*self is TopLeft)')]),
        fn(PL, 'HitPolicyPlacement', 'is_bottom_left', ret='r', ensures=[('variant', 'r == (*self is BottomLeft)')]),
        fn(PL, 'HitPolicyPlacement', 'hit_policy', ret='r', ensures=[('the_marker_drawn', 'r == placement_policy(*self)')]),
        fn(PL, 'RuleNumbersPlacement', 'is_left_below', ret='r', ensures=[('variant', 'r == (*self is LeftBelow)')]),
        fn(PL, 'RuleNumbersPlacement', 'is_right_after', ret='r', ensures=[('variant', 'r == (*self is RightAfter)')]),
        fn(PL, 'RuleNumbersPlacement', 'is_not_present', ret='r', ensures=[('variant', 'r == (*self is NotPresent)')]),
        fn(PL, 'RuleNumbersPlacement', 'rule_count', ret='r', ensures=[('count', 'r == placement_count(*self)')]),
        fn(PL, 'Plane', 'add_row', ensures=[('row_added', 'final(self).content@.len() == old(self).content@.len() + 1 && final(self).content@.last()@.len() == 0 && final(self).content@.drop_last() =~= old(self).content@')]),
        fn(PL, 'Plane', 'add_cell', requires=[('row_exists', 'row < old(self).content@.len()')],
           ensures=[('cell_appended', 'final(self).content@.len() == old(self).content@.len() && final(self).content@[row as int]@ =~= old(self).content@[row as int]@.push(cell) '
                                      '&& forall |r: int| 0 <= r < old(self).content@.len() && r != row ==> final(self).content@[r] == old(self).content@[r]')]),
        fn(PL, 'Plane', 'cell', ret='r',
           ensures=[('in_range', 'pl_in(*self, row as int, col as int) ==> r is Ok && *r->Ok_0 == pl(*self, row as int, col as int)'), ('out_of_range_is_an_error', '!pl_in(*self, row as int, col as int) ==> r is Err')]),
        fn(PL, 'Plane', 'region_text', ret='r', rewrites=[FMT],
           ensures=[('text_of_region', 'r is Ok ==> pl_in(*self, row as int, col as int) && pl(*self, row as int, col as int) is Region && r->Ok_0@ == pl(*self, row as int, col as int)->Region_2@'),
                    ('otherwise_error', 'r is Err <==> !(pl_in(*self, row as int, col as int) && pl(*self, row as int, col as int) is Region)')]),
        fn(PL, 'Plane', 'region_number', ret='r', rewrites=[FMT],
           ensures=[('number_of_region', 'r is Ok ==> pl_in(*self, row as int, col as int) && pl(*self, row as int, col as int) is Region && r->Ok_0 == pl(*self, row as int, col as int)->Region_0'),
                    ('otherwise_error', 'r is Err <==> !(pl_in(*self, row as int, col as int) && pl(*self, row as int, col as int) is Region)')]),
        fn(PL, 'Plane', 'row_len', ret='r', requires=[('row_exists', 'row < self.content@.len()')], ensures=[('len', 'r == self.content@[row as int]@.len()')]),
        fn(PL, 'Plane', 'width', ret='r', ensures=[('width', 'r == (if self.content@.len() == 0 { 0 } else { self.content@[0]@.len() })')]),
        fn(PL, 'Plane', 'height', ret='r', ensures=[('height', 'r == self.content@.len()')]),
        fn(PL, 'Plane', 'remove_last_row', ensures=[('last_row_removed', 'old(self).content@.len() > 0 ==> final(self).content@ =~= old(self).content@.drop_last()'), ('empty_stays', 'old(self).content@.len() == 0 ==> final(self).content@ =~= old(self).content@')]),
        # (after fix: finalize checks that the plane is rectangular - the maintainer's TODO; this discharges, at its source, what the rule
        # number recognition and pivot need from the plane)
        fn(PL, 'Plane', 'finalize', ret='r',
           rewrites=[('RX', 'R13', r'self\.content\.iter\(\)\.any\(\|row\| row\.len\(\) != width\)', 'some_row_len_differs(&self.content, width)', 1)],
           ensures=[('last_row_removed', 'final(self).content@ =~= (if old(self).content@.len() > 0 { old(self).content@.drop_last() } else { old(self).content@ })'),
                    ('an_accepted_plane_is_rectangular', 'r is Ok ==> rectangular(*final(self)) && rows_nonempty(*final(self))')]),
        fn(PL, 'Plane', 'pivot', loops=2, body_prefix=VLEN,
           rewrites=[('RX', 'R13', r'pivot_content\.last_mut\(\)\.unwrap\(\)\.push\(new_cell\);', 'push_to_last_row(&mut pivot_content, new_cell);', 1)],
           requires=[('rectangular', 'rectangular(*old(self))')],
           ensures=[('transposed_shape', 'final(self).content@.len() == old(self).content@[0]@.len() && forall |c: int| 0 <= c < final(self).content@.len() ==> (#[trigger] final(self).content@[c])@.len() == old(self).content@.len()')],
           loop_specs={0: {'invariant': [('rows_kept', 'self.content@.len() == old(self).content@.len() && self.content@.len() >= 1'),
                                         ('equal_lengths', 'forall |r: int| 0 <= r < self.content@.len() ==> (#[trigger] self.content@[r])@.len() == self.content@[0]@.len()'),
                                         ('columns_moved', 'pivot_content@.len() + self.content@[0]@.len() == old(self).content@[0]@.len()'),
                                         ('moved_columns_are_full', 'forall |c: int| 0 <= c < pivot_content@.len() ==> (#[trigger] pivot_content@[c])@.len() == old(self).content@.len()')],
                           'decreases': 'self.content@[0]@.len()', 'body_prefix': VLEN + '\nlet ghost w0 = self.content@[0]@.len();'},
                       1: {'iter_name': 'itr',
                           'invariant': [('rows_kept', 'self.content@.len() == old(self).content@.len() && self.content@.len() >= 1 && w0 >= 1 && itr.seq().len() == self.content@.len()'),
                                         ('heads_removed_so_far', 'forall |r: int| 0 <= r < self.content@.len() ==> (#[trigger] self.content@[r])@.len() == (if r < row { w0 - 1 } else { w0 as int })'),
                                         ('column_in_progress', 'pivot_content@.len() >= 1 && pivot_content@.last()@.len() == row && pivot_content@.len() + w0 == old(self).content@[0]@.len() + 1'),
                                         ('moved_columns_are_full', 'forall |c: int| 0 <= c < pivot_content@.len() - 1 ==> (#[trigger] pivot_content@[c])@.len() == old(self).content@.len()')],
                           'body_prefix': VLEN}}),
        fn(PL, 'Plane', 'main_double_crossing', ret='r', loops=2, rewrites=[('R1', 1), ('R1', 0)],
           ensures=[('first_main_crossing', 'r is Ok ==> first_main(*self, r->Ok_0)'), ('none', 'r is Err ==> no_cell(*self, |c: Cell| c is MainDoubleCrossing)')],
           loop_specs={0: {'invariant': [('none_above', 'forall |yy: int, xx: int| pl_in(*self, yy, xx) && yy < y ==> !(#[trigger] pl(*self, yy, xx) is MainDoubleCrossing)')]},
                       1: {'invariant': [('row', 'y < self.content@.len() && *row == self.content@[y as int]'),
                                         ('none_before', 'forall |yy: int, xx: int| pl_in(*self, yy, xx) && before(yy, xx, y as int, x as int) ==> !(#[trigger] pl(*self, yy, xx) is MainDoubleCrossing)')]}}),
        crossing('horizontal_double_crossing', 'HorizontalDoubleCrossing'),
        crossing('vertical_double_crossing', 'VerticalDoubleCrossing'),
        fn(PL, 'Plane', 'horz_input_clause_rect', ret='r',
           ensures=[('left_of_and_above_the_main_crossing', 'r is Ok ==> exists |p: Point| #[trigger] first_main(*self, p) && r->Ok_0 == (Rect { left: 0, top: 0, right: p.x, bottom: p.y })')]),
        fn(PL, 'Plane', 'horz_input_entries_rect', ret='r', body_prefix=VLEN,
           ensures=[('left_of_and_below_the_main_crossing', 'r is Ok ==> exists |p: Point| #[trigger] first_main(*self, p) && r->Ok_0 == (Rect { left: 0, top: (p.y + 1) as usize, right: p.x, bottom: self.content@.len() as usize })')]),
        fn(PL, 'Plane', 'recognize_hit_policy_placement', ret='r',
           rewrites=[('RX', 'R11', r'HitPolicy::try_from\(text\.as_str\(\)\)', 'hit_policy_try_from(text)', 2)],
           requires=[('first_and_last_row_not_empty', 'self.content@.len() > 0 ==> self.content@[0]@.len() > 0 && self.content@.last()@.len() > 0')],
           ensures=[('marker_in_top_left_corner', '(r is Ok && r->Ok_0 is TopLeft) ==> pl(*self, 0, 0) is Region && marker_policy(pl(*self, 0, 0)->Region_2@) == Some(r->Ok_0->TopLeft_0)'),
                    ('marker_in_bottom_left_corner', '(r is Ok && r->Ok_0 is BottomLeft) ==> pl(*self, self.content@.len() - 1, 0) is Region && marker_policy(pl(*self, self.content@.len() - 1, 0)->Region_2@) == Some(r->Ok_0->BottomLeft_0) '
                                                     '&& !(pl(*self, 0, 0) is Region && marker_policy(pl(*self, 0, 0)->Region_2@) is Some)'),
                    ('no_marker', '(r is Ok && r->Ok_0 is NotPresent) ==> !(pl(*self, 0, 0) is Region && marker_policy(pl(*self, 0, 0)->Region_2@) is Some) '
                                  '&& !(pl(*self, self.content@.len() - 1, 0) is Region && marker_policy(pl(*self, self.content@.len() - 1, 0)->Region_2@) is Some)'),
                    ('empty_plane_is_an_error', 'r is Err <==> self.content@.len() == 0')]),
        fn(PL, 'Plane', 'is_horizontal_output_double_line', ret='r', requires=[('cell_exists', 'pl_in(*self, row as int, col as int)')], ensures=[('variant', 'r == (pl(*self, row as int, col as int) is HorizontalOutputDoubleLine)')]),
        fn(PL, 'Plane', 'is_vertical_output_double_line', ret='r', requires=[('cell_exists', 'pl_in(*self, row as int, col as int)')], ensures=[('variant', 'r == (pl(*self, row as int, col as int) is VerticalOutputDoubleLine)')]),
        # (after fix: the search for the double line stops at the end of the plane: no precondition about a double line any more)
        fn(PL, 'Plane', 'recognize_horizontal_rule_numbers', ret='r', loops=2, rewrites=RN, body_prefix=VLEN,
           splices=[{'id': 'not_numbered_a', 'op': 'before', 'anchor': 'return Err(plane_invalid_rule_number(rule_number));', 'text': 'proof { assert forall |r0: int, n: int| numbered_rows(*self, r0, n) implies false by { let k = row - r0; if 1 <= k <= n { assert(numbered(pl(*self, r0 + k, 0), k)); } } }'},
                    {'id': 'not_numbered_b', 'op': 'before', 'anchor': 'return Ok(RuleNumbersPlacement::NotPresent);', 'nth': 0, 'text': 'proof { assert forall |r0: int, n: int| numbered_rows(*self, r0, n) implies false by { let k = row - r0; if 1 <= k <= n { assert(numbered(pl(*self, r0 + k, 0), k)); } } }'},
                    {'id': 'not_numbered_c', 'op': 'before', 'anchor': 'return Ok(RuleNumbersPlacement::NotPresent);', 'nth': 1, 'text': 'proof { assert forall |r0: int, n: int| numbered_rows(*self, r0, n) implies false by { let k = row - r0; if 1 <= k <= n { assert(numbered(pl(*self, r0 + k, 0), k)); } } }'}],
           requires=[('rows_not_empty', 'rows_nonempty(*self)')],
           ensures=[('numbered_1_to_n_below_the_double_line', '(r is Ok && r->Ok_0 is LeftBelow) ==> r->Ok_0->LeftBelow_0 >= 1 && exists |r0: int| #[trigger] hodl_row(*self, r0) && r0 + 1 + r->Ok_0->LeftBelow_0 == self.content@.len() '
                                                              '&& forall |k: int| 1 <= k <= r->Ok_0->LeftBelow_0 ==> numbered(#[trigger] pl(*self, r0 + k, 0), k)'),
                    ('never_right_after', 'r is Ok ==> !(r->Ok_0 is RightAfter)'),
                    ('no_double_line_no_rule_numbers', '(forall |r0: int| !#[trigger] hodl_row(*self, r0)) ==> r == Ok::<RuleNumbersPlacement, DmntkError>(RuleNumbersPlacement::NotPresent)'),
                    ('numbered_rows_are_recognised', 'forall |r0: int, n: int| #[trigger] numbered_rows(*self, r0, n) ==> r is Ok && r->Ok_0 == RuleNumbersPlacement::LeftBelow(n as usize)')],
           loop_specs={0: {'invariant': [('rows', 'rows_nonempty(*self) && row <= self.content@.len()'), ('none_above', 'forall |k: int| 0 <= k < row ==> !(#[trigger] pl(*self, k, 0) is HorizontalOutputDoubleLine)')],
                           'ensures': [('at_line_or_at_the_end', 'row <= self.content@.len() && (hodl_row(*self, row as int) || (row == self.content@.len() && forall |r0: int| !#[trigger] hodl_row(*self, r0)))')], 'decreases': 'self.content@.len() - row', 'body_prefix': VLEN},
                       1: {'invariant': [('rows', 'rows_nonempty(*self) && row <= self.content@.len() + 1'),
                                         ('line', '(row <= self.content@.len() && exists |r0: int| #[trigger] hodl_row(*self, r0) && row == r0 + 1 + max_rule_number && forall |k: int| 1 <= k <= max_rule_number ==> numbered(#[trigger] pl(*self, r0 + k, 0), k)) '
                                                  '|| (max_rule_number == 0 && row == self.content@.len() + 1 && forall |r0: int| !#[trigger] hodl_row(*self, r0))')],
                           'decreases': 'self.content@.len() + 1 - row', 'body_prefix': VLEN}}),
        fn(PL, 'Plane', 'recognize_vertical_rule_numbers', ret='r', loops=2, rewrites=RN, body_prefix=VLEN,
           splices=[{'id': 'not_numbered_a', 'op': 'before', 'anchor': 'return Err(plane_invalid_rule_number(rule_number));', 'text': 'proof { assert forall |c0: int, n: int| numbered_cols(*self, c0, n) implies false by { let k = col - c0; if 1 <= k <= n { assert(numbered(pl(*self, self.content@.len() - 1, c0 + k), k)); } } }'},
                    {'id': 'not_numbered_b', 'op': 'before', 'anchor': 'return Ok(RuleNumbersPlacement::NotPresent);', 'nth': 1, 'text': 'proof { assert forall |c0: int, n: int| numbered_cols(*self, c0, n) implies false by { let k = col - c0; if 1 <= k <= n { assert(numbered(pl(*self, self.content@.len() - 1, c0 + k), k)); } } }'},
                    {'id': 'not_numbered_c', 'op': 'before', 'anchor': 'return Ok(RuleNumbersPlacement::NotPresent);', 'nth': 2, 'text': 'proof { assert forall |c0: int, n: int| numbered_cols(*self, c0, n) implies false by { let k = col - c0; if 1 <= k <= n { assert(numbered(pl(*self, self.content@.len() - 1, c0 + k), k)); } } }'}],
           requires=[('rows_not_empty', 'rows_nonempty(*self)')],
           ensures=[('numbered_1_to_n_after_the_double_line', '(r is Ok && r->Ok_0 is RightAfter) ==> r->Ok_0->RightAfter_0 >= 1 && exists |c0: int| #[trigger] vodl_col(*self, c0) && c0 + 1 + r->Ok_0->RightAfter_0 == self.content@.last()@.len() '
                                                              '&& forall |k: int| 1 <= k <= r->Ok_0->RightAfter_0 ==> numbered(#[trigger] pl(*self, self.content@.len() - 1, c0 + k), k)'),
                    ('never_left_below', 'r is Ok ==> !(r->Ok_0 is LeftBelow)'),
                    ('no_double_line_no_rule_numbers', '(forall |c0: int| !#[trigger] vodl_col(*self, c0)) ==> r == Ok::<RuleNumbersPlacement, DmntkError>(RuleNumbersPlacement::NotPresent)'),
                    ('numbered_columns_are_recognised', 'forall |c0: int, n: int| #[trigger] numbered_cols(*self, c0, n) ==> r is Ok && r->Ok_0 == RuleNumbersPlacement::RightAfter(n as usize)')],
           loop_specs={0: {'invariant': [('rows', 'rows_nonempty(*self) && row == self.content@.len() - 1 && col <= self.content@.last()@.len()'), ('none_before', 'forall |k: int| 0 <= k < col ==> !(#[trigger] pl(*self, row as int, k) is VerticalOutputDoubleLine)')],
                           'ensures': [('at_line_or_at_the_end', 'col <= self.content@.last()@.len() && (vodl_col(*self, col as int) || (col == self.content@.last()@.len() && forall |c0: int| !#[trigger] vodl_col(*self, c0)))')], 'decreases': 'self.content@.last()@.len() - col', 'body_prefix': VLEN},
                       1: {'invariant': [('rows', 'rows_nonempty(*self) && row == self.content@.len() - 1 && col <= self.content@.last()@.len() + 1'),
                                         ('line', '(col <= self.content@.last()@.len() && exists |c0: int| #[trigger] vodl_col(*self, c0) && col == c0 + 1 + max_rule_number && forall |k: int| 1 <= k <= max_rule_number ==> numbered(#[trigger] pl(*self, row as int, c0 + k), k)) '
                                                  '|| (max_rule_number == 0 && col == self.content@.last()@.len() + 1 && forall |c0: int| !#[trigger] vodl_col(*self, c0))')],
                           'decreases': 'self.content@.last()@.len() + 1 - col', 'body_prefix': VLEN}}),
        fn(PL, 'Plane', 'recognize_rule_numbers_placement', ret='r',
           requires=[('rows_not_empty', 'rows_nonempty(*self)')],
           ensures=[('rules_as_rows_numbering_wins', 'forall |r0: int, n: int| #[trigger] numbered_rows(*self, r0, n) ==> r is Ok && r->Ok_0 == RuleNumbersPlacement::LeftBelow(n as usize)'),
                    ('left_below', '(r is Ok && r->Ok_0 is LeftBelow) ==> r->Ok_0->LeftBelow_0 >= 1 && exists |r0: int| #[trigger] hodl_row(*self, r0) && r0 + 1 + r->Ok_0->LeftBelow_0 == self.content@.len() '
                                   '&& forall |k: int| 1 <= k <= r->Ok_0->LeftBelow_0 ==> numbered(#[trigger] pl(*self, r0 + k, 0), k)'),
                    ('right_after', '(r is Ok && r->Ok_0 is RightAfter) ==> r->Ok_0->RightAfter_0 >= 1 && exists |c0: int| #[trigger] vodl_col(*self, c0) && c0 + 1 + r->Ok_0->RightAfter_0 == self.content@.last()@.len() '
                                    '&& forall |k: int| 1 <= k <= r->Ok_0->RightAfter_0 ==> numbered(#[trigger] pl(*self, self.content@.len() - 1, c0 + k), k)')]),
        fn(RG, 'Recognizer', 'recognize_orientation', ret='r',
           requires=[('rows_not_empty', 'rows_nonempty(old(self).plane)')],
           ensures=[('plane_kept', 'final(self).plane == old(self).plane'),
                    ('hit_policy_is_the_marker_drawn', 'r is Ok ==> final(self).hit_policy == placement_policy(final(self).hit_policy_placement)'),
                    ('rule_count_is_the_last_rule_number', 'r is Ok ==> final(self).rule_count == placement_count(final(self).rule_numbers_placement)'),
                    ('rules_as_rows', '(r is Ok && final(self).orientation is RuleAsRow) ==> final(self).hit_policy_placement is TopLeft && final(self).rule_numbers_placement is LeftBelow '
                                      '&& pl(final(self).plane, 0, 0) is Region && marker_policy(pl(final(self).plane, 0, 0)->Region_2@) == Some(final(self).hit_policy)'),
                    ('rules_as_columns', '(r is Ok && final(self).orientation is RuleAsColumn) ==> final(self).hit_policy_placement is BottomLeft && final(self).rule_numbers_placement is RightAfter '
                                         '&& pl(final(self).plane, final(self).plane.content@.len() - 1, 0) is Region && marker_policy(pl(final(self).plane, final(self).plane.content@.len() - 1, 0)->Region_2@) == Some(final(self).hit_policy)'),
                    ('crosstab', '(r is Ok && final(self).orientation is CrossTable) ==> final(self).hit_policy_placement is NotPresent && final(self).rule_numbers_placement is NotPresent && final(self).hit_policy is Unique && final(self).rule_count == 0')]),
    ],
}

ASSUMPTIONS = ['A-scan: canvas::scan builds a rectangular grid with at least one row (it pads every row to the widest line); its text loop (str::lines / trim / chars) is outside the verifier\'s reach',
               'A-plane: the plane handed to the recognizer has non-empty rows (precondition of the rule number recognition and of the orientation; Plane::finalize ENSURES it - `rectangular` - for every plane it accepts, '
               'but that Canvas::plane calls finalize last and Recognizer works on that plane is wiring, not proved); the output double lines are no longer assumed (the searches are total after the fix)',
               'A-str: HitPolicy::try_from(&str) and usize::from_str(text.trim()) are functions of the text (uninterpreted marker_policy, rule_number_of)',
               'A-derive: derived PartialEq of Cell / Point, Copy/Clone of Point, Rect, HitPolicy',
               'A-std: slice::contains on chars; a Vec\'s length fits usize; error constructors are opaque',
               'R17: Result::and_then / map with a closure = match; R18: iteration over a slice range = indexed loop plus an asserted range check; R19: match scrutinee bound to a local (Verus crashes on guards over an indexed place); R1m: nested iter_mut = indexed loops']
NOT_DECIDED = {'C19': ['WHICH cells Canvas::plane produces (its loops are under contract for panic freedom and termination only), Recognizer::recognize_horizontal_table (plane -> components), Plane::pivot and builder::build (components -> DecisionTable) are not under contract: only the BOUNDED stand-in drawn-tables-are-recognised-as-drawn looks at them',
                       'evaluation equivalence with the table loaded from XML; the text loop of canvas::scan',
                       'that the precondition on the plane (A-plane: rectangular, established by Plane::finalize) reaches every function that needs it: panic freedom is proved per function under it, end to end only the BOUNDED stand-in single-character-corruptions-never-panic looks']}

BOUNDED = {'C19': [{'name': 'drawn-tables-are-recognised-as-drawn', 'script': 'drawdiff.py', 'args': [],
                    'functions': ['canvas::scan', 'Canvas::plane', 'Recognizer::recognize (recognize_horizontal_table, pivot)', 'builder::build'],
                    'bound': '424 generated drawings (18 of them with an input entry shared by two consecutive rules - a merged cell - in the first / last / only input column): rules as rows and rules as columns, 1..3 inputs, 1..2 outputs, 0..2 annotations, 1..3 rules, each of the 11 hit policy markers, with and without information item name (box narrower than and exactly as wide as the table), rule rows one to three text lines high, with and without '
                             'allowed values (rules as rows), cell texts at varying offsets and widths: dmntk_recognizer::build gives back hit policy, aggregator, orientation, input expressions, allowed values, output label / '
                             'component names, annotation names and all rule entries in order (white space around cell texts aside)'},
                   {'name': 'single-character-corruptions-never-panic', 'script': 'corruptdiff.py', 'args': [], 'quick_args': ['--quick'],
                    'functions': ['dmntk_recognizer::build end to end (canvas::scan, Canvas::plane, Plane::finalize / pivot, Recognizer::recognize, builder::build)'],
                    'bound': 'quick: 6 drawings (thorough: 22 - ten generated, the two shipped *.dtb, the ten of the recognizer\'s test gallery), every character replaced by each of 28 characters (blank, the 24 box-drawing characters '
                             'the recognizer knows, a letter, a digit, a line feed), deleted, and preceded by one of 4 inserted characters: quick about 120 000, thorough about 486 000 texts, each answered with Ok or Err within 10 s, no panic'}]}
