"""Unit `calendar`: feel/src/temporal/{date,ym_duration,dt_duration,zone}.rs (C15, C14, C09 date order, C05)."""
D = 'feel/src/temporal/date.rs'
YM = 'feel/src/temporal/ym_duration.rs'
DT = 'feel/src/temporal/dt_duration.rs'
Z = 'feel/src/temporal/zone.rs'
P15 = ['C15']
A15 = ['C15', 'C05']

def dfn(path, key, **kw):
    d = {'kind': 'fn', 'src': D, 'path': path, 'key': 'calendar::' + key, 'props': P15, 'auto_props': A15, 'loops': 0}
    d.update(kw)
    return d

DATE_VIEW = 'r.0 == year && r.1 == month && r.2 == day'

def _dt_arms():
    rules = []
    import itertools
    for (d, h, m, s, n) in itertools.product([False, True], repeat=5):
        if not (d or h or m or s or n):
            rules.append(('RX', 'R5', r'write!\(f, "PT0S"\)', 'dt_sink_zero(f, Ghost(self.0 as int))', 1))
            continue
        lit = r'\{\}P' + (r'\{\}D' if d else '') + ('T' if (h or m or s or n) else '') + (r'\{\}H' if h else '') + (r'\{\}M' if m else '')
        if s and n:
            lit += r'\{\}\.\{\}S'
        elif s:
            lit += r'\{\}S'
        elif n:
            lit += r'0\.\{\}S'
        args = ['sign'] + (['day'] if d else []) + (['hour'] if h else []) + (['minute'] if m else []) + (['seconds'] if s else []) + (['nanoseconds_str'] if n else [])
        pat = r'write!\(f, "' + lit + '", ' + ', '.join(r'(\w+)' for _ in args) + r'\)'
        # map captured groups to slots in order
        gi = 2
        slots = []
        for flag in (d, h, m, s):
            if flag:
                slots.append('Some(\\%d)' % gi); gi += 1
            else:
                slots.append('None')
        zero_sec = 'true' if (n and not s) else 'false'
        frac = ('Some(&\\%d)' % gi) if n else 'None'
        rep = 'dt_sink(f, \\1, %s, %s, %s, %s, %s, %s, Ghost(self.0 as int))' % (slots[0], slots[1], slots[2], slots[3], zero_sec, frac)
        rules.append(('RX', 'R5', pat, rep, 1))
    # longest literals first so that a shorter pattern never matches inside a longer one (they cannot: full write!(...) is matched)
    return rules

FMT_SIG = [(r"f: &mut std::fmt::Formatter<'_>", 'f: &mut FmtSink'), (r'-> std::fmt::Result', '-> FmtResult'), (r'^(\s*)fn ', r'\1pub fn ')]

DURATION_FMT_PARTS = [
        {'kind': 'fn', 'src': YM, 'path': 'impl std::fmt::Display for FeelYearsAndMonthsDuration::fn fmt', 'key': 'calendar::FeelYearsAndMonthsDuration::fmt',
         'impl_header': 'impl FeelYearsAndMonthsDuration {',
         'props': ['C14'], 'auto_props': ['C14', 'C05'], 'loops': 0,
         'sig_rewrite': FMT_SIG,
         'requires': [('representable', 'self.0 != i64::MIN')],
         'body_prefix': 'proof { reveal_strlit("-"); reveal_strlit(""); }',
         'rewrites': [('RX', 'R5', r'write!\(f, "P0M"\)', 'ym_sink_zero(f, Ghost(self.0 as int))', 1),
                      ('RX', 'R5', r'write!\(f, "\{\}P\{\}M", (\w+), (\w+)\)', r'ym_sink(f, \1, None, Some(\2), Ghost(self.0 as int))', 1),
                      ('RX', 'R5', r'write!\(f, "\{\}P\{\}Y", (\w+), (\w+)\)', r'ym_sink(f, \1, Some(\2), None, Ghost(self.0 as int))', 1),
                      ('RX', 'R5', r'write!\(f, "\{\}P\{\}Y\{\}M", (\w+), (\w+), (\w+)\)', r'ym_sink(f, \1, Some(\2), Some(\3), Ghost(self.0 as int))', 1)],
         },
        {'kind': 'fn', 'src': DT, 'path': 'impl std::fmt::Display for FeelDaysAndTimeDuration::fn fmt', 'key': 'calendar::FeelDaysAndTimeDuration::fmt',
         'impl_header': 'impl FeelDaysAndTimeDuration {',
         'props': ['C14'], 'auto_props': ['C14', 'C05'], 'loops': 0,
         'sig_rewrite': FMT_SIG,
         'requires': [('representable', 'self.0 != i128::MIN')],
         'body_prefix': 'proof { reveal_strlit("-"); reveal_strlit(""); lemma_dt_decomposition(iabs(self.0 as int)); }',
         'rewrites': [('RX', 'R11', r'super::nanoseconds_to_string\(', 'nanoseconds_to_string(', 1)] + _dt_arms(),
         },
]

FROM_CAPTURES = {
    'kind': 'fn', 'src': Z, 'path': 'impl FeelZone::fn from_captures', 'key': 'calendar::FeelZone::from_captures',
    'props': ['C14'], 'auto_props': ['C14', 'C05'], 'loops': 0, 'ret': 'r',
    'body_prefix': 'broadcast use axiom_zone_name_of;\nproof { reveal_strlit("-"); reveal_strlit("zulu"); reveal_strlit("offSign"); reveal_strlit("offHours"); reveal_strlit("offMinutes"); reveal_strlit("offSeconds"); reveal_strlit("zone"); }',
    'requires': [('regex_two_digit_fields',
                  '(cap_num(*captures, "offHours"@) is Some ==> 0 <= cap_num(*captures, "offHours"@)->Some_0 <= 99) && '
                  '(cap_num(*captures, "offMinutes"@) is Some ==> 0 <= cap_num(*captures, "offMinutes"@)->Some_0 <= 99) && '
                  '(cap_num(*captures, "offSeconds"@) is Some ==> 0 <= cap_num(*captures, "offSeconds"@)->Some_0 <= 99)'),
                 ('regex_fields_are_decimal',
                  '(cap_text(*captures, "offHours"@) is Some ==> cap_num(*captures, "offHours"@) is Some) && '
                  '(cap_text(*captures, "offMinutes"@) is Some ==> cap_num(*captures, "offMinutes"@) is Some) && '
                  '(cap_text(*captures, "offSign"@) is Some ==> cap_text(*captures, "offHours"@) is Some && cap_text(*captures, "offMinutes"@) is Some) && '
                  '(cap_text(*captures, "offSeconds"@) is Some ==> cap_num(*captures, "offSeconds"@) is Some)')],
    'rewrites': [('RX', 'R11', r'(\w+)\.as_str\(\)\.parse::<i32>\(\)', r'parse_i32(\1.as_str())', 3),
                 ('RX', 'R11', r'(\w+)\.as_str\(\)\.parse::<chrono_tz::Tz>\(\)\.is_ok\(\)', r'parse_tz_ok(\1.as_str())', 1)],
    'ensures': [('denotes_written_zone', 'r == zone_suffix_denotes(*captures)')],
}

UNIT = {
    'name': 'calendar',
    'uses': ['use std::cmp::Ordering;'],
    'parts': [
        {'kind': 'vrs', 'file': 'calendar/spec.vrs'},
        {'kind': 'vrs', 'file': 'calendar/prelude.vrs'},
        {'kind': 'item', 'src': D, 'path': 'struct FeelDate',
         'rewrites': [('RX', 'R7', r'pub struct FeelDate\(i32, u8, u8\);', 'pub struct FeelDate(pub i32, pub u8, pub u8);', 1)]},
        {'kind': 'item', 'src': YM, 'path': 'struct FeelYearsAndMonthsDuration',
         'rewrites': [('RX', 'R7', r'pub struct FeelYearsAndMonthsDuration\(i64\);', 'pub struct FeelYearsAndMonthsDuration(pub i64);', 1)]},
        {'kind': 'item', 'src': YM, 'path': 'const MONTHS_IN_YEAR'},
        # ------------------------------------------------------------------ Gregorian rules
        dfn('fn is_leap_year', 'is_leap_year', ret='r', props=['C15','C14'], auto_props=['C15','C14','C05'],
            ensures=[('gregorian_leap', 'r == greg_leap(year as int)')]),
        dfn('fn last_day_of_month', 'last_day_of_month', ret='r', props=['C15','C14'], auto_props=['C15','C14','C05'],
            ensures=[('month_lengths', '(1 <= month <= 12) ==> r == Some(greg_last_day(year as int, month as int) as u8)'),
                     ('no_such_month', '!(1 <= month <= 12) ==> r is None')]),
        dfn('fn is_valid_date', 'is_valid_date', ret='r', props=['C15','C14'], auto_props=['C15','C14','C05'],
            rewrites=[('RX', 'R11', r'DateTime::try_from\(FeelDate\(year, month, day\)\)\.is_ok\(\)', 'chrono_date_ok(year, month, day)', 1)],
            ensures=[('valid_implies_calendar', 'r ==> greg_valid(year as int, month as int, day as int) && feel_year_ok(year as int)'),
                     ('calendar_implies_valid', 'greg_valid(year as int, month as int, day as int) && feel_year_ok(year as int) ==> r')]),
        dfn('impl FeelDate::fn new_opt', 'FeelDate::new_opt', ret='r', props=['C15','C14'], auto_props=['C15','C14','C05'],
            ensures=[('some_iff_valid', 'r is Some <==> greg_valid(year as int, month as int, day as int) && feel_year_ok(year as int)'),
                     ('components', 'r is Some ==> r->Some_0.0 == year && r->Some_0.1 == month && r->Some_0.2 == day')]),
        dfn('impl FeelDate::fn new', 'FeelDate::new', ret='r', ensures=[('components', DATE_VIEW)]),
        dfn('impl FeelDate::fn year', 'FeelDate::year', ret='r', ensures=[('is_year', 'r == self.0')]),
        dfn('impl FeelDate::fn month', 'FeelDate::month', ret='r', ensures=[('is_month', 'r == self.1')]),
        dfn('impl FeelDate::fn day', 'FeelDate::day', ret='r', ensures=[('is_day', 'r == self.2')]),
        dfn('impl FeelDate::fn as_tuple', 'FeelDate::as_tuple', ret='r', ensures=[('components', 'r.0 == self.0 && r.1 == self.1 as u32 && r.2 == self.2 as u32')]),
        # ------------------------------------------------------------------ equality and order
        {'kind': 'text', 'note': 'spec-impl', 'text': """impl vstd::std_specs::cmp::PartialEqSpecImpl for FeelDate {
  open spec fn obeys_eq_spec() -> bool { true }
  open spec fn eq_spec(&self, o: &FeelDate) -> bool { self.0 == o.0 && self.1 == o.1 && self.2 == o.2 }
}
impl vstd::std_specs::cmp::PartialOrdSpecImpl for FeelDate {
  open spec fn obeys_partial_cmp_spec() -> bool { true }
  open spec fn partial_cmp_spec(&self, o: &FeelDate) -> Option<Ordering> {
    if self.0 == o.0 && self.1 == o.1 && self.2 == o.2 { Some(Ordering::Equal) }
    else if date_lt(self.0 as int, self.1 as int, self.2 as int, o.0 as int, o.1 as int, o.2 as int) { Some(Ordering::Less) }
    else { Some(Ordering::Greater) }
  }
}"""},
        {'kind': 'item', 'src': D, 'path': 'impl PartialEq for FeelDate', 'key': 'calendar::FeelDate::eq', 'auto_props': ['C15', 'C09']},
        {'kind': 'item', 'src': D, 'path': 'impl PartialOrd for FeelDate', 'key': 'calendar::FeelDate::partial_cmp', 'auto_props': ['C15', 'C09']},
        # ------------------------------------------------------------------ whole months
        {'kind': 'fn', 'src': YM, 'path': 'impl FeelYearsAndMonthsDuration::fn new_m', 'key': 'calendar::FeelYearsAndMonthsDuration::new_m',
         'props': P15, 'auto_props': A15, 'loops': 0, 'ret': 'r', 'ensures': [('total', 'r.0 == months')]},
        dfn('impl FeelDate::fn ym_duration', 'FeelDate::ym_duration', ret='r',
            ensures=[('whole_months', 'r.0 == whole_months(self.0 as int, self.1 as int, self.2 as int, other.0 as int, other.1 as int, other.2 as int)')]),
        # ------------------------------------------------------------------ date(year, month, day)
        dfn('impl TryFrom<(FeelNumber, FeelNumber, FeelNumber)> for FeelDate::fn try_from', 'FeelDate::try_from_numbers', ret='r',
            impl_header='impl FeelDate {',
            sig_rewrite=[(r'Self::Error', 'DmntkError'), (r'^(\s*)fn ', r'\1pub fn ')],
            body_prefix='broadcast use axiom_num_lt_int;',
            rewrites=[('RX', 'R11', r'let year = value\.0\.into\(\);', 'let year = num_to_i32(value.0);', 1),
                      ('RX', 'R11', r'let month = value\.1\.into\(\);', 'let month = num_to_u8(value.1);', 1),
                      ('RX', 'R11', r'let day = value\.2\.into\(\);', 'let day = num_to_u8(value.2);', 1),
                      ('RX', 'R11', r'invalid_date\(value\.0\.into\(\), value\.1\.into\(\), value\.2\.into\(\)\)', 'invalid_date(num_to_i32(value.0), num_to_u8(value.1), num_to_u8(value.2))', 1),
                      ('RX', 'R11', r'FeelNumber::from\((-?[0-9_]+)\)', r'num_from_i32(\1)', 2),
                      ('RX', 'R11', r'FeelNumber::from\(([0-9]+)_u8\)', r'num_from_u8(\1_u8)', 2)],
            ensures=[('accepts_exactly_valid',
                      '(num_as_int(value.0) is Some && num_as_int(value.1) is Some && num_as_int(value.2) is Some) ==> '
                      '(r is Ok <==> greg_valid(num_as_int(value.0)->Some_0, num_as_int(value.1)->Some_0, num_as_int(value.2)->Some_0) && feel_year_ok(num_as_int(value.0)->Some_0))'),
                     ('components_exact',
                      '(num_as_int(value.0) is Some && num_as_int(value.1) is Some && num_as_int(value.2) is Some && r is Ok) ==> '
                      'r->Ok_0.0 == num_as_int(value.0)->Some_0 && r->Ok_0.1 == num_as_int(value.1)->Some_0 && r->Ok_0.2 == num_as_int(value.2)->Some_0')]),
        # ------------------------------------------------------------------ years and months durations
        {'kind': 'fn', 'src': YM, 'path': 'impl FeelYearsAndMonthsDuration::fn new_ym', 'key': 'calendar::FeelYearsAndMonthsDuration::new_ym',
         'props': P15, 'auto_props': A15, 'loops': 0, 'ret': 'r',
         'requires': [('no_overflow', 'i64::MIN <= years * 12 + months <= i64::MAX && i64::MIN <= years * 12 <= i64::MAX')],
         'ensures': [('total', 'r.0 == years * 12 + months')]},
        {'kind': 'fn', 'src': YM, 'path': 'impl FeelYearsAndMonthsDuration::fn years', 'key': 'calendar::FeelYearsAndMonthsDuration::years',
         'props': P15, 'auto_props': A15, 'loops': 0, 'ret': 'r',
         'ensures': [('consistent', 'r * 12 + (self.0 - r * 12) == self.0 && -12 < self.0 - r * 12 < 12'),
                     ('sign', '(self.0 >= 0 ==> r >= 0) && (self.0 <= 0 ==> r <= 0)')]},
        {'kind': 'fn', 'src': YM, 'path': 'impl FeelYearsAndMonthsDuration::fn months', 'key': 'calendar::FeelYearsAndMonthsDuration::months',
         'props': P15, 'auto_props': A15, 'loops': 0, 'ret': 'r',
         'ensures': [('consistent', '-12 < r < 12 && (self.0 - r) % 12 == 0'),
                     ('sign', '(self.0 >= 0 ==> r >= 0) && (self.0 <= 0 ==> r <= 0)')]},
        {'kind': 'fn', 'src': YM, 'path': 'impl FeelYearsAndMonthsDuration::fn as_months', 'key': 'calendar::FeelYearsAndMonthsDuration::as_months',
         'props': P15, 'auto_props': A15, 'loops': 0, 'ret': 'r', 'ensures': [('total', 'r == self.0')]},
        {'kind': 'fn', 'src': YM, 'path': 'impl FeelYearsAndMonthsDuration::fn abs', 'key': 'calendar::FeelYearsAndMonthsDuration::abs',
         'props': P15, 'auto_props': A15, 'loops': 0, 'ret': 'r',
         'requires': [('not_min', 'self.0 != i64::MIN')],
         'ensures': [('abs', 'r.0 == iabs(self.0 as int)')]},
        # ------------------------------------------------------------------ days and time durations
        {'kind': 'item', 'src': DT, 'path': 'struct FeelDaysAndTimeDuration',
         'rewrites': [('RX', 'R7', r'pub struct FeelDaysAndTimeDuration\(i128\);', 'pub struct FeelDaysAndTimeDuration(pub i128);', 1)]},
        {'kind': 'item', 'src': DT, 'path': 'const NANOSECONDS_IN_DAY'},
        {'kind': 'item', 'src': DT, 'path': 'const NANOSECONDS_IN_HOUR'},
        {'kind': 'item', 'src': DT, 'path': 'const NANOSECONDS_IN_MINUTE'},
        {'kind': 'item', 'src': DT, 'path': 'const NANOSECONDS_IN_SECOND'},
    ] + [
        {'kind': 'fn', 'src': DT, 'path': 'impl FeelDaysAndTimeDuration::fn ' + name, 'key': 'calendar::FeelDaysAndTimeDuration::' + name,
         'props': P15, 'auto_props': A15, 'loops': 0, 'ret': 'r',
         'requires': [('not_min', 'self.0 != i128::MIN')],
         'body_prefix': 'proof { lemma_dt_decomposition(iabs(self.0 as int)); lemma_mod_chain(iabs(self.0 as int)); }',
         'ensures': [('component', '%s(iabs(self.0 as int)) <= usize::MAX ==> r == %s(iabs(self.0 as int))' % (spec, spec))]}
        for (name, spec) in [('get_days', 'dt_days'), ('get_hours', 'dt_hours'), ('get_minutes', 'dt_minutes'), ('get_seconds', 'dt_seconds')]
    ] + [
        {'kind': 'fn', 'src': DT, 'path': 'impl FeelDaysAndTimeDuration::fn abs', 'key': 'calendar::FeelDaysAndTimeDuration::abs',
         'props': P15, 'auto_props': A15, 'loops': 0, 'ret': 'r',
         'requires': [('not_min', 'self.0 != i128::MIN')], 'ensures': [('abs', 'r.0 == iabs(self.0 as int)')]},
        {'kind': 'fn', 'src': DT, 'path': 'impl FeelDaysAndTimeDuration::fn as_seconds', 'key': 'calendar::FeelDaysAndTimeDuration::as_seconds',
         'props': P15, 'auto_props': A15, 'loops': 0, 'ret': 'r',
         'ensures': [('whole_seconds_toward_zero', 'isize::MIN <= self.0 <= isize::MAX ==> r == (if self.0 >= 0 { self.0 as int / 1_000_000_000 } else { -((-self.0 as int) / 1_000_000_000) })')]},
        # duration arithmetic: plain i128 nanoseconds; a sum / difference outside i128 is excluded by a stated precondition (literals hold at most
        # i64 seconds, about 2^93 nanoseconds)
        {'kind': 'fn', 'src': DT, 'path': 'impl std::ops::Add<FeelDaysAndTimeDuration> for FeelDaysAndTimeDuration::fn add', 'key': 'calendar::FeelDaysAndTimeDuration::add',
         'impl_header': 'impl FeelDaysAndTimeDuration {', 'sig_rewrite': [(r'^(\s*)fn ', r'\1pub fn ')],
         'props': P15, 'auto_props': A15, 'loops': 0, 'ret': 'r',
         'requires': [('representable', 'i128::MIN <= self.0 + rhs.0 <= i128::MAX')], 'ensures': [('sum_of_nanoseconds', 'r.0 == self.0 + rhs.0')]},
        {'kind': 'fn', 'src': DT, 'path': 'impl std::ops::Sub<FeelDaysAndTimeDuration> for FeelDaysAndTimeDuration::fn sub', 'key': 'calendar::FeelDaysAndTimeDuration::sub',
         'impl_header': 'impl FeelDaysAndTimeDuration {', 'sig_rewrite': [(r'^(\s*)fn ', r'\1pub fn ')],
         'props': P15, 'auto_props': A15, 'loops': 0, 'ret': 'r',
         'requires': [('representable', 'i128::MIN <= self.0 - rhs.0 <= i128::MAX')], 'ensures': [('difference_in_order', 'r.0 == self.0 - rhs.0')]},
        {'kind': 'fn', 'src': DT, 'path': 'impl std::ops::Neg for FeelDaysAndTimeDuration::fn neg', 'key': 'calendar::FeelDaysAndTimeDuration::neg',
         'impl_header': 'impl FeelDaysAndTimeDuration {', 'sig_rewrite': [(r'^(\s*)fn ', r'\1pub fn ')],
         'props': P15, 'auto_props': A15, 'loops': 0, 'ret': 'r',
         'requires': [('not_min', 'self.0 != i128::MIN')], 'ensures': [('negated', 'r.0 == -self.0')]},
        {'kind': 'fn', 'src': DT, 'path': 'impl FeelDaysAndTimeDuration::fn nano', 'key': 'calendar::FeelDaysAndTimeDuration::nano',
         'props': P15, 'auto_props': A15, 'loops': 0, 'ret': 'r',
         'requires': [('representable', 'i128::MIN <= old(self).0 + nano <= i128::MAX')], 'ensures': [('adds_nanoseconds', 'r.0 == old(self).0 + nano')]},
        {'kind': 'fn', 'src': DT, 'path': 'impl FeelDaysAndTimeDuration::fn second', 'key': 'calendar::FeelDaysAndTimeDuration::second',
         'props': P15, 'auto_props': A15, 'loops': 0, 'ret': 'r',
         'requires': [('representable', 'i128::MIN <= old(self).0 + sec * 1_000_000_000 <= i128::MAX')], 'ensures': [('adds_seconds', 'r.0 == old(self).0 + sec * 1_000_000_000')]},
        {'kind': 'fn', 'src': DT, 'path': 'impl FeelDaysAndTimeDuration::fn build', 'key': 'calendar::FeelDaysAndTimeDuration::build',
         'props': P15, 'auto_props': A15, 'loops': 0, 'ret': 'r', 'ensures': [('same_duration', 'r.0 == old(self).0 && final(self).0 == old(self).0')]},
        {'kind': 'vrs', 'file': 'calendar/durlit.vrs'},
        dfn('impl TryFrom<&str> for FeelDate::fn try_from', 'FeelDate::try_from_text', ret='r', props=['C14', 'C15'], auto_props=['C14', 'C15', 'C05'],
            impl_header='impl FeelDate {',
            sig_rewrite=[(r'fn try_from\(value: &str\) -> \(r: Result<Self, Self::Error>\)', 'pub fn try_from_text(value: &str) -> (r: Result<FeelDate, DmntkError>)')],
            body_prefix='proof { reveal_strlit("year"); reveal_strlit("month"); reveal_strlit("day"); reveal_strlit("sign"); }',
            rewrites=[('RX', 'R9', r'RE_DATE\.captures\(value\)', 're_date_captures(value)', 1),
                      ('RX', 'R11', r'year_match\.as_str\(\)\.parse::<i32>\(\)', 'parse_year(year_match.as_str())', 1),
                      ('RX', 'R11', r'(\w+)\.as_str\(\)\.parse::<(u64|u32|u16|u8)>\(\)', r'parse_\2(\1.as_str())', 2),
                      ('RX', 'R3', r'invalid_date_literal\(value\.to_string\(\)\)', 'invalid_date_lit()', 1)],
            ensures=[('denotes_the_written_date', 'match date_caps(value@) { None => r is Err, Some(c) => match date_literal(c) { '
                      'Some(d) => r is Ok && r->Ok_0.0 == d.0 && r->Ok_0.1 == d.1 && r->Ok_0.2 == d.2, None => r is Err } }')]),
        {'kind': 'fn', 'src': DT, 'path': 'impl TryFrom<&str> for FeelDaysAndTimeDuration::fn try_from', 'key': 'calendar::FeelDaysAndTimeDuration::try_from_text',
         'impl_header': 'impl FeelDaysAndTimeDuration {', 'props': ['C14', 'C15'], 'auto_props': ['C14', 'C15', 'C05'], 'loops': 0, 'ret': 'r',
         'sig_rewrite': [(r'fn try_from\(value: &str\) -> \(r: Result<Self, Self::Error>\)', 'pub fn try_from_text(value: &str) -> (r: Result<FeelDaysAndTimeDuration, DmntkError>)')],
         'body_prefix': 'proof { reveal_strlit("days"); reveal_strlit("hours"); reveal_strlit("minutes"); reveal_strlit("seconds"); reveal_strlit("fractional"); reveal_strlit("sign"); }',
         'rewrites': [('RX', 'R9', r'RE_DAYS_AND_TIME\.captures\(value\)', 're_days_and_time_captures(value)', 1),
                      ('RX', 'R11', r'(\w+)\.as_str\(\)\.parse::<(u64|u32|u16|u8)>\(\)', r'parse_\2(\1.as_str())', 4),
                      ('RX', 'R11', r"value\.ends_with\('T'\)", 'str_ends_with_t(value)', 1),
                      ('RX', 'R3', r'invalid_date_and_time_duration_literal\(value\.to_string\(\)\)', 'invalid_dt_literal()', 5)],
         'splices': [{'id': 'days_fit', 'op': 'before', 'anchor': 'nanoseconds += (days as i128) * NANOSECONDS_IN_DAY;', 'text': 'assert((days as i128) * 86_400_000_000_000 <= 18_446_744_073_709_551_615i128 * 86_400_000_000_000 && (days as i128) * 86_400_000_000_000 >= 0) by (nonlinear_arith) requires 0 <= days <= 18_446_744_073_709_551_615u64;'},
                     {'id': 'hours_fit', 'op': 'before', 'anchor': 'nanoseconds += (hours as i128) * NANOSECONDS_IN_HOUR;', 'text': 'assert((hours as i128) * 3_600_000_000_000 <= 18_446_744_073_709_551_615i128 * 3_600_000_000_000 && (hours as i128) * 3_600_000_000_000 >= 0) by (nonlinear_arith) requires 0 <= hours <= 18_446_744_073_709_551_615u64;'},
                     {'id': 'minutes_fit', 'op': 'before', 'anchor': 'nanoseconds += (minutes as i128) * NANOSECONDS_IN_MINUTE;', 'text': 'assert((minutes as i128) * 60_000_000_000 <= 18_446_744_073_709_551_615i128 * 60_000_000_000 && (minutes as i128) * 60_000_000_000 >= 0) by (nonlinear_arith) requires 0 <= minutes <= 18_446_744_073_709_551_615u64;'},
                     {'id': 'seconds_fit', 'op': 'before', 'anchor': 'nanoseconds += (seconds as i128) * NANOSECONDS_IN_SECOND;', 'text': 'assert((seconds as i128) * 1_000_000_000 <= 18_446_744_073_709_551_615i128 * 1_000_000_000 && (seconds as i128) * 1_000_000_000 >= 0) by (nonlinear_arith) requires 0 <= seconds <= 18_446_744_073_709_551_615u64;'}],
         'ensures': [('denotes_the_written_components', 'match dt_caps(value@) { None => r is Err, Some(c) => match dt_literal_nanos(c, value@) { Some(n) => r is Ok && r->Ok_0.0 == n, None => r is Err } }')]},
        {'kind': 'fn', 'src': YM, 'path': 'impl TryFrom<&str> for FeelYearsAndMonthsDuration::fn try_from', 'key': 'calendar::FeelYearsAndMonthsDuration::try_from_text',
         'impl_header': 'impl FeelYearsAndMonthsDuration {', 'props': ['C14', 'C15'], 'auto_props': ['C14', 'C15', 'C05'], 'loops': 0, 'ret': 'r',
         'sig_rewrite': [(r'fn try_from\(value: &str\) -> \(r: Result<Self, Self::Error>\)', 'pub fn try_from_text(value: &str) -> (r: Result<FeelYearsAndMonthsDuration, DmntkError>)')],
         'body_prefix': 'proof { reveal_strlit("years"); reveal_strlit("months"); reveal_strlit("sign"); }',
         'rewrites': [('RX', 'R9', r'RE_YEARS_AND_MONTHS\.captures\(value\)', 're_years_and_months_captures(value)', 1),
                      ('RX', 'R17', r'(\w+)\.as_str\(\)\.parse::<i64>\(\)\.ok\(\)\.and_then\(\|(\w+)\| (\w+\.checked_\w+\(\w+\))\)', r'(match parse_i64(\1.as_str()) { Ok(\2) => \3, Err(_) => None })', 2),
                      ('RX', 'R3', r'err_invalid_years_and_months_duration_literal\(value\)', 'invalid_ym_literal()', 3)],
         'ensures': [('denotes_the_written_components', 'match ym_caps(value@) { None => r is Err, Some(c) => match ym_literal_months(c) { Some(n) => r is Ok && r->Ok_0.0 == n, None => r is Err } }')]},
        # ------------------------------------------------------------------ zone offsets and time validity
        {'kind': 'item', 'src': Z, 'path': 'enum FeelZone'},
        {'kind': 'fn', 'src': Z, 'path': 'impl FeelZone::fn new', 'key': 'calendar::FeelZone::new',
         'props': ['C14'], 'auto_props': ['C14', 'C05'], 'loops': 0, 'ret': 'r',
         'ensures': [('utc_iff_zero', '(offset == 0) ==> r is Utc'), ('offset_kept', '(offset != 0) ==> r is Offset && r->Offset_0 == offset')]},
        {'kind': 'fn', 'src': 'feel/src/temporal/mod.rs', 'path': 'fn is_valid_time', 'key': 'calendar::is_valid_time',
         'props': ['C14'], 'auto_props': ['C14', 'C05'], 'loops': 0, 'ret': 'r',
         'ensures': [('time_of_day', 'r == (hour < 24 && minute < 60 && second < 60)')]},
        {'kind': 'fn', 'src': Z, 'path': 'impl std::fmt::Display for FeelZone::fn fmt', 'key': 'calendar::FeelZone::fmt',
         'impl_header': 'impl FeelZone {',
         'props': ['C14'], 'auto_props': ['C14', 'C05'], 'loops': 0,
         'sig_rewrite': [(r"f: &mut std::fmt::Formatter<'_>", 'f: &mut FmtSink'), (r'-> std::fmt::Result', '-> FmtResult'), (r'^(\s*)fn ', r'\1pub fn ')],
         'requires': [('offset_representable', 'self is Offset ==> self->Offset_0 != i32::MIN')],
         'rewrites': [('R12',),
                      ('RX', 'R5', r'write!\(f, "Z"\)', 'fmt_sink0(f, "Z")', 1),
                      ('RX', 'R5', r'write!\(f, ""\)', 'fmt_sink0(f, "")', 1),
                      ('RX', 'R5', r'write!\(f, "\{\}\{:02\}:\{:02\}:\{:02\}", sign, hours, minutes, seconds\)', 'fmt_sink_c_i32_3(f, "{}{:02}:{:02}:{:02}", sign, hours, minutes, seconds)', 1),
                      ('RX', 'R5', r'write!\(f, "\{\}\{:02\}:\{:02\}", sign, hours, minutes\)', 'fmt_sink_c_i32_2(f, "{}{:02}:{:02}", sign, hours, minutes)', 1),
                      ('RX', 'R5', r'write!\(f, "@\{\}", zone\)', 'fmt_sink_str(f, "@{}", zone)', 1)],
         'splices': [{'id': 'printed_offset_denotes_offset', 'op': 'before', 'anchor': 'if seconds > 0 {',
                      'text': "assert((sign == '-' || sign == '+') && zone_text_denotes(sign == '-', hours as int, minutes as int, seconds as int) == *offset as int && 0 <= hours && 0 <= minutes < 60 && 0 <= seconds < 60);"}],
         },
    ] + DURATION_FMT_PARTS + [FROM_CAPTURES] + [
        {'kind': 'item', 'src': 'feel/src/temporal/mod.rs', 'path': 'struct FeelTime',
         'rewrites': [('RX', 'R7', r'pub struct FeelTime\(u8, u8, u8, u64, FeelZone\);', 'pub struct FeelTime(pub u8, pub u8, pub u8, pub u64, pub FeelZone);', 1)]},
        {'kind': 'item', 'src': 'feel/src/temporal/mod.rs', 'path': 'struct FeelDateTime',
         'rewrites': [('RX', 'R7', r'pub struct FeelDateTime\(FeelDate, FeelTime\);', 'pub struct FeelDateTime(pub FeelDate, pub FeelTime);', 1)]},
        {'kind': 'vrs', 'file': 'calendar/timelit.vrs'},
        {'kind': 'fn', 'src': 'feel/src/temporal/mod.rs', 'path': 'fn parse_time_literal', 'key': 'calendar::parse_time_literal', 'props': ['C14'], 'auto_props': ['C14', 'C05'], 'loops': 0, 'ret': 'r',
         'sig_rewrite': [(r'^(\s*)fn ', r'\1pub fn '), (r'-> \(r: Result<FeelTime>\)', '-> (r: Result<FeelTime, DmntkError>)')],
         'body_prefix': 'proof { reveal_strlit("hours"); reveal_strlit("minutes"); reveal_strlit("seconds"); reveal_strlit("fractional"); }',
         'rewrites': [('RX', 'R9', r'RE_TIME\.captures\(s\)', 're_time_captures(s)', 1),
                      ('RX', 'R11', r'(\w+)\.as_str\(\)\.parse::<(u64|u32|u16|u8)>\(\)', r'parse_\2(\1.as_str())', 3),
                      ('RX', 'R17', r'captures\.name\("fractional"\)\.map_or\(0, \|frac_match\| fraction_to_nanos\(frac_match\.as_str\(\)\)\)', '(match captures.name("fractional") { Some(frac_match) => fraction_to_nanos(frac_match.as_str()), None => 0 })', 1),
                      ('RX', 'R3', r'Err\(crate::temporal::time::errors::invalid_time_literal\(s\.to_string\(\)\)\)', 'Err(invalid_time_lit())', 1)],
         'ensures': [('denotes_the_written_time', 'match time_caps(s@) { None => r is Err, Some(c) => match time_literal(c) { '
                      'Some(t) => r is Ok && r->Ok_0.0 == t.0 && r->Ok_0.1 == t.1 && r->Ok_0.2 == t.2 && r->Ok_0.3 == t.3 && r->Ok_0.4 == t.4, None => r is Err } }')]},
        {'kind': 'fn', 'src': 'feel/src/temporal/mod.rs', 'path': 'impl TryFrom<&str> for FeelDateTime::fn try_from', 'key': 'calendar::FeelDateTime::try_from_text', 'props': ['C14'], 'auto_props': ['C14', 'C05'], 'loops': 0, 'ret': 'r',
         'impl_header': 'impl FeelDateTime {',
         'sig_rewrite': [(r'fn try_from\(value: &str\) -> \(r: Result<Self, Self::Error>\)', 'pub fn try_from_text(value: &str) -> (r: Result<FeelDateTime, DmntkError>)')],
         'body_prefix': 'proof { reveal_strlit("year"); reveal_strlit("month"); reveal_strlit("day"); reveal_strlit("sign"); reveal_strlit("hours"); reveal_strlit("minutes"); reveal_strlit("seconds"); reveal_strlit("fractional"); }',
         'rewrites': [('RX', 'R9', r'RE_DATE_AND_TIME\.captures\(value\)', 're_date_and_time_captures(value)', 1),
                      ('RX', 'R11', r'year_match\.as_str\(\)\.parse::<i32>\(\)', 'parse_year(year_match.as_str())', 1),
                      ('RX', 'R11', r'(\w+)\.as_str\(\)\.parse::<(u64|u32|u16|u8)>\(\)', r'parse_\2(\1.as_str())', 5),
                      ('RX', 'R17', r'captures\.name\("fractional"\)\.map_or\(0, \|frac_match\| fraction_to_nanos\(frac_match\.as_str\(\)\)\)', '(match captures.name("fractional") { Some(frac_match) => fraction_to_nanos(frac_match.as_str()), None => 0 })', 1),
                      ('RX', 'R3', r'Err\(err_invalid_date_time_literal\(value\)\)', 'Err(invalid_time_lit())', 1)],
         'ensures': [('denotes_the_written_date_and_time', 'match datetime_caps(value@) { None => r is Err, Some(c) => match (date_literal(c), time_literal(c)) { '
                      '(Some(d), Some(t)) => r is Ok && r->Ok_0.0.0 == d.0 && r->Ok_0.0.1 == d.1 && r->Ok_0.0.2 == d.2 && r->Ok_0.1.0 == t.0 && r->Ok_0.1.1 == t.1 && r->Ok_0.1.2 == t.2 && r->Ok_0.1.3 == t.3 && r->Ok_0.1.4 == t.4, '
                      '_ => r is Err } }')]},
    ],
}

# FeelDate comparison helpers: the calendar order, always defined
_DLT = 'date_lt(self.0 as int, self.1 as int, self.2 as int, other.0 as int, other.1 as int, other.2 as int)'
_DGT = 'date_lt(other.0 as int, other.1 as int, other.2 as int, self.0 as int, self.1 as int, self.2 as int)'
_DEQ = '(self.0 == other.0 && self.1 == other.1 && self.2 == other.2)'
for (_n, _e) in [('equal', _DEQ), ('before', _DLT), ('before_or_equal', '(%s || %s)' % (_DLT, _DEQ)), ('after', _DGT), ('after_or_equal', '(%s || %s)' % (_DGT, _DEQ))]:
    UNIT['parts'].append(dfn('impl FeelDate::fn ' + _n, 'FeelDate::' + _n, ret='r', props=['C15', 'C09'], auto_props=['C15', 'C09', 'C05'],
                             ensures=[('calendar_order', 'r == Some(%s)' % _e)]))
def _rel(x, y, strict):
    lt = 'date_lt(%s.0 as int, %s.1 as int, %s.2 as int, %s.0 as int, %s.1 as int, %s.2 as int)' % (x, x, x, y, y, y)
    eq = '(%s.0 == %s.0 && %s.1 == %s.1 && %s.2 == %s.2)' % (x, y, x, y, x, y)
    return lt if strict else '(%s || %s)' % (lt, eq)
UNIT['parts'].append(dfn('impl FeelDate::fn between', 'FeelDate::between', ret='r', props=['C15', 'C09'], auto_props=['C15', 'C09', 'C05'],
    ensures=[('agrees_with_comparisons',
              'r == Some((if left_closed { %s } else { %s }) && (if right_closed { %s } else { %s }))' % (
                  _rel('left', 'self', False), _rel('left', 'self', True), _rel('self', 'right', False), _rel('self', 'right', True)))]))

NOT_DECIDED = {
    'C15': [
        'instants on the UTC time line: date-time comparison/subtraction, zone rules, weekday go through chrono (A-chrono) and are not modelled',
        'date construction from non-integer numbers (the contract quantifies over integer-valued arguments)',
        'FeelTime / FeelDateTime accessors (the before/after/between families of FeelDateTime: unit timeline)',
        'a duration sum / difference outside i128 nanoseconds is excluded by a stated precondition (callers are not checked to establish it)',
    ],
    'C14': [
        'WHAT the regular expressions capture (A-regex: dt_caps / ym_caps / date_caps / time_caps / datetime_caps are uninterpreted) and the digit-by-digit fraction reader (iterator code): only the BOUNDED stand-in looks at them; what the captured fields DENOTE is decided (try_from_text / parse_time_literal); IANA zone names (chrono-tz)',
        'the text produced by core::fmt from the constrained arguments (A-fmt); nanoseconds_to_string (string code)',
        'FeelDate / FeelTime / FeelDateTime Display',
    ],
    'C09': ['only the date order (FeelDate eq / partial_cmp) is decided in this unit'],
    'C05': ['abs() at the minimum integer is excluded by a stated precondition (not_min / representable): callers are not checked to establish it'],
}
ASSUMPTIONS = [
    'A-chrono: chrono accepts a (year, month, day) only if it is a valid Gregorian date in FEEL\'s year range (chrono_date_ok stub)',
    'A-dec (integers): FeelNumber comparison is numeric order; conversions of an integer-valued number that fits the target are exact (num_to_i32/num_to_u8/num_from_* stubs)',
    'A-fmt: core::fmt renders {} / {:02} / {:+03} as documented; the obligations constrain the arguments handed to write!',
    'A-std: i32/i64/i128::abs specification (overflow at MIN excluded by precondition)',
    'rewrite rules R5 (write! -> sink with slots derived from the format literal), R7, R11 (trait conversion call -> stub of its impl), R12 (.rem/.div method -> operator)',
    'machine arithmetic is NOT treated as mathematical: Verus checks every + - * / % and cast in the extracted bodies; Rust signed / and % truncate toward zero (Verus semantics for exec code)',
]

BOUNDED = {p: [{'name': 'temporal-literals-and-zones', 'script': 'tempdiff.py', 'args': [],
                'functions': ['feel/src/temporal (regex patterns RE_DATE / RE_TIME / RE_DATE_AND_TIME, duration parsers, get_zone_offset through chrono-tz, TryFrom<(FeelNumber, FeelNumber, FeelNumber)> for FeelDate)'],
                'bound': 'about 6 600 FEEL expressions: date / time / date-and-time / duration literals from component grids (accepted, and equal to what their text form reads back as) and with one separator replaced by a foreign '
                         'character or a component out of range (null); date(y, m, d) for 6 years x 13 months x 14 days including values beyond 256 and 65536; the UTC offset in force at local times every 30 minutes around each '
                         '2020 / 2021 transition of five IANA zones (ambiguous and non-existent local times excluded; on the hour also with fractional seconds) against CPython zoneinfo; the `time offset` of winter and summer dates in three zones (the offset of the date of the value, not of today); offsets written with seconds under = < > and subtraction; every zone identifier spelled with digits, signs, three components or no area; instants that differ in any of the nine fraction digits and one instant written on two calendar days under = != < <= in and list membership (served under C09 too); components of durations beyond 2^64 nanoseconds'}] for p in ('C14', 'C15', 'C09')}
