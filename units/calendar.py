"""Unit `calendar`: feel/src/temporal/{date,ym_duration,dt_duration,zone}.rs (C15, C14, C09 date order, C05)."""
D = 'feel/src/temporal/date.rs'
YM = 'feel/src/temporal/ym_duration.rs'
DT = 'feel/src/temporal/dt_duration.rs'
Z = 'feel/src/temporal/zone.rs'
P15 = ['C15']
A15 = ['C15', 'C05']

def dfn(path, key, **kw):
    d = {'kind': 'fn', 'src': D, 'path': path, 'key': 'calendar::' + key, 'props': P15, 'auto_props': A15, 'loops': 0}
    d.update(kw)
    return d

DATE_VIEW = 'r.0 == year && r.1 == month && r.2 == day'

UNIT = {
    'name': 'calendar',
    'uses': ['use std::cmp::Ordering;'],
    'parts': [
        {'kind': 'vrs', 'file': 'calendar/spec.vrs'},
        {'kind': 'vrs', 'file': 'calendar/prelude.vrs'},
        {'kind': 'item', 'src': D, 'path': 'struct FeelDate',
         'rewrites': [('RX', 'R7', r'pub struct FeelDate\(i32, u8, u8\);', 'pub struct FeelDate(pub i32, pub u8, pub u8);', 1)]},
        {'kind': 'item', 'src': YM, 'path': 'struct FeelYearsAndMonthsDuration',
         'rewrites': [('RX', 'R7', r'pub struct FeelYearsAndMonthsDuration\(i64\);', 'pub struct FeelYearsAndMonthsDuration(pub i64);', 1)]},
        {'kind': 'item', 'src': YM, 'path': 'const MONTHS_IN_YEAR'},
        # ------------------------------------------------------------------ Gregorian rules
        dfn('fn is_leap_year', 'is_leap_year', ret='r',
            ensures=[('gregorian_leap', 'r == greg_leap(year as int)')]),
        dfn('fn last_day_of_month', 'last_day_of_month', ret='r',
            ensures=[('month_lengths', '(1 <= month <= 12) ==> r == Some(greg_last_day(year as int, month as int) as u8)'),
                     ('no_such_month', '!(1 <= month <= 12) ==> r is None')]),
        dfn('fn is_valid_date', 'is_valid_date', ret='r',
            rewrites=[('RX', 'R11', r'DateTime::try_from\(FeelDate\(year, month, day\)\)\.is_ok\(\)', 'chrono_date_ok(year, month, day)', 1)],
            ensures=[('valid_implies_calendar', 'r ==> greg_valid(year as int, month as int, day as int) && feel_year_ok(year as int)'),
                     ('calendar_implies_valid', 'greg_valid(year as int, month as int, day as int) && feel_year_ok(year as int) ==> r')]),
        dfn('impl FeelDate::fn new_opt', 'FeelDate::new_opt', ret='r',
            ensures=[('some_iff_valid', 'r is Some <==> greg_valid(year as int, month as int, day as int) && feel_year_ok(year as int)'),
                     ('components', 'r is Some ==> r->Some_0.0 == year && r->Some_0.1 == month && r->Some_0.2 == day')]),
        dfn('impl FeelDate::fn new', 'FeelDate::new', ret='r', ensures=[('components', DATE_VIEW)]),
        dfn('impl FeelDate::fn year', 'FeelDate::year', ret='r', ensures=[('is_year', 'r == self.0')]),
        dfn('impl FeelDate::fn month', 'FeelDate::month', ret='r', ensures=[('is_month', 'r == self.1')]),
        dfn('impl FeelDate::fn day', 'FeelDate::day', ret='r', ensures=[('is_day', 'r == self.2')]),
        dfn('impl FeelDate::fn as_tuple', 'FeelDate::as_tuple', ret='r', ensures=[('components', 'r.0 == self.0 && r.1 == self.1 as u32 && r.2 == self.2 as u32')]),
        # ------------------------------------------------------------------ equality and order
        {'kind': 'text', 'note': 'spec-impl', 'text': """impl vstd::std_specs::cmp::PartialEqSpecImpl for FeelDate {
  open spec fn obeys_eq_spec() -> bool { true }
  open spec fn eq_spec(&self, o: &FeelDate) -> bool { self.0 == o.0 && self.1 == o.1 && self.2 == o.2 }
}
impl vstd::std_specs::cmp::PartialOrdSpecImpl for FeelDate {
  open spec fn obeys_partial_cmp_spec() -> bool { true }
  open spec fn partial_cmp_spec(&self, o: &FeelDate) -> Option<Ordering> {
    if self.0 == o.0 && self.1 == o.1 && self.2 == o.2 { Some(Ordering::Equal) }
    else if date_lt(self.0 as int, self.1 as int, self.2 as int, o.0 as int, o.1 as int, o.2 as int) { Some(Ordering::Less) }
    else { Some(Ordering::Greater) }
  }
}"""},
        {'kind': 'item', 'src': D, 'path': 'impl PartialEq for FeelDate', 'key': 'calendar::FeelDate::eq', 'auto_props': ['C15', 'C09']},
        {'kind': 'item', 'src': D, 'path': 'impl PartialOrd for FeelDate', 'key': 'calendar::FeelDate::partial_cmp', 'auto_props': ['C15', 'C09']},
        # ------------------------------------------------------------------ whole months
        {'kind': 'fn', 'src': YM, 'path': 'impl FeelYearsAndMonthsDuration::fn new_m', 'key': 'calendar::FeelYearsAndMonthsDuration::new_m',
         'props': P15, 'auto_props': A15, 'loops': 0, 'ret': 'r', 'ensures': [('total', 'r.0 == months')]},
        dfn('impl FeelDate::fn ym_duration', 'FeelDate::ym_duration', ret='r',
            ensures=[('whole_months', 'r.0 == whole_months(self.0 as int, self.1 as int, self.2 as int, other.0 as int, other.1 as int, other.2 as int)')]),
        # ------------------------------------------------------------------ date(year, month, day)
        dfn('impl TryFrom<(FeelNumber, FeelNumber, FeelNumber)> for FeelDate::fn try_from', 'FeelDate::try_from_numbers', ret='r',
            impl_header='impl FeelDate {',
            sig_rewrite=[(r'Self::Error', 'DmntkError'), (r'^(\s*)fn ', r'\1pub fn ')],
            body_prefix='broadcast use axiom_num_lt_int;',
            rewrites=[('RX', 'R11', r'let year = value\.0\.into\(\);', 'let year = num_to_i32(value.0);', 1),
                      ('RX', 'R11', r'let month = value\.1\.into\(\);', 'let month = num_to_u8(value.1);', 1),
                      ('RX', 'R11', r'let day = value\.2\.into\(\);', 'let day = num_to_u8(value.2);', 1),
                      ('RX', 'R11', r'invalid_date\(value\.0\.into\(\), value\.1\.into\(\), value\.2\.into\(\)\)', 'invalid_date(num_to_i32(value.0), num_to_u8(value.1), num_to_u8(value.2))', 1),
                      ('RX', 'R11', r'FeelNumber::from\((-?[0-9_]+)\)', r'num_from_i32(\1)', 2),
                      ('RX', 'R11', r'FeelNumber::from\(([0-9]+)_u8\)', r'num_from_u8(\1_u8)', 2)],
            ensures=[('accepts_exactly_valid',
                      '(num_as_int(value.0) is Some && num_as_int(value.1) is Some && num_as_int(value.2) is Some) ==> '
                      '(r is Ok <==> greg_valid(num_as_int(value.0)->Some_0, num_as_int(value.1)->Some_0, num_as_int(value.2)->Some_0) && feel_year_ok(num_as_int(value.0)->Some_0))'),
                     ('components_exact',
                      '(num_as_int(value.0) is Some && num_as_int(value.1) is Some && num_as_int(value.2) is Some && r is Ok) ==> '
                      'r->Ok_0.0 == num_as_int(value.0)->Some_0 && r->Ok_0.1 == num_as_int(value.1)->Some_0 && r->Ok_0.2 == num_as_int(value.2)->Some_0')]),
    ],
}
