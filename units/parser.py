"""Unit `parser`: feel-parser/src/parser.rs Parser::parse - the driver loop interprets the packed LALR tables of lalr.rs as the
Bison skeleton defines (C06; C05 for its index arithmetic)."""
import os, re, sys
sys.path.insert(0, os.path.dirname(os.path.abspath(__file__)))
from vf import build as VB
PR = 'feel-parser/src/parser.rs'
LR = 'feel-parser/src/lalr.rs'
LX = 'feel-parser/src/lexer.rs'
P = ['C06']
A = ['C06', 'C05']

TABLES = ['YY_PACT_N_INF', 'YY_TABLE_N_INF', 'YY_FINAL', 'YY_LAST', 'YY_N_TOKENS', 'YY_TRANSLATE', 'YY_PACT', 'YY_DEF_ACT', 'YY_P_GOTO', 'YY_DEF_GOTO', 'YY_TABLE', 'YY_CHECK', 'YY_R1', 'YY_R2']

REG = ('only_cursor', 'true')
STEP = ('1 <= self.yy_state_stack@.len() && self.yy_state_stack@.last() == self.yy_state && self.yy_state < 282 && forall |k: int| 0 <= k < self.yy_state_stack@.len() ==> (#[trigger] self.yy_state_stack@[k]) < 282')

UNIT = {
    'name': 'parser',
    'uses': [],
    'parts': [{'kind': 'item', 'src': LR, 'path': 'enum TokenType'}, {'kind': 'item', 'src': LR, 'path': 'enum SymbolKind'}]
    + [{'kind': 'item', 'src': LR, 'path': 'const ' + t} for t in TABLES] + [
        {'kind': 'item', 'src': LX, 'path': 'enum TokenValue'},
        {'kind': 'item', 'src': PR, 'path': 'enum Action', 'rewrites': [('RX', 'R7', r'(?<!pub )enum Action', 'pub enum Action', 1)]},
        {'kind': 'item', 'src': PR, 'path': 'struct Parser',
         'rewrites': [('RX', 'R7', r"pub struct Parser<'parser>", 'pub struct Parser', 1), ('RX', 'R8', r"scope: &'parser Scope,", 'pub scope: Scope,', 1), ('RX', 'R7', r"input: &'parser str,", 'pub input: String,', 1),
                      ('RX', 'R7', r"yy_lexer: Lexer<'parser>,", 'pub yy_lexer: Lexer,', 1),
                      ('RX', 'R7', r'\n  (yy_trace|yy_char|yy_value|yy_token|yy_state|yy_n|yy_len|yy_state_stack|yy_value_stack|yy_node_stack):', r'\n  pub \1:', 10)]},
        {'kind': 'vrs', 'file': 'parser/prelude.vrs'},
        {'kind': 'vrs', 'file': 'parser/spec.vrs'},
        {'kind': 'fn', 'src': PR, 'path': "impl<'parser> Parser<'parser>::fn parse", 'key': 'parser::Parser::parse', 'props': P, 'auto_props': A, 'loops': 2, 'ret': 'r',
         'impl_header': 'impl Parser {', 'attrs': '#[verifier::exec_allows_no_decreases_clause]\n#[verifier::rlimit(200)]',
         'rewrites': [('RX', 'R6', r'trace!\(self, [^;]*\);', '', None),
                      ('RX', 'R6', r'if self\.yy_trace \{\s*node\.trace\(\);\s*\}', '', 1),
                      ('RX', 'R11', r'crate::lalr::reduce\(self, self\.yy_n\)\?', 'reduce(self, self.yy_n)?', 1),
                      ('RX', 'R11', r'\(0\.\.=YY_LAST\)\.contains\(&yy_i\)', '(0 <= yy_i && yy_i <= YY_LAST)', 1),
                      ('RX', 'R11', r'syntax_error\(self\.input\)', 'syntax_error(self.input.as_str())', 2),
                      ('RX', 'R22', r'\bYY_(PACT|DEF_ACT|TABLE|CHECK|P_GOTO|DEF_GOTO|R1|R2|TRANSLATE)\[([^\]]+)\]', lambda m: 'yy_%s(%s)' % (m.group(1).lower(), m.group(2)), None)],
         'requires': [('initial_stacks', STEP.replace('self.', 'old(self).')), ('no_lookahead_yet', '-2 <= old(self).yy_char <= 315')],
         'body_prefix': 'proof { axiom_tables_wf(); }',
         'loop_specs': {0: {'body_prefix': 'proof { axiom_tables_wf(); }',
                            'invariant': [
             ('stacks', STEP),
             ('lookahead_is_a_token_type', '-2 <= self.yy_char <= 315'),
             ('shift_is_what_the_tables_say', 'action is Shift ==> 0 < self.yy_n && tbl_lookup(self.yy_state as int, self.yy_token as int) == Act::Shift(self.yy_n as int)'),
             ('reduce_is_what_the_tables_say', 'action is Reduce ==> 0 < self.yy_n < 151 && tbl_lookup(self.yy_state as int, self.yy_token as int) == Act::Reduce(self.yy_n as int)'),
             ('default_only_when_the_tables_say', 'action is Default ==> tbl_lookup(self.yy_state as int, self.yy_token as int) == dflt(self.yy_state as int)'),
             ('error_only_when_the_tables_say', 'action is Error ==> tbl_lookup(self.yy_state as int, self.yy_token as int) == Act::Error')]},
                        1: {'invariant': [('frame', '0 < self.yy_n < 151 && -2 <= self.yy_char <= 315 && forall |k: int| 0 <= k < self.yy_state_stack@.len() ==> (#[trigger] self.yy_state_stack@[k]) < 282')]}},
         'splices': [{'id': 'A-LR', 'op': 'before', 'anchor': 'let top_state = self.yy_state_stack[self.yy_state_stack.len() - 1] as i16;',
                      'text': 'proof { assume(self.yy_state_stack@.len() >= 1); } /* A-LR: a correct LR automaton reduces only when the stack holds the right-hand side below which a state remains */'},
                     {'id': 'goto', 'op': 'before', 'anchor': 'self.yy_state_stack.push(self.yy_state);', 'nth': 1,
                      'text': 'proof { assert(self.yy_state as int == goto_state(top_state as int, self.yy_n as int)); } /* the new state is the goto of the tables */'}],
         },
    ],
}
ASSUMPTIONS = ['A-tables: range facts about the entries of the tables in lalr.rs (axiom_tables_wf), re-checked on every run by scanning the file (frame check lalr_tables_well_formed)',
               'the reduce actions do not touch the automaton registers and stacks (stub `reduce`; syntactic frame check reduce_actions_leave_the_automaton_alone)',
               'the lexer is opaque; error constructors opaque; trace output dropped (R6)']
NOT_DECIDED = {'C06': ['that the tables are the LALR(1) tables of feel.y (no bison here): only the BOUNDED operator-precedence round trip looks at their content',
                       'termination of the driver loop; that the state stack is deep enough when a rule is reduced (a property of correct LR tables: assumed at the reduction, A-LR)']}


def _tables(repo):
    t = open(os.path.join(repo, LR), encoding='utf-8').read()
    out = {}
    for m in re.finditer(r'pub const (YY_\w+): \[(\w+); (\d+)\] = \[(.*?)\];', t, re.S):
        vals = [int(x) for x in re.findall(r'-?\d+', m.group(4))]
        if len(vals) != int(m.group(3)):
            raise Exception('table %s: %d entries declared, %d found' % (m.group(1), int(m.group(3)), len(vals)))
        out[m.group(1)] = vals
    for m in re.finditer(r'pub const (YY_\w+): \w+ = (-?\d+);', t):
        out[m.group(1)] = int(m.group(2))
    return out


def lalr_tables_well_formed(repo):
    """the range facts assumed as A-tables (axiom_tables_wf), computed from the arrays of lalr.rs"""
    T = _tables(repo)
    res = []

    def chk(name, ok, detail=''):
        res.append({'name': 'lalr.rs tables: ' + name, 'ok': bool(ok), 'detail': detail, 'src': LR})
    n_states, n_rules, n_nterms, last = 282, 151, 70, 885
    chk('array lengths are the ones the contracts use', len(T['YY_PACT']) == n_states and len(T['YY_DEF_ACT']) == n_states and len(T['YY_TABLE']) == last + 1 and len(T['YY_CHECK']) == last + 1
        and len(T['YY_P_GOTO']) == n_nterms and len(T['YY_DEF_GOTO']) == n_nterms and len(T['YY_R1']) == n_rules and len(T['YY_R2']) == n_rules and len(T['YY_TRANSLATE']) == 316
        and T['YY_LAST'] == last and T['YY_N_TOKENS'] == 61, str({k: (len(v) if isinstance(v, list) else v) for k, v in T.items()}))
    chk('default actions are rule numbers', all(0 <= x < n_rules for x in T['YY_DEF_ACT']))
    chk('YY_PACT entries in -300..885', all(-300 <= x <= 885 for x in T['YY_PACT']))
    chk('YY_TABLE entries are states, negated rules or the error marker', all(-n_rules < x < n_states or x == T['YY_TABLE_N_INF'] for x in T['YY_TABLE']))
    chk('YY_CHECK entries in -1..281', all(-1 <= x < n_states for x in T['YY_CHECK']))
    chk('checked entries are not 0', all(T['YY_TABLE'][i] != 0 for i in range(last + 1) if T['YY_CHECK'][i] >= 0))
    chk('default gotos are states', all(0 <= x < n_states for x in T['YY_DEF_GOTO']))
    chk('YY_P_GOTO entries in -300..885', all(-300 <= x <= 885 for x in T['YY_P_GOTO']))
    chk('rule left-hand sides are non-terminals', all(61 <= T['YY_R1'][r] < 131 for r in range(1, n_rules)))
    chk('right-hand side lengths in 0..16', all(0 <= x <= 16 for x in T['YY_R2']))
    chk('YY_TRANSLATE entries are token numbers', all(0 <= x < 61 for x in T['YY_TRANSLATE']))
    bad = [(l, top) for l in range(n_nterms) for top in range(n_states)
           if 0 <= T['YY_P_GOTO'][l] + top <= last and T['YY_CHECK'][T['YY_P_GOTO'][l] + top] == top and T['YY_TABLE'][T['YY_P_GOTO'][l] + top] < 0]
    chk('entries reached as gotos are state numbers', not bad, str(bad[:3]))
    return res


def reduce_actions_leave_the_automaton_alone(repo):
    """frame of lalr::reduce: no reduce action assigns an automaton register or pushes / pops the state and value stacks"""
    from vf import rsscan
    src = rsscan.Source(os.path.join(repo, PR))
    s0, e0, kw, body_open = rsscan.locate(src, "impl<'parser> ReduceActions for Parser<'parser>")
    code = ''.join(ch if src.cls[body_open + k] == rsscan.CODE else ' ' for k, ch in enumerate(src.text[body_open:e0]))
    bad = re.findall(r'self\s*\.\s*(?:yy_state_stack|yy_value_stack)\s*\.\s*(?:push|pop|clear|truncate|remove|insert|drain|append)\b|self\s*\.\s*(?:yy_state|yy_n|yy_len|yy_char|yy_token|yy_value)\s*(?:[-+*/]?=)(?!=)', code)
    return [{'name': 'parser.rs: reduce actions do not write the automaton registers or the state / value stacks', 'ok': not bad, 'detail': '; '.join(bad[:5]) or 'no such access in the ReduceActions impl', 'src': PR}]


FRAME_CHECKS = {'C06': [lalr_tables_well_formed, reduce_actions_leave_the_automaton_alone]}
