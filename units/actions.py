"""Unit `actions`: feel-parser/src/parser.rs - the reduce actions that build operator nodes (C06): each takes its operands from the node stack and
pushes the node of ITS construct with the operands in written order (left operand deepest), leaving everything below them, the token values
and the lexer alone; with too few operands it is an error."""
import os, sys
sys.path.insert(0, os.path.dirname(os.path.abspath(__file__)))
import purity as PU
PR = 'feel-parser/src/parser.rs'
P = ['C06']
A = ['C06', 'C05']
NS0 = 'old(self).yy_node_stack@'
NS1 = 'final(self).yy_node_stack@'
VS = 'old(self).yy_value_stack@'
FRAME = ('only_the_node_stack_changes', 'final(self).yy_value_stack == old(self).yy_value_stack && final(self).yy_lexer == old(self).yy_lexer && final(self).yy_len == old(self).yy_len')

def node(ctor, k):
    args = ', '.join('Box::new(%s[%s.len() - %d])' % (NS0, NS0, k - i) for i in range(k))
    return 'AstNode::%s(%s)' % (ctor, args)

def act(name, ctor, k, lenient=False):
    ens = [('the_node_of_this_construct_over_the_operands_in_written_order',
            '%s.len() >= %d ==> r is Ok && %s =~= %s.subrange(0, %s.len() - %d).push(%s)' % (NS0, k, NS1, NS0, NS0, k, node(ctor, k))), FRAME]
    if lenient:
        ens.append(('nothing_to_negate_nothing_done', '%s.len() < %d ==> r is Ok && %s =~= %s' % (NS0, k, NS1, NS0)))
    else:
        ens.append(('too_few_operands_is_an_error', '%s.len() < %d ==> r is Err' % (NS0, k)))
    return {'kind': 'fn', 'src': PR, 'path': "impl<'parser> ReduceActions for Parser<'parser>::fn action_" + name, 'key': 'actions::Parser::action_' + name,
            'props': P + (['C07'] if name == 'literal_numeric' else []), 'auto_props': A, 'loops': 0, 'ret': 'r', 'impl_header': 'impl Parser {', 'sig_rewrite': [(r'^(\s*)fn ', r'\1pub fn ')],
            'rewrites': [('R3',), ('RX', 'R6', r'trace_action!\(self, "[^"]*"\);', '', 1),
                         ('RX', 'R11', r'self\.yy_node_stack\.pop\(\)\.ok_or_else\(err_pop\)\?', 'node_or_err(self.yy_node_stack.pop())?', None)],
            'ensures': ens}

BINARY = {'addition': 'Add', 'subtraction': 'Sub', 'multiplication': 'Mul', 'division': 'Div', 'exponentiation': 'Exp',
          'comparison_eq': 'Eq', 'comparison_nq': 'Nq', 'comparison_lt': 'Lt', 'comparison_le': 'Le', 'comparison_gt': 'Gt', 'comparison_ge': 'Ge', 'comparison_in': 'In',
          'conjunction': 'And', 'disjunction': 'Or', 'filter': 'Filter', 'instance_of': 'InstanceOf', 'interval': 'Range',
          'function_definition': 'FunctionDefinition', 'function_invocation': 'FunctionInvocation', 'function_type': 'FunctionType'}
TERNARY = {'between': 'Between', 'if': 'If'}
UNARY = {'comparison_unary_lt': 'UnaryLt', 'comparison_unary_le': 'UnaryLe', 'comparison_unary_gt': 'UnaryGt', 'comparison_unary_ge': 'UnaryGe', 'list_type': 'ListType', 'range_type': 'RangeType'}

# list-building actions (right-recursive rules): the node on top is either the collection built so far - then the item below it goes in FRONT,
# keeping the written order - or the last item of the list, which starts the collection
TAILS = {'list_tail': 'CommaList', 'expression_list_tail': 'ExpressionList', 'positional_parameters_tail': 'PositionalParameters', 'context_entry_tail': 'Context',
         'named_parameters_tail': 'NamedParameters', 'function_type_parameters_tail': 'ParameterTypes', 'context_type_entry_tail': 'ContextType',
         'iteration_contexts_tail': 'IterationContexts', 'quantified_expressions_tail': 'QuantifiedContexts'}

def tail(name, ctor):
    top = '%s[%s.len() - 1]' % (NS0, NS0)
    below = '%s[%s.len() - 2]' % (NS0, NS0)
    d = act(name, ctor, 1)
    d['ensures'] = [
        ('an_item_goes_in_front_of_the_collection_built_so_far',
         '(%s.len() >= 2 && %s is %s) ==> r is Ok && exists |items: Vec<AstNode>| items@ == seq![%s] + %s->%s_0@ && %s =~= %s.subrange(0, %s.len() - 2).push(AstNode::%s(items))' % (NS0, top, ctor, below, top, ctor, NS1, NS0, NS0, ctor)),
        ('the_last_item_starts_the_collection',
         '(%s.len() >= 1 && !(%s is %s)) ==> r is Ok && exists |items: Vec<AstNode>| items@ == seq![%s] && %s =~= %s.subrange(0, %s.len() - 1).push(AstNode::%s(items))' % (NS0, top, ctor, top, NS1, NS0, NS0, ctor)),
        ('too_few_operands_is_an_error', '(%s.len() == 0 || (%s.len() == 1 && %s is %s)) ==> r is Err' % (NS0, NS0, top, ctor)),
        FRAME]
    return d

# literal and name actions: the token value on top of the value stack becomes the node, unchanged (C07: the digit texts of a numeric token)
def leaf(name, tok, node_expr, fields):
    d = act(name, 'X', 0)
    cond = '%s.len() >= 1 && %s[%s.len() - 1] is %s' % (VS, VS, VS, tok)
    d['ensures'] = [('the_token_value_becomes_the_node_unchanged', '(%s) ==> r is Ok && %s =~= %s.push(%s)' % (cond, NS1, NS0, node_expr % tuple('%s[%s.len() - 1]->%s_%d' % (VS, VS, tok, i) for i in range(fields)))),
                    ('no_such_token_nothing_done', '!(%s) ==> r is Ok && %s =~= %s' % (cond, NS1, NS0)), FRAME]
    return d

TOP = '%s[%s.len() - 1]' % (NS0, NS0)
VFRAME = ('token_values_unchanged', 'final(self).yy_value_stack == old(self).yy_value_stack && final(self).yy_len == old(self).yy_len')

def custom(name, ensures, requires=None, frame=FRAME, props=None):
    d = act(name, 'X', 0)
    d['ensures'] = ensures + [frame]
    if requires:
        d['requires'] = requires
    if props:
        d['props'] = props
    return d

def rewrap(name, frm, to):
    return custom(name, [('the_collected_items_become_the_node', '(%s.len() >= 1 && %s is %s) ==> r is Ok && %s =~= %s.subrange(0, %s.len() - 1).push(AstNode::%s(%s->%s_0))' % (NS0, TOP, frm, NS1, NS0, NS0, to, TOP, frm)),
                         ('anything_else_is_dropped', '(%s.len() >= 1 && !(%s is %s)) ==> r is Ok && %s =~= %s.subrange(0, %s.len() - 1)' % (NS0, TOP, frm, NS1, NS0, NS0)),
                         ('nothing_there_nothing_done', '%s.len() == 0 ==> r is Ok && %s =~= %s' % (NS0, NS1, NS0))])

def constant(name, ctor):
    return custom(name, [('an_empty_collection_node', 'r is Ok && %s.len() == %s.len() + 1 && %s.subrange(0, %s.len() as int) =~= %s && %s.last() is %s && %s.last()->%s_0@.len() == 0' % (NS1, NS0, NS1, NS0, NS0, NS1, ctor, NS1, ctor))])

def scoped(name, outer, inner):
    # for / some / every: the body on top, the iteration or quantified contexts below it; the temporary context of the construct is popped (unit purity states that half)
    return custom(name, [('the_construct_over_its_contexts_and_its_body', '%s.len() >= 2 ==> r is Ok && %s =~= %s.subrange(0, %s.len() - 2).push(AstNode::%s(Box::new(%s[%s.len() - 2]), Box::new(AstNode::%s(Box::new(%s)))))'
                          % (NS0, NS1, NS0, NS0, outer, NS0, NS0, inner, TOP)),
                         ('too_few_operands_is_an_error', '%s.len() < 2 ==> r is Err' % NS0)], frame=VFRAME)

EXTRA = [
    scoped('for', 'For', 'EvaluatedExpression'), scoped('some', 'Some', 'Satisfies'), scoped('every', 'Every', 'Satisfies'),
    rewrap('list', 'CommaList', 'List'), rewrap('unary_tests_negated', 'ExpressionList', 'NegatedList'),
    constant('list_empty', 'CommaList'), constant('formal_parameters_empty', 'FormalParameters'), constant('empty_context', 'Context'),
    custom('unary_tests_irrelevant', [('the_irrelevant_test', 'r is Ok && %s =~= %s.push(AstNode::Irrelevant)' % (NS1, NS0))]),
    custom('formal_parameters_first', [('the_first_parameter_starts_the_list', '%s.len() >= 1 ==> r is Ok && exists |items: Vec<AstNode>| items@ == seq![%s] && %s =~= %s.subrange(0, %s.len() - 1).push(AstNode::FormalParameters(items))' % (NS0, TOP, NS1, NS0, NS0)),
                                       ('too_few_operands_is_an_error', '%s.len() < 1 ==> r is Err' % NS0)]),
    custom('function_invocation_no_parameters', [('an_invocation_with_no_arguments', '%s.len() >= 1 ==> r is Ok && exists |items: Vec<AstNode>| items@.len() == 0 && %s =~= %s.subrange(0, %s.len() - 1).push(AstNode::FunctionInvocation(Box::new(%s), Box::new(AstNode::PositionalParameters(items))))' % (NS0, NS1, NS0, NS0, TOP)),
                                                 ('nothing_there_nothing_done', '%s.len() == 0 ==> r is Ok && %s =~= %s' % (NS0, NS1, NS0))]),
    custom('path', [('the_property_of_the_name_token', '(%s.len() >= 1 && %s.len() >= 1 && %s[%s.len() - 1] is Name) ==> r is Ok && %s =~= %s.subrange(0, %s.len() - 1).push(AstNode::Path(Box::new(%s), Box::new(AstNode::Name(%s[%s.len() - 1]->Name_0))))' % (NS0, VS, VS, VS, NS1, NS0, NS0, TOP, VS, VS)),
                    ('too_few_operands_is_an_error', '%s.len() < 1 ==> r is Err' % NS0)]),
    custom('interval_end', [('closed_iff_the_bracket_read_is_a_right_bracket', '%s.len() >= 1 ==> r is Ok && %s =~= %s.subrange(0, %s.len() - 1).push(AstNode::IntervalEnd(Box::new(%s), %s[%s.len() - 1] is RightBracket))' % (NS0, NS1, NS0, NS0, TOP, VS, VS)),
                            ('too_few_operands_is_an_error', '%s.len() < 1 ==> r is Err' % NS0)], requires=[('a_token_was_read', '%s.len() >= 1' % VS)]),
    custom('interval_start', [('closed_iff_the_first_token_of_the_rule_is_a_left_bracket', '%s.len() >= 1 ==> r is Ok && %s =~= %s.subrange(0, %s.len() - 1).push(AstNode::IntervalStart(Box::new(%s), %s[%s.len() - old(self).yy_len] is LeftBracket))' % (NS0, NS1, NS0, NS0, TOP, VS, VS)),
                              ('too_few_operands_is_an_error', '%s.len() < 1 ==> r is Err' % NS0)], requires=[('the_tokens_of_the_rule_are_on_the_value_stack', '1 <= old(self).yy_len && old(self).yy_len as int <= %s.len()' % VS)]),
]

BASE = [p for p in PU.UNIT['parts'] if p.get('kind') in ('item', 'vrs', 'text') and p not in PU.PARSER_PARTS] + [p for p in PU.PARSER_PARTS if p.get('kind') in ('item', 'vrs', 'text')]
UNIT = {
    'name': 'actions',
    'file_attrs': PU.UNIT.get('file_attrs', []),
    'uses': PU.UNIT['uses'],
    'parts': BASE + [act(n, c, 2) for (n, c) in sorted(BINARY.items())] + [act(n, c, 3) for (n, c) in sorted(TERNARY.items())] + [act(n, c, 1) for (n, c) in sorted(UNARY.items())]
             + [act('negation', 'Neg', 1, lenient=True)] + [tail(n, c) for (n, c) in sorted(TAILS.items())]
             + [leaf('literal_numeric', 'Numeric', 'AstNode::Numeric(%s, %s)', 2), leaf('literal_boolean', 'Boolean', 'AstNode::Boolean(%s)', 1), leaf('literal_null', 'Null', 'AstNode::Null', 0),
                leaf('literal_string', 'String', 'AstNode::String(%s)', 1), leaf('literal_at', 'String', 'AstNode::At(%s)', 1), leaf('name', 'Name', 'AstNode::Name(%s)', 1), leaf('key_name', 'Name', 'AstNode::ContextEntryKey(%s)', 1)]
             + [p_ for p_ in PU.UNIT['parts'] if p_.get('key') in ('purity::Scope::pop',)] + [PU.lexfn('pop_from_scope', 'pop')] + EXTRA,
}
ASSUMPTIONS = ['A-grammar: which production calls which action, and that its operands are the nodes on top of the stack in written order, is the generated parse table (unit parser proves the driver follows the tables; '
               'BOUNDED operator-precedence-round-trip looks at the tables themselves)',
               'A-derive: Box::new(x) is x; Vec::pop / push as specified by vstd; R6 trace macros erased; R11 pop().ok_or_else(err_pop)? as a helper with the same meaning']
NOT_DECIDED = {'C06': ['the list-building, name, literal, iteration and quantifier actions (they assemble vectors of nodes or read the token values): bounded stand-ins only',
                       'that the tables call these actions for the productions they are named after (A-grammar)']}
