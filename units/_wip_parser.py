"""Unit `parser`: feel-parser/src/parser.rs Parser::parse - the driver loop interprets the packed LALR tables of lalr.rs as the
Bison skeleton defines (C06; C05 for its index arithmetic)."""
import os, re, sys
sys.path.insert(0, os.path.dirname(os.path.abspath(__file__)))
from vf import build as VB
PR = 'feel-parser/src/parser.rs'
LR = 'feel-parser/src/lalr.rs'
LX = 'feel-parser/src/lexer.rs'
P = ['C06']
A = ['C06', 'C05']

TABLES = ['YY_PACT_N_INF', 'YY_TABLE_N_INF', 'YY_FINAL', 'YY_LAST', 'YY_N_TOKENS', 'YY_TRANSLATE', 'YY_PACT', 'YY_DEF_ACT', 'YY_P_GOTO', 'YY_DEF_GOTO', 'YY_TABLE', 'YY_CHECK', 'YY_R1', 'YY_R2']

REG = ('only_cursor', 'true')
STEP = ('1 <= self.yy_state_stack@.len() && self.yy_state_stack@.len() == self.yy_value_stack@.len() && self.yy_state_stack@.last() == self.yy_state && self.yy_state < 282')

UNIT = {
    'name': 'parser',
    'uses': [],
    'parts': [{'kind': 'item', 'src': LR, 'path': 'enum TokenType'}, {'kind': 'item', 'src': LR, 'path': 'enum SymbolKind'}]
    + [{'kind': 'item', 'src': LR, 'path': 'const ' + t} for t in TABLES] + [
        {'kind': 'item', 'src': LX, 'path': 'enum TokenValue'},
        {'kind': 'item', 'src': PR, 'path': 'enum Action', 'rewrites': [('RX', 'R7', r'(?<!pub )enum Action', 'pub enum Action', 1)]},
        {'kind': 'item', 'src': PR, 'path': 'struct Parser',
         'rewrites': [('RX', 'R7', r"pub struct Parser<'parser>", 'pub struct Parser', 1), ('RX', 'R8', r"scope: &'parser Scope,", 'pub scope: Scope,', 1), ('RX', 'R7', r"input: &'parser str,", 'pub input: String,', 1),
                      ('RX', 'R7', r"yy_lexer: Lexer<'parser>,", 'pub yy_lexer: Lexer,', 1),
                      ('RX', 'R7', r'\n  (yy_trace|yy_char|yy_value|yy_token|yy_state|yy_n|yy_len|yy_state_stack|yy_value_stack|yy_node_stack):', r'\n  pub \1:', 10)]},
        {'kind': 'vrs', 'file': 'parser/prelude.vrs'},
        {'kind': 'vrs', 'file': 'parser/spec.vrs'},
        {'kind': 'fn', 'src': PR, 'path': "impl<'parser> Parser<'parser>::fn parse", 'key': 'parser::Parser::parse', 'props': P, 'auto_props': A, 'loops': 2, 'ret': 'r',
         'impl_header': 'impl Parser {', 'attrs': '#[verifier::exec_allows_no_decreases_clause]\n#[verifier::rlimit(200)]',
         'rewrites': [('RX', 'R6', r'trace!\(self, [^;]*\);', '', None),
                      ('RX', 'R6', r'if self\.yy_trace \{\s*node\.trace\(\);\s*\}', '', 1),
                      ('RX', 'R11', r'crate::lalr::reduce\(self, self\.yy_n\)\?', 'reduce(self, self.yy_n)?', 1),
                      ('RX', 'R11', r'\(0\.\.=YY_LAST\)\.contains\(&yy_i\)', '(0 <= yy_i && yy_i <= YY_LAST)', 1),
                      ('RX', 'R11', r'syntax_error\(self\.input\)', 'syntax_error(self.input.as_str())', 2)],
         'requires': [('initial_stacks', STEP.replace('self.', 'old(self).'))],
         'body_prefix': 'proof { axiom_tables_wf(); }',
         'loop_specs': {0: {'body_prefix': 'proof { axiom_tables_wf(); }',
                            'invariant': [
             ('stacks', STEP),
             ('shift_is_what_the_tables_say', 'action is Shift ==> 0 < self.yy_n && tbl_lookup(self.yy_state as int, self.yy_token as int) == Act::Shift(self.yy_n as int)'),
             ('reduce_is_what_the_tables_say', 'action is Reduce ==> 0 < self.yy_n < 151 && tbl_lookup(self.yy_state as int, self.yy_token as int) == Act::Reduce(self.yy_n as int)'),
             ('default_only_when_the_tables_say', 'action is Default ==> tbl_lookup(self.yy_state as int, self.yy_token as int) == dflt(self.yy_state as int)'),
             ('error_only_when_the_tables_say', 'action is Error ==> tbl_lookup(self.yy_state as int, self.yy_token as int) == Act::Error')]},
                        1: {'invariant': [('frame', 'self.yy_state < 282 && 0 < self.yy_n < 151 && self.yy_len == YY_R2[self.yy_n as int] as i16')]}},
         'splices': [{'id': 'goto', 'op': 'before', 'anchor': 'self.yy_state_stack.push(self.yy_state);', 'nth': 1,
                      'text': 'proof { assert(self.yy_state as int == goto_state(top_state as int, self.yy_n as int)); } /* the new state is the goto of the tables */'}],
         },
    ],
}
ASSUMPTIONS = ['A-tables: range facts about the entries of the tables in lalr.rs (axiom_tables_wf), re-checked on every run by scanning the file (frame check lalr_tables_well_formed)',
               'the reduce actions do not touch the automaton registers and stacks (stub `reduce`; syntactic frame check reduce_actions_leave_the_automaton_alone)',
               'the lexer is opaque; error constructors opaque; trace output dropped (R6)']
NOT_DECIDED = {'C06': ['that the tables are the LALR(1) tables of feel.y (no bison here): only the BOUNDED operator-precedence round trip looks at their content',
                       'termination of the driver loop; that the state stack is deep enough when a rule is reduced (a property of correct LR tables: assumed at the reduction, A-LR)']}
