"""Unit `member`: build_in's closure, eval_in_list and eval_in_list_in_list (C01, C03): `x in <tests>`."""
import os, sys, copy
sys.path.insert(0, os.path.dirname(os.path.abspath(__file__)))
import _common as C
import compare as CMP
B = 'feel-evaluator/src/builders.rs'
P = ['C01', 'C03']
A = ['C01', 'C03', 'C05']
ORD = 'broadcast use axiom_num_trichotomy, axiom_str_order;\nproof { axiom_string_ord(); }'

def renamed(parts):
    # the copies serve no property of their own (unit compare reports these obligations): they are verified again here only so that
    # the callers in this unit are checked against contracts that hold on this tree
    out = []
    for p in parts:
        p = copy.deepcopy(p)
        if 'key' in p:
            p['key'] = p['key'].replace('compare::', 'member::')
            p['props'] = []
            p['auto_props'] = []
            for k in ('requires', 'ensures'):
                if k in p:
                    p[k] = [tuple(c[:2]) for c in p[k]]
            for ls in p.get('loop_specs', {}).values():
                ls.pop('props', None)
            for sp in p.get('splices', []):
                sp.pop('props', None)
        out.append(p)
    return out

# the helpers of unit compare that `in` calls, under the same contracts (their own obligations are reported by unit compare; here they are
# re-checked so that callers are verified against contracts that hold)
KEEP = ('eval_ternary_equality', 'eval_in_equal', 'eval_in_range', 'eval_in_unary_less', 'eval_in_unary_less_or_equal', 'eval_in_unary_greater',
        'eval_in_unary_greater_or_equal', 'eval_in_negated_list', 'Values::as_vec', 'FeelContext::', 'const VALUE_', 'FeelDate::')
def keep(p):
    if p.get('kind') in ('vrs', 'text', 'item') and 'key' not in p:
        return True
    k = p.get('key', '') + ' ' + p.get('path', '')
    return any(x in k for x in KEEP)

BASE = [p for p in renamed(CMP.UNIT['parts']) if keep(p)]
ITEM = 'proof { assert(*item == items@[it.index@ as int]); }'
UNIT = {
    'name': 'member',
    'file_attrs': ['#![feature(allocator_api)]'],
    'uses': CMP.UNIT['uses'],
    'parts': BASE + [
        {'kind': 'vrs', 'file': 'member/spec.vrs'},
        {'kind': 'fn', 'src': B, 'path': 'fn eval_in_list', 'key': 'member::eval_in_list', 'props': P, 'auto_props': A, 'loops': 1, 'ret': 'r',
         'decreases': 'items@',
         'sig_rewrite': [(r'^(\s*)fn ', r'\1pub fn ')], 'rewrites': [('R3',)],
         'splices': [{'id': 'nested_list', 'op': 'after', 'anchor': 'Value::List(inner) => {',
                      'text': 'proof { assert(item->List_0 == *inner); assert(item_accepts(*left, *item) == Some(vals_accept(*left, *inner, 0) == Some(true)));\n  assert(*item == items@[it.index@ as int]); assert(decreases_to!(items@ => items@[it.index@ as int])); assert(decreases_to!(*item => item->List_0)); assert(decreases_to!(*inner => inner.0)); assert(decreases_to!(inner.0 => inner.0@)); }'}],
         'ensures': [('first_accepting_item_decides', 'forall |vs: Values| vs.0@ == items@ ==> tri_result(r, #[trigger] vals_accept(*left, vs, 0))')],
         'loop_specs': {0: {'iter_name': 'it', 'invariant': [
             ('seq', 'it.seq() =~= items@.map_values(|v: Value| &v)'),
             ('none_so_far', 'forall |vs: Values| vs.0@ == items@ ==> #[trigger] vals_accept(*left, vs, 0) == vals_accept(*left, vs, it.index@ as int)')],
             'body_prefix': ITEM + '\nproof { assert forall |vs: Values| vs.0@ == items@ implies #[trigger] vals_accept(*left, vs, 0) == (match item_accepts(*left, *item) { None => None::<bool>, Some(true) => Some(true), '
                            'Some(false) => vals_accept(*left, vs, it.index@ + 1) }) by { lemma_vals_step(*left, vs, it.index@ as int); } }'}}},
        {'kind': 'fn', 'src': B, 'path': 'fn eval_in_list_in_list', 'key': 'member::eval_in_list_in_list', 'props': P, 'auto_props': A, 'loops': 1, 'ret': 'r',
         'sig_rewrite': [(r'^(\s*)fn ', r'\1pub fn ')],
         'ensures': [('equal_to_one_of_the_lists', 'r == Value::Boolean(list_is_one_of(*list, items@))')],
         'loop_specs': {0: {'iter_name': 'it', 'invariant': [
             ('seq', 'it.seq() =~= items@.map_values(|v: Value| &v)'),
             ('none_so_far', 'forall |j: int| 0 <= j < it.index@ ==> !((#[trigger] items@[j]) is List && veq(*list, items@[j]))')],
             'body_prefix': ITEM}}},
        {'kind': 'closure', 'src': B, 'path': 'fn build_out', 'name': 'op_out', 'key': 'member::build_out', 'props': P, 'auto_props': A, 'loops': 0, 'ret': 'r',
         'rewrites': [('R3',)],
         'ensures': [('an_output_entry_within_the_output_values_is_returned_as_it_is', 'inv == Value::Boolean(true) ==> r == lhv'),
                     ('one_outside_them_is_null', 'inv != Value::Boolean(true) ==> r is Null')]},
        {'kind': 'closure', 'src': B, 'path': 'fn build_in', 'name': 'op_in', 'key': 'member::build_in', 'props': P, 'auto_props': A, 'loops': 0, 'ret': 'r',
         'rewrites': [('R3',)], 'body_prefix': ORD,
         'ensures': [('the_value_in_denotes', 'in_denotes(lhv, rhv, r)')]},
    ],
}
ASSUMPTIONS = CMP.ASSUMPTIONS
NOT_DECIDED = {'C01': ['a list on the left is compared with the LIST items on the right only (ranges / tests among them are ignored); a nested list on the right is read as a nested disjunction when the left operand is not a list'],
               'C03': ['that an input entry is compiled to `input in (entry)` is closure wiring (unit hitpolicy / bounded hit-policy differential)']}
