"""Unit `reqgraph`: model-evaluator/src/builders/decision.rs (+ business_knowledge_model.rs, decision_service.rs) - the evaluator closures
that walk the requirement graph (C04): over which context a decision's logic is evaluated, what is done with its value."""
import os, sys
sys.path.insert(0, os.path.dirname(os.path.abspath(__file__)))
import _common as C
D = 'model-evaluator/src/builders/decision.rs'
K = 'model-evaluator/src/builders/business_knowledge_model.rs'
X = 'feel/src/context.rs'
S = 'feel/src/scope.rs'
P = ['C04']
A = ['C04', 'C05']
PRE = 'broadcast use vstd::std_specs::btree::group_btree_axioms;\nproof { axiom_name_key(); }'

def FOR_EACH(v, var):
    # R13: `V.iter().for_each(|x| { BODY });` -> `for x in V.iter() { BODY }` (same calls in the same order)
    return ('RX', 'R13', v + r'\.iter\(\)\.for_each\(\|' + var + r'\| \{((?:.|\n)*?)\}\);', 'for ' + var + ' in ' + v + '.iter() {\\1}', 1)

ME = '*model_evaluator'
DEC_SIG = ('pub fn decision_closure(input_data_ctx: &FeelContext, model_evaluator: &ModelEvaluator, output_data_ctx: &mut FeelContext, '
           'required_knowledge_references: &Vec<String>, required_decision_references: &Vec<String>, required_input_data_references: &Vec<String>, '
           'evaluator: &Evaluator, output_variable_type: &FeelType, output_variable_name: &Name) -> Name')
CTX = 'decision_context(%s, required_knowledge_references@, required_decision_references@, required_input_data_references@, *input_data_ctx)' % ME

UNIT = {
    'name': 'reqgraph',
    'uses': C.USES,
    'parts': C.NAME + C.FEELTYPE + [
        {'kind': 'text', 'text': 'pub uninterp spec fn equiv(a: FeelType, b: FeelType) -> bool;', 'note': 'unused-here'},
    ] + C.VALUE + [
        {'kind': 'item', 'src': S, 'path': 'struct Scope',
         'rewrites': [('RX', 'R8', r'contexts: RefCell<Vec<FeelContext>>,', 'pub contexts: Vec<FeelContext>,', 1)]},
        {'kind': 'vrs', 'file': 'reqgraph/prelude.vrs'},
        {'kind': 'fn', 'src': X, 'path': 'impl FeelContext::fn set_entry', 'key': 'reqgraph::FeelContext::set_entry',
         'props': P, 'auto_props': A, 'loops': 0, 'body_prefix': PRE,
         'ensures': [('binds_the_name', 'final(self).0@ == old(self).0@.insert(*name, value)')]},
        {'kind': 'fn', 'src': X, 'path': 'impl FeelContext::fn zip', 'key': 'reqgraph::FeelContext::zip', 'props': P, 'auto_props': A, 'loops': 1, 'body_prefix': PRE,
         'rewrites': [('RX', 'R2', r'for \(name, value\) in &other\.0 \{', 'for (name, value) in other.0.iter() {', 1)],
         'ensures': [('every_entry_of_other_is_copied_other_wins', 'final(self).0@ == old(self).0@.union_prefer_right(other.0@)')],
         'loop_specs': {0: {'iter_name': 'it', 'body_prefix': PRE + '\nproof { assert(other.0@.contains_key(*name) && other.0@[*name] == *value); }',
                            'invariant': [('in_other', 'forall |j: int| 0 <= j < it.seq().len() ==> other.0@.contains_key(*(#[trigger] it.seq()[j]).0) && other.0@[*it.seq()[j].0] == *it.seq()[j].1'),
                                          ('all_of_other', 'forall |k: Name| other.0@.contains_key(k) ==> exists |j: int| 0 <= j < it.seq().len() && *(#[trigger] it.seq()[j]).0 == k'),
                                          ('copied_so_far', 'forall |k: Name| #[trigger] self.0@.contains_key(k) <==> (old(self).0@.contains_key(k) || exists |j: int| 0 <= j < it.index@ && *(#[trigger] it.seq()[j]).0 == k)'),
                                          ('values_so_far', 'forall |k: Name| #[trigger] self.0@.contains_key(k) ==> self.0@[k] == (if exists |j: int| 0 <= j < it.index@ && *(#[trigger] it.seq()[j]).0 == k { other.0@[k] } else { old(self).0@[k] })')]}},
         },
        {'kind': 'fn', 'src': X, 'path': 'impl FeelContext::fn overwrite', 'key': 'reqgraph::FeelContext::overwrite', 'props': P, 'auto_props': A, 'loops': 1, 'body_prefix': PRE,
         'rewrites': [('RX', 'R2', r'for \(name, value\) in &other\.0 \{', 'for (name, value) in other.0.iter() {', 1)],
         'ensures': [('bound_entries_take_the_value_of_other_nothing_is_added', 'final(self).0@ == overwritten(old(self).0@, other.0@)')],
         'loop_specs': {0: {'iter_name': 'it', 'body_prefix': PRE + '\nproof { assert(other.0@.contains_key(*name) && other.0@[*name] == *value); }',
                            'invariant': [('in_other', 'forall |j: int| 0 <= j < it.seq().len() ==> other.0@.contains_key(*(#[trigger] it.seq()[j]).0) && other.0@[*it.seq()[j].0] == *it.seq()[j].1'),
                                          ('all_of_other', 'forall |k: Name| other.0@.contains_key(k) ==> exists |j: int| 0 <= j < it.seq().len() && *(#[trigger] it.seq()[j]).0 == k'),
                                          ('same_names', 'self.0@.dom() =~= old(self).0@.dom()'),
                                          ('values_so_far', 'forall |k: Name| #[trigger] self.0@.contains_key(k) ==> self.0@[k] == (if exists |j: int| 0 <= j < it.index@ && *(#[trigger] it.seq()[j]).0 == k { other.0@[k] } else { old(self).0@[k] })')]}}},
        {'kind': 'closure', 'src': K, 'path': 'fn build_evaluator', 'key': 'reqgraph::knowledge_model_closure', 'props': P, 'auto_props': A, 'loops': 1,
         'closure_header': r'Ok\(Box::new\(\s*move \|input_data: &FeelContext, model_evaluator: &ModelEvaluator, output_data: &mut FeelContext\| \{',
         'signature': 'pub fn knowledge_model_closure(input_data: &FeelContext, model_evaluator: &ModelEvaluator, output_data: &mut FeelContext, requirements: &Vec<String>, name: &Name, function: &Value)',
         'rewrites': [FOR_EACH('requirements', 'id'),
                      ('RX', 'R4c', r'output_data\.set_entry\(&name, function\.clone\(\)\)', 'output_data.set_entry(name, function.clone())', 1)],
         'body_prefix': PRE,
         'requires': [('registries_readable', 'locks_ok(%s)' % ME)],
         'ensures': [('required_knowledge_as_functions_then_its_own_function_under_its_name',
                      'final(output_data).0@ == fold_know(%s, requirements@, input_data.0@, old(output_data).0@, requirements@.len() as int).insert(*name, *function)' % ME)],
         'loop_specs': {0: {'iter_name': 'it', 'body_prefix': PRE,
                            'invariant': [('ids', 'it.seq().len() == requirements@.len() && forall |j: int| 0 <= j < it.seq().len() ==> *(#[trigger] it.seq()[j]) == requirements@[j]'),
                                          ('owners', 'business_knowledge_model_evaluator.owner() == %s && decision_service_evaluator.owner() == %s' % (ME, ME)),
                                          ('required_knowledge_so_far', 'output_data.0@ == fold_know(%s, requirements@, input_data.0@, old(output_data).0@, it.index@ as int)' % ME)]}}},
        {'kind': 'closure', 'src': D, 'path': 'fn build_decision_evaluator', 'key': 'reqgraph::decision_closure', 'props': P, 'auto_props': A, 'loops': 4, 'ret': 'r',
         'closure_header': r'let decision_evaluator = Box::new\(\s*move \|input_data_ctx: &FeelContext, model_evaluator: &ModelEvaluator, output_data_ctx: &mut FeelContext\| \{',
         'signature': DEC_SIG,
         'rewrites': [FOR_EACH('required_knowledge_references', 'business_knowledge_model_identifier'), FOR_EACH('required_knowledge_references', 'decision_service_id'),
                      FOR_EACH('required_decision_references', 'decision_identifier'), FOR_EACH('required_input_data_references', 'input_data_id'),
                      ('RX', 'R11', r': FeelContext = Default::default\(\);', ': FeelContext = feel_context_default();', 2),
                      ('RX', 'R11', r'Value::Context\(input_data_ctx\.clone\(\)\)', 'Value::Context(feel_context_clone(input_data_ctx))', 1),
                      ('RX', 'R11', r'let scope: Scope = required_input_ctx\.into\(\);', 'let scope: Scope = scope_from_context(required_input_ctx);', 1),
                      ('RX', 'R8e', r'\bevaluator\(&scope\)', 'evaluator.call(&scope)', 1),
                      ('RX', 'R11', r'output_variable_type\.coerced\(&decision_result\)', 'feel_type_coerced(output_variable_type, &decision_result)', 1),
                      ('RX', 'R4c', r'set_entry\(&output_variable_name, ', 'set_entry(output_variable_name, ', 1),
                      ('RX', 'R4c', r'output_variable_name\.clone\(\)', 'name_clone(output_variable_name)', 1)],
         'body_prefix': PRE,
         'requires': [('registries_readable', 'locks_ok(%s)' % ME)],
         'ensures': [('names_its_output_variable', 'r == *output_variable_name'),
                     ('the_logic_over_its_requirements_coerced_under_its_variable',
                      'final(output_data_ctx).0@ == old(output_data_ctx).0@.insert(*output_variable_name, coerced_spec(*output_variable_type, logic_value(*evaluator, %s)))' % CTX)],
         'loop_specs': {
             0: {'iter_name': 'it', 'body_prefix': PRE,
                 'invariant': [('ids', 'it.seq().len() == required_knowledge_references@.len() && forall |j: int| 0 <= j < it.seq().len() ==> *(#[trigger] it.seq()[j]) == required_knowledge_references@[j]'),
                               ('owner', 'business_knowledge_model_evaluator.owner() == %s' % ME),
                               ('knowledge_models_so_far', 'required_knowledge_ctx.0@ == fold_bkm(%s, required_knowledge_references@, input_data_ctx.0@, it.index@ as int)' % ME)]},
             1: {'iter_name': 'it', 'body_prefix': PRE,
                 'invariant': [('ids', 'it.seq().len() == required_knowledge_references@.len() && forall |j: int| 0 <= j < it.seq().len() ==> *(#[trigger] it.seq()[j]) == required_knowledge_references@[j]'),
                               ('owner', 'decision_service_evaluator.owner() == %s' % ME),
                               ('services_so_far', 'required_knowledge_ctx.0@ == fold_ds(%s, required_knowledge_references@, input_data_ctx.0@, fold_bkm(%s, required_knowledge_references@, input_data_ctx.0@, required_knowledge_references@.len() as int), it.index@ as int)' % (ME, ME))]},
             2: {'iter_name': 'it', 'body_prefix': PRE,
                 'invariant': [('ids', 'it.seq().len() == required_decision_references@.len() && forall |j: int| 0 <= j < it.seq().len() ==> *(#[trigger] it.seq()[j]) == required_decision_references@[j]'),
                               ('owner', 'decision_evaluator.owner() == %s' % ME),
                               ('decisions_so_far', 'required_knowledge_ctx.0@ == fold_dec(%s, required_decision_references@, input_data_ctx.0@, fold_ds(%s, required_knowledge_references@, input_data_ctx.0@, fold_bkm(%s, required_knowledge_references@, input_data_ctx.0@, required_knowledge_references@.len() as int), required_knowledge_references@.len() as int), it.index@ as int)' % (ME, ME, ME))]},
             3: {'iter_name': 'it', 'body_prefix': PRE,
                 'invariant': [('ids', 'it.seq().len() == required_input_data_references@.len() && forall |j: int| 0 <= j < it.seq().len() ==> *(#[trigger] it.seq()[j]) == required_input_data_references@[j]'),
                               ('owner', 'input_data_evaluator.owner() == %s' % ME),
                               ('input_value', 'input_data == Value::Context(*input_data_ctx)'),
                               ('inputs_so_far', 'required_input_ctx.0@ == fold_in(%s, required_input_data_references@, Value::Context(*input_data_ctx), it.index@ as int)' % ME)]},
         },
         'splices': [{'id': 'logic_context', 'op': 'after', 'anchor': 'let scope: Scope = scope_from_context(required_input_ctx);',
                      'text': 'proof { axiom_logic_value(*evaluator, scope.contexts@[0]); assert(scope.contexts@ =~= seq![scope.contexts@[0]]); }'}],
         },
    ],
}

ASSUMPTIONS = [
    'A-graph: the registries of ModelEvaluator are opaque objects whose evaluate methods meet the contract the evaluator closures are proved to meet (a decision evaluator sets its own output variable to its own value '
    'and nothing else; a knowledge model evaluator adds its function bindings; a decision service as function adds its variable bound to its function; an input data evaluator hands out name and type-checked value): '
    'the induction hypothesis along the acyclic requirement graph (acyclicity is checked at build time by check_cyclic_dependencies: unit cycles proves the check sound and complete over the collected graph)',
    'R8g: RwLock read guards are dropped - `model_evaluator.X_evaluator()` hands out a reference or an error (lock poisoning is not modelled: precondition locks_ok)',
    'R4: the closure of build_decision_evaluator is lifted, captured variables become parameters; R13: for_each -> for loops; R11: Default / clone / into / coerced as named stubs (A-ctx)',
    'A-eval: the value of the decision logic is a function of the evaluator and of the ENTRIES of the one context it is evaluated over (logic_value; axiom_logic_value)',
]
NOT_DECIDED = {'C04': ['that build_decision_evaluator collects the reference lists from the requirements as written and builds the logic evaluator from the decision logic (the part of the builder outside the closure)',
                       'what the builders hand to the closures: the formal parameters of a service function (input data before input decisions), of a knowledge model, the reference lists collected from the requirements (bounded stand-in only)',
                       'boxed expression evaluators of builders/mod.rs (their scope half is under contract in unit purity)',
                       'independence of input entries outside the requirement closure beyond "they do not enter the logic context" (the callees\' own independence is the induction hypothesis)',
                       'what two requirements that produce the same name do to each other (later writer wins as coded; the property does not say)']}

BOUNDED = {
    'C04': [{'name': 'requirement-graphs-differential', 'script': 'reqgraphdiff.py', 'args': [], 'thorough_args': ['--size', 'thorough'], 'seeded': True,
             'functions': ['dmntk_model::parse', 'ModelEvaluator::new / evaluate_invocable', 'builders::decision / business_knowledge_model / decision_service / mod (boxed context, invocation, literal expression)'],
             'bound': 'quick 60 (thorough 600) generated acyclic requirement graphs: 3 number inputs, 3 knowledge models requiring one another, 7 decisions (literal expression, boxed context or boxed invocation) over random '
                      'subsets of the inputs, the earlier decisions (diamonds, a decision required directly and through a service), the knowledge models and the earlier single-output decision services called as functions, '
                      '2 decision services (one or two output decisions, encapsulated decisions, input data, optionally an input decision); every decision and service invoked by name with the inputs alone and with the inputs '
                      'plus entries whose names occur in no requirement closure (services with an input decision: with its value supplied); in every model also a service called by a boxed invocation that binds one of its two inputs (the other is null inside, whatever the caller holds under its name) and a decision requiring a decision and an input data that share a variable name (nothing supplied: the value of the decision); about 1 900 results against a reference evaluation in topological order '
                      '(integers with distinct prime weights). Not generated: decision tables, relations and function definitions as decision logic, typed conversions, other name clashes between requirements, '
                      'an input entry named like a required decision (it overrides that decision: DMN TCK 0085 pins this)'}],
}

# ---------------------------------------------------------------- decision service closure (decision_service.rs)
V = 'model-evaluator/src/builders/decision_service.rs'
EMPTY = 'Map::<Name, Value>::empty()'
COMPUTED = 'fold_dec(%s, input_decisions@, input_data.0@, %s, input_decisions@.len() as int)' % (ME, EMPTY)
STAGE_A = 'fold_var(input_decision_results_evaluators@, %s, %s, input_decision_results_evaluators@.len() as int)' % (COMPUTED, EMPTY)
STAGE_B = 'fold_var(input_decision_results_evaluators@, input_data.0@, %s, input_decision_results_evaluators@.len() as int)' % STAGE_A
SIN = 'service_input(%s, input_decisions@, input_decision_results_evaluators@, input_data_references@, *input_data)' % ME
ENC = 'fold_dec(%s, encapsulated_decisions@, %s, %s, encapsulated_decisions@.len() as int)' % (ME, SIN, EMPTY)
OUTS = 'fold_dec(%s, output_decisions@, %s, %s, output_decisions@.len() as int)' % (ME, SIN, ENC)
NAMES = 'out_names(%s, output_decisions@, output_decisions@.len() as int)' % ME
SVC_POST = ('({ let names = %s; let c = %s; let var = *output_variable_name; '
            'if names.len() == 1 { if c.contains_key(names[0]) { final(output_data).0@ == old(output_data).0@.insert(var, coerced_spec(*output_variable_type, c[names[0]])) } else { final(output_data).0@ == old(output_data).0@ } } '
            'else { exists |oc: FeelContext| oc.0@ == pick(c, names, names.len() as int) && final(output_data).0@ == old(output_data).0@.insert(var, coerced_spec(*output_variable_type, Value::Context(oc))) } })' % (NAMES, OUTS))

def IDS(v):
    return ('ids', 'it.seq().len() == %s@.len() && forall |j: int| 0 <= j < it.seq().len() ==> *(#[trigger] it.seq()[j]) == %s@[j]' % (v, v))

SVC_PARTS = [
    {'kind': 'fn', 'src': X, 'path': 'impl FeelContext::fn get_entry', 'key': 'reqgraph::FeelContext::get_entry', 'props': P, 'auto_props': A, 'loops': 0, 'ret': 'r', 'body_prefix': PRE,
     'ensures': [('bound_or_not', 'r is Some == self.0@.contains_key(*name)'), ('the_bound_value', 'r is Some ==> *r->Some_0 == self.0@[*name]')]},
    {'kind': 'closure', 'src': V, 'path': 'fn build_decision_service_evaluator', 'key': 'reqgraph::decision_service_closure', 'props': P, 'auto_props': A, 'loops': 7, 'ret': 'r',
     'closure_header': r'let decision_service_evaluator = Box::new\(\s*move \|input_data: &FeelContext, model_evaluator: &ModelEvaluator, output_data: &mut FeelContext\| \{',
     'signature': ('pub fn decision_service_closure(input_data: &FeelContext, model_evaluator: &ModelEvaluator, output_data: &mut FeelContext, input_decisions: &Vec<String>, '
                   'input_decision_results_evaluators: &Vec<VariableEvaluator>, input_data_references: &Vec<String>, encapsulated_decisions: &Vec<String>, output_decisions: &Vec<String>, '
                   'output_variable_type: &FeelType, output_variable_name: &Name) -> Name'),
     'rewrites': [FOR_EACH('input_decisions', 'id'), FOR_EACH('input_data_references', 'input_data_id'), FOR_EACH('encapsulated_decisions', 'id'), FOR_EACH('output_decisions', 'id'), FOR_EACH('output_names', 'output_name'),
                  ('RX', 'R2v', r'for evaluator in &input_decision_results_evaluators \{', 'for evaluator in input_decision_results_evaluators.iter() {', 2),
                  ('RX', 'R8e', r'\bevaluator\(&(input_decision_results_value|input_data_values), &item_definition_evaluator\)', r'evaluator.call(&\1, &item_definition_evaluator)', 2),
                  ('RX', 'R11', r'FeelContext::default\(\)', 'feel_context_default()', None),
                  ('RX', 'R11', r'Value::Context\(input_data\.clone\(\)\)', 'Value::Context(feel_context_clone(input_data))', 1),
                  ('RX', 'R14', r'let mut output_names = vec!\[\];', 'let mut output_names: Vec<Name> = vec![];', 1),
                  ('RX', 'R11', r'value\.to_owned\(\)', 'value.clone()', 2),
                  ('RX', 'R11', r'output_variable_type\.coerced\(&(single_result|complex_result)\)', r'feel_type_coerced(output_variable_type, &\1)', 2),
                  ('RX', 'R4c', r'set_entry\(&output_variable_name, ', 'set_entry(output_variable_name, ', 2),
                  ('RX', 'R4c', r'output_variable_name\.clone\(\)', 'name_clone(output_variable_name)', 1)],
     'body_prefix': PRE,
     'requires': [('registries_readable', 'locks_ok(%s)' % ME)],
     'ensures': [('names_its_output_variable', 'r == *output_variable_name'),
                 ('the_values_of_its_output_decisions_over_its_own_input', SVC_POST)],
     'loop_specs': {
         0: {'iter_name': 'it', 'body_prefix': PRE, 'invariant': [IDS('input_decisions'), ('owner', 'decision_evaluator.owner() == ' + ME),
             ('input_decisions_so_far', 'input_decisions_results.0@ == fold_dec(%s, input_decisions@, input_data.0@, %s, it.index@ as int)' % (ME, EMPTY))]},
         1: {'iter_name': 'it', 'body_prefix': PRE, 'invariant': [IDS('input_decision_results_evaluators'), ('a_context_value', 'input_decision_results_value is Context && input_decision_results_value->Context_0.0@ == ' + COMPUTED),
             ('from_the_computed_input_decisions', 'evaluated_input_data.0@ == fold_var(input_decision_results_evaluators@, %s, %s, it.index@ as int)' % (COMPUTED, EMPTY))]},
         2: {'iter_name': 'it', 'body_prefix': PRE, 'invariant': [IDS('input_decision_results_evaluators'), ('the_supplied_input', 'input_data_values == Value::Context(*input_data)'),
             ('from_the_supplied_input', 'evaluated_input_data.0@ == fold_var(input_decision_results_evaluators@, input_data.0@, %s, it.index@ as int)' % STAGE_A)]},
         3: {'iter_name': 'it', 'body_prefix': PRE, 'invariant': [IDS('input_data_references'), ('owner', 'input_data_evaluator.owner() == ' + ME), ('the_supplied_input', 'input_data_values == Value::Context(*input_data)'),
             ('input_data_so_far', 'evaluated_input_data.0@ == fold_in_from(%s, input_data_references@, Value::Context(*input_data), %s, it.index@ as int)' % (ME, STAGE_B))]},
         4: {'iter_name': 'it', 'body_prefix': PRE, 'invariant': [IDS('encapsulated_decisions'), ('owner', 'decision_evaluator.owner() == ' + ME), ('service_input', 'evaluated_input_data.0@ == ' + SIN),
             ('encapsulated_so_far', 'evaluated_ctx.0@ == fold_dec(%s, encapsulated_decisions@, %s, %s, it.index@ as int)' % (ME, SIN, EMPTY))]},
         5: {'iter_name': 'it', 'body_prefix': PRE, 'invariant': [IDS('output_decisions'), ('owner', 'decision_evaluator.owner() == ' + ME), ('service_input', 'evaluated_input_data.0@ == ' + SIN),
             ('outputs_so_far', 'evaluated_ctx.0@ == fold_dec(%s, output_decisions@, %s, %s, it.index@ as int) && output_names@ == out_names(%s, output_decisions@, it.index@ as int)' % (ME, SIN, ENC, ME))]},
         6: {'iter_name': 'it', 'body_prefix': PRE, 'invariant': [('names', 'it.seq().len() == output_names@.len() && forall |j: int| 0 <= j < it.seq().len() ==> *(#[trigger] it.seq()[j]) == output_names@[j]'),
             ('picked_so_far', 'output_ctx.0@ == pick(evaluated_ctx.0@, output_names@, it.index@ as int)')]},
     }},
]
_k = [i for i, p_ in enumerate(UNIT['parts']) if p_.get('key') == 'reqgraph::knowledge_model_closure'][0]
UNIT['parts'][_k:_k] = SVC_PARTS

# ---------------------------------------------------------------- invocation by name (model_evaluator.rs)
MEV = 'model-evaluator/src/model_evaluator.rs'
HPRE = PRE + '\nbroadcast use vstd::std_specs::hash::group_hash_axioms;\nbroadcast use group_string_keys;\nproof { axiom_string_key_model(); }'
def mev(name, **kw):
    d = {'kind': 'fn', 'src': MEV, 'path': 'impl ModelEvaluator::fn ' + name, 'key': 'reqgraph::ModelEvaluator::' + name, 'props': P, 'auto_props': A, 'loops': 0, 'ret': 'r',
         'impl_header': 'impl ModelEvaluator {', 'body_prefix': PRE, 'requires': [('registries_readable', 'locks_ok(*self)')],
         'rewrites': [('R3',), ('RX', 'R11', r'FeelContext::default\(\)', 'feel_context_default()', None)]}
    d.update(kw)
    return d
BY_NAME = [
    {'kind': 'item', 'src': 'feel/src/values.rs', 'path': 'macro_rules! value_null'},
    {'kind': 'item', 'src': MEV, 'path': 'enum InvocableType'},
    {'kind': 'vrs', 'file': 'common/string_keys.vrs'},
    {'kind': 'vrs', 'file': 'reqgraph/byname.vrs'},
    mev('evaluate_decision',
        ensures=[('the_value_of_the_decision_over_the_supplied_input', 'dec_known(*self, id@) ==> r == dec_value(*self, id@, input_data.0@)'), ('null_when_there_is_no_such_decision', '!dec_known(*self, id@) ==> r is Null')]),
    mev('evaluate_decision_service',
        ensures=[('the_value_of_the_service_over_the_supplied_input', 'ds_known(*self, id@) ==> r == ds_value(*self, id@, input_data.0@)'), ('null_when_there_is_no_such_service', '!ds_known(*self, id@) ==> r is Null')]),
    mev('evaluate_business_knowledge_model', loops=1,
        rewrites=[('R3',), ('RX', 'R11', r'FeelContext::default\(\)', 'feel_context_default()', None),
                  ('RX', 'R2v', r'for \(name, _\) in parameters \{', 'for (name, _) in parameters.iter() {', 1),
                  ('RX', 'R11', r'value\.to_owned\(\)', 'value.clone()', 1),
                  ('RX', 'R8e', r'body\.evaluate\(&parameters_ctx\.into\(\)\)', 'function_body_evaluate(body, &scope_from_context(parameters_ctx))', 1),
                  ('RX', 'R11', r'result_type\.coerced\(&result\)', 'feel_type_coerced(result_type, &result)', 1)],
        ensures=[('its_function_over_the_like_named_input_entries_coerced',
                  '({ let c = bkm_bindings(*self, id@, input_data.0@); (c.contains_key(*output_variable_name) && c[*output_variable_name] is FunctionDefinition) ==> '
                  '({ let f = c[*output_variable_name]; exists |pc: FeelContext| pc.0@ == params_from_input(input_data.0@, f->FunctionDefinition_0@, f->FunctionDefinition_0@.len() as int).union_prefer_right(c) '
                  '&& r == coerced_spec(f->FunctionDefinition_2, body_value(f->FunctionDefinition_1, seq![pc])) }) })'),
                 ('null_when_it_is_no_function', '({ let c = bkm_bindings(*self, id@, input_data.0@); !(c.contains_key(*output_variable_name) && c[*output_variable_name] is FunctionDefinition) ==> r is Null })')],
        loop_specs={0: {'iter_name': 'it', 'body_prefix': PRE,
                        'invariant': [('pairs', 'it.seq().len() == parameters@.len() && forall |j: int| 0 <= j < it.seq().len() ==> *(#[trigger] it.seq()[j]) == parameters@[j]'),
                                      ('parameters_so_far', 'parameters_ctx.0@ == params_from_input(input_data.0@, parameters@, it.index@ as int)')]}}),
    mev('evaluate_invocable', body_prefix=HPRE,
        rewrites=[('R3',), ('RX', 'R8g', r'self\.invocable_by_name\.read\(\)', 'self.invocable_by_name_read()', 1)],
        ensures=[('unknown_name_is_null', '!invocables(*self).contains_key(skey(invocable_name@)) ==> r is Null'),
                 ('a_decision_by_its_name', '(invocables(*self).contains_key(skey(invocable_name@)) && invocables(*self)[skey(invocable_name@)] is Decision) ==> ({ let id = invocables(*self)[skey(invocable_name@)]->Decision_0@; '
                                            '(dec_known(*self, id) ==> r == dec_value(*self, id, input_data.0@)) && (!dec_known(*self, id) ==> r is Null) })'),
                 ('a_service_by_its_name', '(invocables(*self).contains_key(skey(invocable_name@)) && invocables(*self)[skey(invocable_name@)] is DecisionService) ==> ({ let id = invocables(*self)[skey(invocable_name@)]->DecisionService_0@; '
                                           '(ds_known(*self, id) ==> r == ds_value(*self, id, input_data.0@)) && (!ds_known(*self, id) ==> r is Null) })')]),
]
_k = [i for i, p_ in enumerate(UNIT['parts']) if p_.get('key') == 'reqgraph::knowledge_model_closure'][0]
UNIT['parts'][_k:_k] = BY_NAME
UNIT['uses'] = UNIT['uses'] + ['use std::collections::HashMap;']

# ---------------------------------------------------------------- a decision service called as a function: its body closure (R4, the first scope closure of the builder)
SVC_FN = {'kind': 'closure', 'src': V, 'path': 'fn build_decision_service_evaluator', 'index': 0, 'name': 'service_function_body', 'key': 'reqgraph::service_function_body', 'props': P, 'auto_props': A, 'loops': 0, 'ret': 'r',
          'lead_params': ['scope: &Scope'], 'extra_params': ['model_evaluator: &ModelEvaluator', 'decision_service_id: &String'],
          'rewrites': [('R3',), ('RX', 'R11', r'FeelContext::default\(\)', 'feel_context_default()', None),
                       ('RX', 'R8', r'scope\.peek\(\)', 'scope_peek(scope)', 1),
                       ('RX', 'R4c', r'evaluate\(&decision_service_id, &input_data, &model_evaluator, ', 'evaluate(decision_service_id, &input_data, model_evaluator, ', 1)],
          'body_prefix': PRE,
          'requires': [('registries_readable', 'locks_ok(%s)' % ME), ('called_over_its_argument_context', 'scope.contexts@.len() > 0')],
          'ensures': [('the_value_of_the_service_over_the_argument_context', 'ds_known(%s, decision_service_id@) ==> r == ds_value(%s, decision_service_id@, scope.contexts@.last().0@)' % (ME, ME)),
                      ('null_when_there_is_no_such_service', '!ds_known(%s, decision_service_id@) ==> r is Null' % ME)]}
_k = [i for i, p_ in enumerate(UNIT['parts']) if p_.get('key') == 'reqgraph::knowledge_model_closure'][0]
UNIT['parts'][_k:_k] = [SVC_FN]
