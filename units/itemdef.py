"""Unit `itemdef`: typed inputs - item definition classification and the per-type conformance closures of
model-evaluator/src/builders/{mod,item_definition}.rs (C11, C12). Contracts GENERATED per (type x closure)."""
import os, sys
sys.path.insert(0, os.path.dirname(os.path.abspath(__file__)))
import _common as C
M = 'model-evaluator/src/builders/mod.rs'
ID = 'model-evaluator/src/builders/item_definition.rs'
V = 'feel/src/values.rs'
X = 'feel/src/context.rs'
P = ['C11']
A = ['C11', 'C12', 'C05']
R3 = ('R3',)
PRE = 'broadcast use vstd::std_specs::btree::group_btree_axioms;\nproof { axiom_name_key(); }'

# (nested builder fn name in build_simple_type_evaluator, in build_collection_of_simple_type_evaluator, Value variant, DMN typeRef literal)
TYPES = [
    ('build_string_evaluator', 'build_string_evaluator', 'String', 'string'),
    ('build_number_evaluator', 'build_number_evaluator', 'Number', 'number'),
    ('build_boolean_evaluator', 'build_boolean_evaluator', 'Boolean', 'boolean'),
    ('build_date_evaluator', 'build_date_evaluator', 'Date', 'date'),
    ('build_time_evaluator', 'build_time_evaluator', 'Time', 'time'),
    ('build_date_time_evaluator', 'build_date_and_time_evaluator', 'DateTime', 'dateTime'),
    ('build_dt_duration_evaluator', 'build_days_and_time_duration_evaluator', 'DaysAndTimeDuration', 'dayTimeDuration'),
    ('build_ym_duration_evaluator', 'build_months_and_years_duration_evaluator', 'YearsAndMonthsDuration', 'yearMonthDuration'),
]

def simple_part(fn, variant):
    return {'kind': 'closure', 'src': ID, 'path': 'fn build_simple_type_evaluator', 'key': 'itemdef::simple::' + variant, 'name': 'simple_' + variant,
            'closure_header': r'fn ' + fn + r'\(av_evaluator: Option<Evaluator>\) -> ItemDefinitionEvaluatorFn \{\s*Box::new\(move \|value: &Value, _: &ItemDefinitionEvaluator\| \{',
            'signature': 'pub fn simple_%s(value: &Value, av_evaluator: Option<Evaluator>) -> Value' % variant,
            'props': P, 'auto_props': A, 'loops': 0, 'ret': 'r', 'rewrites': [R3],
            'ensures': [('conforming_value_passes_allowed_values_check', 'value is %s ==> checked(*value, av_evaluator, r)' % variant),
                        ('other_kinds_become_null', '!(value is %s) ==> r is Null' % variant)]}

def coll_part(fn, variant):
    return {'kind': 'closure', 'src': ID, 'path': 'fn build_collection_of_simple_type_evaluator', 'key': 'itemdef::collection::' + variant, 'name': 'collection_' + variant,
            'closure_header': r'fn ' + fn + r'\(av_evaluator: Option<Evaluator>\) -> Result<ItemDefinitionEvaluatorFn> \{\s*Ok\(Box::new\(move \|value: &Value, _: &ItemDefinitionEvaluator\| \{',
            'signature': 'pub fn collection_%s(value: &Value, av_evaluator: Option<Evaluator>) -> Value' % variant,
            'props': P, 'auto_props': A, 'loops': 1, 'ret': 'r',
            'rewrites': [R3, ('RX', 'R11', r'Values::default\(\)', 'values_default()', 1)],
            'ensures': [('every_item_of_the_type', '(value is List && forall |i: int| 0 <= i < value->List_0.0@.len() ==> (#[trigger] value->List_0.0@[i]) is %s) ==> '
                         'exists |copy: Value| copy is List && copy->List_0.0@ =~= value->List_0.0@ && checked(copy, av_evaluator, r)' % variant),
                        ('otherwise_null', '!(value is List && forall |i: int| 0 <= i < value->List_0.0@.len() ==> (#[trigger] value->List_0.0@[i]) is %s) ==> r is Null' % variant)],
            'loop_specs': {0: {'iter_name': 'it', 'invariant': [
                ('ctx', '*value is List, value->List_0 == *values'),
                ('seq', 'it.seq() =~= values.0@.map_values(|v: Value| &v)'),
                ('copied', 'evaluated_values.0@ =~= values.0@.subrange(0, it.index@ as int) && forall |j: int| 0 <= j < it.index@ ==> (#[trigger] values.0@[j]) is %s' % variant)],
                'body_prefix': 'proof { assert(*item_value == values.0@[it.index@ as int]); }'}},
            'splices': [{'id': 'witness', 'op': 'before', 'anchor': 'check_allowed_values(Value::List(evaluated_values), av_evaluator.as_ref())',
                         'text': 'let ghost copy = Value::List(evaluated_values);'}]}

def var_part(literal, variant):
    return {'kind': 'closure', 'src': M, 'path': 'fn build_variable_evaluator', 'key': 'itemdef::variable::' + variant, 'name': 'variable_' + variant,
            'closure_header': r'"' + literal + r'" => Box::new\(move \|value: &Value, _: &ItemDefinitionEvaluator\| \{',
            'signature': 'pub fn variable_%s(value: &Value, variable_name: Name) -> (Name, Value)' % variant,
            'props': P, 'auto_props': A, 'loops': 0, 'ret': 'r', 'rewrites': [R3], 'body_prefix': PRE,
            'ensures': [('named', 'r.0 == variable_name'),
                        ('typed_input_passes_unchanged', '(value is Context && value->Context_0.0@.contains_key(variable_name) && value->Context_0.0@[variable_name] is %s) ==> r.1 == value->Context_0.0@[variable_name]' % variant),
                        ('non_conforming_input_becomes_null', '!(value is Context && value->Context_0.0@.contains_key(variable_name) && value->Context_0.0@[variable_name] is %s) ==> r.1 is Null' % variant)]}

UNIT = {
    'name': 'itemdef',
    'uses': C.USES,
    'parts': C.NAME + C.FEELTYPE + [
        {'kind': 'text', 'text': 'pub uninterp spec fn equiv(a: FeelType, b: FeelType) -> bool;', 'note': 'unused-here'},
        {'kind': 'item', 'src': X, 'path': 'type FeelContextEntries'},
        {'kind': 'item', 'src': X, 'path': 'struct FeelContext',
         'rewrites': [('RX', 'R7', r'pub struct FeelContext\(FeelContextEntries\)', 'pub struct FeelContext(pub FeelContextEntries)', 1)]},
        {'kind': 'item', 'src': V, 'path': 'struct Values',
         'rewrites': [('RX', 'R7', r'pub struct Values\(Vec<Value>\)', 'pub struct Values(pub Vec<Value>)', 1)]},
        {'kind': 'item', 'src': V, 'path': 'enum Value'},
        {'kind': 'item', 'src': V, 'path': 'macro_rules! value_null'},
        {'kind': 'vrs', 'file': 'itemdef/prelude.vrs'},
        {'kind': 'vrs', 'file': 'common/value_traits.vrs'},
        {'kind': 'item', 'src': 'model/src/model/mod.rs', 'path': 'enum ItemDefinitionType'},
        {'kind': 'fn', 'src': V, 'path': 'impl Values::fn as_vec', 'key': 'itemdef::Values::as_vec', 'props': P, 'auto_props': A, 'ret': 'r', 'ensures': [('post', '*r == self.0')], 'loops': 0},
        {'kind': 'fn', 'src': V, 'path': 'impl Values::fn add', 'key': 'itemdef::Values::add', 'props': P, 'auto_props': A, 'ensures': [('post', 'final(self).0@ == old(self).0@.push(value)')], 'loops': 0},
        {'kind': 'fn', 'src': V, 'path': 'impl Value::fn is_true', 'key': 'itemdef::Value::is_true', 'props': P, 'auto_props': A, 'ret': 'r', 'loops': 0,
         'ensures': [('is_true', 'r == (*self == Value::Boolean(true))')]},
        {'kind': 'fn', 'src': X, 'path': 'impl FeelContext::fn get_entry', 'key': 'itemdef::FeelContext::get_entry',
         'props': P, 'auto_props': A, 'loops': 0, 'ret': 'r', 'body_prefix': PRE,
         'ensures': [('post', 'r is Some == self.0@.contains_key(*name)'), ('value', 'r is Some ==> *r->Some_0 == self.0@[*name]')]},
        # part of the context / value API that the bodies under contract do not use today; kept so that a changed body that does still extracts
        {'kind': 'fn', 'src': X, 'path': 'impl FeelContext::fn len', 'key': 'itemdef::FeelContext::len', 'props': P, 'auto_props': A, 'loops': 0, 'ret': 'r', 'body_prefix': PRE,
         'ensures': [('number_of_entries', 'r == self.0@.len()')]},
        {'kind': 'fn', 'src': X, 'path': 'impl FeelContext::fn is_empty', 'key': 'itemdef::FeelContext::is_empty', 'props': P, 'auto_props': A, 'loops': 0, 'ret': 'r', 'body_prefix': PRE,
         'ensures': [('no_entries', 'r == (self.0@.len() == 0)')]},
        {'kind': 'fn', 'src': X, 'path': 'impl FeelContext::fn contains_entry', 'key': 'itemdef::FeelContext::contains_entry', 'props': P, 'auto_props': A, 'loops': 0, 'ret': 'r', 'body_prefix': PRE,
         'ensures': [('post', 'r == self.0@.contains_key(*name)')]},
        {'kind': 'fn', 'src': V, 'path': 'impl Value::fn is_null', 'key': 'itemdef::Value::is_null', 'props': P, 'auto_props': A, 'ret': 'r', 'loops': 0,
         'ensures': [('null_test', 'r == (self is Null)')]},
        {'kind': 'fn', 'src': ID, 'path': 'fn check_allowed_values', 'key': 'itemdef::check_allowed_values', 'props': P, 'auto_props': A, 'loops': 0, 'ret': 'r',
         'sig_rewrite': [(r'^(\s*)fn ', r'\1pub fn ')],
         'rewrites': [R3, ('RX', 'R11', r'let scope = Scope::default\(\);\s*scope\.set_entry\(&"\?"\.into\(\), value\.clone\(\)\);', 'let scope = scope_set_entry(scope_new_default(), &name_from_str("?"), value.clone());', 1),
                      ('RX', 'R8e', r'\bevaluator\(&scope\)', 'evaluator.call(&scope)', 1)],
         'ensures': [('allowed_values', 'checked(value, if av_evaluator is Some { Some(*av_evaluator->Some_0) } else { None }, r)')]},
        {'kind': 'fn', 'src': M, 'path': 'fn item_definition_type', 'key': 'itemdef::item_definition_type', 'props': ['C11', 'C12'], 'auto_props': A, 'loops': 0, 'ret': 'r',
         'sig_rewrite': [(r'^(\s*)fn ', r'\1pub fn ')],
         'ensures': [('classification', '''({
            let tr = idef_type_ref(*item_definition);
            let simple = tr is Some && simple_type_of(tr->Some_0@) is Some;
            let comps = idef_components(*item_definition).len() > 0;
            let coll = idef_is_collection(*item_definition);
            &&& (simple && !comps && !coll) ==> r is Ok && r->Ok_0 == ItemDefinitionType::SimpleType(simple_type_of(tr->Some_0@)->Some_0)
            &&& (simple && !comps && coll) ==> r is Ok && r->Ok_0 == ItemDefinitionType::CollectionOfSimpleType(simple_type_of(tr->Some_0@)->Some_0)
            &&& (tr is Some && !simple && !comps && !coll) ==> r is Ok && r->Ok_0 is ReferencedType && r->Ok_0->ReferencedType_0@ == tr->Some_0@
            &&& (tr is Some && !simple && !comps && coll) ==> r is Ok && r->Ok_0 is CollectionOfReferencedType && r->Ok_0->CollectionOfReferencedType_0@ == tr->Some_0@
            &&& (tr is None && comps && !coll) ==> r is Ok && r->Ok_0 is ComponentType
            &&& (tr is None && comps && coll) ==> r is Ok && r->Ok_0 is CollectionOfComponentType
            &&& ((tr is None && !comps) || (tr is Some && comps)) ==> r is Err
          })''')]},
    ] + [simple_part(t[0], t[2]) for t in TYPES] + [coll_part(t[1], t[2]) for t in TYPES] + [var_part(t[3], t[2]) for t in TYPES],
}

COMP_INV = [('components', 'component_evaluators@.len() == old_len'),]
def component_part():
    return {'kind': 'closure', 'src': ID, 'path': 'fn build_component_type_evaluator', 'key': 'itemdef::component', 'name': 'component',
            'closure_header': r'Ok\(Box::new\(move \|value: &Value, evaluators: &ItemDefinitionEvaluator\| \{',
            'signature': 'pub fn component(value: &Value, evaluators: &ItemDefinitionEvaluator, component_evaluators: &Vec<(Name, ItemDefinitionEvaluatorFn)>, av_evaluator: Option<Evaluator>) -> Value',
            'props': P, 'auto_props': A, 'loops': 1, 'ret': 'r', 'body_prefix': PRE,
            'rewrites': [R3, ('RX', 'R11', r'FeelContext::default\(\)', 'feel_context_default()', 1),
                         ('RX', 'R2v', r'for \(component_name, component_evaluator\) in &component_evaluators \{', 'for (component_name, component_evaluator) in component_evaluators.iter() {', 1),
                         ('RX', 'R8e', r'component_evaluator\(component_value, evaluators\)', 'component_evaluator.call(component_value, evaluators)', 1)],
            'ensures': [('each_component_checked_by_its_own_definition', 'is_comp_value(*value, component_evaluators@) ==> exists |out: Value| #[trigger] comp_result(*value, component_evaluators@, *evaluators, out) && checked(out, av_evaluator, r)'),
                        ('not_a_context_or_component_missing_becomes_null', '!is_comp_value(*value, component_evaluators@) ==> r is Null')],
            'loop_specs': {0: {'iter_name': 'it', 'invariant': [
                ('ctx', '*value is Context, value->Context_0 == *ctx'),
                ('seq', 'it.seq() =~= component_evaluators@.map_values(|c: (Name, ItemDefinitionEvaluatorFn)| &c)'),
                ('present_so_far', 'forall |j: int| 0 <= j < it.index@ ==> ctx.0@.contains_key((#[trigger] component_evaluators@[j]).0)'),
                ('built_so_far', 'evaluated_ctx.0@ =~= comp_fold(ctx.0@, component_evaluators@, *evaluators, it.index@ as int)')],
                'body_prefix': PRE + '\nproof { assert(*component_name == component_evaluators@[it.index@ as int].0 && *component_evaluator == component_evaluators@[it.index@ as int].1); }'}},
            'splices': [{'id': 'witness', 'op': 'before', 'anchor': 'check_allowed_values(Value::Context(evaluated_ctx), av_evaluator.as_ref())',
                         'text': 'let ghost out = Value::Context(evaluated_ctx);\nproof { assert(comp_result(*value, component_evaluators@, *evaluators, out)); }'}]}

def coll_component_part():
    return {'kind': 'closure', 'src': ID, 'path': 'fn build_collection_of_component_type_evaluator', 'key': 'itemdef::collection_of_component', 'name': 'collection_of_component',
            'closure_header': r'Ok\(Box::new\(move \|value: &Value, evaluators: &ItemDefinitionEvaluator\| \{',
            'signature': 'pub fn collection_of_component(value: &Value, evaluators: &ItemDefinitionEvaluator, component_evaluators: &Vec<(Name, ItemDefinitionEvaluatorFn)>, av_evaluator: Option<Evaluator>) -> Value',
            'props': P, 'auto_props': A, 'loops': 2, 'ret': 'r', 'body_prefix': PRE,
            'rewrites': [R3, ('RX', 'R11', r'FeelContext::default\(\)', 'feel_context_default()', 1), ('RX', 'R11', r'Values::default\(\)', 'values_default()', 1),
                         ('RX', 'R2v', r'for \(component_name, component_evaluator\) in &component_evaluators \{', 'for (component_name, component_evaluator) in component_evaluators.iter() {', 1),
                         ('RX', 'R8e', r'component_evaluator\(component_value, evaluators\)', 'component_evaluator.call(component_value, evaluators)', 1)],
            'ensures': [('each_element_checked_component_by_component',
                         '(value is List && forall |i: int| 0 <= i < value->List_0.0@.len() ==> is_comp_value(#[trigger] value->List_0.0@[i], component_evaluators@)) ==> '
                         'exists |out: Value| #[trigger] coll_comp_result(*value, component_evaluators@, *evaluators, out) && checked(out, av_evaluator, r)'),
                        ('otherwise_null', '!(value is List && forall |i: int| 0 <= i < value->List_0.0@.len() ==> is_comp_value(#[trigger] value->List_0.0@[i], component_evaluators@)) ==> r is Null')],
            'loop_specs': {0: {'iter_name': 'it', 'invariant': [
                ('ctx', '*value is List, value->List_0 == *values'),
                ('seq', 'it.seq() =~= values.0@.map_values(|v: Value| &v)'),
                ('elements_so_far', 'evaluated_values.0@.len() == it.index@ && forall |j: int| 0 <= j < it.index@ ==> is_comp_value(#[trigger] values.0@[j], component_evaluators@) '
                                    '&& comp_result(values.0@[j], component_evaluators@, *evaluators, evaluated_values.0@[j])')],
                'body_prefix': PRE + '\nproof { assert(*item_value == values.0@[it.index@ as int]); }'},
                           1: {'iter_name': 'itc', 'invariant': [
                ('ctx', '*item_value is Context, item_value->Context_0 == *ctx'),
                ('outer', '*value is List, value->List_0 == *values, 0 <= it.index@ < values.0@.len(), *item_value == values.0@[it.index@ as int]'),
                ('seq', 'itc.seq() =~= component_evaluators@.map_values(|c: (Name, ItemDefinitionEvaluatorFn)| &c)'),
                ('present_so_far', 'forall |j: int| 0 <= j < itc.index@ ==> ctx.0@.contains_key((#[trigger] component_evaluators@[j]).0)'),
                ('built_so_far', 'evaluated_ctx.0@ =~= comp_fold(ctx.0@, component_evaluators@, *evaluators, itc.index@ as int)')],
                'body_prefix': PRE + '\nproof { assert(*component_name == component_evaluators@[itc.index@ as int].0 && *component_evaluator == component_evaluators@[itc.index@ as int].1); }'}},
            'splices': [{'id': 'witness', 'op': 'before', 'anchor': 'check_allowed_values(Value::List(evaluated_values), av_evaluator.as_ref())',
                         'text': 'let ghost out = Value::List(evaluated_values);\nproof { assert(coll_comp_result(*value, component_evaluators@, *evaluators, out)); }'}]}

def referenced_part():
    return {'kind': 'closure', 'src': ID, 'path': 'fn build_referenced_type_evaluator', 'key': 'itemdef::referenced', 'name': 'referenced',
            'closure_header': r'Ok\(Box::new\(move \|value: &Value, evaluators: &ItemDefinitionEvaluator\| \{',
            'signature': 'pub fn referenced(value: &Value, evaluators: &ItemDefinitionEvaluator, ref_type: String) -> Value',
            'props': P, 'auto_props': A, 'loops': 0, 'ret': 'r',
            'rewrites': [('RX', 'R11', r'evaluators\.eval\(&ref_type, value\)\.unwrap_or_else\(\|\| value_null!\("no evaluator"\)\)', 'match evaluators.eval(&ref_type, value) { Some(v_) => v_, None => value_null!() }', 1)],
            'ensures': [('the_referenced_definition_decides', 'registry_get(*evaluators, ref_type@) is Some ==> r == idef_eval(registry_get(*evaluators, ref_type@)->Some_0, *value, *evaluators)'),
                        ('unknown_reference_becomes_null', 'registry_get(*evaluators, ref_type@) is None ==> r is Null')]}

def coll_referenced_part():
    return {'kind': 'closure', 'src': ID, 'path': 'fn build_collection_of_referenced_type_evaluator', 'key': 'itemdef::collection_of_referenced', 'name': 'collection_of_referenced',
            'closure_header': r'Ok\(Box::new\(move \|value: &Value, evaluators: &ItemDefinitionEvaluator\| \{',
            'signature': 'pub fn collection_of_referenced(value: &Value, evaluators: &ItemDefinitionEvaluator, type_ref: String, av_evaluator: Option<Evaluator>) -> Value',
            'props': P, 'auto_props': A, 'loops': 1, 'ret': 'r',
            'rewrites': [R3, ('RX', 'R11', r'Values::default\(\)', 'values_default()', 1), ('RX', 'R8e', r'\bevaluator\(item_value, evaluators\)', 'evaluator.call(item_value, evaluators)', 1)],
            'ensures': [('each_element_checked_by_the_referenced_definition', '(value is List && registry_get(*evaluators, type_ref@) is Some) ==> '
                         'exists |out: Value| #[trigger] coll_ref_result(*value, registry_get(*evaluators, type_ref@)->Some_0, *evaluators, out) && checked(out, av_evaluator, r)'),
                        ('otherwise_null', '!(value is List && registry_get(*evaluators, type_ref@) is Some) ==> r is Null')],
            'loop_specs': {0: {'iter_name': 'it', 'invariant': [
                ('ctx', '*value is List, value->List_0 == *values, *evaluator == registry_get(*evaluators, type_ref@)->Some_0'),
                ('seq', 'it.seq() =~= values.0@.map_values(|v: Value| &v)'),
                ('elements_so_far', 'evaluated_values.0@.len() == it.index@ && forall |j: int| 0 <= j < it.index@ ==> (#[trigger] evaluated_values.0@[j]) == idef_eval(*evaluator, values.0@[j], *evaluators)')],
                'body_prefix': 'proof { assert(*item_value == values.0@[it.index@ as int]); }'}},
            'splices': [{'id': 'witness', 'op': 'before', 'anchor': 'check_allowed_values(Value::List(evaluated_values), av_evaluator.as_ref())',
                         'text': 'let ghost out = Value::List(evaluated_values);\nproof { assert(coll_ref_result(*value, *evaluator, *evaluators, out)); }'}]}

UNIT['parts'] += [
    {'kind': 'fn', 'src': X, 'path': 'impl FeelContext::fn set_entry', 'key': 'itemdef::FeelContext::set_entry', 'props': P, 'auto_props': A, 'loops': 0, 'body_prefix': PRE,
     'ensures': [('post', 'final(self).0@ == old(self).0@.insert(*name, value)')]},
    {'kind': 'text', 'note': 'spec', 'text': """pub open spec fn coll_comp_result(v: Value, comps: Seq<(Name, ItemDefinitionEvaluatorFn)>, reg: ItemDefinitionEvaluator, out: Value) -> bool {
  out is List && out->List_0.0@.len() == v->List_0.0@.len() && forall |j: int| 0 <= j < v->List_0.0@.len() ==> comp_result(v->List_0.0@[j], comps, reg, #[trigger] out->List_0.0@[j])
}
pub open spec fn coll_ref_result(v: Value, f: ItemDefinitionEvaluatorFn, reg: ItemDefinitionEvaluator, out: Value) -> bool {
  out is List && out->List_0.0@.len() == v->List_0.0@.len() && forall |j: int| 0 <= j < v->List_0.0@.len() ==> (#[trigger] out->List_0.0@[j]) == idef_eval(f, v->List_0.0@[j], reg)
}"""},
    component_part(), coll_component_part(), referenced_part(), coll_referenced_part(),
]

NOT_DECIDED = {
    'C11': ['the dispatch from a declared type to its closure (match on FeelType / typeRef literal returning boxed closures): each closure is tied to the nested builder name / typeRef literal it is defined under, the match arms are not under contract',
            'component / referenced / collection-of variants are decided per closure relative to A-item (the answer of the nested definition\'s evaluator is an uninterpreted function): the recursion through the registry of dyn closures is not unfolded',
            'output side: where FeelType::coerced is applied to decision / BKM / decision service results (coerced itself: unit types)',
            'allowed-values unary tests themselves (opaque evaluator)'],
    'C12': ['item_definition_type: every combination of typeRef / components / isCollection is classified or reported as an error, never a panic'],
}
ASSUMPTIONS = ['evaluators and scopes are opaque (R8e, R11 stubs); ItemDefinition accessors uninterpreted; type_ref_to_feel_type uninterpreted (simple_type_of)',
               'A-derive Clone/ToOwned return equal values; A-std BTreeMap::get; R3, R4 (closures lifted, header regex includes the nested builder name / typeRef literal)']

BOUNDED = {'C11': [{'name': 'typed-inputs-and-outputs-differential', 'script': 'typeddiff.py', 'args': [],
                    'functions': ['build_variable_evaluator, information_item_type, the item definition evaluators of every kind (model-evaluator builders)', 'output coercion in decision.rs / decision_service.rs / FeelType::coerced'],
                    'bound': 'one generated model: for each of the 8 simple types an input of that type, of a collection of it, and decisions whose output variable has that type / that collection type, fed with a value of each of the '
                             '8 kinds (plain, singleton list, pair), null and the empty list; a component type, a collection of components, an item definition with allowed values and a reference to it; a singleton list given for each simple-typed input; 128 decision services (output variable of each type / collection type over an untyped output decision of each kind); ten knowledge models WITHOUT parameters whose typed result is wrapped / unwrapped / replaced by null, answered by name and called from decision logic; a component-typed result with an additional entry whose name sorts before / between the declared components: 879 results against the '
                             'property (conforming value unchanged, otherwise null - for components only the offending component; outputs unwrapped from / wrapped into a singleton list)'}]}
