"""Unit `lexer`: feel-parser/src/lexer.rs character classes, layout skipping, literals (C05, C06, C10)."""
L = 'feel-parser/src/lexer.rs'
P = ['C06', 'C05']
A = ['C06', 'C05', 'C10']

def top(name, ensures, **kw):
    d = {'kind': 'fn', 'src': L, 'path': 'fn ' + name, 'key': 'lexer::' + name, 'props': P, 'auto_props': A, 'loops': 0, 'ret': 'r',
         'sig_rewrite': [(r'^(\s*)fn ', r'\1pub fn ')], 'ensures': ensures}
    d.update(kw)
    return d

def lx(name, **kw):
    d = {'kind': 'fn', 'src': L, 'path': "impl<'lexer> Lexer<'lexer>::fn " + name, 'key': 'lexer::Lexer::' + name, 'props': P, 'auto_props': A, 'loops': 0,
         'impl_header': "impl<'lexer> Lexer<'lexer> {", 'sig_rewrite': [(r'^(\s*)(pub )?fn ', r'\1pub fn ')]}
    d.update(kw)
    return d

WF = 'lx_wf(self.position, self.input@)'
WF0 = 'lx_wf(old(self).position, old(self).input@)'
WF1 = 'lx_wf(final(self).position, final(self).input@)'
FRAME = 'final(self).input == old(self).input && final(self).position >= old(self).position'

UNIT = {
    'name': 'lexer',
    'uses': [],
    'parts': [
        {'kind': 'vrs', 'file': 'lexer/prelude.vrs'},
        {'kind': 'vrs', 'file': 'lexer/spec.vrs'},
        {'kind': 'item', 'src': L, 'path': 'const WS'},
        {'kind': 'item', 'src': L, 'path': 'const BUF_SIZE'},
        top('is_digit', [('grammar_digit', 'r == g_digit(ch)')]),
        top('is_hex_digit', [('hex', 'r == (g_hex_value(ch) is Some)')]),
        top('is_additional_name_symbol', [('grammar_rule_30', 'r == g_additional_name_symbol(ch)')], props=['C10', 'C06'], auto_props=A),
        top('is_name_start_char', [('grammar_rule_28', 'r == g_name_start(ch)')], props=['C10', 'C06'], auto_props=A),
        top('is_name_part_char', [('grammar_rule_29', 'r == g_name_part(ch)')], props=['C10', 'C06'], auto_props=A),
        top('is_vertical_space', [('grammar_rule_62', 'r == g_vertical_space(ch)')]),
        top('is_whitespace', [('grammar_rule_61', 'r == g_whitespace(ch)')]),
        top('hex_to_decimal', [('hex_value', 'g_hex_value(ch) is Some ==> r == g_hex_value(ch)->Some_0'), ('not_hex', 'g_hex_value(ch) is None ==> r == u64::MAX')]),
        {'kind': 'text', 'note': 'stand-in', 'text': '#[verifier::external_body] pub struct Name { _p: u8 }'},
        {'kind': 'item', 'src': 'feel-parser/src/lalr.rs', 'path': 'enum TokenType'},
        {'kind': 'item', 'src': L, 'path': 'enum TokenValue'},
        {'kind': 'item', 'src': L, 'path': "struct Lexer",
         'rewrites': [('RX', 'R7', r'\n  (scope|start_token_type|input|position|unary_tests|between|type_name|till_in):', r'\n  pub \1:', 8)]},
        lx('char_at', ret='r',
           requires=[('no_overflow', 'self.position + offset <= usize::MAX')],
           ensures=[('in_range', '(self.position + offset < self.input@.len()) ==> r == Some(self.input@[self.position + offset])'),
                    ('past_end', '(self.position + offset >= self.input@.len()) ==> r is None')]),
        lx('consume_whitespace', loops=1,
           requires=[('wf', WF0)],
           ensures=[('wf', WF1), ('frame', FRAME),
                    ('skips_only_whitespace', 'forall |i: int| old(self).position <= i < final(self).position ==> g_whitespace(#[trigger] old(self).input@[i])'),
                    ('stops_at_non_whitespace', 'final(self).position == final(self).input@.len() || !g_whitespace(final(self).input@[final(self).position as int])')],
           loop_specs={0: {'invariant': [('wf', WF), ('frame', 'self.input == old(self).input && self.position >= old(self).position'),
                                         ('skipped', 'forall |i: int| old(self).position <= i < self.position ==> g_whitespace(#[trigger] old(self).input@[i])')],
                           'ensures': [('stop', 'self.position == self.input@.len() || !g_whitespace(self.input@[self.position as int])')],
                           'decreases': 'self.input@.len() - self.position'}}),
        lx('consume_comment', loops=2,
           requires=[('wf', WF0)],
           ensures=[('wf', WF1), ('frame', FRAME),
                    ('no_comment_no_move', '!comment_start(old(self).position as int, old(self).input@) ==> final(self).position == old(self).position'),
                    ('comment_moves', 'comment_start(old(self).position as int, old(self).input@) ==> final(self).position >= old(self).position + 2')],
           loop_specs={0: {'invariant': [('wf', WF), ('frame', 'self.input == old(self).input && self.position >= old(self).position + 2'), ('started', 'comment_start(old(self).position as int, old(self).input@)')],
                           'decreases': 'self.input@.len() - self.position'},
                       1: {'invariant': [('wf', WF), ('frame', 'self.input == old(self).input && self.position >= old(self).position + 2'), ('started', 'comment_start(old(self).position as int, old(self).input@)')],
                           'decreases': 'self.input@.len() - self.position'}}),
        lx('consume_digits', loops=1, ret='r', body_prefix='proof { reveal_strlit(""); }',
           requires=[('wf', WF0)],
           ensures=[('wf', WF1), ('frame', FRAME),
                    ('digits', 'r@ =~= old(self).input@.subrange(old(self).position as int, final(self).position as int) && forall |i: int| old(self).position <= i < final(self).position ==> g_digit(#[trigger] old(self).input@[i])'),
                    ('maximal', 'final(self).position == final(self).input@.len() || !g_digit(final(self).input@[final(self).position as int])')],
           loop_specs={0: {'invariant': [('wf', WF), ('frame', 'self.input == old(self).input && self.position >= old(self).position'),
                                         ('collected', 'digits@ =~= old(self).input@.subrange(old(self).position as int, self.position as int)'),
                                         ('are_digits', 'forall |i: int| old(self).position <= i < self.position ==> g_digit(#[trigger] old(self).input@[i])')],
                           'ensures': [('stop', 'self.position == self.input@.len() || !g_digit(self.input@[self.position as int])')],
                           'decreases': 'self.input@.len() - self.position'}}),
        lx('read_input', loops=2, ret='r',
           requires=[('wf', WF0)],
           rewrites=[('R1', 1)],
           # ghost code in front of the `break` (the executable statement is unchanged): the proof of the loop's exit condition
           splices=[{'id': 'blank_from_the_comment_on', 'op': 'replace', 'rule': 'ghost-block', 'anchor': '=> break,', 'text': '''=> { proof {
            assert(comment_start(self.position + offset, self.input@));
            assert forall |k: int| 0 <= k < 12 implies #[trigger] buffer@[k] == window_char(self.input@, self.position as int, k) by {
              if k >= offset { assert(comment_start(self.position + offset, self.input@)); assert(window_char(self.input@, self.position as int, k) == ' '); }
              else { assert(!(exists |p: int| self.position <= p <= self.position + k && #[trigger] comment_start(p, self.input@))); }
            }
          } break },'''}],
           ensures=[('wf', WF1), ('frame', FRAME),
                    ('layout_skipped', 'final(self).position == final(self).input@.len() || (!g_whitespace(final(self).input@[final(self).position as int]) && !comment_start(final(self).position as int, final(self).input@))'),
                    ('window', 'forall |k: int| 0 <= k < 12 ==> #[trigger] r@[k] == window_char(final(self).input@, final(self).position as int, k)')],
           loop_specs={0: {'invariant': [('wf', WF), ('frame', 'self.input == old(self).input && self.position >= old(self).position')],
                           'ensures': [('layout_skipped', 'self.position == self.input@.len() || (!g_whitespace(self.input@[self.position as int]) && !comment_start(self.position as int, self.input@))')],
                           'decreases': 'self.input@.len() - self.position',
                           'body_prefix': 'let ghost p0 = self.position;'},
                       1: {'iter_name': 'itb',
                           'invariant': [('wf', WF), ('len', 'buffer@.len() == 12, itb.seq().len() == 12')],
                           'invariant_except_break': [
                                         ('no_comment_so_far', 'forall |p: int| self.position <= p < self.position + offset ==> !#[trigger] comment_start(p, self.input@)'),
                                         ('filled', 'forall |k: int| 0 <= k < offset ==> #[trigger] buffer@[k] == (if self.position + k < self.input@.len() && !g_whitespace(self.input@[self.position + k]) { self.input@[self.position + k] } else { \' \' })'),
                                         ('rest_blank', 'forall |k: int| offset <= k < 12 ==> #[trigger] buffer@[k] == \' \'')],
                           'ensures': [('window', 'forall |k: int| 0 <= k < 12 ==> #[trigger] buffer@[k] == window_char(self.input@, self.position as int, k)')]}}),
        lx('comment_length', loops=2, ret='r',
           requires=[('wf', WF), ('in_input', 'self.position + offset <= self.input@.len()')],
           ensures=[('a_comment_iff_one_starts_here', '(r is Some) == comment_start(self.position + offset, self.input@)'),
                    ('within_the_input_and_not_empty', 'r is Some ==> 2 <= r->Some_0 && self.position + offset + r->Some_0 <= self.input@.len()')],
           loop_specs={0: {'invariant': [('wf', WF), ('a_comment', 'comment_start(self.position + offset, self.input@)'), ('progress', '2 <= length && self.position + offset + length <= self.input@.len()')],
                           'decreases': 'self.input@.len() - (self.position + offset + length)'},
                       1: {'invariant': [('wf', WF), ('a_comment', 'comment_start(self.position + offset, self.input@)'), ('progress', '2 <= length && self.position + offset + length <= self.input@.len()')],
                           'decreases': 'self.input@.len() - (self.position + offset + length)'}}),
        lx('is_next_character', loops=1, ret='r',
           requires=[('wf', WF), ('in_input', 'self.position + offset <= self.input@.len()')],
           loop_specs={0: {'invariant': [('wf', WF), ('in_input', 'self.position + offset <= self.input@.len()')],
                           'decreases': 'self.input@.len() - (self.position + offset)'}}),
        lx('consume_hex_digit', ret='r',
           requires=[('wf', WF0)],
           ensures=[('wf', WF1), ('frame', FRAME),
                    ('hex_digit', 'r is Ok ==> old(self).position < old(self).input@.len() && g_hex_value(old(self).input@[old(self).position as int]) == Some(r->Ok_0 as int) && final(self).position == old(self).position + 1'),
                    ('error_keeps_position', 'r is Err ==> final(self).position == old(self).position && (old(self).position == old(self).input@.len() || g_hex_value(old(self).input@[old(self).position as int]) is None)')]),
        lx('consume_character', ret='r',
           requires=[('wf', WF0)],
           ensures=[('wf', WF1), ('frame', FRAME),
                    ('consumed', 'r is Ok ==> old(self).position < old(self).input@.len() && old(self).input@[old(self).position as int] == expected && r->Ok_0 == expected && final(self).position == old(self).position + 1'),
                    ('error_keeps_position', 'r is Err ==> final(self).position == old(self).position && (old(self).position == old(self).input@.len() || old(self).input@[old(self).position as int] != expected)')]),
        lx('consume_characters', ret='r',
           requires=[('wf', WF0)], body_prefix='proof { axiom_char_eq(); }',
           ensures=[('wf', WF1), ('frame', FRAME),
                    ('consumed', 'r is Ok ==> old(self).position < old(self).input@.len() && old(self).input@[old(self).position as int] == r->Ok_0 && expected@.contains(r->Ok_0) && final(self).position == old(self).position + 1'),
                    ('error_keeps_position', 'r is Err ==> final(self).position == old(self).position && (old(self).position == old(self).input@.len() || !expected@.contains(old(self).input@[old(self).position as int]))')]),
        lx('consume_unicode_literal', ret='r', attrs='#[verifier::rlimit(100)]',
           requires=[('wf', WF0)],
           body_prefix='proof { axiom_char_eq(); }',
           ensures=[('wf', WF1), ('frame', FRAME),
                    ('value_of_escape', 'r is Ok <==> escape_value(old(self).input@, old(self).position as int) is Some'),
                    ('value', 'r is Ok ==> r->Ok_0 == escape_value(old(self).input@, old(self).position as int)->Some_0.0 && final(self).position == escape_value(old(self).input@, old(self).position as int)->Some_0.1')]),
        lx('consume_unicode', ret='r', attrs='#[verifier::rlimit(100)]',
           requires=[('wf', WF0)],
           rewrites=[('RX', 'R15', r'if let Ok\(s\) = String::from_utf8\((vec!\[[^\]]*\])\) \{\s*return Ok\(s\.chars\(\)\.next\(\)\.unwrap\(\)\);\s*\}', r'if let Some(c) = utf8_first(\1) { return Ok(c); }', 5)],
           ensures=[('wf', WF1), ('frame', FRAME),
                    ('ok_iff_escape_denotes_a_character', 'r is Ok <==> unicode_escape(old(self).input@, old(self).position as int) is Some'),
                    ('the_denoted_character', 'r is Ok ==> r->Ok_0 as u32 == unicode_escape(old(self).input@, old(self).position as int)->Some_0.0 && final(self).position == unicode_escape(old(self).input@, old(self).position as int)->Some_0.1')],
           splices=[{'id': 'v0', 'op': 'after', 'anchor': 'let mut value = self.consume_unicode_literal()?;', 'text': 'let ghost v0 = value;'},
                    {'id': 'utf8_1', 'op': 'before', 'anchor': 'if let Some(c) = utf8_first(vec![b1])', 'text': 'proof { lemma_utf8_1(v0, b1); }'},
                    {'id': 'utf8_2', 'op': 'before', 'anchor': 'if let Some(c) = utf8_first(vec![b1, b2])', 'text': 'proof { lemma_utf8_2(v0, b1, b2); }'},
                    {'id': 'utf8_3', 'op': 'before', 'anchor': 'if let Some(c) = utf8_first(vec![b1, b2, b3])', 'text': 'proof { lemma_utf8_3(v0, b1, b2, b3); }'},
                    {'id': 'utf8_4', 'op': 'before', 'anchor': 'if let Some(c) = utf8_first(vec![b1, b2, b3, b4])', 'nth': 0, 'text': 'proof { lemma_utf8_4(v0, b1, b2, b3, b4); }'},
                    {'id': 'cp0', 'op': 'after', 'anchor': 'let mut code_point = 0x10000 + ((value - 0xD800) * 0x400) + (low_surrogate - 0xDC00);', 'text': 'let ghost cp0 = code_point;'},
                    {'id': 'utf8_pair', 'op': 'before', 'anchor': 'if let Some(c) = utf8_first(vec![b1, b2, b3, b4])', 'nth': 1, 'text': 'proof { lemma_utf8_4(cp0, b1, b2, b3, b4); }'}]),
        lx('consume_chars', ret='r', loops=1,
           requires=[('wf', WF0)],
           ensures=[('wf', WF1), ('frame', FRAME),
                    ('all_consumed', 'r is Ok ==> final(self).position == old(self).position + expected@.len() && forall |i: int| 0 <= i < expected@.len() ==> old(self).input@[old(self).position + i] == #[trigger] expected@[i]'),
                    ('error', 'r is Err ==> exists |i: int| 0 <= i < expected@.len() && (old(self).position + i >= old(self).input@.len() || old(self).input@[old(self).position + i] != #[trigger] expected@[i])')],
           loop_specs={0: {'iter_name': 'itc',
                           'invariant': [('wf', WF), ('frame', 'self.input == old(self).input'), ('seq', 'itc.seq() =~= expected@.map_values(|c: char| &c)'),
                                         ('so_far', 'self.position == old(self).position + itc.index@ && forall |i: int| 0 <= i < itc.index@ ==> old(self).input@[old(self).position + i] == #[trigger] expected@[i]')],
                           'body_prefix': 'proof { assert(*ch == expected@[itc.index@ as int]); }'}}),
        lx('consume_string', ret='r', loops=1, attrs='#[verifier::rlimit(100)]',
           requires=[('wf', WF0)],
           body_prefix='proof { reveal_strlit(""); }',
           ensures=[('wf', WF1), ('frame', FRAME),
                    ('string_token', '(r is Ok && r->Ok_0.0 is String) ==> r->Ok_0.1 is String && old(self).position < old(self).input@.len() && old(self).input@[old(self).position as int] == \'"\' '
                                     '&& lit_body(old(self).input@, old(self).position + 1) == Some((code_points(r->Ok_0.1->String_0@), final(self).position as int))'),
                    ],
           loop_specs={0: {'invariant': [('wf', WF), ('frame', 'self.input == old(self).input && self.position >= old(self).position + 1'),
                                         ('opened', 'old(self).position < old(self).input@.len() && old(self).input@[old(self).position as int] == \'"\'')],
                           'invariant_except_break': [
                                         ('continuation', 'lit_body(old(self).input@, old(self).position + 1) == (match lit_body(self.input@, self.position as int) { Some((rest, end)) => Some((code_points(string@) + rest, end)), None => None::<(Seq<int>, int)> })')],
                           'ensures': [('closed', 'lit_body(old(self).input@, old(self).position + 1) == Some((code_points(string@), self.position as int))')],
                           'decreases': 'self.input@.len() - self.position',
                           'body_prefix': 'proof { axiom_char_eq(); lemma_lit_unfold(self.input@, self.position as int); }\nlet ghost p0 = self.position;\nlet ghost s0 = string@;',
                           'body_suffix': 'proof { if string@.len() == s0.len() + 1 { let c = string@.last(); assert(string@ =~= s0.push(c)); if lit_body(self.input@, self.position as int) is Some { lemma_push_cp(s0, c, lit_body(self.input@, self.position as int)->Some_0.0); } } }'}}),
        # second contract on the same body (completeness), verified as a renamed copy to keep each query small
        lx('consume_string', ret='r', loops=1, attrs='#[verifier::rlimit(100)]', key='lexer::Lexer::consume_string#complete',
           sig_rewrite=[(r'^(\s*)(pub )?fn consume_string', r'\1pub fn consume_string_complete')],
           requires=[('wf', WF0)],
           body_prefix='proof { reveal_strlit(""); }',
           ensures=[('valid_literal_accepted', '(old(self).position < old(self).input@.len() && old(self).input@[old(self).position as int] == \'"\' && lit_body(old(self).input@, old(self).position + 1) is Some) ==> r is Ok && r->Ok_0.0 is String')],
           loop_specs={0: {'invariant': [('wf', WF), ('frame', 'self.input == old(self).input && self.position >= old(self).position + 1'),
                                         ('opened', 'old(self).position < old(self).input@.len() && old(self).input@[old(self).position as int] == \'"\'')],
                           'invariant_except_break': [('some_iff', 'lit_body(old(self).input@, old(self).position + 1) is Some <==> lit_body(self.input@, self.position as int) is Some')],
                           'decreases': 'self.input@.len() - self.position',
                           'body_prefix': 'proof { axiom_char_eq(); lemma_lit_unfold(self.input@, self.position as int); }'}}),
    ],
}

NOT_DECIDED = {
    'C06': [
        'operator precedence and associativity: data in the generated LALR tables (lalr.rs) and the table lookups of the driver loop: only the BOUNDED stand-in operator-precedence-round-trip looks at them (every ordered pair and triple of operators); '
        'which AstNode each reduce action builds is not under contract',
        'keyword and operator recognition in read_next_token (slice patterns over the 12-character window): only its two numeric arms are under contract (R26)',
        'consume_name (C10): under contract in unit names, not here',
    ],
    'C05': [
        'lexer functions under contract: char_at, consume_whitespace, consume_comment, comment_length, is_next_character, read_input, consume_digits, consume_hex_digit, consume_character(s), consume_chars, consume_unicode_literal, consume_unicode, consume_string: '
        'no overflow, no out-of-bounds, termination of every loop (decreases). The LALR driver (parser.rs), read_next_token and consume_name are not decided',
    ],
    'C10': ['only the name character classes (grammar rules 28-30) are decided here'],
}
ASSUMPTIONS = [
    'A-std: char::is_ascii_digit / is_digit(16) / slice::contains; char equality is code point equality; String::push appends; Vec<char> holds at most isize::MAX elements (lexer well-formedness)',
    'A-std (RFC 3629): String::from_utf8 accepts exactly well-formed UTF-8 and chars().next() yields the first scalar value (stub utf8_first, rule R15)',
    'R1, R7, R15; opaque Scope, Name, error constructors',
]

# ---------------------------------------------------------------- numeric tokens (C07: a literal's integer and fraction digits; C06)
# R26 (arm lifting): the block of ONE arm of the match in read_next_token, found by the text of its pattern and guard, becomes the body of a
# method - the same mechanism as R4 for closures; what is dropped: the match itself, i.e. WHEN the arm is chosen (stated as the precondition)
DIGIT_RUN = ('digits_from(old(self).input@, old(self).position as int)')
UNIT['parts'] += [
    {'kind': 'item', 'src': L, 'path': 'const DECIMAL_SEPARATOR'},
    {'kind': 'vrs', 'file': 'lexer/numeric.vrs'},
    lx('is_char_at', ret='r', props=['C06', 'C07'], requires=[('no_overflow', 'self.position + offset <= usize::MAX')],
       ensures=[('the_character_there', 'r == (self.position + offset < self.input@.len() && self.input@[self.position + offset] == expected)')]),
    lx('is_digit_at', ret='r', props=['C06', 'C07'], requires=[('no_overflow', 'self.position + offset <= usize::MAX')],
       ensures=[('a_digit_there', 'r == (self.position + offset < self.input@.len() && g_digit(self.input@[self.position + offset]))')]),
    {'kind': 'closure', 'src': L, 'path': "impl<'lexer> Lexer<'lexer>::fn read_next_token", 'key': 'lexer::Lexer::read_next_token#number', 'props': ['C06', 'C07'], 'auto_props': A + ['C07'], 'loops': 0, 'ret': 'r',
     'closure_header': r'\[ch, _, _, _, _, _, _, _, _, _, _, _\] if is_digit\(ch\) => \{',
     'signature': 'pub fn numeric_token(&mut self) -> Result<(TokenType, TokenValue)>', 'impl_header': "impl<'lexer> Lexer<'lexer> {",
     'body_prefix': 'proof { reveal_strlit(""); }',
     'requires': [('wf', WF0), ('at_a_digit', 'old(self).position < old(self).input@.len() && g_digit(old(self).input@[old(self).position as int])')],
     'splices': [{'id': 'integer_digits', 'op': 'after', 'anchor': 'digits_before.push_str(&self.consume_digits());',
                  'text': 'let ghost mid = self.position as int;\nproof { assert(digits_before@ =~= old(self).input@.subrange(old(self).position as int, mid)); assert(is_digit_run(self.input@, old(self).position as int, mid)); assert(mid > old(self).position); }'},
                 {'id': 'fraction_digits', 'op': 'after', 'anchor': 'digits_after.push_str(&self.consume_digits());',
                  'text': 'proof { assert(digits_after@ =~= old(self).input@.subrange(mid + 1, self.position as int)); assert(is_digit_run(self.input@, mid + 1, self.position as int)); }'},
                 {'id': 'literal', 'op': 'before', 'anchor': 'Ok((TokenType::Numeric, TokenValue::Numeric(digits_before, digits_after)))',
                  'text': 'proof { assert(digits_after@.len() == 0 ==> digits_after@ =~= Seq::<char>::empty()); assert(is_digit_run(old(self).input@, old(self).position as int, mid)); }'}],
     'ensures': [('wf', WF1), ('frame', FRAME),
                 ('the_digits_written_before_and_after_the_point', 'r is Ok && r->Ok_0.0 is Numeric && r->Ok_0.1 is Numeric && numeric_literal(old(self).input@, old(self).position as int, r->Ok_0.1->Numeric_0@, r->Ok_0.1->Numeric_1@, final(self).position as int)')]},
    {'kind': 'closure', 'src': L, 'path': "impl<'lexer> Lexer<'lexer>::fn read_next_token", 'key': 'lexer::Lexer::read_next_token#fraction', 'props': ['C06', 'C07'], 'auto_props': A + ['C07'], 'loops': 0, 'ret': 'r',
     'closure_header': r"\['\.', ch, _, _, _, _, _, _, _, _, _, _\] if is_digit\(ch\) => \{",
     'signature': 'pub fn fraction_token(&mut self) -> Result<(TokenType, TokenValue)>', 'impl_header': "impl<'lexer> Lexer<'lexer> {",
     'body_prefix': 'proof { reveal_strlit("0"); }',
     'requires': [('wf', WF0), ('at_a_point_before_a_digit', "old(self).position + 1 < old(self).input@.len() && old(self).input@[old(self).position as int] == '.' && g_digit(old(self).input@[old(self).position + 1])")],
     'ensures': [('wf', WF1), ('frame', FRAME),
                 ('zero_and_the_digits_after_the_point', "r is Ok && r->Ok_0.0 is Numeric && r->Ok_0.1 is Numeric && r->Ok_0.1->Numeric_0@ == seq!['0'] "
                  '&& is_digit_run(old(self).input@, old(self).position + 1, final(self).position as int) && r->Ok_0.1->Numeric_1@ == old(self).input@.subrange(old(self).position + 1, final(self).position as int)')]},
]

UNIT['parts'] += [
    lx('nest_between', props=['C06', 'C05'],
       requires=[('fewer_brackets_than_the_machine_can_count', 'old(self).between@.len() > 0 ==> old(self).between@.last() < usize::MAX')],
       ensures=[('only_the_innermost_between_counts', 'final(self).between@.len() == old(self).between@.len() && forall |i: int| 0 <= i < old(self).between@.len() - 1 ==> final(self).between@[i] == old(self).between@[i]'),
                ('an_opening_bracket_counts_up_a_closing_one_down_to_zero', 'old(self).between@.len() > 0 ==> final(self).between@.last() == (if opened { old(self).between@.last() + 1 } else if old(self).between@.last() > 0 { old(self).between@.last() - 1 } else { 0 })'),
                ('frame', 'final(self).input == old(self).input && final(self).position == old(self).position')]),
]

BOUNDED = {
    'C06': [{'name': 'every-code-point-in-every-escape-spelling', 'driver': 'escapes', 'args': ['1'],
             'functions': ['Lexer::consume_string / consume_unicode / consume_unicode_literal through parse_expression'],
             'bound': 'exhaustive on its domain: every Unicode scalar value from U+0020 (1 112 000 code points; the quotation mark and the backslash excepted) written as \\UXXXXXX, and as \\uXXXX (basic plane) or as a UTF-16 '
                      'surrogate pair (supplementary planes), inside a string literal parses to the one-character string (2 224 186 literals; bounded duplicate of the Verus contracts of consume_unicode, decides it when a rewritten body leaves the extractor\'s reach)'},
            {'name': 'operator-precedence-round-trip', 'script': 'precdiff.py', 'args': ['--depth', '3'],
             'functions': ['feel-parser/src/lalr.rs (tables)', 'Parser::parse (table lookups)', 'Lexer::read_next_token / consume_name for operators, keywords and the type name after `instance of`'],
             'bound': 'every syntax tree of one, two or three nested operators (every ordered pair and triple, every operand position) over or, and, =, <, between (all three operand positions), in, +, -, *, /, **, unary minus, instance of, filter, path with bound '
                      'single-word names as leaves (about 5 900 trees, 31 000 parses): fully parenthesised and minimally parenthesised renderings give the same tree, one needed pair of parentheses removed gives a different tree; '
                      'minimal parenthesisation computed from the precedence declarations of feel-grammar/src/feel.y with the yacc conflict rule; plus 39 hand-written (fully parenthesised, minimal) pairs - 10 of them unary tests, where `not` is the negation keyword only as the first token - for the constructs that extend to the right - if, for, some, every, function - around in, or, and, +, comparisons and each other'},
            {'name': 'layouts-do-not-change-the-tree', 'script': 'layoutdiff.py', 'args': [],
             'functions': ['Lexer::read_next_token (keyword patterns over the look-ahead window)', 'Lexer::is_next_character', 'Lexer::read_input / consume_whitespace / consume_comment end to end'],
             'bound': '62 token sequences covering every keyword and bracket of the expression language, each laid out with 16 separators (runs of spaces, tab, LF, CR LF, no-break / em / ideographic space, line and paragraph separator, '
                      'vertical tab, block comments with and without white space around them, line comments) in every gap at once, in each single gap, in front and behind: 6 359 parses, each equal to the tree of the single-space layout; '
                      'U+1680, U+180E, U+FEFF (white space AND name characters in the FEEL grammar) are left out, and a comment is not glued to a name that is not bound in the parsing scope'},
            {'name': 'a-comment-ends-a-name', 'driver': 'feelcases', 'args': ['/verif/replay/cases/C06_comments_after_names.txt', 'all'],
             'functions': ['Lexer::consume_name (the scan of the longest possible name)', 'Lexer::comment_length'],
             'bound': '8 expressions with a comment directly behind a name that is being introduced (the variable of for / some / every, a context key, a formal parameter), with and without white space around it'},
            {'name': 'a-type-position-ends-with-the-type', 'driver': 'feelcases', 'args': ['/verif/replay/cases/C06_type_position.txt', 'all'],
             'functions': ['Lexer::consume_name (type_name flag)', 'Parser::action_type_name'],
             'bound': '11 expressions in which a type (built-in, a name that is not a built-in type, list<>, range<>, context<>, function<>) after `instance of` or in a formal parameter is followed by an expression that '
                      'calls number / string / date: the names of built-in types are type names only in the type position'}],
}
