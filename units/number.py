"""Unit `number`: feel-number/src/dec.rs and number.rs - wiring of the FEEL number operations to the decimal library (C02)."""
import os, re, sys
sys.path.insert(0, os.path.dirname(os.path.abspath(__file__)))
from vf import build as VB
DR = 'feel-number/src/dec.rs'
NR = 'feel-number/src/number.rs'
P = ['C02']
A = ['C02', 'C05']

# A-C: contracts assumed for the C entry points (name -> ensures over the parameter names arg1..arg4 of the extern block)
CTX3 = 'dq_ctx(*old(arg3)) ==> '
CTX4 = 'dq_ctx(*old(arg4)) ==> '
FFI = {
    'decQuadAdd': CTX4 + '*final(arg1) == i_add(*arg2, *arg3)', 'decQuadSubtract': CTX4 + '*final(arg1) == i_sub(*arg2, *arg3)',
    'decQuadMultiply': CTX4 + '*final(arg1) == i_mul(*arg2, *arg3)', 'decQuadDivide': CTX4 + '*final(arg1) == i_div(*arg2, *arg3)',
    'decQuadRemainder': CTX4 + '*final(arg1) == i_rem(*arg2, *arg3)', 'decQuadCompare': CTX4 + '*final(arg1) == i_cmp(*arg2, *arg3)',
    'decQuadAbs': CTX3 + '*final(arg1) == i_abs(*arg2)', 'decQuadMinus': CTX3 + '*final(arg1) == i_minus(*arg2)',
    'decQuadToIntegralValue': CTX3 + '*final(arg1) == i_integral(*arg2, arg4)',
    'decQuadZero': '*final(arg1) == i_zero()',
    'decQuadIsFinite': 'r == (if i_finite(*arg1) { 1u32 } else { 0u32 })', 'decQuadIsInteger': 'r == (if i_exp0(*arg1) { 1u32 } else { 0u32 })',
    'decQuadIsNegative': 'r == (if i_is_neg(*arg1) { 1u32 } else { 0u32 })', 'decQuadIsPositive': 'r == (if i_is_pos(*arg1) { 1u32 } else { 0u32 })',
    'decQuadIsZero': 'r == (if i_is_zero(*arg1) { 1u32 } else { 0u32 })',
    'decQuadFromInt32': '*final(arg1) == i_from_i32(arg2)', 'decQuadFromUInt32': '*final(arg1) == i_from_u32(arg2)',
    'decQuadToInt32': 'dq_ctx(*old(arg2)) ==> r == i_to_i32(*arg1, arg3)', 'decQuadToUInt32': 'dq_ctx(*old(arg2)) ==> r == i_to_u32(*arg1, arg3)',
    'decimal128ToNumber': '*final(arg2) == n_of(*arg1)', 'decimal128FromNumber': 'dq_ctx(*old(arg3)) ==> *final(arg1) == q_of(*arg2)',
    'decNumberExp': CTX3 + '*final(arg1) == n_exp(*arg2)', 'decNumberLn': CTX3 + '*final(arg1) == n_ln(*arg2)', 'decNumberSquareRoot': CTX3 + '*final(arg1) == n_sqrt(*arg2)',
    'decNumberPower': CTX4 + '*final(arg1) == n_pow(*arg2, *arg3)', 'decNumberReduce': CTX3 + '*final(arg1) == n_reduce(*arg2)',
    'decNumberRescale': CTX4 + '*final(arg1) == n_rescale(*arg2, *arg3)', 'decNumberScaleB': CTX4 + '*final(arg1) == n_scaleb(*arg2, *arg3)',
}
SKIP_FFI = {'decContextDefault', 'decQuadFromBCD', 'decQuadFromString', 'decQuadToString'}  # pointer / C string arguments: their callers are not extracted

def ffi_stubs():
    """R20: the `extern "C"` block of dec.rs, each declaration turned into a safe external_body stub with reference parameters
    (`*mut T` -> `&mut T`, `*const T` -> `&T`; the returned pointer, which no caller uses, is dropped) and the assumed contract."""
    t = open(os.path.join(VB.REPO, DR), encoding='utf-8').read()
    m = re.search(r'extern "C" \{(.*?)\n\}', t, re.S)
    out = []
    seen = set()
    for d in re.finditer(r'fn (\w+)\(([^)]*)\)\s*(?:->\s*([^;]+))?;', m.group(1)):
        name, params, ret = d.group(1), d.group(2), (d.group(3) or '').strip()
        if name in SKIP_FFI:
            continue
        ps = []
        for p in params.split(','):
            pn, pt = [x.strip() for x in p.split(':')]
            pt = re.sub(r'^\*mut ', '&mut ', pt)
            pt = re.sub(r'^\*const ', '&', pt)
            ps.append('%s: %s' % (pn, pt))
        rt = '' if ret.startswith('*') or not ret else ' -> (r: %s)' % ret
        ens = FFI.get(name)
        if ens is None:
            # an entry point of the C library without an assumed contract: the generated file does not compile (front-end error ->
            # UNDECIDED: needs contract), while the bounded stand-ins of this unit still run
            out.append('compile_error!("C entry point %s has no assumed contract (needs contract)");' % name)
            seen.add(name)
            continue
        out.append('#[verifier::external_body] pub fn %s(%s)%s\n  ensures %s\n{ unimplemented!() }' % (name, ', '.join(ps), rt, ens))
        seen.add(name)
    return '\n'.join(out)

R20 = [('RX', 'R20', r'\bunsafe \{', '{', None),
       ('RX', 'R9', r'&mut DEFAULT_CONTEXT\.clone\(\)', '&mut default_context()', None),
       ('RX', 'R11', r'DecQuad::default\(\)', 'dec_quad_default()', None),
       ('RX', 'R11', r'let mut qr: DecQuad = Default::default\(\);', 'let mut qr: DecQuad = dec_quad_default();', None),
       ('RX', 'R11', r'DecNumber::default\(\)', 'dec_number_default()', None),
       # the C API allows the result to alias an operand; with reference parameters the operand is copied first (DecNumber / DecQuad are Copy)
       ('RX', 'R20b', r'(decNumber\w+)\(&mut n, &n, ', r'let n_in_ = n; \1(&mut n, &n_in_, ', None),
       ('RX', 'R20b', r'decQuadSubtract\(&mut qr, q, &qr, ', 'let qr_in_ = qr; decQuadSubtract(&mut qr, q, &qr_in_, ', None)]

def dfn(name, ens, **kw):
    d = {'kind': 'fn', 'src': DR, 'path': 'fn ' + name, 'key': 'number::dec::' + name, 'props': P, 'auto_props': A, 'loops': 0, 'ret': 'r', 'rewrites': R20,
         'ensures': [('the_library_operation', ens)]}
    d.update(kw)
    return d

R9N = [('RX', 'R9', r'&DEC_TWO\b', '&dec_const_two()', None), ('RX', 'R9', r'&DEC_ONE\b', '&dec_const_one()', None),
       ('RX', 'R9', r'\*DEC_ZERO\b', 'dec_const_zero()', None), ('RX', 'R9', r'\*DEC_ONE\b', 'dec_const_one()', None), ('RX', 'R9', r'\*DEC_TWO\b', 'dec_const_two()', None), ('RX', 'R9', r'\*DEC_NANO\b', 'dec_const_nano()', None)]

def nfn(name, ens, path=None, **kw):
    d = {'kind': 'fn', 'src': NR, 'path': path or ('impl FeelNumber::fn ' + name), 'key': 'number::FeelNumber::' + name, 'props': P, 'auto_props': A, 'loops': 0, 'ret': 'r',
         'impl_header': 'impl FeelNumber {', 'rewrites': R9N, 'body_prefix': 'broadcast use group_ieee_finite;', 'sig_rewrite': [(r'^(\s*)(pub )?fn ', r'\1pub fn ')],
         'ensures': ens}
    d.update(kw)
    if any(e[0] == 'finite_or_null' for e in d['ensures']):
        # FEEL numbers handed to an operation are finite (they come from literals, conversions and operations that are checked here)
        d['requires'] = [('finite_operands', 'i_finite(self.0)' + (' && i_finite(rhs.0)' if 'rhs' in ''.join(x[1] for x in d['ensures']) else ''))]
    return d

def opfn(trait, name, ens, **kw):
    """R21: the method of an operator trait impl, verified as an inherent method of the same name (Verus does not take contracts on trait impl methods)."""
    return nfn(name, ens, path='impl std::ops::%s<FeelNumber> for FeelNumber::fn %s' % (trait, name) if trait != 'Neg' else 'impl std::ops::Neg for FeelNumber::fn neg',
               sig_rewrite=[(r'^(\s*)(pub )?fn ', r'\1pub fn '), (r'Self::Output', 'Self')], **kw)

FIN = ('finite_or_null', 'i_finite(r.0)')   # C02: no evaluation ever produces an infinite or not-a-number value
def optfin(q):
    return [('the_decimal128_operation_reduced', 'r is Some ==> r->Some_0.0 == q_reduce(%s)' % q), ('null_iff_not_finite', '(r is None) == !i_finite(%s)' % q)]

UNIT = {
    'name': 'number',
    'uses': ['use core::cmp::Ordering;'],
    'parts': [
        {'kind': 'item', 'src': DR, 'path': 'struct DecContext', 'rewrites': [('RX', 'R7', r'(?<!pub )struct DecContext', 'pub struct DecContext', 1), ('RX', 'R7', r'\n  (digits|emax|emin|round|traps|status|clamp):', r'\n  pub \1:', 7), ('RX', 'R7', r'#\[repr\(C\)\]\n', '', None)]},
        {'kind': 'item', 'src': DR, 'path': 'struct DecNumber', 'rewrites': [('RX', 'R7', r'\n  (digits|exponent|bits|lsu):', r'\n  pub \1:', 4), ('RX', 'R7', r'#\[repr\(C\)\]\n', '', None)]},
        {'kind': 'item', 'src': DR, 'path': 'struct DecQuad', 'rewrites': [('RX', 'R7', r'pub struct DecQuad\(\[u8; 16\]\);', 'pub struct DecQuad(pub [u8; 16]);', 1), ('RX', 'R7', r'#\[repr\(C\)\]\n', '', None)]},
        {'kind': 'item', 'src': DR, 'path': 'const DEC_ROUND_CEILING'}, {'kind': 'item', 'src': DR, 'path': 'const DEC_ROUND_HALF_EVEN'},
        {'kind': 'item', 'src': DR, 'path': 'const DEC_ROUND_DOWN'}, {'kind': 'item', 'src': DR, 'path': 'const DEC_ROUND_FLOOR'},
        {'kind': 'vrs', 'file': 'number/prelude.vrs'},
        {'kind': 'text', 'note': 'R20: extern "C" declarations of dec.rs as safe stubs with assumed contracts (A-C)', 'text': ffi_stubs()},
        dfn('dec_from_i32', 'r == i_from_i32(n)'), dfn('dec_from_u32', 'r == i_from_u32(n)'),
        dfn('dec_square_root', 'r == q_sqrt(*q)'), dfn('dec_ln', 'r == q_ln(*q)'), dfn('dec_exp', 'r == q_exp(*q)'), dfn('dec_power', 'r == q_pow(*q1, *q2)'),
        dfn('dec_abs', 'r == i_abs(*q)'), dfn('dec_floor', 'r == i_integral(*q, ROUND_FLOOR)'),
        dfn('dec_ceiling', 'r == (if i_is_neg(*q) && i_is_zero(i_integral(*q, ROUND_CEILING)) { i_zero() } else { i_integral(*q, ROUND_CEILING) })'),
        dfn('dec_trunc', 'r == i_integral(*q, ROUND_DOWN)'), dfn('dec_fract', 'r == i_sub(*q, i_integral(*q, ROUND_DOWN))'),
        dfn('dec_compare', 'r == i_cmp(*q1, *q2)'), dfn('dec_add', 'r == i_add(*q1, *q2)'), dfn('dec_subtract', 'r == i_sub(*q1, *q2)'),
        dfn('dec_multiply', 'r == i_mul(*q1, *q2)'), dfn('dec_divide', 'r == i_div(*q1, *q2)'), dfn('dec_minus', 'r == i_minus(*q)'),
        dfn('dec_remainder', 'r == i_rem(*q1, *q2)'), dfn('dec_rescale', 'r == q_rescale(*q1, *q2)'), dfn('dec_scale_b', 'r == q_scaleb(*q1, *q2)'),
        dfn('dec_reduce', 'r == q_reduce(*q)'), dfn('dec_zero', 'r == i_zero()'),
        dfn('dec_is_finite', 'r == i_finite(*q)'), dfn('dec_is_integer', 'r == i_exp0(*q)'), dfn('dec_is_negative', 'r == i_is_neg(*q)'),
        dfn('dec_is_positive', 'r == i_is_pos(*q)'), dfn('dec_is_zero', 'r == i_is_zero(*q)'),
        dfn('dec_to_i32', 'r == i_to_i32(*q, ROUND_HALF_EVEN)'), dfn('dec_to_u32', 'r == i_to_u32(*q, ROUND_HALF_EVEN)'),
        {'kind': 'item', 'src': NR, 'path': 'struct FeelNumber', 'rewrites': [('RX', 'R7', r'pub struct FeelNumber\(DecQuad\);', 'pub struct FeelNumber(pub DecQuad);', 1)]},
        {'kind': 'text', 'note': 'A-derive', 'text': 'impl Clone for FeelNumber { #[verifier::external_body] fn clone(&self) -> (r: FeelNumber) ensures r == *self { unimplemented!() } }\nimpl Copy for FeelNumber {}'},
        {'kind': 'vrs', 'file': 'number/spec.vrs'},
        {'kind': 'fn', 'src': NR, 'path': 'fn dec_modulo', 'key': 'number::dec_modulo', 'props': P, 'auto_props': A, 'loops': 0, 'ret': 'r',
         'ensures': [('modulo', 'r == q_modulo(*q1, *q2)')]},
        nfn('zero', [('zero', 'r.0 == i_zero()')]), nfn('one', [('one', 'r.0 == i_from_str("1"@)')]), nfn('two', [('two', 'r.0 == i_from_str("2"@)')]),
        nfn('abs', [('absolute_value', 'r.0 == i_abs(self.0)'), FIN]),
        nfn('ceiling', [('round_to_integral_toward_positive_infinity', 'r.0 == q_reduce(if i_is_neg(self.0) && i_is_zero(i_integral(self.0, ROUND_CEILING)) { i_zero() } else { i_integral(self.0, ROUND_CEILING) })'), FIN]),
        nfn('floor', [('round_to_integral_toward_negative_infinity', 'r.0 == q_reduce(i_integral(self.0, ROUND_FLOOR))'), FIN]),
        nfn('trunc', [('round_to_integral_toward_zero', 'r.0 == i_integral(self.0, ROUND_DOWN)')]),
        nfn('even', [('even', 'r == q_even(self.0)')]),
        nfn('is_integer', [('integral_by_value', 'r == q_is_integer(self.0)')]),
        nfn('odd', [('odd', 'r == (q_is_integer(self.0) && !q_even(self.0))')]),
        nfn('exp', [('exponential', 'r.0 == q_exp(self.0)'), FIN]),
        nfn('is_one', [('equals_one', 'r == i_is_zero(i_cmp(self.0, i_from_str("1"@)))')]),
        nfn('is_negative', [('sign', 'r == i_is_neg(self.0)')]), nfn('is_positive', [('sign', 'r == i_is_pos(self.0)')]),
        nfn('ln', optfin('q_ln(self.0)')), nfn('sqrt', optfin('q_sqrt(self.0)')), nfn('pow', optfin('q_pow(self.0, rhs.0)')), nfn('square', optfin('q_pow(self.0, i_from_str("2"@))')),
        nfn('round', [('rescale_to_minus_scale_half_even', 'r.0 == q_rescale(self.0, i_minus(rhs.0))'), FIN]),
        opfn('Add', 'add', [('sum_reduced', 'r.0 == q_reduce(i_add(self.0, rhs.0))'), FIN]),
        opfn('Sub', 'sub', [('difference_reduced', 'r.0 == q_reduce(i_sub(self.0, rhs.0))'), FIN]),
        opfn('Mul', 'mul', [('product_reduced', 'r.0 == q_reduce(i_mul(self.0, rhs.0))'), FIN]),
        opfn('Div', 'div', [('quotient_reduced', 'r.0 == q_reduce(i_div(self.0, rhs.0))'), FIN]),
        opfn('Rem', 'rem', [('modulo', 'r.0 == q_modulo(self.0, rhs.0)')]),
        opfn('Neg', 'neg', [('negation', 'r.0 == i_minus(self.0)')]),
        nfn('eq', [('equal_by_value', 'r == i_is_zero(i_cmp(self.0, rhs.0))')], path='impl PartialEq<FeelNumber> for FeelNumber::fn eq', props=['C02', 'C09']),
        nfn('partial_cmp', [('order_by_value', 'r == Some(if i_is_zero(i_cmp(self.0, rhs.0)) { core::cmp::Ordering::Equal } else if i_is_pos(i_cmp(self.0, rhs.0)) { core::cmp::Ordering::Greater } else { core::cmp::Ordering::Less })')],
            path='impl PartialOrd<FeelNumber> for FeelNumber::fn partial_cmp', props=['C02', 'C09']),
    ],
}

BOUNDED = {
    'C02': [{'name': 'decimal128-differential', 'script': 'numdiff.py', 'args': [], 'thorough_args': ['--size', 'thorough'], 'seeded': True,
             'functions': ['feel-number/decnumber/*.c through FeelNumber add sub mul div rem neg abs floor ceiling round(decimal) sqrt exp ln pow odd even is_integer to_usize to_isize and the comparisons'],
             'bound': 'quick: about 41 000 operations (thorough: about 1.5 million) on a fixed grid of decimal128 operands - every sign, coefficients of 1..34 digits, exponents from the subnormal to the overflow edge, exact ties and '
                      'near-ties with sticky tails of every length, operands up to 40 orders of magnitude apart, exp arguments across the tiny-argument shortcuts - against CPython decimal (libmpdec) configured as decimal128 '
                      '(exp, ln and pow within 2 ulp, everything else exact). Classes recorded as known findings are excluded and counted.'}],
}
BOUNDED['C09'] = BOUNDED['C02']
NOT_DECIDED = {'C09': ['numbers: equality and order are the library comparison of the two values (number::FeelNumber::eq / partial_cmp, A-C); that this comparison is a total order on finite numbers is a fact about the C library (bounded differential only)'],
               'C02': ['the C decNumber library itself (rounding, digit arithmetic): outside Verus / Kani reach; only the bounded differential stand-in looks at it',
                       'FEEL-level wiring in feel-evaluator (builders.rs closures, bifs/core.rs) beyond what the replayed known findings show',
                       'modulo where the library cannot form the remainder (known finding); finiteness of that fall-back']}
ASSUMPTIONS = ['A-C: every C entry point of the bundled decNumber library computes the IEEE 754-2008 decimal128 operation of its name on its operands under the context it is handed (uninterpreted i_* / n_* functions)',
               'A-C: DEFAULT_CONTEXT (decContextDefault(.., DEC_INIT_DECQUAD)) is digits 34, emax 6144, emin -6143, half-even, traps 0, clamp 1 (the repository test test_dec_context_default checks the same)',
               'A-IEEE: abs, negate, round-to-integral and reduce of a finite number are finite',
               'R20: extern "C" declarations become safe stubs with reference parameters, `unsafe` markers dropped, aliased result/operand copied first; R21: operator trait methods verified as inherent methods; R9: lazy_static constants as stubs',
               'FeelNumber values handed to an operation are finite (precondition)']

def frame_constants(repo):
    """the rounding-mode and context constants of dec.rs are the values of the C header decContext.h (cross-language agreement, read from both files on every run)"""
    import re
    h = open(os.path.join(repo, 'feel-number/decnumber/decContext.h'), encoding='latin-1').read()
    r = open(os.path.join(repo, DR), encoding='utf-8').read()
    m = re.search(r'enum rounding \{(.*?)\};', h, re.S)
    names = [x.strip() for x in re.sub(r'/\*.*?\*/', '', m.group(1), flags=re.S).split(',') if x.strip()]
    cvals = {n: i for i, n in enumerate(names)}
    res = []
    for mm in re.finditer(r'const (DEC_ROUND_\w+): u32 = (\d+);', r):
        ok = cvals.get(mm.group(1)) == int(mm.group(2))
        res.append({'name': 'dec.rs %s = %s agrees with decContext.h enum rounding' % (mm.group(1), mm.group(2)), 'ok': ok, 'detail': 'decContext.h gives %s' % cvals.get(mm.group(1)), 'src': DR})
    mi = re.search(r'#define DEC_INIT_DECIMAL128\s+(\d+)', h)
    mr = re.search(r'const DEC_INIT_DECQUAD: i32 = (\d+);', r)
    res.append({'name': 'dec.rs DEC_INIT_DECQUAD agrees with decContext.h', 'ok': bool(mi and mr and mi.group(1) == mr.group(1)), 'detail': '%s vs %s' % (mi and mi.group(1), mr and mr.group(1)), 'src': DR})
    for (nm, val) in (('ROUND_CEILING', 0), ('ROUND_HALF_EVEN', 3), ('ROUND_DOWN', 5), ('ROUND_FLOOR', 6)):
        res.append({'name': 'contract constant %s = %d is decContext.h DEC_%s' % (nm, val, nm), 'ok': cvals.get('DEC_' + nm) == val, 'detail': 'decContext.h gives %s' % cvals.get('DEC_' + nm), 'src': 'feel-number/decnumber/decContext.h'})
    return res

FRAME_CHECKS = {'C02': [frame_constants]}
