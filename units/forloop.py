"""Unit `forloop`: build_for's closure and ForExpressionEvaluator::{new, add_single, add_range} (C01): the iteration contexts of a `for`
reach the cartesian iterator in the order they are written, each with the domain its expression denotes."""
import os, sys
sys.path.insert(0, os.path.dirname(os.path.abspath(__file__)))
import _common as C
B = 'feel-evaluator/src/builders.rs'
S = 'feel/src/scope.rs'
I = 'feel-evaluator/src/iterations.rs'
X = 'feel/src/context.rs'
V = 'feel/src/values.rs'
P = ['C01']
A = ['C01', 'C05']
PUBF = lambda names: ('RX', 'R7', r'\n  (' + '|'.join(names) + r'):', r'\n  pub \1:', len(names))
ST = 'final(self).feel_iterator.iteration_states@'
ST0 = 'old(self).feel_iterator.iteration_states@'
APPENDED = ST + '.len() == ' + ST0 + '.len() + 1 && ' + ST + '.drop_last() =~= ' + ST0

UNIT = {
    'name': 'forloop',
    'uses': C.USES,
    'parts': C.NAME + C.FEELTYPE + [
        {'kind': 'text', 'text': 'pub uninterp spec fn equiv(a: FeelType, b: FeelType) -> bool;', 'note': 'unused-here'},
        {'kind': 'vrs', 'file': 'iterations/prelude.vrs'},
        {'kind': 'item', 'src': X, 'path': 'type FeelContextEntries'},
        {'kind': 'item', 'src': X, 'path': 'struct FeelContext',
         'rewrites': [('RX', 'R7', r'pub struct FeelContext\(FeelContextEntries\)', 'pub struct FeelContext(pub FeelContextEntries)', 1)]},
        {'kind': 'item', 'src': V, 'path': 'struct Values',
         'rewrites': [('RX', 'R7', r'pub struct Values\(Vec<Value>\)', 'pub struct Values(pub Vec<Value>)', 1)]},
        {'kind': 'item', 'src': V, 'path': 'enum Value'},
        {'kind': 'vrs', 'file': 'common/value_traits.vrs'},
        {'kind': 'item', 'src': S, 'path': 'struct Scope',
         'rewrites': [('RX', 'R8', r'contexts: RefCell<Vec<FeelContext>>,', 'pub contexts: Vec<FeelContext>,', 1)]},
        {'kind': 'vrs', 'file': 'purity/prelude.vrs'},
        {'kind': 'item', 'src': I, 'path': 'enum FeelIterationType'},
        {'kind': 'item', 'src': I, 'path': 'struct FeelIteratorState',
         'rewrites': [PUBF(['iteration_type', 'name', 'index', 'step', 'start', 'end', 'values']), ('RX', 'R7', r'struct FeelIteratorState', 'pub struct FeelIteratorState', 1)]},
        {'kind': 'item', 'src': I, 'path': 'struct FeelIterator',
         'rewrites': [PUBF(['iteration_states']), ('RX', 'R7', r'struct FeelIterator ', 'pub struct FeelIterator ', 1)]},
        {'kind': 'item', 'src': I, 'path': 'struct ForExpressionEvaluator',
         'rewrites': [PUBF(['feel_iterator', 'name_partial'])]},
        {'kind': 'item', 'src': I, 'path': 'struct SomeExpressionEvaluator', 'rewrites': [PUBF(['feel_iterator'])]},
        {'kind': 'item', 'src': I, 'path': 'struct EveryExpressionEvaluator', 'rewrites': [PUBF(['feel_iterator'])]},
        {'kind': 'vrs', 'file': 'forloop/prelude.vrs'},
        {'kind': 'vrs', 'file': 'forloop/spec.vrs'},
        {'kind': 'fn', 'src': V, 'path': 'impl Values::fn new', 'key': 'forloop::Values::new', 'props': P, 'auto_props': A, 'loops': 0, 'ret': 'r',
         'ensures': [('holds_the_items', 'r.0 == values')]},
        {'kind': 'fn', 'src': V, 'path': 'impl Values::fn len', 'key': 'forloop::Values::len', 'props': P, 'auto_props': A, 'loops': 0, 'ret': 'r',
         'ensures': [('post', 'r == self.0@.len()')]},
        {'kind': 'fn', 'src': I, 'path': 'impl FeelIterator::fn add_range', 'key': 'forloop::FeelIterator::add_range', 'props': P, 'auto_props': A, 'loops': 0,
         'ensures': [('appends_the_range', 'final(self).iteration_states@ =~= old(self).iteration_states@.push(final(self).iteration_states@.last())'),
                     ('range_domain', 'dom_of(final(self).iteration_states@.last()) == (ADomain { name: name, range: true, start: start as int, end: end as int, items: Seq::<Value>::empty() }) && fresh(final(self).iteration_states@.last())')]},
        {'kind': 'fn', 'src': I, 'path': 'impl FeelIterator::fn add_list', 'key': 'forloop::FeelIterator::add_list', 'props': P, 'auto_props': A, 'loops': 0,
         'body_prefix': 'broadcast use axiom_values_fit;',
         'ensures': [('appends_the_list', 'final(self).iteration_states@ =~= old(self).iteration_states@.push(final(self).iteration_states@.last())'),
                     ('list_domain', 'dom_of(final(self).iteration_states@.last()) == (ADomain { name: name, range: false, start: 0, end: values.0@.len() - 1, items: values.0@ }) && (values.0@.len() > 0 ==> fresh(final(self).iteration_states@.last()))')]},
        {'kind': 'fn', 'src': I, 'path': 'impl ForExpressionEvaluator::fn new', 'key': 'forloop::ForExpressionEvaluator::new', 'props': P, 'auto_props': A, 'loops': 0, 'ret': 'r',
         'rewrites': [('RX', 'R11', r'FeelIterator::default\(\)', 'feel_iterator_default()', 1), ('RX', 'R11', r'name_partial: "partial"\.into\(\)', 'name_partial: name_from_str("partial")', 1)],
         'ensures': [('no_domains_yet', 'r.feel_iterator.iteration_states@.len() == 0')]},
        {'kind': 'fn', 'src': I, 'path': 'impl ForExpressionEvaluator::fn add_single', 'key': 'forloop::ForExpressionEvaluator::add_single', 'props': P, 'auto_props': A, 'loops': 0,
         'ensures': [('registers_the_items_of_a_list_or_the_value_itself', ST + ' =~= ' + ST0 + '.push(' + ST + '.last()) && dom_eq(dom_of(' + ST + '.last()), '
                      'ADomain { name: name, range: false, start: 0, end: as_items(value).len() - 1, items: as_items(value) })')]},
        {'kind': 'fn', 'src': I, 'path': 'impl ForExpressionEvaluator::fn add_range', 'key': 'forloop::ForExpressionEvaluator::add_range', 'props': P, 'auto_props': A, 'loops': 0,
         'ensures': [('registers_the_integer_range_or_nothing',
                      'match (range_start, range_end) { (Value::Number(a), Value::Number(b)) => if num_to_isize(a) is Some && num_to_isize(b) is Some { '
                      + ST + ' =~= ' + ST0 + '.push(' + ST + '.last()) && dom_of(' + ST + '.last()) == (ADomain { name: name, range: true, start: num_to_isize(a)->Some_0 as int, end: num_to_isize(b)->Some_0 as int, items: Seq::<Value>::empty() }) '
                      '} else { ' + ST + ' =~= ' + ST0 + ' }, _ => ' + ST + ' =~= ' + ST0 + ' }')]},
        {'kind': 'fn', 'src': I, 'path': 'impl SomeExpressionEvaluator::fn new', 'key': 'forloop::SomeExpressionEvaluator::new', 'props': P, 'auto_props': A, 'loops': 0, 'ret': 'r',
         'rewrites': [('RX', 'R11', r'FeelIterator::default\(\)', 'feel_iterator_default()', 1)],
         'ensures': [('no_domains_yet', 'r.feel_iterator.iteration_states@.len() == 0')]},
        {'kind': 'fn', 'src': I, 'path': 'impl SomeExpressionEvaluator::fn add', 'key': 'forloop::SomeExpressionEvaluator::add', 'props': P, 'auto_props': A, 'loops': 0,
         'ensures': [('registers_the_items_of_a_list_or_the_value_itself', ST + ' =~= ' + ST0 + '.push(' + ST + '.last()) && dom_eq(dom_of(' + ST + '.last()), '
                      'ADomain { name: name, range: false, start: 0, end: as_items(value).len() - 1, items: as_items(value) })')]},
        {'kind': 'closure', 'src': B, 'path': 'fn build_some', 'name': 'some_expression', 'key': 'forloop::build_some', 'props': P, 'auto_props': A, 'loops': 1, 'ret': 'r',
         'lead_params': ['scope: &mut Scope'], 'extra_params': ['expr_evaluators: &Vec<(Name, Evaluator)>', 'satisfies_evaluator: &Evaluator'],
         'rewrites': [('RX', 'R2v', r'for \(name, expr_evaluator\) in &expr_evaluators \{', 'for (name, expr_evaluator) in expr_evaluators.iter() {', 1),
                      ('RX', 'R8e', r'\bexpr_evaluator\(scope\)', 'expr_evaluator.call(scope)', 1),
                      ('RX', 'R4c', r'evaluate\(scope, &satisfies_evaluator\)', 'evaluate(scope, satisfies_evaluator)', 1)],
         'ensures': [('caller_scope_untouched', 'final(scope).contexts@ =~= old(scope).contexts@', ['C13', 'C01']),
                     ('every_domain_registered_in_written_order', 'exists |st: Seq<FeelIteratorState>| r == #[trigger] some_value(st, *satisfies_evaluator, old(scope).contexts@) '
                      '&& doms_of(st) =~= quantified_doms(expr_evaluators@, old(scope).contexts@, expr_evaluators@.len() as int)')],
         'loop_specs': {0: {'iter_name': 'itc',
                            'invariant': [('scope_not_touched', 'scope.contexts@ == old(scope).contexts@'),
                                          ('seq', 'itc.seq() =~= expr_evaluators@.map_values(|c: (Name, Evaluator)| &c)'),
                                          ('registered_so_far_in_written_order', 'doms_of(expression_evaluator.feel_iterator.iteration_states@) =~= quantified_doms(expr_evaluators@, old(scope).contexts@, itc.index@ as int)')],
                            'body_prefix': 'proof { assert(*name == expr_evaluators@[itc.index@ as int].0 && *expr_evaluator == expr_evaluators@[itc.index@ as int].1); }',
                            'body_suffix': 'proof { assert(doms_of(expression_evaluator.feel_iterator.iteration_states@) =~= quantified_doms(expr_evaluators@, old(scope).contexts@, itc.index@ + 1)); }'}}},
        {'kind': 'fn', 'src': I, 'path': 'impl EveryExpressionEvaluator::fn new', 'key': 'forloop::EveryExpressionEvaluator::new', 'props': P, 'auto_props': A, 'loops': 0, 'ret': 'r',
         'rewrites': [('RX', 'R11', r'FeelIterator::default\(\)', 'feel_iterator_default()', 1)],
         'ensures': [('no_domains_yet', 'r.feel_iterator.iteration_states@.len() == 0')]},
        {'kind': 'fn', 'src': I, 'path': 'impl EveryExpressionEvaluator::fn add', 'key': 'forloop::EveryExpressionEvaluator::add', 'props': P, 'auto_props': A, 'loops': 0,
         'ensures': [('registers_the_items_of_a_list_or_the_value_itself', ST + ' =~= ' + ST0 + '.push(' + ST + '.last()) && dom_eq(dom_of(' + ST + '.last()), '
                      'ADomain { name: name, range: false, start: 0, end: as_items(value).len() - 1, items: as_items(value) })')]},
        {'kind': 'closure', 'src': B, 'path': 'fn build_every', 'name': 'every_expression', 'key': 'forloop::build_every', 'props': P, 'auto_props': A, 'loops': 1, 'ret': 'r',
         'lead_params': ['scope: &mut Scope'], 'extra_params': ['expr_evaluators: &Vec<(Name, Evaluator)>', 'satisfies_evaluator: &Evaluator'],
         'rewrites': [('RX', 'R2v', r'for \(name, expr_evaluator\) in &expr_evaluators \{', 'for (name, expr_evaluator) in expr_evaluators.iter() {', 1),
                      ('RX', 'R8e', r'\bexpr_evaluator\(scope\)', 'expr_evaluator.call(scope)', 1),
                      ('RX', 'R4c', r'evaluate\(scope, &satisfies_evaluator\)', 'evaluate(scope, satisfies_evaluator)', 1)],
         'ensures': [('caller_scope_untouched', 'final(scope).contexts@ =~= old(scope).contexts@', ['C13', 'C01']),
                     ('every_domain_registered_in_written_order', 'exists |st: Seq<FeelIteratorState>| r == #[trigger] every_value(st, *satisfies_evaluator, old(scope).contexts@) '
                      '&& doms_of(st) =~= quantified_doms(expr_evaluators@, old(scope).contexts@, expr_evaluators@.len() as int)')],
         'loop_specs': {0: {'iter_name': 'itc',
                            'invariant': [('scope_not_touched', 'scope.contexts@ == old(scope).contexts@'),
                                          ('seq', 'itc.seq() =~= expr_evaluators@.map_values(|c: (Name, Evaluator)| &c)'),
                                          ('registered_so_far_in_written_order', 'doms_of(expression_evaluator.feel_iterator.iteration_states@) =~= quantified_doms(expr_evaluators@, old(scope).contexts@, itc.index@ as int)')],
                            'body_prefix': 'proof { assert(*name == expr_evaluators@[itc.index@ as int].0 && *expr_evaluator == expr_evaluators@[itc.index@ as int].1); }',
                            'body_suffix': 'proof { assert(doms_of(expression_evaluator.feel_iterator.iteration_states@) =~= quantified_doms(expr_evaluators@, old(scope).contexts@, itc.index@ + 1)); }'}}},
        {'kind': 'closure', 'src': B, 'path': 'fn build_for', 'name': 'for_expression', 'key': 'forloop::build_for', 'props': P, 'auto_props': A, 'loops': 1, 'ret': 'r',
         'lead_params': ['scope: &mut Scope'], 'extra_params': ['evaluators: &Vec<(Name, Evaluator, Option<Evaluator>)>', 'rhe: &Evaluator'],
         'rewrites': [('RX', 'R2v', r'for \(name, evaluator_first, evaluator_range_end\) in &evaluators \{', 'for (name, evaluator_first, evaluator_range_end) in evaluators.iter() {', 1),
                      ('RX', 'R8e', r'\b(evaluator_first|evaluator_range_end)\(scope\)', r'\1.call(scope)', 3),
                      ('RX', 'R4c', r'evaluate\(scope, &rhe\)', 'evaluate(scope, rhe)', 1)],
         'ensures': [('caller_scope_untouched', 'final(scope).contexts@ =~= old(scope).contexts@', ['C13', 'C01']),
                     ('domains_in_written_order', 'exists |st: Seq<FeelIteratorState>| r == Value::List(#[trigger] for_values(st, *rhe, old(scope).contexts@)) '
                      '&& doms_of(st) =~= expected_doms(evaluators@, old(scope).contexts@, evaluators@.len() as int)')],
         'loop_specs': {0: {'iter_name': 'itc',
                            'invariant': [('scope_not_touched', 'scope.contexts@ == old(scope).contexts@'),
                                          ('seq', 'itc.seq() =~= evaluators@.map_values(|c: (Name, Evaluator, Option<Evaluator>)| &c)'),
                                          ('registered_so_far_in_written_order', 'doms_of(expression_evaluator.feel_iterator.iteration_states@) =~= expected_doms(evaluators@, old(scope).contexts@, itc.index@ as int)')],
                            'body_prefix': 'proof { assert(*name == evaluators@[itc.index@ as int].0 && *evaluator_first == evaluators@[itc.index@ as int].1 && *evaluator_range_end == evaluators@[itc.index@ as int].2); }\nlet ghost st_before = expression_evaluator.feel_iterator.iteration_states@;',
                            'body_suffix': 'proof { assert(doms_of(expression_evaluator.feel_iterator.iteration_states@) =~= expected_doms(evaluators@, old(scope).contexts@, itc.index@ + 1)); }'}}},
    ],
}
ASSUMPTIONS = ['A-eval: a sub-evaluator leaves the stack as found and its value is a function of the evaluator and the stack (ev_value)',
               'A-for: ForExpressionEvaluator::evaluate answers a function of the registered domains, the body and the stack (for_values; units iterations and purity decide run and the per-round closure)',
               'A-dec: FeelNumber::to_isize is uninterpreted; A-derive: FeelIterator::default() is empty; A-std: Vec length <= isize::MAX',
               'R4: the closure of build_for is lifted with its captured evaluators as parameters; R2v, R8e']
NOT_DECIDED = {'C01': ['a range whose ends are not both integers is NOT iterated at all by this implementation (the contract states it); a later iteration context cannot refer to an earlier variable (all domains are evaluated over the caller\'s stack)']}
