"""Unit `numlit`: feel-evaluator/src/builders.rs build_numeric and feel/src/values.rs try_from_xsd_integer / _decimal / _double (C07): the digits
a literal is written with reach FromStr joined by ONE point, and the number it reads is the value of the literal; a typed input text is read as it is."""
import os, sys
sys.path.insert(0, os.path.dirname(os.path.abspath(__file__)))
import _common as C
import numtext as NT
B = 'feel-evaluator/src/builders.rs'
V = 'feel/src/values.rs'
P = ['C07']
A = ['C07', 'C05']

def xsd(kind):
    return {'kind': 'fn', 'src': V, 'path': 'impl Value::fn try_from_xsd_' + kind, 'key': 'numlit::Value::try_from_xsd_' + kind, 'props': P, 'auto_props': A, 'loops': 0, 'ret': 'r',
            'impl_header': 'impl Value {', 'sig_rewrite': [(r'Result<Self>', 'Result<Value, DmntkError>')],
            'rewrites': [('RX', 'R17', r'let value = text\.parse::<FeelNumber>\(\)\.map_err\(\|_\| invalid_xsd_' + kind + r'\(text\)\)\?;',
                          'let value = match feel_number_parse(text) { Ok(v_) => v_, Err(_) => { return Err(invalid_xsd(text)); } };', 1)],
            'ensures': [('accepted_iff_a_finite_number_is_read', '(r is Ok) == lit_finite(text@)'), ('the_number_read_from_the_whole_text', 'r is Ok ==> r->Ok_0 == Value::Number(lit_number(text@))')]}

UNIT = {
    'name': 'numlit',
    'uses': C.USES,
    'parts': C.NAME + C.FEELTYPE + [{'kind': 'text', 'text': 'pub uninterp spec fn equiv(a: FeelType, b: FeelType) -> bool;', 'note': 'unused-here'}] + C.VALUE + [
        {'kind': 'vrs', 'file': 'numlit/prelude.vrs'},
        {'kind': 'text', 'note': 'stand-in', 'text': '#[verifier::external_body] pub fn invalid_xsd(text: &str) -> DmntkError { unimplemented!() }'},
        {'kind': 'fn', 'src': B, 'path': 'fn build_numeric', 'key': 'numlit::build_numeric', 'props': P, 'auto_props': A, 'loops': 0, 'ret': 'r',
         'sig_rewrite': [(r'^(\s*)fn ', r'\1pub fn '), (r'Result<Evaluator>', 'Result<Evaluator, DmntkError>')],
         'rewrites': [NT.TXT[0],
                      ('RX', 'R24', r'text\.parse::<FeelNumber>\(\)', 'feel_number_parse(text.as_txt())', 1),
                      ('RX', 'R4k', r'Ok\(Box::new\(move \|_: &Scope\| Value::Number\(num\)\)\)', 'Ok(const_evaluator(Value::Number(num)))', 1),
                      ('RX', 'R4k', r'Ok\(Box::new\(move \|_: &Scope\| value_null!\((?:[^()]|\([^()]*\))*\)\)\)', 'Ok(null_evaluator())', 1)],
         'body_prefix': 'proof { reveal_strlit("."); assert("."@ =~= seq![\'.\']); }',
         'splices': [{'id': 'joined_by_one_point', 'op': 'after', 'anchor': 'let text = cat3(lhs.as_txt(), ".", rhs.as_txt());', 'text': "proof { assert(text@ =~= lhs@ + seq!['.'] + rhs@); }"}],
         'ensures': [('always_an_evaluator', 'r is Ok'),
                     ('the_number_read_from_integer_digits_point_fraction_digits',
                      "lit_finite(lhs@ + seq!['.'] + rhs@) ==> forall |s: Scope| #[trigger] ev_value(r->Ok_0, s) == Value::Number(lit_number(lhs@ + seq!['.'] + rhs@))"),
                     ('null_when_it_is_no_number', "!lit_finite(lhs@ + seq!['.'] + rhs@) ==> forall |s: Scope| #[trigger] ev_value(r->Ok_0, s) is Null")]},
        xsd('integer'), xsd('decimal'), xsd('double'),
    ],
}
ASSUMPTIONS = ['A-num: FromStr for FeelNumber is named by lit_finite / lit_number (unit numtext decides it: accepted iff the decimal library reads a finite value; the library itself is A-C)',
               'R4k: a closure that ignores its scope and answers a captured value is the constant evaluator of that value (stubs const_evaluator / null_evaluator); R24: format! / parse as specified stubs; R17: map_err + ? as a match']
NOT_DECIDED = {'C07': ['that the parser hands the token\'s digit texts to build_numeric unchanged (AstNode::Numeric wiring)', 'what the decimal library reads from `digits.digits` (bounded stand-in of unit numtext)']}
