"""Unit `timeline`: feel/src/temporal/mod.rs comparison / subtraction plumbing around chrono (C15)."""
M = 'feel/src/temporal/mod.rs'
D = 'feel/src/temporal/date.rs'
Z = 'feel/src/temporal/zone.rs'
P = ['C15', 'C09']   # C09: a = b / a < b on date-times and times are decided here (each operand by ITS OWN instant, so b = a / b > a agree)
A = ['C15', 'C09', 'C05']

def mfn(name, **kw):
    d = {'kind': 'fn', 'src': M, 'path': 'fn ' + name, 'key': 'timeline::' + name, 'props': P, 'auto_props': A, 'loops': 0,
         'sig_rewrite': [(r'^(\s*)(pub )?fn ', r'\1pub fn ')], 'ret': 'r'}
    d.update(kw)
    return d

def rel(name, expr):
    return mfn(name, ensures=[('by_instant', 'r == (if dt_compare(*v1, *v2) is Some { Some(%s) } else { None::<bool> })' % expr)])

O = 'dt_compare(*v1, *v2)->Some_0'
UNIT = {
    'name': 'timeline',
    'uses': ['use std::cmp::Ordering;'],
    'parts': [
        {'kind': 'item', 'src': D, 'path': 'struct FeelDate',
         'rewrites': [('RX', 'R7', r'pub struct FeelDate\(i32, u8, u8\);', 'pub struct FeelDate(pub i32, pub u8, pub u8);', 1)]},
        {'kind': 'item', 'src': Z, 'path': 'enum FeelZone'},
        {'kind': 'item', 'src': M, 'path': 'struct FeelTime',
         'rewrites': [('RX', 'R7', r'pub struct FeelTime\(u8, u8, u8, u64, FeelZone\);', 'pub struct FeelTime(pub u8, pub u8, pub u8, pub u64, pub FeelZone);', 1)]},
        {'kind': 'item', 'src': M, 'path': 'struct FeelDateTime',
         'rewrites': [('RX', 'R7', r'pub struct FeelDateTime\(FeelDate, FeelTime\);', 'pub struct FeelDateTime(pub FeelDate, pub FeelTime);', 1)]},
        {'kind': 'vrs', 'file': 'timeline/prelude.vrs'},
        {'kind': 'vrs', 'file': 'timeline/spec.vrs'},
        {'kind': 'fn', 'src': D, 'path': 'impl FeelDate::fn as_tuple', 'key': 'timeline::FeelDate::as_tuple', 'props': P, 'auto_props': A, 'loops': 0,
         'ret': 'r', 'ensures': [('components', 'r.0 == self.0 && r.1 == self.1 as u32 && r.2 == self.2 as u32')]},
        {'kind': 'fn', 'src': M, 'path': 'impl FeelTime::fn utc', 'key': 'timeline::FeelTime::utc', 'props': P, 'auto_props': A, 'loops': 0,
         'ret': 'r', 'ensures': [('components', 'r == FeelTime(hour, minute, second, nanos, FeelZone::Utc)')]},
        mfn('compare', requires=[('nanos_fit', 'me.1.3 <= u32::MAX && other.1.3 <= u32::MAX')],
            ensures=[('by_instant', 'r == dt_compare(*me, *other)')]),
        mfn('subtract', requires=[('nanos_fit', 'me.1.3 <= u32::MAX && other.1.3 <= u32::MAX')],
            ensures=[('exact_difference', 'r == (if dt_instant(*me) is Some && dt_instant(*other) is Some && i64::MIN <= dt_instant(*me)->Some_0 - dt_instant(*other)->Some_0 <= i64::MAX '
                      '{ Some((dt_instant(*me)->Some_0 - dt_instant(*other)->Some_0) as i64) } else { None::<i64> })')]),
    ],
}
for (name, expr) in [('equal', O + ' == Ordering::Equal'), ('before', O + ' == Ordering::Less'),
                     ('before_or_equal', O + ' != Ordering::Greater'), ('after', O + ' == Ordering::Greater'),
                     ('after_or_equal', O + ' != Ordering::Less')]:
    part = rel(name, expr)
    part['requires'] = [('nanos_fit', 'v1.1.3 <= u32::MAX && v2.1.3 <= u32::MAX')]
    UNIT['parts'].append(part)
UNIT['parts'] += [
    mfn('between', requires=[('nanos_fit', 'value.1.3 <= u32::MAX && left.1.3 <= u32::MAX && right.1.3 <= u32::MAX')],
        ensures=[('conjunction',
                  'r == (if dt_compare(*value, *left) is Some && dt_compare(*value, *right) is Some { '
                  'Some((if left_closed { dt_compare(*value, *left)->Some_0 != Ordering::Less } else { dt_compare(*value, *left)->Some_0 == Ordering::Greater }) '
                  '&& (if right_closed { dt_compare(*value, *right)->Some_0 != Ordering::Greater } else { dt_compare(*value, *right)->Some_0 == Ordering::Less })) '
                  '} else { None::<bool> })')]),
    mfn('weekday', requires=[('nanos_fit', 'me.1.3 <= u32::MAX')],
        ensures=[('of_own_instant', 'r == (if dt_instant(*me) is Some { Some(weekday_of(date_tuple(*me), time_tuple(*me), dt_offset(*me)->Some_0 as int)) } else { None::<u32> })')]),
    mfn('feel_time_offset', requires=[('nanos_fit', 'me.1.3 <= u32::MAX')],
        ensures=[('own_offset', 'r == (if me.1.4 is Local { None::<i32> } else { dt_offset(*me) })')]),
]

# ---- the methods of FeelDateTime the evaluator calls: each hands its own operands, in order, to the function of the same name
BETWEEN = ('(if dt_compare(*self, *left) is Some && dt_compare(*self, *right) is Some { '
           'Some((if left_closed { dt_compare(*self, *left)->Some_0 != Ordering::Less } else { dt_compare(*self, *left)->Some_0 == Ordering::Greater }) '
           '&& (if right_closed { dt_compare(*self, *right)->Some_0 != Ordering::Greater } else { dt_compare(*self, *right)->Some_0 == Ordering::Less })) '
           '} else { None::<bool> })')
def meth(name, requires, ensures):
    return {'kind': 'fn', 'src': M, 'path': 'impl FeelDateTime::fn ' + name, 'key': 'timeline::FeelDateTime::' + name, 'props': P, 'auto_props': A, 'loops': 0, 'ret': 'r',
            'requires': requires, 'ensures': ensures}
O2 = 'dt_compare(*self, *other)->Some_0'
NF2 = [('nanos_fit', 'self.1.3 <= u32::MAX && other.1.3 <= u32::MAX')]
for (name, expr) in [('equal', O2 + ' == Ordering::Equal'), ('before', O2 + ' == Ordering::Less'), ('before_or_equal', O2 + ' != Ordering::Greater'),
                     ('after', O2 + ' == Ordering::Greater'), ('after_or_equal', O2 + ' != Ordering::Less')]:
    UNIT['parts'].append(meth(name, NF2, [('by_instant', 'r == (if dt_compare(*self, *other) is Some { Some(%s) } else { None::<bool> })' % expr)]))
UNIT['parts'].append(meth('between', [('nanos_fit', 'self.1.3 <= u32::MAX && left.1.3 <= u32::MAX && right.1.3 <= u32::MAX')],
                          [('closed_ends_include_open_ends_exclude', 'r == ' + BETWEEN)]))

NOT_DECIDED = {'C15': ['what chrono computes for instant_of / zone_off / local_off / weekday (uninterpreted): only that each value is converted with ITS OWN date, time and offset and that results are combined as specified']}
ASSUMPTIONS = ['A-chrono: date_time_offset / get_zone_offset / get_local_offset / DateTime::cmp / sub / weekday are stubs over uninterpreted instant_of, zone_off, local_off, weekday_of',
               'A-derive: derived Clone of FeelDate/FeelTime/FeelZone returns an equal value',
               'nanoseconds < 2^32 is a stated precondition of the comparison functions (the u64 -> u32 cast truncates otherwise)']
