"""Unit `compare`: three-valued logic, equality and ordering closures of feel-evaluator/src/builders.rs (C09, C01)."""
import os, sys
sys.path.insert(0, os.path.dirname(os.path.abspath(__file__)))
import _common as C
B = 'feel-evaluator/src/builders.rs'
V0 = 'feel/src/values.rs'
D = 'feel/src/temporal/date.rs'
P = ['C09', 'C01']
A = ['C09', 'C01', 'C05']

def clo(fn, name, **kw):
    d = {'kind': 'closure', 'src': B, 'path': 'fn ' + fn, 'name': name, 'key': 'compare::' + fn, 'props': P, 'auto_props': A, 'loops': 0,
         'rewrites': [('R3',)], 'ret': 'r',
         'body_prefix': 'broadcast use axiom_num_trichotomy, axiom_str_order;'}
    d.update(kw)
    return d

VALUE_PARTS = [
    {'kind': 'vrs', 'file': 'compare/leaves.vrs'},
    {'kind': 'item', 'src': D, 'path': 'struct FeelDate',
     'rewrites': [('RX', 'R7', r'pub struct FeelDate\(i32, u8, u8\);', 'pub struct FeelDate(pub i32, pub u8, pub u8);', 1)]},
    {'kind': 'item', 'src': 'feel/src/temporal/ym_duration.rs', 'path': 'struct FeelYearsAndMonthsDuration',
     'rewrites': [('RX', 'R7', r'pub struct FeelYearsAndMonthsDuration\(i64\);', 'pub struct FeelYearsAndMonthsDuration(pub i64);', 1)]},
    {'kind': 'item', 'src': 'feel/src/temporal/dt_duration.rs', 'path': 'struct FeelDaysAndTimeDuration',
     'rewrites': [('RX', 'R7', r'pub struct FeelDaysAndTimeDuration\(i128\);', 'pub struct FeelDaysAndTimeDuration(pub i128);', 1)]},
    {'kind': 'item', 'src': 'feel/src/context.rs', 'path': 'type FeelContextEntries'},
    {'kind': 'item', 'src': 'feel/src/context.rs', 'path': 'struct FeelContext',
     'rewrites': [('RX', 'R7', r'pub struct FeelContext\(FeelContextEntries\)', 'pub struct FeelContext(pub FeelContextEntries)', 1)]},
    {'kind': 'item', 'src': 'feel/src/values.rs', 'path': 'struct Values',
     'rewrites': [('RX', 'R7', r'pub struct Values\(Vec<Value>\)', 'pub struct Values(pub Vec<Value>)', 1)]},
    {'kind': 'item', 'src': 'feel/src/values.rs', 'path': 'enum Value'},
    {'kind': 'item', 'src': 'feel/src/values.rs', 'path': 'macro_rules! value_null'},
]

DATE_ORDER = [
    {'kind': 'text', 'note': 'spec-impl', 'text': """pub open spec fn date_lt(ay: int, am: int, ad: int, by: int, bm: int, bd: int) -> bool {
  ay < by || (ay == by && (am < bm || (am == bm && ad < bd)))
}
impl vstd::std_specs::cmp::PartialEqSpecImpl for FeelDate {
  open spec fn obeys_eq_spec() -> bool { true }
  open spec fn eq_spec(&self, o: &FeelDate) -> bool { self.0 == o.0 && self.1 == o.1 && self.2 == o.2 }
}
impl vstd::std_specs::cmp::PartialOrdSpecImpl for FeelDate {
  open spec fn obeys_partial_cmp_spec() -> bool { true }
  open spec fn partial_cmp_spec(&self, o: &FeelDate) -> Option<Ordering> {
    if self.0 == o.0 && self.1 == o.1 && self.2 == o.2 { Some(Ordering::Equal) }
    else if date_lt(self.0 as int, self.1 as int, self.2 as int, o.0 as int, o.1 as int, o.2 as int) { Some(Ordering::Less) }
    else { Some(Ordering::Greater) }
  }
}"""},
    {'kind': 'item', 'src': D, 'path': 'impl PartialEq for FeelDate', 'key': 'compare::FeelDate::eq', 'auto_props': ['C09', 'C15']},
    {'kind': 'item', 'src': D, 'path': 'impl PartialOrd for FeelDate', 'key': 'compare::FeelDate::partial_cmp', 'auto_props': ['C09', 'C15']},
]

UNIT = {
    'name': 'compare',
    'file_attrs': ['#![feature(allocator_api)]'],
    'uses': C.USES + ['use std::cmp::Ordering;', 'use std::borrow::Borrow;'],
    'parts': C.NAME + C.FEELTYPE + VALUE_PARTS + DATE_ORDER + [
        {'kind': 'vrs', 'file': 'compare/prelude.vrs'},
        {'kind': 'vrs', 'file': 'compare/spec.vrs'},
        clo('build_and', 'op_and', ensures=[('truth_table', 'tri_result(r, and3(tri(lhv), tri(rhv)))')]),
        clo('build_or', 'op_or', ensures=[('truth_table', 'tri_result(r, or3(tri(lhv), tri(rhv)))')]),
        # ---------------------------------------------------------------- context / list accessors used by equality
        {'kind': 'item', 'src': 'feel/src/context.rs', 'path': 'impl Deref for FeelContext', 'key': 'compare::FeelContext::deref',
         'rewrites': [('RX', 'contract', r'fn deref\(&self\) -> &Self::Target \{', 'fn deref(&self) -> (r: &Self::Target) ensures *r == self.0 {', 1)]},
        {'kind': 'fn', 'src': 'feel/src/context.rs', 'path': 'impl FeelContext::fn contains_entry', 'key': 'compare::FeelContext::contains_entry',
         'props': P, 'auto_props': A, 'loops': 0, 'ret': 'r', 'body_prefix': 'broadcast use vstd::std_specs::btree::group_btree_axioms;\nproof { axiom_name_key(); }',
         'ensures': [('post', 'r == self.0@.contains_key(*name)')]},
        {'kind': 'fn', 'src': 'feel/src/context.rs', 'path': 'impl FeelContext::fn get_entry', 'key': 'compare::FeelContext::get_entry',
         'props': P, 'auto_props': A, 'loops': 0, 'ret': 'r', 'body_prefix': 'broadcast use vstd::std_specs::btree::group_btree_axioms;\nproof { axiom_name_key(); }',
         'ensures': [('post', 'r is Some == self.0@.contains_key(*name)'), ('value', 'r is Some ==> *r->Some_0 == self.0@[*name]')]},
        {'kind': 'fn', 'src': 'feel/src/values.rs', 'path': 'impl Values::fn as_vec', 'key': 'compare::Values::as_vec',
         'props': P, 'auto_props': A, 'ret': 'r', 'ensures': [('post', '*r == self.0')], 'loops': 0},
        # ---------------------------------------------------------------- equality
        {'kind': 'fn', 'src': B, 'path': 'fn eval_ternary_equality', 'key': 'compare::eval_ternary_equality',
         'props': P, 'auto_props': A, 'ret': 'r',
         'decreases': '*lhs',
         'body_prefix': 'broadcast use vstd::std_specs::btree::group_btree_axioms;\nbroadcast use axiom_num_trichotomy;\nproof { axiom_name_key(); }',
         'ensures': [('true_iff_equal', '(r == Some(true)) <==> veq(*lhs, *rhs)'),
                     ('flat_table', '!(lhs is Context && rhs is Context) ==> r == eq3_flat(*lhs, *rhs)'),
                     ('different_keys_unequal', '(lhs is Context && rhs is Context && !(lhs->Context_0.0@.dom() =~= rhs->Context_0.0@.dom())) ==> r == Some(false)')],
         'rewrites': [('RX', 'R2', r'for \(key1, value1\) in ls\.deref\(\) \{', 'for (key1, value1) in ls.deref().iter() {', 1)],
         'loops': 3,
         'loop_specs': {
             0: {
                 'iter_name': 'it',
                 'invariant': [
                     ('ctx', '*lhs is Context, lhs->Context_0 == *ls, *rhs is Context, rhs->Context_0 == *rs'),
                     ('same_len', 'ls.0@.len() == rs.0@.len()'),
                     ('map_in_seq', 'forall |kk: Name| ls.0@.contains_key(kk) ==> exists |j: int| 0 <= j < it.seq().len() && *(#[trigger] it.seq()[j]) == kk'),
                     ('done_keys', 'forall |j: int| 0 <= j < it.index@ ==> rs.0@.contains_key(*(#[trigger] it.seq()[j]))'),
                 ],
                 'body_prefix': 'broadcast use vstd::std_specs::btree::group_btree_axioms;\nproof { axiom_name_key(); }',
             },
             1: {
                 'iter_name': 'it',
                 'invariant': [
                     ('ctx', '*lhs is Context, lhs->Context_0 == *ls, *rhs is Context, rhs->Context_0 == *rs'),
                     ('same_dom', 'ls.0@.dom() =~= rs.0@.dom()'),
                     ('seq_in_map', 'forall |j: int| 0 <= j < it.seq().len() ==> ls.0@.contains_key(*(#[trigger] it.seq()[j]).0) && ls.0@[*it.seq()[j].0] == *it.seq()[j].1'),
                     ('map_in_seq', 'forall |kk: Name| ls.0@.contains_key(kk) ==> exists |j: int| 0 <= j < it.seq().len() && *(#[trigger] it.seq()[j]).0 == kk'),
                     ('done_equal', 'forall |j: int| 0 <= j < it.index@ ==> veq(*(#[trigger] it.seq()[j]).1, rs.0@[*it.seq()[j].0])'),
                 ],
                 'body_prefix': 'broadcast use vstd::std_specs::btree::group_btree_axioms;\nproof { axiom_name_key(); assert(ls.0@.contains_key(*key1) && ls.0@[*key1] == *value1);\n  assert(decreases_to!(*lhs => lhs->Context_0)); assert(decreases_to!(*ls => ls.0)); assert(decreases_to!(ls.0 => ls.0@[*key1])); assert(decreases_to!(*lhs => *value1)); }',
             },
             2: {
                 'iter_name': 'it',
                 'invariant': [
                     ('list', '*lhs is List, lhs->List_0 == *ls, *rhs is List, rhs->List_0 == *rs'),
                     ('same_len', 'ls.0@.len() == rs.0@.len()'),
                     ('zip_seq', 'it.seq().len() == ls.0@.len()'),
                     ('zip_elems', 'forall |j: int| 0 <= j < it.seq().len() ==> *(#[trigger] it.seq()[j]).0 == ls.0@[j] && *it.seq()[j].1 == rs.0@[j]'),
                     ('done_equal', 'forall |j: int| 0 <= j < it.index@ ==> veq(#[trigger] ls.0@[j], rs.0@[j])'),
                 ],
                 'body_prefix': 'proof { assert(*l == ls.0@[it.index@ as int] && *r == rs.0@[it.index@ as int]);\n  vstd::std_specs::vec::axiom_vec_index_decreases(ls.0, it.index@ as int); assert(decreases_to!(*lhs => lhs->List_0)); assert(decreases_to!(*ls => ls.0)); assert(decreases_to!(*lhs => *l)); }',
             },
         },
         'splices': [
             {'id': 'ctx_dom_eq', 'op': 'before', 'anchor': 'for (key1, value1) in', 
              'text': 'proof {\n  assert(ls.0@.dom().subset_of(rs.0@.dom()));\n  vstd::set_lib::lemma_subset_equality(ls.0@.dom(), rs.0@.dom());\n}'},
         ],
         },
        clo('build_eq', 'op_eq',
            ensures=[('boolean_or_null', 'r is Boolean || r is Null'),
                     ('true_iff_equal', '(r == Value::Boolean(true)) <==> veq(lhv, rhv)'),
                     ('flat_table', '!(lhv is Context && rhv is Context) ==> tri_result(r, eq3_flat(lhv, rhv))')]),
        clo('build_nq', 'op_nq',
            ensures=[('boolean_or_null', 'r is Boolean || r is Null'),
                     ('false_iff_equal', '(r == Value::Boolean(false)) <==> veq(lhv, rhv)'),
                     ('negation_of_eq', '!(lhv is Context && rhv is Context) ==> tri_result(r, not3(eq3_flat(lhv, rhv)))')]),
        clo('build_lt', 'op_lt', ensures=[('order', 'tri_result(r, lt3(ord3u(lhv, rhv)))')],
            body_prefix='broadcast use axiom_num_trichotomy, axiom_str_order;\nproof { axiom_string_ord(); }'),
        clo('build_le', 'op_le', ensures=[('order', 'tri_result(r, le3(ord3u(lhv, rhv)))')],
            body_prefix='broadcast use axiom_num_trichotomy, axiom_str_order;\nproof { axiom_string_ord(); }'),
        clo('build_gt', 'op_gt', ensures=[('order', 'tri_result(r, gt3(ord3u(lhv, rhv)))')],
            body_prefix='broadcast use axiom_num_trichotomy, axiom_str_order;\nproof { axiom_string_ord(); }'),
        clo('build_ge', 'op_ge', ensures=[('order', 'tri_result(r, ge3(ord3u(lhv, rhv)))')],
            body_prefix='broadcast use axiom_num_trichotomy, axiom_str_order;\nproof { axiom_string_ord(); }'),
        {'kind': 'fn', 'src': D, 'path': 'impl FeelDate::fn between', 'key': 'compare::FeelDate::between', 'props': P, 'auto_props': A, 'loops': 0, 'ret': 'r',
         'ensures': [('agrees_with_comparisons',
              'r == Some((if left_closed { ord3(Value::Date(*left), Value::Date(*self))->Some_0 != Ordering::Greater } else { ord3(Value::Date(*left), Value::Date(*self))->Some_0 == Ordering::Less }) '
              '&& (if right_closed { ord3(Value::Date(*self), Value::Date(*right))->Some_0 != Ordering::Greater } else { ord3(Value::Date(*self), Value::Date(*right))->Some_0 == Ordering::Less }))')]},
        clo('build_between', 'op_between', body_prefix='broadcast use axiom_num_trichotomy, axiom_str_order;\nproof { axiom_string_ord(); }',
            ensures=[('between_is_le_and_le', 'tri_result(r, between_spec(lhv, mhv, rhv))')]),
        {'kind': 'fn', 'src': B, 'path': 'fn eval_in_range', 'key': 'compare::eval_in_range', 'props': P + ['C03'], 'auto_props': A + ['C03'], 'loops': 0, 'ret': 'r',
         'sig_rewrite': [(r'^(\s*)fn ', r'\1pub fn ')],
         'rewrites': [('R3',)],
         'body_prefix': 'broadcast use axiom_num_trichotomy, axiom_str_order;\nproof { axiom_string_ord(); }',
         'ensures': [('open_end_is_strict', 'tri_result(r, in_range_spec(*left, *right))')]},
        {'kind': 'item', 'src': V0, 'path': 'const VALUE_TRUE'},
        {'kind': 'item', 'src': V0, 'path': 'const VALUE_FALSE'},
        {'kind': 'fn', 'src': D, 'path': 'impl FeelDate::fn before', 'key': 'compare::FeelDate::before', 'props': P, 'auto_props': A, 'loops': 0, 'ret': 'r',
         'ensures': [('calendar_order', 'r == lt3(ord3(Value::Date(*self), Value::Date(*other)))')]},
        {'kind': 'fn', 'src': D, 'path': 'impl FeelDate::fn before_or_equal', 'key': 'compare::FeelDate::before_or_equal', 'props': P, 'auto_props': A, 'loops': 0, 'ret': 'r',
         'ensures': [('calendar_order', 'r == le3(ord3(Value::Date(*self), Value::Date(*other)))')]},
        {'kind': 'fn', 'src': D, 'path': 'impl FeelDate::fn after', 'key': 'compare::FeelDate::after', 'props': P, 'auto_props': A, 'loops': 0, 'ret': 'r',
         'ensures': [('calendar_order', 'r == gt3(ord3(Value::Date(*self), Value::Date(*other)))')]},
        {'kind': 'fn', 'src': D, 'path': 'impl FeelDate::fn after_or_equal', 'key': 'compare::FeelDate::after_or_equal', 'props': P, 'auto_props': A, 'loops': 0, 'ret': 'r',
         'ensures': [('calendar_order', 'r == ge3(ord3(Value::Date(*self), Value::Date(*other)))')]},
        {'kind': 'fn', 'src': B, 'path': 'fn eval_in_equal', 'key': 'compare::eval_in_equal', 'props': P + ['C03'], 'auto_props': A + ['C03'], 'loops': 0, 'ret': 'r',
         'sig_rewrite': [(r'^(\s*)fn ', r'\1pub fn ')],
         'ensures': [('true_iff_equal', 'r == Value::Boolean(veq(*left, *right))')]},
        {'kind': 'fn', 'src': B, 'path': 'fn eval_in_unary_less', 'key': 'compare::eval_in_unary_less', 'props': P + ['C03'], 'auto_props': A + ['C03'], 'loops': 0, 'ret': 'r',
         'sig_rewrite': [(r'^(\s*)fn ', r'\1pub fn ')], 'rewrites': [('R3',)],
         'body_prefix': 'broadcast use axiom_num_trichotomy, axiom_str_order;\nproof { axiom_string_ord(); }',
         'ensures': [('unary_test', 'tri_result(r, lt3(ord3u(*left, *right)))')]},
        {'kind': 'fn', 'src': B, 'path': 'fn eval_in_unary_less_or_equal', 'key': 'compare::eval_in_unary_less_or_equal', 'props': P + ['C03'], 'auto_props': A + ['C03'], 'loops': 0, 'ret': 'r',
         'sig_rewrite': [(r'^(\s*)fn ', r'\1pub fn ')], 'rewrites': [('R3',)],
         'body_prefix': 'broadcast use axiom_num_trichotomy, axiom_str_order;\nproof { axiom_string_ord(); }',
         'ensures': [('unary_test', 'tri_result(r, le3(ord3u(*left, *right)))')]},
        {'kind': 'fn', 'src': B, 'path': 'fn eval_in_unary_greater', 'key': 'compare::eval_in_unary_greater', 'props': P + ['C03'], 'auto_props': A + ['C03'], 'loops': 0, 'ret': 'r',
         'sig_rewrite': [(r'^(\s*)fn ', r'\1pub fn ')], 'rewrites': [('R3',)],
         'body_prefix': 'broadcast use axiom_num_trichotomy, axiom_str_order;\nproof { axiom_string_ord(); }',
         'ensures': [('unary_test', 'tri_result(r, gt3(ord3u(*left, *right)))')]},
        {'kind': 'fn', 'src': B, 'path': 'fn eval_in_unary_greater_or_equal', 'key': 'compare::eval_in_unary_greater_or_equal', 'props': P + ['C03'], 'auto_props': A + ['C03'], 'loops': 0, 'ret': 'r',
         'sig_rewrite': [(r'^(\s*)fn ', r'\1pub fn ')], 'rewrites': [('R3',)],
         'body_prefix': 'broadcast use axiom_num_trichotomy, axiom_str_order;\nproof { axiom_string_ord(); }',
         'ensures': [('unary_test', 'tri_result(r, ge3(ord3u(*left, *right)))')]},
        {'kind': 'fn', 'src': B, 'path': 'fn eval_in_negated_list', 'key': 'compare::eval_in_negated_list', 'props': P + ['C03'], 'auto_props': A + ['C03'], 'loops': 1, 'ret': 'r',
         'sig_rewrite': [(r'^(\s*)fn ', r'\1pub fn ')], 'rewrites': [('R3',)],
         'ensures': [('negation_of_disjunction', '(forall |i: int| 0 <= i < items@.len() ==> neg_item_ok(#[trigger] items@[i])) ==> r == Value::Boolean(!(exists |i: int| 0 <= i < items@.len() && neg_item_accepts(*left, #[trigger] items@[i])))')],
         'loop_specs': {0: {'iter_name': 'it', 'invariant': [
             ('seq', 'it.seq() =~= items@.map_values(|v: Value| &v)'),
             ('none_so_far', 'forall |j: int| 0 <= j < it.index@ ==> neg_item_ok(#[trigger] items@[j]) && !neg_item_accepts(*left, items@[j])')],
             'body_prefix': 'proof { assert(*item == items@[it.index@ as int]); }'}}},
    ],
}

NOT_DECIDED = {
    'C09': [
        'that the parser maps `a < b`, `a between b and c`, `a in [b..c]` to these closures and that operands are the values of the operand expressions (closure wiring, R4)',
        'context = context with equal key sets that contain both an unequal and an incomparable entry: the result (false or null) depends on key order; only "true iff deeply equal" and "different key sets -> false" are decided for context pairs',
        'times and date-times: equality / between go through chrono instants (uninterpreted here, assumed symmetric; see unit timeline)',
    ],
    'C01': ['only the operator value tables of and/or/=/!=/</<=/>/>=/between/in-range are decided here; see units iterations and arith'],
}
ASSUMPTIONS = [
    'A-dec: FeelNumber == / < are an equivalence and a strict total order compatible with it (dec_compare); numbers are otherwise opaque',
    'A-std: String comparison is a strict total order on character sequences (str_lt) and == is equality of views; Option/Box/BTreeMap/Vec/zip specs of vstd; Box::borrow',
    'A-derive: derived PartialEq/PartialOrd of the duration newtypes compare the wrapped integer; derived Clone returns an equal value',
    'A-chrono: FeelTime/FeelDateTime equal() and between() are uninterpreted three-valued relations, equality assumed symmetric',
    'R3 drops the diagnostic message of value_null!(..); R4 lifts closure bodies (operand evaluation order and closure wiring dropped); R2 map iteration via .iter()',
]


_EQ = {'name': 'equality-differential', 'script': 'eqdiff.py', 'args': [], 'functions': ['builders::eval_ternary_equality', 'builders::build_eq', 'builders::build_nq', 'core::list_contains'],
       'bound': 'every ordered pair from a 41-value alphabet (null, booleans, numbers spelled differently, strings, dates, durations, flat and nested lists, contexts with the key sets {}, {a}, {b}, {a, b} and nested ones) '
                'under =, !=, list contains, index of (and distinct values / union on seven lists): about 4 100 evaluations against a reference written out from DMN 1.3 section 10.3.2.15; also the stand-in when the extraction of eval_ternary_equality is undecided'}
_CORE = {'name': 'core-expression-cases', 'driver': 'feelcases', 'args': ['/verif/replay/cases/C01_core.txt'],
         'functions': ['build_if', 'build_and / build_or', 'build_between', 'build_in', 'build_filter', 'build_path', 'build_for / build_some / build_every', 'arithmetic and comparison builders'],
         'bound': '86 expressions with the value DMN 1.3 section 10.3.2 assigns: if with true / false / null conditions (a condition that is not true takes the else branch), the three-valued and / or tables, between, in over lists / ranges / unary tests, '
                  'filters by predicate and by position, paths, context entries, for / some / every over lists and ranges (also empty), arithmetic with null and mixed kinds, comparisons, instance of, invocation (also recursive)'}
_LOGIC = {'name': 'logic-over-non-booleans', 'driver': 'feelcases', 'args': ['/verif/replay/cases/C09_logic.txt', 'all'],
          'functions': ['build_and', 'build_or'],
          'bound': '22 conjunctions / disjunctions with an operand that is not a boolean (one-item and longer lists of booleans, strings, numbers, contexts, nested lists): such an operand counts as null - no singleton conversion'}
_ORD = {'name': 'order-differential', 'script': 'orddiff.py', 'args': [],
        'functions': ['build_lt / build_le / build_gt / build_ge', 'build_between', 'eval_in_range', 'eval_in_unary_less / less_or_equal / greater / greater_or_equal'],
        'bound': 'every ordered pair of a 29-value alphabet (numbers with equal values of different scale, strings incl. the empty one, prefixes and non-ASCII, dates, both duration kinds, null, a boolean, a list) under < <= > >=, '
                 'and every triple of one kind under between, the four kinds of range and the four unary comparison tests (7 309 evaluations) against the order written out in Python; also decides them when a rewritten body leaves the extractor\'s reach'}
BOUNDED = {'C01': [_EQ, _CORE, _LOGIC, _ORD], 'C09': [_EQ, _LOGIC, _ORD], 'C03': [_ORD]}
