"""Unit `workspace`: workspace/src/workspace.rs (C17; deploy clause of C12)."""

PRE = 'broadcast use vstd::std_specs::hash::group_hash_axioms;\nbroadcast use group_string_keys;\nproof { axiom_string_key_model(); }'
W = 'workspace/src/workspace.rs'

def fn(name, **kw):
    d = {'kind': 'fn', 'src': W, 'path': 'impl Workspace::fn ' + name, 'key': 'workspace::Workspace::' + name,
         'props': ['C17'], 'auto_props': ['C17'], 'body_prefix': PRE, 'loops': 0}
    d.update(kw)
    return d

UNIT = {
    'name': 'workspace',
    'file_attrs': ['#![feature(allocator_api)]'],
    'uses': ['use std::collections::HashMap;', 'use std::sync::Arc;', 'use vstd::std_specs::iter::IteratorSpec;'],
    'parts': [
        {'kind': 'vrs', 'file': 'common/string_keys.vrs'},
        {'kind': 'vrs', 'file': 'workspace/prelude.vrs'},
        {'kind': 'item', 'src': W, 'path': 'struct Workspace',
         'rewrites': [('RX', 'R7', r'\n  (definitions|definitions_by_namespace|definitions_by_name|model_evaluators_by_name):', r'\n  pub \1:', 4)]},
        {'kind': 'vrs', 'file': 'workspace/spec.vrs'},
        fn('clear_model_evaluators', sig_rewrite=[(r'^(\s*)fn ', r'\1pub fn ')],
           ensures=[('frame', 'final(self).definitions == old(self).definitions && final(self).definitions_by_namespace == old(self).definitions_by_namespace && final(self).definitions_by_name == old(self).definitions_by_name'),
                    ('stashing', 'final(self).stashing()')]),
        fn('clear_definitions', sig_rewrite=[(r'^(\s*)fn ', r'\1pub fn ')],
           ensures=[('empty', 'final(self).definitions@.len() == 0 && final(self).definitions_by_namespace@ =~= Map::<String, Arc<Definitions>>::empty() && final(self).definitions_by_name@ =~= Map::<String, Arc<Definitions>>::empty()'),
                    ('frame', 'final(self).model_evaluators_by_name == old(self).model_evaluators_by_name')]),
        fn('clear',
           ensures=[('wf', 'final(self).wf()'), ('empty', 'final(self).view().len() == 0'), ('stashing', 'final(self).stashing()')]),
        fn('add', ret='r',
           requires=[('wf', 'old(self).wf()')],
           ensures=[('wf', 'final(self).wf()'),
                    ('ok_iff_free', 'r is Ok <==> !old(self).has_ns(spec_ns(definitions)) && !old(self).has_name(spec_name(definitions))'),
                    ('ok_pushes', 'r is Ok ==> final(self).view() =~= old(self).view().push(definitions) && final(self).stashing()'),
                    ('err_frame', 'r is Err ==> *final(self) == *old(self)')],
           splices=[{'id': 'add_wf', 'op': 'before', 'anchor': 'Ok(())',
                     'text': 'proof { lemma_add_wf(*old(self), *self, definitions_arc); }'}]),
        fn('remove',
           rewrites=[('RX', 'R10', r'\|d\| d\.namespace\(\) != namespace && d\.name\(\) != name',
                      '|d: &Arc<Definitions>| -> (b: bool) ensures b == keeps(namespace@, name@)(*d) { d.namespace() != namespace && d.name() != name }', 1)],
           requires=[('wf', 'old(self).wf()')],
           loops=1,
           loop_specs={0: {
               'iter_name': 'it',
               'invariant': [
                   ('owf', 'old(self).wf()'),
                   ('seq', 'it.seq() =~= old(self).definitions@.map_values(|a: Arc<Definitions>| &a)'),
                   ('progress', 'remove_progress(*old(self), *self, namespace@, name@, it.index@ as int)'),
               ],
               'body_prefix': 'broadcast use vstd::std_specs::hash::group_hash_axioms;\nbroadcast use group_string_keys;\nproof { axiom_string_key_model(); assert(*definitions == old(self).definitions@[it.index@ as int]); }\nlet ghost before = *self;',
               'body_suffix': 'proof { lemma_remove_step(*old(self), before, *self, namespace@, name@, it.index@ as int); }',
           }},
           splices=[{'id': 'remove_init', 'op': 'before', 'anchor': 'for definitions in',
                     'text': 'proof { lemma_remove_init(*old(self), *self, namespace@, name@); }'},{'id': 'remove_wf', 'op': 'before', 'anchor': 'self.definitions.retain(',
                     'text': 'let ghost mid = *self;'},
                    {'id': 'remove_wf2', 'op': 'after', 'anchor': 'self.clear_model_evaluators();',
                     'text': 'proof { lemma_remove_wf(*old(self), mid, *self, namespace@, name@); }'}],
           ensures=[('wf', 'final(self).wf()'),
                    ('removes_exactly', 'final(self).definitions@ == old(self).definitions@.filter(keeps(namespace@, name@))'),
                    ('stashing', 'final(self).stashing()')]),
        fn('replace', ret='r',
           requires=[('wf', 'old(self).wf()')],
           ensures=[('wf', 'final(self).wf()'),
                    ('always_ok', 'r is Ok'),
                    ('substitutes', 'final(self).view() =~= old(self).definitions@.filter(keeps(spec_ns(definitions), spec_name(definitions))).map_values(|a: Arc<Definitions>| *a).push(definitions)'),
                    ('stashing', 'final(self).stashing()')]),
        fn('evaluate_invocable', ret='r',
           ensures=[('ok_iff_deployed', 'r is Ok <==> self.model_evaluators_by_name@.contains_key(skey(model_name@))')]),
    ],
}
