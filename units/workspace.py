"""Unit `workspace`: workspace/src/workspace.rs (C17; deploy clause of C12)."""

PRE = 'broadcast use vstd::std_specs::hash::group_hash_axioms;\nbroadcast use group_string_keys;\nproof { axiom_string_key_model(); }'
W = 'workspace/src/workspace.rs'

def fn(name, **kw):
    d = {'kind': 'fn', 'src': W, 'path': 'impl Workspace::fn ' + name, 'key': 'workspace::Workspace::' + name,
         'props': ['C17', 'C18'], 'auto_props': ['C17', 'C18'], 'body_prefix': PRE, 'loops': 0}
    d.update(kw)
    return d

UNIT = {
    'name': 'workspace',
    'file_attrs': ['#![feature(allocator_api)]'],
    'uses': ['use std::collections::HashMap;', 'use std::sync::Arc;', 'use vstd::std_specs::iter::IteratorSpec;'],
    'parts': [
        {'kind': 'vrs', 'file': 'common/string_keys.vrs'},
        {'kind': 'vrs', 'file': 'workspace/prelude.vrs'},
        {'kind': 'item', 'src': W, 'path': 'struct Workspace',
         'rewrites': [('RX', 'R7', r'\n  (definitions|definitions_by_namespace|definitions_by_name|model_evaluators_by_name):', r'\n  pub \1:', 4)]},
        {'kind': 'vrs', 'file': 'workspace/spec.vrs'},
        fn('clear_model_evaluators', sig_rewrite=[(r'^(\s*)fn ', r'\1pub fn ')],
           ensures=[('frame', 'final(self).definitions == old(self).definitions && final(self).definitions_by_namespace == old(self).definitions_by_namespace && final(self).definitions_by_name == old(self).definitions_by_name'),
                    ('stashing', 'final(self).stashing()')]),
        fn('clear_definitions', sig_rewrite=[(r'^(\s*)fn ', r'\1pub fn ')],
           ensures=[('empty', 'final(self).definitions@.len() == 0 && final(self).definitions_by_namespace@ =~= Map::<String, Arc<Definitions>>::empty() && final(self).definitions_by_name@ =~= Map::<String, Arc<Definitions>>::empty()'),
                    ('frame', 'final(self).model_evaluators_by_name == old(self).model_evaluators_by_name')]),
        fn('clear',
           ensures=[('wf', 'final(self).wf()'), ('empty', 'final(self).view().len() == 0'), ('stashing', 'final(self).stashing()')]),
        fn('add', ret='r',
           requires=[('wf', 'old(self).wf()')],
           ensures=[('wf', 'final(self).wf()'),
                    ('ok_iff_free', 'r is Ok <==> !old(self).has_ns(spec_ns(definitions)) && !old(self).has_name(spec_name(definitions))'),
                    ('ok_pushes', 'r is Ok ==> final(self).view() =~= old(self).view().push(definitions) && final(self).stashing()'),
                    ('err_frame', 'r is Err ==> *final(self) == *old(self)')],
           splices=[{'id': 'add_wf', 'op': 'before', 'anchor': 'Ok(())',
                     'text': 'proof { lemma_add_wf(*old(self), *self, definitions_arc); }'}]),
        fn('remove',
           rewrites=[('RX', 'R10', r'\|d\| d\.namespace\(\) != namespace && d\.name\(\) != name',
                      '|d: &Arc<Definitions>| -> (b: bool) ensures b == keeps(namespace@, name@)(*d) { d.namespace() != namespace && d.name() != name }', 1)],
           requires=[('wf', 'old(self).wf()')],
           loops=1,
           loop_specs={0: {
               'iter_name': 'it',
               'invariant': [
                   ('owf', 'old(self).wf()'),
                   ('seq', 'it.seq() =~= old(self).definitions@.map_values(|a: Arc<Definitions>| &a)'),
                   ('progress', 'remove_progress(*old(self), *self, namespace@, name@, it.index@ as int)'),
               ],
               'body_prefix': 'broadcast use vstd::std_specs::hash::group_hash_axioms;\nbroadcast use group_string_keys;\nproof { axiom_string_key_model(); assert(*definitions == old(self).definitions@[it.index@ as int]); }\nlet ghost before = *self;',
               'body_suffix': 'proof { lemma_remove_step(*old(self), before, *self, namespace@, name@, it.index@ as int); }',
           }},
           splices=[{'id': 'remove_init', 'op': 'before', 'anchor': 'for definitions in',
                     'text': 'proof { lemma_remove_init(*old(self), *self, namespace@, name@); }'},{'id': 'remove_wf', 'op': 'before', 'anchor': 'self.definitions.retain(',
                     'text': 'let ghost mid = *self;'},
                    {'id': 'remove_wf2', 'op': 'after', 'anchor': 'self.clear_model_evaluators();',
                     'text': 'proof { lemma_remove_wf(*old(self), mid, *self, namespace@, name@); }'}],
           ensures=[('wf', 'final(self).wf()'),
                    ('removes_exactly', 'final(self).definitions@ == old(self).definitions@.filter(keeps(namespace@, name@))'),
                    ('stashing', 'final(self).stashing()')]),
        fn('replace', ret='r',
           requires=[('wf', 'old(self).wf()')],
           ensures=[('wf', 'final(self).wf()'),
                    ('always_ok', 'r is Ok'),
                    ('substitutes', 'final(self).view() =~= old(self).definitions@.filter(keeps(spec_ns(definitions), spec_name(definitions))).map_values(|a: Arc<Definitions>| *a).push(definitions)'),
                    ('stashing', 'final(self).stashing()')]),
        fn('evaluate_invocable', ret='r',
           ensures=[('ok_iff_deployed', 'r is Ok <==> self.model_evaluators_by_name@.contains_key(skey(model_name@))')]),
        fn('deploy', ret='r', props=['C17', 'C12', 'C18'], auto_props=['C17', 'C12', 'C18'],
           requires=[('wf', 'old(self).wf()')],
           loops=1,
           loop_specs={0: {
               'iter_name': 'it',
               'invariant': [
                   ('seq', 'it.seq() =~= old(self).definitions@.map_values(|a: Arc<Definitions>| &a)'),
                   ('frame', 'self.definitions == old(self).definitions && self.definitions_by_namespace == old(self).definitions_by_namespace && self.definitions_by_name == old(self).definitions_by_name'),
                   ('built_so_far', 'forall |k: String| #[trigger] self.model_evaluators_by_name@.contains_key(k) <==> built_name(old(self).definitions@, it.index@ as int, k@)'),
               ],
               'body_prefix': 'broadcast use vstd::std_specs::hash::group_hash_axioms;\nbroadcast use group_string_keys;\nproof { axiom_string_key_model(); assert(*definitions == old(self).definitions@[it.index@ as int]); }\nlet ghost before = self.model_evaluators_by_name@;',
               'body_suffix': 'proof { lemma_deploy_step(old(self).definitions@, it.index@ as int, before, self.model_evaluators_by_name@); }',
           }},
           splices=[{'id': 'deploy_wf', 'op': 'before', 'anchor': 'Ok(())',
                     'text': 'proof { lemma_deploy_wf(*old(self), *self); }'}],
           ensures=[('wf', 'final(self).wf()'),
                    ('ok', 'r is Ok'),
                    ('frame', 'final(self).definitions == old(self).definitions && final(self).definitions_by_namespace == old(self).definitions_by_namespace && final(self).definitions_by_name == old(self).definitions_by_name'),
                    ('deploys_exactly_buildable', 'forall |k: String| #[trigger] final(self).model_evaluators_by_name@.contains_key(k) <==> built_name(old(self).definitions@, old(self).definitions@.len() as int, k@)')]),
        {'kind': 'text', 'note': 'assumed-contract', 'text': """impl Workspace {
  // load_and_deploy_models walks a directory (WalkDir, std::fs) and calls only add() and deploy();
  // file-system code is outside the verifier's reach: its effect on the invariant is ASSUMED.
  #[verifier::external_body]
  pub fn load_and_deploy_models(&mut self, dir: &PathBuf) -> (r: usize)
    requires old(self).wf() ensures final(self).wf() { unimplemented!() }
}"""},
        fn('new', ret='r', rewrites=[('R6', ['println'])],
           ensures=[('wf', 'r.wf()'),
                    ('empty_without_dir', 'opt_dir is None ==> r.view().len() == 0 && r.stashing()')]),
    ],
}

NOT_DECIDED = {
    'C18': ['the workspace operations behind the definitions endpoints (see C17)'],
    'C17': [
        'load_and_deploy_models (directory walk, file reads): assumed to preserve the invariant; it only calls add() and deploy()',
        'server/src/server.rs handlers that call these operations (C18)',
        'that ModelEvaluator::new fails exactly for models that cannot be built (builds() is uninterpreted)',
    ],
    'C12': [
        'only the clause "a model that fails to build does not prevent the others from being deployed" (Workspace::deploy) is decided here',
    ],
}
ASSUMPTIONS = [
    'A-std: vstd HashMap/Vec/Arc specifications; added axioms for HashMap<String,_> (String key model, &str borrowed-key lookups) and Vec::retain',
    'Definitions::namespace/name and ModelEvaluator::new/evaluate_invocable are opaque (uninterpreted namespace, name, builds)',
    'rewrite rules R6 (println! erased), R7 (field visibility), R10 (retain closure given an explicit ensures, verified against its body)',
    'the induction over operation histories (every public operation requires and re-establishes wf) is the standard meta-argument, not a Verus theorem',
]

_WS = {'name': 'workspace-histories-differential', 'script': 'wsdiff.py', 'args': [], 'quick_args': ['--len', '3'], 'thorough_args': ['--len', '4'],
       'functions': ['Workspace::add / remove / replace / clear / deploy / evaluate_invocable'],
       'bound': 'every sequence of up to 3 (thorough: 4) operations over add / replace of five models that share namespaces and names pairwise (one of them does not build), remove of seven (namespace, name) pairs (one matching two different '
                'stored models, one matching nothing, one matching by the name only, one by the namespace only), clear and deploy - 7 240 histories in the quick tier - each followed by a probe (evaluations, deploy, evaluations, adds, deploy, evaluations) on the real Workspace, every answer compared with a reference '
                'written out from the property; also the stand-in when a rewritten body leaves the extractor\'s reach'}
BOUNDED = {'C17': [_WS]}
