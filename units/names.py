"""Unit `names`: feel-parser/src/lexer.rs consume_name - name part collection and longest-match lookup (C10)."""
import os, sys
sys.path.insert(0, os.path.dirname(os.path.abspath(__file__)))
L = 'feel-parser/src/lexer.rs'
P = ['C10']
A = ['C10', 'C05']

def top(name, ensures, **kw):
    d = {'kind': 'fn', 'src': L, 'path': 'fn ' + name, 'key': 'names::' + name, 'props': P, 'auto_props': A, 'loops': 0, 'ret': 'r',
         'sig_rewrite': [(r'^(\s*)fn ', r'\1pub fn ')], 'ensures': ensures}
    d.update(kw)
    return d

def lx(name, **kw):
    d = {'kind': 'fn', 'src': L, 'path': "impl<'lexer> Lexer<'lexer>::fn " + name, 'key': 'names::Lexer::' + name, 'props': P, 'auto_props': A, 'loops': 0,
         'impl_header': "impl<'lexer> Lexer<'lexer> {", 'sig_rewrite': [(r'^(\s*)(pub )?fn ', r'\1pub fn ')]}
    d.update(kw)
    return d

WF0 = 'lx_wf(old(self).position, old(self).input@)'
WFS = 'lx_wf(self.position, self.input@)'
def nxt(cls):
    return [('next_char_class', 'r == (self.position + 1 < self.input@.len() && %s(self.input@[self.position + 1]))' % cls)]

PUSHED = 'proof { assert(parts@ =~= parts0.push(parts@.last())); assert(consumed_positions@ =~= cp0.push(self.position)); assert(part_ok(self.input@, old(self).position as int, parts@, consumed_positions@, parts@.len() - 1)); lemma_tok_push(self.input@, old(self).position as int, parts0, cp0, parts@.last(), self.position); }'

UNIT = {
    'name': 'names',
    'uses': ['use std::collections::HashSet;'],
    'parts': [
        {'kind': 'vrs', 'file': 'lexer/prelude.vrs'},
        {'kind': 'vrs', 'file': 'lexer/spec.vrs'},
        {'kind': 'vrs', 'file': 'common/string_keys.vrs'},
        top('is_digit', [('grammar_digit', 'r == g_digit(ch)')]),
        top('is_additional_name_symbol', [('grammar_rule_30', 'r == g_additional_name_symbol(ch)')]),
        top('is_name_start_char', [('grammar_rule_28', 'r == g_name_start(ch)')]),
        top('is_name_part_char', [('grammar_rule_29', 'r == g_name_part(ch)')]),
        top('is_vertical_space', [('grammar_rule_62', 'r == g_vertical_space(ch)')]),
        top('is_whitespace', [('grammar_rule_61', 'r == g_whitespace(ch)')]),
        {'kind': 'text', 'note': 'stand-in', 'text': '#[verifier::external_body] pub struct Name { _p: u8 }'},
        {'kind': 'item', 'src': 'feel-parser/src/lalr.rs', 'path': 'enum TokenType'},
        {'kind': 'item', 'src': L, 'path': 'enum TokenValue'},
        {'kind': 'item', 'src': L, 'path': "struct Lexer",
         'rewrites': [('RX', 'R7', r'\n  (scope|start_token_type|input|position|unary_tests|between|type_name|till_in):', r'\n  pub \1:', 8)]},
        {'kind': 'vrs', 'file': 'names/prelude.vrs'},
        {'kind': 'vrs', 'file': 'names/spec.vrs'},
        lx('char_at', ret='r',
           requires=[('no_overflow', 'self.position + offset <= usize::MAX')],
           ensures=[('in_range', '(self.position + offset < self.input@.len()) ==> r == Some(self.input@[self.position + offset])'),
                    ('past_end', '(self.position + offset >= self.input@.len()) ==> r is None')]),
        lx('peek_character', ret='r', requires=[('wf', WFS)],
           ensures=[('current', 'self.position < self.input@.len() ==> r == Ok::<char, DmntkError>(self.input@[self.position as int])'), ('eof', 'self.position >= self.input@.len() ==> r is Err')]),
        lx('is_next_whitespace', ret='r', requires=[('wf', WFS)], ensures=nxt('g_whitespace')),
        lx('is_next_name_part_char', ret='r', requires=[('wf', WFS)], ensures=nxt('g_name_part')),
        lx('is_next_additional_name_symbol', ret='r', requires=[('wf', WFS)], ensures=nxt('g_additional_name_symbol')),
        lx('comment_length', loops=2, ret='r',
           requires=[('wf', WFS), ('in_input', 'self.position + offset <= self.input@.len()')],
           ensures=[('within_the_input_and_not_empty', 'r is Some ==> 2 <= r->Some_0 && self.position + offset + r->Some_0 <= self.input@.len()'),
                    ('exactly_where_a_comment_begins', '(r is Some) == starts_comment(self.input@, self.position + offset)')],
           loop_specs={0: {'invariant': [('wf', WFS), ('progress', '2 <= length && self.position + offset + length <= self.input@.len()'), ('began', 'starts_comment(self.input@, self.position + offset)')], 'decreases': 'self.input@.len() - (self.position + offset + length)'},
                       1: {'invariant': [('wf', WFS), ('progress', '2 <= length && self.position + offset + length <= self.input@.len()'), ('began', 'starts_comment(self.input@, self.position + offset)')], 'decreases': 'self.input@.len() - (self.position + offset + length)'}}),
        {'kind': 'vrs', 'file': 'names/lookahead.vrs'},
        lx('consume_name', ret='r', loops=3, attrs='#[verifier::rlimit(200)]',
           requires=[('wf', WF0), ('at_name_start', 'old(self).position < old(self).input@.len() ==> g_name_part(old(self).input@[old(self).position as int])')],
           body_prefix='proof { reveal_strlit(""); }\nbroadcast use vstd::std_specs::hash::group_hash_axioms;\nbroadcast use group_string_keys;\nproof { axiom_string_key_model(); }',
           ensures=[('frame', 'final(self).input == old(self).input && final(self).scope == old(self).scope'),
                    ('wf', 'lx_wf(final(self).position, final(self).input@)'),
                    ('longest_bound_name', 'r is Ok ==> exists |parts: Seq<String>, cp: Seq<usize>, end: int| #[trigger] name_scan(old(self).input@, old(self).position as int, parts, cp, end) '
                                           '&& name_token(old(self).input@, scope_keys(*old(self).scope), old(self).till_in, old(self).type_name, parts, cp, end, r->Ok_0.0, r->Ok_0.1, final(self).position as int, final(self).till_in, final(self).type_name)')],
           splices=[{'id': 'pushed_first_word', 'op': 'after', 'anchor': 'consumed_positions.push(self.position);', 'nth': 0, 'text': PUSHED},
                    {'id': 'pushed_word', 'op': 'after', 'anchor': 'consumed_positions.push(self.position);', 'nth': 1, 'text': PUSHED},
                    {'id': 'pushed_symbol', 'op': 'after', 'anchor': 'parts.push(current_part.clone());', 'nth': 2, 'text': PUSHED},
                    {'id': 'scan_end', 'op': 'before', 'anchor': "if self.is_next_character(&[':'], 0) {", 'nth': 0, 'text': "let ghost end0 = self.position;\nlet ghost parts_all = parts@;\nproof { assert([':']@ =~= seq![':']); }"},
                    {'id': 'not_introduced', 'op': 'before', 'anchor': 'if let Some(part_name) = parts.get(0) {', 'text': "proof { assert([':']@ =~= seq![':']); assert(!next_is(self.input@, end0 as int, seq![':'])); }"},
                    {'id': 'item_pos', 'op': 'before', 'anchor': 'self.position = consumed_positions[0] + 1;', 'text': 'proof { assert(part_ok(self.input@, old(self).position as int, parts@, consumed_positions@, 0)); }'},
                    {'id': 'in_pos', 'op': 'before', 'anchor': 'parts.truncate(index);', 'text': 'proof { assert(part_ok(self.input@, old(self).position as int, parts@, consumed_positions@, index - 1)); assert(first_in(parts_all, index as int)); }'},
                    {'id': 'type_pos', 'op': 'before', 'anchor': 'self.position = consumed_positions[part_count - 1] + 1;', 'nth': 1,
                     'text': 'proof { assert(part_ok(self.input@, old(self).position as int, parts@, consumed_positions@, part_count - 1)); assert(longest_type(parts_all, part_count as int)); }'},
                    {'id': 'match_pos', 'op': 'before', 'anchor': 'self.position = consumed_positions[part_count - 1] + 1;', 'nth': 0, 'text': 'proof { assert(part_ok(self.input@, old(self).position as int, parts@, consumed_positions@, part_count - 1)); assert(longest_match(parts_all, scope_keys(*old(self).scope), part_count as int)); }'},
                    ],
           loop_specs={0: {'body_prefix': 'let ghost parts0 = parts@;\nlet ghost cp0 = consumed_positions@;',
                           'invariant': [
                             ('frame', 'self.input == old(self).input && self.scope == old(self).scope && self.till_in == old(self).till_in && self.type_name == old(self).type_name'),
                             ('wf', 'lx_wf(self.position, self.input@) && old(self).position <= self.position'),
                             ('state', '1 <= state <= 5'),
                             ('tokenised', 'tokenised(self.input@, old(self).position as int, parts@, consumed_positions@)'),
                             ],
                           'invariant_except_break': [
                             ('collecting_first_word', 'state == 1 ==> parts@.len() == 0 && self.position < self.input@.len() && current_part@.len() >= 1 && g_word(current_part@) '
                                                       '&& current_part@ =~= self.input@.subrange(old(self).position as int, self.position + 1)'),
                             ('after_a_part', 'state != 1 ==> parts@.len() >= 1 && consumed_positions@.last() <= self.position < self.input@.len()'),
                             ('between_parts', '(state == 2 || state == 4 || state == 5) ==> current_part@.len() == 0 && forall |j: int| consumed_positions@.last() < j <= self.position ==> g_whitespace(#[trigger] self.input@[j])'),
                             ('collecting_word', 'state == 3 ==> consumed_positions@.last() + 1 <= self.position + 1 - current_part@.len() '
                                                 '&& current_part@ =~= self.input@.subrange(self.position + 1 - current_part@.len(), self.position + 1) '
                                                 '&& (forall |i: int| 0 <= i < current_part@.len() ==> g_name_part(#[trigger] current_part@[i])) '
                                                 '&& (forall |j: int| consumed_positions@.last() < j < self.position + 1 - current_part@.len() ==> g_whitespace(#[trigger] self.input@[j])) '
                                                 '&& (current_part@.len() == 0 ==> self.position + 1 < self.input@.len() && g_name_part(self.input@[self.position + 1]))')],
                           'ensures': [('scan_complete', 'name_scan(self.input@, old(self).position as int, parts@, consumed_positions@, self.position as int)')],
                           'decreases': 'self.input@.len() - self.position, scan_rank(state as int, self.input@, self.position as int)'},
                       1: {'decreases': 'part_count', 'body_prefix': 'broadcast use vstd::std_specs::hash::group_hash_axioms;\nbroadcast use group_string_keys;\nproof { axiom_string_key_model(); }',
                           'invariant': [
                             ('all_parts', 'parts@ == parts_all && self.position == end0 && lx_wf(self.position, self.input@)'),
                             ('not_introduced', "!next_is(self.input@, end0 as int, seq![':'])"),
                             ('no_tweak_applies', 'parts_all[0]@ != "item"@ && !old(self).till_in'),
                             ('frame', 'self.input == old(self).input && self.scope == old(self).scope && !self.till_in && !self.type_name && type_name_expected == old(self).type_name'),
                             ('keys', 'forall |k: String| #[trigger] flattened_keys@.contains(k) <==> scope_keys(*self.scope).contains(k@)'),
                             ('scan', 'name_scan(self.input@, old(self).position as int, parts@, consumed_positions@, self.position as int)'),
                             ('longer_prefixes_unbound', 'part_count <= parts@.len() && forall |k2: int| part_count < k2 <= parts@.len() ==> !scope_keys(*self.scope).contains(#[trigger] flat(parts@.subrange(0, k2)))')]},
                       2: {'decreases': 'part_count', 'invariant': [
                             ('frame', 'self.input == old(self).input && self.scope == old(self).scope && !self.till_in && !self.type_name && type_name_expected && old(self).type_name'),
                             ('all_parts', 'parts@ == parts_all && self.position == end0 && lx_wf(self.position, self.input@)'),
                             ('not_introduced', "!next_is(self.input@, end0 as int, seq![':'])"),
                             ('scan', 'name_scan(self.input@, old(self).position as int, parts@, consumed_positions@, self.position as int)'),
                             ('no_tweak_applies', 'parts_all[0]@ != "item"@ && !old(self).till_in && no_match(parts_all, scope_keys(*old(self).scope)) && name == name_of_parts(parts_all)'),
                             ('longer_prefixes_are_not_type_names', 'part_count <= parts@.len() && forall |k2: int| part_count < k2 <= parts@.len() ==> !is_type_name(name_of_parts(#[trigger] parts@.subrange(0, k2)))')]}},
           rewrites=[('RX', 'R14', r'let mut parts = vec!\[\];', 'let mut parts: Vec<String> = vec![];', 1),
                     ('RX', 'R14', r'let mut consumed_positions = vec!\[\];', 'let mut consumed_positions: Vec<usize> = vec![];', 1),
                     ('RX', 'R11', r'part_name == "item"', 'string_is(part_name, "item")', 1),
                     ('RX', 'R11', r'Name::from\("item"\)', 'name_from_str("item")', 1),
                     ('RX', 'R13', r'parts\.iter\(\)\.(r?)position\(\|value\| value == "in"\)\.filter\(\|index\| \*index > 0\)', r'\1position_of_in(&parts)', 1),
                     ('RX', 'R11', r'TokenValue::Name\(parts\.to_vec\(\)\.into\(\)\)', 'TokenValue::Name(name_from_parts(parts.as_slice()))', None),
                     ('RX', 'R11', r'TokenValue::Name\(part_sublist\.to_vec\(\)\.into\(\)\)', 'TokenValue::Name(name_from_parts(part_sublist))', 1),
                     ('RX', 'R11', r'let name: Name = parts\.to_vec\(\)\.into\(\);', 'let name: Name = name_from_parts(parts.as_slice());', 1),
                     ('RX', 'R11', r'&parts\[\.\.part_count\]', 'vstd::slice::slice_subrange(parts.as_slice(), 0, part_count)', 1),
                     ('RX', 'R8', r'self\.scope\.flatten_keys\(\)', 'scope_flatten_keys(self.scope)', 1),
                     ('RX', 'R11', r'matches!\(\s*type_name\.to_string\(\)\.as_str\(\),\s*((?:"[^"]*"\s*\|?\s*)+)\)', lambda m: 'name_is_one_of(&type_name, &[%s])' % ', '.join(x.strip() for x in m.group(1).split('|')), 1),
                     ('RX', 'R11', r'let type_name: Name = parts\[\.\.part_count\]\.to_vec\(\)\.into\(\);', 'let type_name: Name = name_from_parts(vstd::slice::slice_subrange(parts.as_slice(), 0, part_count));', 1),
                     ('RX', 'R11', r'let name_str = name\.to_string\(\);', '', 1),
                     ('RX', 'R11', r'matches!\(name_str\.as_str\(\), ((?:"[^"]*"\s*\|?\s*)+)\)', lambda m: 'name_is_one_of(&name, &[%s])' % ', '.join(x.strip() for x in m.group(1).split('|')), 2),
                     ]),
    ],
}

BOUNDED = {
    'C10': [{'name': 'bound-names-resolve', 'driver': 'names', 'args': ['5'],
             'functions': ['lexer::flatten_name_parts', 'Name::new', 'FeelContext::flatten_keys', 'Scope::flatten_keys', 'Lexer::consume_name (end to end)'],
             'bound': 'all names of up to 5 parts (words a, b, U+017C followed by 1; words separated by a space or joined by ONE additional symbol . / - \' + *), bound programmatically with Name::new; '
                      'written canonically and with single spaces between all parts, alone and followed by " + 1", with and without the words themselves bound; parse + evaluate under catch_unwind must give the bound value; '
                      'plus entry names INSIDE bound values (a nested context; the items of a bound list at each of 3 positions beside null / number / other-context items) used in `N - 1`, '
                      'and 13 context literals over outer names a, b in which an entry key spelled like an operator expression is bound for the later entries but not inside its own value '
                      '(the string code - trim / join / replace / format! - that decides whether flattened parts equal a flattened key is outside Verus\' reach)'},
            {'name': 'iteration-variable-names', 'driver': 'feelcases', 'args': ['/verif/replay/cases/C10_iteration_names.txt', 'all'],
             'functions': ['Lexer::consume_name (the name before `in` in for / some / every)', 'Parser actions that register the variable'],
             'bound': '17 expressions: context keys, typed formal parameters and named parameters that begin with a bound name or are spelled like an operator expression of bound names (taken whole: they are followed by a colon); for / some / every over bound one- and two-word names whose body uses the `in` operator on names again (the variable ends before the FIRST `in`), and iteration variables spelled like an '
                      'operator expression of bound names (a-b, a+b, a*b) followed by that expression outside the construct (the name ends with its construct)'}],
}
# C01: a filter / path over bound lists and contexts answers by the VALUES bound (entry names inside bound values resolve whatever the position
# of the item that carries them): the same stand-in decides that clause
BOUNDED['C01'] = [BOUNDED['C10'][0]]
UNIT['lemma_props'] = sorted(set(UNIT.get('lemma_props', []) + ['C01']))   # the unit serves C01 through this stand-in only
NOT_DECIDED = {'C10': ['flatten_name_parts, Name::new, FeelContext::flatten_keys are string code (trim, join, replace, format!): named by uninterpreted functions in the contract; their agreement is only checked by the bounded stand-in',
                       'names whose first word is `item` and names before `in` in iteration contexts follow the two tweaks spelled out in the contract (code-derived), not the longest-match rule',
                       'which grammar positions call consume_name (read_next_token) and how the parser uses the Name token; names ending in a symbol or with two adjacent symbols (outside the property\'s domain) do not resolve',
                       ]}
ASSUMPTIONS = ['A-str: flatten_name_parts / Name::from(Vec<String>) / Name::from(&str) / Scope::flatten_keys are deterministic functions of their arguments (uninterpreted flat, name_of_parts, name_of_str, scope_keys)',
               'A-std: HashSet<String>::contains decides membership by character sequence (String key model axioms); Vec::truncate, slice_subrange, String::push/clone specs of vstd',
               'R13: parts.iter().position(|v| v == "in").filter(|i| *i > 0) is the index of the first part equal to "in" unless that is part 0 (stub position_of_in)',
               'R11: String == &str compares character sequences; matches!(name.to_string().as_str(), ..) compares the name text with the listed literals (stubs)']
