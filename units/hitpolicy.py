"""Unit `hitpolicy`: model-evaluator/src/builders/decision_table.rs hit policies (C03, C12)."""
import os, sys
sys.path.insert(0, os.path.dirname(os.path.abspath(__file__)))
import _common as C
T = 'model-evaluator/src/builders/decision_table.rs'
V = 'feel/src/values.rs'
P = ['C03']
A = ['C03', 'C12', 'C05']
R3 = ('R3',)
PRE = 'broadcast use vstd::std_specs::btree::group_btree_axioms;\nbroadcast use axiom_value_same_refl;\nproof { axiom_name_key(); }'

def tfn(name, **kw):
    d = {'kind': 'fn', 'src': T, 'path': 'impl EvaluatedDecisionTable::fn ' + name, 'key': 'hitpolicy::' + name, 'props': P, 'auto_props': A, 'loops': 0, 'ret': 'r',
         'rewrites': [R3], 'sig_rewrite': [(r'^(\s*)fn ', r'\1pub fn ')], 'body_prefix': PRE}
    d.update(kw)
    return d

MR = 'matching(*self)'
HP = PRE + '\nproof { lemma_matching_wf(*self); }'
NOMATCH = 'matching(*self).len() == 0 ==> default_ok(*self, r)'
UNIT = {
    'name': 'hitpolicy',
    'uses': C.USES + ['use std::cmp::Ordering;'],
    'parts': C.NAME + C.FEELTYPE + [
        {'kind': 'text', 'text': 'pub uninterp spec fn equiv(a: FeelType, b: FeelType) -> bool;', 'note': 'unused-here'},
        {'kind': 'item', 'src': 'feel/src/context.rs', 'path': 'type FeelContextEntries'},
        {'kind': 'item', 'src': 'feel/src/context.rs', 'path': 'struct FeelContext',
         'rewrites': [('RX', 'R7', r'pub struct FeelContext\(FeelContextEntries\)', 'pub struct FeelContext(pub FeelContextEntries)', 1)]},
        {'kind': 'item', 'src': V, 'path': 'struct Values',
         'rewrites': [('RX', 'R7', r'pub struct Values\(Vec<Value>\)', 'pub struct Values(pub Vec<Value>)', 1)]},
        {'kind': 'item', 'src': V, 'path': 'enum Value'},
        {'kind': 'item', 'src': V, 'path': 'macro_rules! value_null'},
        {'kind': 'vrs', 'file': 'hitpolicy/prelude.vrs'},
        {'kind': 'vrs', 'file': 'common/value_traits.vrs'},
        {'kind': 'item', 'src': T, 'path': 'struct EvaluatedRule',
         'rewrites': [('RX', 'R7', r'struct EvaluatedRule', 'pub struct EvaluatedRule', 1), ('RX', 'R7', r'\n  (matches|output_entry_values):', r'\n  pub \1:', 2)]},
        {'kind': 'item', 'src': T, 'path': 'struct EvaluatedDecisionTable',
         'rewrites': [('RX', 'R7', r'struct EvaluatedDecisionTable', 'pub struct EvaluatedDecisionTable', 1), ('RX', 'R7', r'\n  (component_names|output_values|default_output_values|evaluated_rules):', r'\n  pub \1:', 4)]},
        {'kind': 'item', 'src': 'model/src/model/mod.rs', 'path': 'enum BuiltinAggregator'},
        {'kind': 'item', 'src': 'model/src/model/mod.rs', 'path': 'enum HitPolicy'},
        {'kind': 'vrs', 'file': 'common/seq_filter.vrs'},
        {'kind': 'vrs', 'file': 'hitpolicy/spec.vrs'},
        {'kind': 'fn', 'src': V, 'path': 'impl Values::fn as_vec', 'key': 'hitpolicy::Values::as_vec', 'props': P, 'auto_props': A, 'ret': 'r', 'ensures': [('post', '*r == self.0')], 'loops': 0},
        {'kind': 'fn', 'src': V, 'path': 'impl Values::fn new', 'key': 'hitpolicy::Values::new', 'props': P, 'auto_props': A, 'ret': 'r', 'ensures': [('post', 'r.0 == values')], 'loops': 0},
        {'kind': 'fn', 'src': 'feel/src/context.rs', 'path': 'impl FeelContext::fn set_entry', 'key': 'hitpolicy::FeelContext::set_entry',
         'props': P, 'auto_props': A, 'loops': 0, 'body_prefix': PRE,
         'ensures': [('post', 'final(self).0@ == old(self).0@.insert(*name, value)')]},
        tfn('get_matching_rules',
            rewrites=[R3, ('RX', 'R13', r'self\.evaluated_rules\.iter\(\)\.filter\(\|evaluated_rule\| (evaluated_rule\.matches)\)\.collect\(\)',
                           r'iter_filter_collect(&self.evaluated_rules, |evaluated_rule: &&EvaluatedRule| -> (b: bool) ensures b == evaluated_rule.matches { \1 })', 1)],
            ensures=[('matching_in_rule_order', 'r@.len() == matching(*self).len() && forall |i: int| 0 <= i < r@.len() ==> *(#[trigger] r@[i]) == matching(*self)[i]')]),
        tfn('evaluate_default_output_value', ensures=[('default_if_exactly_one', 'default_ok(*self, r)')]),
        tfn('get_result', props=['C03', 'C12'],
            requires=[('has_output', 'evaluated_rule.output_entry_values@.len() >= 1')],
            rewrites=[R3, ('R1', 0), ('RX', 'R11', r'let mut result: FeelContext = Default::default\(\);', 'let mut result: FeelContext = feel_context_default();', 1)],
            loops=1,
            ensures=[('rule_output', 'rule_result_ok(*self, *evaluated_rule, r)')],
            loop_specs={0: {'invariant': [
                ('lens', 'evaluated_rule.output_entry_values@.len() == self.component_names@.len()'),
                ('keys_so_far', 'forall |j: int| 0 <= j < i ==> result.0@.contains_key(#[trigger] self.component_names@[j])'),
                ('only_names', 'forall |k: Name| #[trigger] result.0@.contains_key(k) ==> exists |j: int| 0 <= j < i && self.component_names@[j] == k'),
                ('last_wins', 'forall |j: int| 0 <= j < i && (forall |m: int| j < m < i ==> self.component_names@[m] != self.component_names@[j]) ==> result.0@[#[trigger] self.component_names@[j]] == evaluated_rule.output_entry_values@[j]')],
                'body_prefix': PRE}}),
        tfn('get_results', loops=1, props=['C03', 'C12'],
            requires=[('have_outputs', 'forall |i: int| 0 <= i < evaluated_rules@.len() ==> (#[trigger] evaluated_rules@[i]).output_entry_values@.len() >= 1')],
            ensures=[('results_in_order', 'results_ok(*self, evaluated_rules@.map_values(|x: &EvaluatedRule| *x), r)')],
            rewrites=[R3, ('RX', 'R14', r'let mut values = vec!\[\];', 'let mut values: Vec<Value> = vec![];', 1)],
            loop_specs={0: {'iter_name': 'it', 'invariant': [
                ('seq', 'it.seq() =~= evaluated_rules@.map_values(|x: &EvaluatedRule| &x)'),
                ('have_outputs', 'forall |i: int| 0 <= i < evaluated_rules@.len() ==> (#[trigger] evaluated_rules@[i]).output_entry_values@.len() >= 1'),
                ('so_far', 'values@.len() == it.index@ && forall |j: int| 0 <= j < it.index@ ==> rule_result_ok(*self, *evaluated_rules@[j], #[trigger] values@[j])')],
                'body_prefix': 'proof { assert(*evaluated_rule == evaluated_rules@[it.index@ as int]); }'}}),
        tfn('evaluate_hit_policy_unique', requires=[('wf', 'tbl_wf(*self)')], body_prefix=HP,
            ensures=[('no_match_default', NOMATCH),
                     ('single_match', '%s.len() == 1 ==> rule_result_ok(*self, %s[0], r)' % (MR, MR)),
                     ('several_matches_null', '%s.len() > 1 ==> r is Null' % MR)]),
        tfn('evaluate_hit_policy_first', requires=[('wf', 'tbl_wf(*self)')], body_prefix=HP,
            ensures=[('no_match_default', NOMATCH), ('first_match', '%s.len() >= 1 ==> rule_result_ok(*self, %s[0], r)' % (MR, MR))]),
        tfn('evaluate_hit_policy_rule_order', requires=[('wf', 'tbl_wf(*self)')], body_prefix=HP,
            ensures=[('no_match_default', NOMATCH), ('all_matches_in_rule_order', '%s.len() >= 1 ==> results_ok(*self, %s, r)' % (MR, MR))]),
        tfn('evaluate_hit_policy_collect_list', requires=[('wf', 'tbl_wf(*self)')], body_prefix=HP,
            ensures=[('no_match_default', NOMATCH), ('all_matches_in_rule_order', '%s.len() >= 1 ==> results_ok(*self, %s, r)' % (MR, MR))]),
        tfn('evaluate_hit_policy_collect_count', requires=[('wf', 'tbl_wf(*self)')], body_prefix=HP,
            rewrites=[R3, ('RX', 'R11', r'Value::Number\(matching_rules\.len\(\)\.into\(\)\)', 'Value::Number(num_from_usize(matching_rules.len()))', 1)],
            ensures=[('no_match_default', NOMATCH), ('count_of_matches', '%s.len() >= 1 ==> r is Number && num_as_int(r->Number_0) == Some(%s.len() as int)' % (MR, MR))]),
        tfn('evaluate_hit_policy_collect_sum', requires=[('wf', 'tbl_wf(*self)')], body_prefix=HP,
            rewrites=[R3, ('RX', 'R10', r'\|evaluated_rule\| evaluated_rule\.output_entry_values\[0\]\.clone\(\)',
                           '|evaluated_rule: &&EvaluatedRule| -> (v: Value) requires evaluated_rule.output_entry_values@.len() >= 1 ensures v == evaluated_rule.output_entry_values@[0] { evaluated_rule.output_entry_values[0].clone() }', 1),
                      ('RX', 'R11', r'dmntk_feel_evaluator::evaluate_sum\(', 'evaluate_sum(', 1)],
            ensures=[('compound_null', 'self.component_names@.len() > 1 ==> r is Null'),
                     ('no_match_default', '(self.component_names@.len() <= 1 && %s.len() == 0) ==> default_ok(*self, r)' % MR),
                     ('aggregate_of_first_outputs', '(self.component_names@.len() <= 1 && %s.len() >= 1) ==> r == spec_sum(first_outputs(%s))' % (MR, MR))],
            splices=[{'id': 'collected_first_outputs', 'op': 'before', 'anchor': 'evaluate_sum(output_values)', 'text': 'proof { assert(output_values@ =~= first_outputs(matching(*self))); }'}]),
        tfn('evaluate_hit_policy_collect_min', requires=[('wf', 'tbl_wf(*self)')], body_prefix=HP,
            rewrites=[R3, ('RX', 'R10', r'\|evaluated_rule\| evaluated_rule\.output_entry_values\[0\]\.clone\(\)',
                           '|evaluated_rule: &&EvaluatedRule| -> (v: Value) requires evaluated_rule.output_entry_values@.len() >= 1 ensures v == evaluated_rule.output_entry_values@[0] { evaluated_rule.output_entry_values[0].clone() }', 1),
                      ('RX', 'R11', r'dmntk_feel_evaluator::evaluate_min\(', 'evaluate_min(', 1)],
            ensures=[('compound_null', 'self.component_names@.len() > 1 ==> r is Null'),
                     ('no_match_default', '(self.component_names@.len() <= 1 && %s.len() == 0) ==> default_ok(*self, r)' % MR),
                     ('aggregate_of_first_outputs', '(self.component_names@.len() <= 1 && %s.len() >= 1) ==> r == spec_min(first_outputs(%s))' % (MR, MR))],
            splices=[{'id': 'collected_first_outputs', 'op': 'before', 'anchor': 'evaluate_min(output_values)', 'text': 'proof { assert(output_values@ =~= first_outputs(matching(*self))); }'}]),
        tfn('evaluate_hit_policy_collect_max', requires=[('wf', 'tbl_wf(*self)')], body_prefix=HP,
            rewrites=[R3, ('RX', 'R10', r'\|evaluated_rule\| evaluated_rule\.output_entry_values\[0\]\.clone\(\)',
                           '|evaluated_rule: &&EvaluatedRule| -> (v: Value) requires evaluated_rule.output_entry_values@.len() >= 1 ensures v == evaluated_rule.output_entry_values@[0] { evaluated_rule.output_entry_values[0].clone() }', 1),
                      ('RX', 'R11', r'dmntk_feel_evaluator::evaluate_max\(', 'evaluate_max(', 1)],
            ensures=[('compound_null', 'self.component_names@.len() > 1 ==> r is Null'),
                     ('no_match_default', '(self.component_names@.len() <= 1 && %s.len() == 0) ==> default_ok(*self, r)' % MR),
                     ('aggregate_of_first_outputs', '(self.component_names@.len() <= 1 && %s.len() >= 1) ==> r == spec_max(first_outputs(%s))' % (MR, MR))],
            splices=[{'id': 'collected_first_outputs', 'op': 'before', 'anchor': 'evaluate_max(output_values)', 'text': 'proof { assert(output_values@ =~= first_outputs(matching(*self))); }'}]),
        {'kind': 'text', 'note': 'assumed-contract', 'text': """impl EvaluatedDecisionTable {
  // sort_by with a comparator closure that captures self (zip / position over output values) is outside the
  // verifier's reach: ASSUMED to return the matching rules in some order `prioritized(self)` (a permutation).
  #[verifier::external_body]
  pub fn get_matching_rules_prioritized(&self) -> (r: Vec<&EvaluatedRule>)
    ensures r@.len() == prioritized(*self).len(), forall |i: int| 0 <= i < r@.len() ==> *(#[trigger] r@[i]) == prioritized(*self)[i]
  { unimplemented!() }
}"""},
        tfn('evaluate_hit_policy_priority', requires=[('wf', 'tbl_wf(*self)')], body_prefix=HP + '\nproof { lemma_prioritized_wf(*self); }',
            ensures=[('no_match_default', NOMATCH), ('highest_priority_match', '%s.len() >= 1 ==> rule_result_ok(*self, prioritized(*self)[0], r)' % MR)]),
        tfn('evaluate_hit_policy_output_order', requires=[('wf', 'tbl_wf(*self)')], body_prefix=HP + '\nproof { lemma_prioritized_wf(*self); }',
            ensures=[('no_match_default', NOMATCH), ('all_matches_in_priority_order', '%s.len() >= 1 ==> results_ok(*self, prioritized(*self), r)' % MR)]),
        tfn('evaluate_hit_policy_any', requires=[('wf', 'tbl_wf(*self)')], body_prefix=HP, loops=1,
            ensures=[('no_match_default', NOMATCH),
                     ('first_output_or_null', '%s.len() >= 1 ==> r is Null || rule_result_ok(*self, %s[0], r)' % (MR, MR)),
                     ('single_output_all_equal', '(%s.len() >= 1 && (forall |i: int| 0 <= i < %s.len() ==> (#[trigger] %s[i]).output_entry_values@.len() == 1)) ==> '
                                                 '((forall |i: int| 0 <= i < %s.len() ==> value_same((#[trigger] %s[i]).output_entry_values@[0], %s[0].output_entry_values@[0])) ==> r == %s[0].output_entry_values@[0]) '
                                                 '&& ((exists |i: int| 0 <= i < %s.len() && !value_same((#[trigger] %s[i]).output_entry_values@[0], %s[0].output_entry_values@[0])) ==> r is Null)' % ((MR,)*10))],
            loop_specs={0: {'iter_name': 'it', 'invariant': [
                ('seq', 'it.seq().len() == matching(*self).len() && forall |j: int| 0 <= j < it.seq().len() ==> *(#[trigger] it.seq()[j]) == matching(*self)[j]'),
                ('wfm', 'forall |i: int| 0 <= i < matching(*self).len() ==> (#[trigger] matching(*self)[i]).output_entry_values@.len() >= 1'),
                ('first', 'matching(*self).len() >= 1 && rule_result_ok(*self, matching(*self)[0], first_result)'),
                ('same_so_far', '(forall |i: int| 0 <= i < matching(*self).len() ==> (#[trigger] matching(*self)[i]).output_entry_values@.len() == 1) ==> forall |j: int| 0 <= j < it.index@ ==> value_same((#[trigger] matching(*self)[j]).output_entry_values@[0], matching(*self)[0].output_entry_values@[0])')],
                'body_prefix': PRE + '\nproof { assert(*evaluated_rule == matching(*self)[it.index@ as int]); }'}}),
        {'kind': 'closure', 'src': T, 'path': 'fn build_decision_table_evaluator', 'name': 'decision_table_result', 'key': 'hitpolicy::build_decision_table_evaluator',
         'props': P, 'auto_props': A, 'loops': 0, 'ret': 'r',
         'extra_params': ['hit_policy: HitPolicy', 'evaluated_decision_table: EvaluatedDecisionTable'],
         'rewrites': [('RX', 'R4', r'\s*let evaluated_decision_table = evaluate_parsed_decision_table\(scope, &parsed_decision_table\);', '', 1)],
         'requires': [('wf', 'tbl_wf(evaluated_decision_table)')],
         'ensures': [('result_prescribed_by_hit_policy', 'hit_policy_ok(evaluated_decision_table, hit_policy, r)')]},
        {'kind': 'item', 'src': T, 'path': 'struct ParsedRule',
         'rewrites': [('RX', 'R7', r'struct ParsedRule', 'pub struct ParsedRule', 1), ('RX', 'R7', r'\n  (input_entries_evaluators|output_entries_evaluators):', r'\n  pub \1:', 2)]},
        {'kind': 'item', 'src': T, 'path': 'struct ParsedDecisionTable',
         'rewrites': [('RX', 'R7', r'struct ParsedDecisionTable', 'pub struct ParsedDecisionTable', 1), ('RX', 'R7', r'\n  (component_names|output_values_evaluators|default_output_values_evaluators|rules):', r'\n  pub \1:', 4)]},
        {'kind': 'fn', 'src': V, 'path': 'impl Value::fn is_true', 'key': 'hitpolicy::Value::is_true', 'props': P, 'auto_props': A, 'ret': 'r', 'loops': 0,
         'ensures': [('is_true', 'r == (*self == Value::Boolean(true))')]},
    ] + C.value_api('hitpolicy', P, A, skip=('is_true',)) + [
        {'kind': 'fn', 'src': T, 'path': 'fn evaluate_parsed_decision_table', 'key': 'hitpolicy::evaluate_parsed_decision_table', 'props': P, 'auto_props': A, 'ret': 'r',
         'sig_rewrite': [(r'^(\s*)fn ', r'\1pub fn ')],
         'rewrites': [('R16', 1), ('R16', 0), ('RX', 'R8e', r'\bevaluator\(scope\)', 'evaluator.call(scope)', 4),
                      ('RX', 'R14', r'let mut evaluated_rules = vec!\[\];', 'let mut evaluated_rules: Vec<EvaluatedRule> = vec![];', 1),
                      ('RX', 'R14', r'let mut output_entry_values = vec!\[\];', 'let mut output_entry_values: Vec<Value> = vec![];', 1),
                      ('RX', 'R14', r'let mut input_entry_values = vec!\[\];', 'let mut input_entry_values: Vec<Value> = vec![];', 1)],
         'loops': 5,
         'ensures': [('one_evaluated_rule_per_rule', 'r.evaluated_rules@.len() == parsed_decision_table.rules@.len()'),
                     ('matches_iff_every_input_entry_is_true', 'forall |i: int| 0 <= i < r.evaluated_rules@.len() ==> (#[trigger] r.evaluated_rules@[i]).matches == '
                      '(forall |j: int| 0 <= j < parsed_decision_table.rules@[i].input_entries_evaluators@.len() ==> eval_of(#[trigger] parsed_decision_table.rules@[i].input_entries_evaluators@[j], *scope) == Value::Boolean(true))'),
                     ('outputs_evaluated_in_order', 'forall |i: int| 0 <= i < r.evaluated_rules@.len() ==> (#[trigger] r.evaluated_rules@[i]).output_entry_values@.len() == parsed_decision_table.rules@[i].output_entries_evaluators@.len() '
                      '&& forall |j: int| 0 <= j < r.evaluated_rules@[i].output_entry_values@.len() ==> #[trigger] r.evaluated_rules@[i].output_entry_values@[j] == eval_of(parsed_decision_table.rules@[i].output_entries_evaluators@[j], *scope)'),
                     ('component_names_kept', 'r.component_names@ =~= parsed_decision_table.component_names@')],
         'loop_specs': {
             2: {'iter_name': 'itr', 'invariant': [
                 ('seq', 'itr.seq() =~= parsed_decision_table.rules@.map_values(|x: ParsedRule| &x)'),
                 ('so_far', 'evaluated_rules@.len() == itr.index@'),
                 ('matches_ok', 'forall |i: int| 0 <= i < evaluated_rules@.len() ==> (#[trigger] evaluated_rules@[i]).matches == '
                  '(forall |j: int| 0 <= j < parsed_decision_table.rules@[i].input_entries_evaluators@.len() ==> eval_of(#[trigger] parsed_decision_table.rules@[i].input_entries_evaluators@[j], *scope) == Value::Boolean(true))'),
                 ('outputs_ok', 'forall |i: int| 0 <= i < evaluated_rules@.len() ==> (#[trigger] evaluated_rules@[i]).output_entry_values@.len() == parsed_decision_table.rules@[i].output_entries_evaluators@.len() '
                  '&& forall |j: int| 0 <= j < evaluated_rules@[i].output_entry_values@.len() ==> #[trigger] evaluated_rules@[i].output_entry_values@[j] == eval_of(parsed_decision_table.rules@[i].output_entries_evaluators@[j], *scope)')],
                 'body_prefix': 'proof { assert(*parsed_rule == parsed_decision_table.rules@[itr.index@ as int]); }'},
             3: {'iter_name': 'iti', 'invariant': [
                 ('seq', 'iti.seq() =~= parsed_rule.input_entries_evaluators@.map_values(|x: Evaluator| &x)'),
                 ('conj', 'matches == (forall |j: int| 0 <= j < iti.index@ ==> eval_of(#[trigger] parsed_rule.input_entries_evaluators@[j], *scope) == Value::Boolean(true))')],
                 'body_prefix': 'proof { assert(*evaluator == parsed_rule.input_entries_evaluators@[iti.index@ as int]); }'},
             4: {'iter_name': 'ito', 'invariant': [
                 ('seq', 'ito.seq() =~= parsed_rule.output_entries_evaluators@.map_values(|x: Evaluator| &x)'),
                 ('outs', 'output_entry_values@.len() == ito.index@ && forall |j: int| 0 <= j < ito.index@ ==> #[trigger] output_entry_values@[j] == eval_of(parsed_rule.output_entries_evaluators@[j], *scope)')],
                 'body_prefix': 'proof { assert(*evaluator == parsed_rule.output_entries_evaluators@[ito.index@ as int]); }'},
         },
         },
        {'kind': 'closure', 'src': T, 'path': 'impl EvaluatedDecisionTable::fn get_matching_rules_prioritized', 'key': 'hitpolicy::priority_compare',
         # C12: sort_by panics on a comparator that is not a total order (more than 20 matching rules): the comparator IS prio_cmp, which is antisymmetric (lemma)
         'name': 'priority_compare', 'props': ['C03', 'C12'], 'auto_props': A, 'ret': 'r', 'attrs': '#[verifier::rlimit(200)]',
         'closure_header': r'let compare = \|x: &&EvaluatedRule, y: &&EvaluatedRule\| \{',
         'signature': 'pub fn priority_compare(&self, x: &&EvaluatedRule, y: &&EvaluatedRule) -> core::cmp::Ordering',
         'impl_header': 'impl EvaluatedDecisionTable {',
         'rewrites': [('RX', 'R13', r'self\.output_values\.iter\(\)\.position\(\|o\| o == (v1|v2)\)', r'position_of(&self.output_values, \1)', 2)],
         'loops': 1,
         'ensures': [('output_value_priority_order', 'r == prio_cmp(self.output_values@, x.output_entry_values@, y.output_entry_values@, 0)')],
         'loop_specs': {0: {'iter_name': 'itz', 'invariant': [
             ('zip_len', 'itz.seq().len() == (if x.output_entry_values@.len() <= y.output_entry_values@.len() { x.output_entry_values@.len() } else { y.output_entry_values@.len() })'),
             ('zip_elems', 'forall |j: int| 0 <= j < itz.seq().len() ==> *(#[trigger] itz.seq()[j]).0 == x.output_entry_values@[j] && *itz.seq()[j].1 == y.output_entry_values@[j]'),
             ('tie_so_far', 'prio_cmp(self.output_values@, x.output_entry_values@, y.output_entry_values@, 0) == prio_cmp(self.output_values@, x.output_entry_values@, y.output_entry_values@, itz.index@ as int)')],
             'body_prefix': 'proof { assert(*v1 == x.output_entry_values@[itz.index@ as int] && *v2 == y.output_entry_values@[itz.index@ as int]); }',
             'body_suffix_unused': ''}},
         'splices': [{'id': 'ranks', 'op': 'before', 'anchor': 'match (index1, index2) {',
                      'text': 'proof {\n  if index1 is Some { lemma_out_rank(self.output_values@, *v1, index1->Some_0 as int); }\n  if index2 is Some { lemma_out_rank(self.output_values@, *v2, index2->Some_0 as int); }\n}'}],
         },
    ],
}

NOT_DECIDED = {
    'C03': [
        'the comparator of get_matching_rules_prioritized (sort_by with a closure capturing self): PRIORITY / OUTPUT ORDER are decided relative to an uninterpreted permutation `prioritized` of the matching rules',
        'that a rule matches exactly when every input entry is satisfied (evaluate_parsed_decision_table calls boxed dyn Fn evaluators) and the unary-test semantics of input entries',
        'ANY with compound outputs: only "the first matching rule\'s output or null" is decided (context results are specified relationally)',
        'a table with several output clauses and default output entries answers null on no match (only a single default is returned)',
        'FEEL sum/min/max over the collected outputs (uninterpreted aggregates)',
    ],
    'C12': ['the hit-policy functions never index out of bounds given every rule has at least one output value; parse_decision_table rejects a table without outputs or with a rule of the wrong arity and yields one evaluator per entry (its parsing callees are opaque)'],
}
ASSUMPTIONS = [
    'A-std (R13): iter().filter(f).collect() keeps exactly the elements satisfying f, in order (stub iter_filter_collect; closure kept and verified against its own ensures)',
    'A-derive: Value == Value is an equivalence-like relation value_same (reflexive); Clone returns an equal value; FeelContext default is empty',
    'get_matching_rules_prioritized returns a permutation of the matching rules (assumed contract)',
    'R1, R3, R4 (dispatch closure lifted: hit_policy and the evaluated table become parameters), R7, R10, R11, R14',
]


PDT_INV = 'input_expressions_and_values@.len() == decision_table.input_clauses@.len() && output_values_nodes@.len() == decision_table.output_clauses@.len() && default_output_values_nodes@.len() == decision_table.output_clauses@.len() && output_values_nodes@.len() >= 1'
UNIT['parts'] += [
    {'kind': 'vrs', 'file': 'hitpolicy/parse.vrs'},
    {'kind': 'fn', 'src': T, 'path': 'fn parse_decision_table', 'key': 'hitpolicy::parse_decision_table', 'props': ['C12'], 'auto_props': ['C12', 'C05'], 'loops': 8, 'ret': 'r',
     'sig_rewrite': [(r'^(\s*)fn ', r'\1pub fn ')],
     'rewrites': [('RX', 'R11', r'dmntk_feel_parser::', '', None), ('RX', 'R11', r'dmntk_feel_evaluator::prepare', 'prepare', None), ('RX', 'R11', r'crate::errors::', '', None),
                  ('RX', 'R14', r'let mut input_expressions_and_values = vec!\[\];', 'let mut input_expressions_and_values: Vec<(AstNode, Option<AstNode>)> = vec![];', 1),
                  ('RX', 'R14', r'let mut component_names = vec!\[\];', 'let mut component_names: Vec<Name> = vec![];', 1),
                  ('RX', 'R14', r'let mut output_values_nodes = vec!\[\];', 'let mut output_values_nodes: Vec<Option<AstNode>> = vec![];', 1),
                  ('RX', 'R14', r'let mut default_output_values_nodes = vec!\[\];', 'let mut default_output_values_nodes: Vec<Option<AstNode>> = vec![];', 1),
                  ('RX', 'R14', r'let mut parsed_rules = vec!\[\];', 'let mut parsed_rules: Vec<ParsedRule> = vec![];', 1),
                  ('RX', 'R14', r'let mut input_entries_evaluators = vec!\[\];', 'let mut input_entries_evaluators: Vec<Evaluator> = vec![];', 1),
                  ('RX', 'R14', r'let mut output_entries_evaluators = vec!\[\];', 'let mut output_entries_evaluators: Vec<Evaluator> = vec![];', 1),
                  ('RX', 'R14', r'let mut output_values_evaluators = vec!\[\];', 'let mut output_values_evaluators: Vec<Option<Evaluator>> = vec![];', 1),
                  ('RX', 'R14', r'let mut default_output_values_evaluators = vec!\[\];', 'let mut default_output_values_evaluators: Vec<Option<Evaluator>> = vec![];', 1),
                  ('RX', 'R11', r'AstNode::In\(Box::new\(([^()]*(?:\([^()]*\))?[^()]*)\), Box::new\(([^()]*(?:\([^()]*\))?[^()]*)\)\)', r'ast_in(\1, \2)', None),
                  ('RX', 'R11', r'AstNode::And\(Box::new\(left\), Box::new\(right\)\)', 'ast_and(left, right)', 1),
                  ('RX', 'R11', r'AstNode::Out\(Box::new\(output_entry_node\), Box::new\(output_value_node\.clone\(\)\)\)', 'ast_out(output_entry_node, output_value_node.clone())', 1),
                  ('RX', 'R2v', r'for input_clause in &decision_table\.input_clauses \{', 'for input_clause in decision_table.input_clauses.iter() {', 1),
                  ('RX', 'R2v', r'for output_clause in &decision_table\.output_clauses \{', 'for output_clause in decision_table.output_clauses.iter() {', 1),
                  ('RX', 'R2v', r'for rule in &decision_table\.rules \{', 'for rule in decision_table.rules.iter() {', 1),
                  ('RX', 'R2v', r'for opt_node in (output_values_nodes|default_output_values_nodes) \{', r'for opt_node in \1.iter() {', 2),
                  ('R1', 5), ('R1', 4), ('R1', 2)],
     'ensures': [('ill_fitting_rules_are_an_error', '!rules_fit(*decision_table) ==> r is Err'),
                 ('one_evaluator_per_entry', 'r is Ok ==> parsed_fits(*decision_table, r->Ok_0)')],
     'loop_specs': {
         0: {'iter_name': 'it0', 'invariant': [('collected', 'it0.seq().len() == decision_table.input_clauses@.len() && input_expressions_and_values@.len() == it0.index@')]},
         1: {'iter_name': 'it1', 'invariant': [('inputs', 'input_expressions_and_values@.len() == decision_table.input_clauses@.len()'),
                                               ('collected', 'it1.seq().len() == decision_table.output_clauses@.len() && output_values_nodes@.len() == it1.index@ && default_output_values_nodes@.len() == it1.index@')]},
         2: {'invariant': [('lens', PDT_INV), ('checked_so_far', 'forall |i: int| 0 <= i < rule_index ==> (#[trigger] decision_table.rules@[i]).input_entries@.len() == decision_table.input_clauses@.len() '
                                                                  '&& decision_table.rules@[i].output_entries@.len() == decision_table.output_clauses@.len()')]},
         3: {'iter_name': 'it3', 'invariant': [('lens', PDT_INV), ('fits', 'rules_fit(*decision_table)'),
                                               ('seq', 'it3.seq().len() == decision_table.rules@.len() && forall |j: int| 0 <= j < it3.seq().len() ==> *(#[trigger] it3.seq()[j]) == decision_table.rules@[j]'),
                                               ('parsed_so_far', 'parsed_rules@.len() == it3.index@ && forall |i: int| 0 <= i < parsed_rules@.len() ==> (#[trigger] parsed_rules@[i]).input_entries_evaluators@.len() == decision_table.input_clauses@.len() '
                                                                 '&& parsed_rules@[i].output_entries_evaluators@.len() == decision_table.output_clauses@.len()')],
             'body_prefix': 'proof { assert(*rule == decision_table.rules@[it3.index@ as int]); }'},
         4: {'invariant': [('lens', PDT_INV), ('rule', 'rule.input_entries@.len() == decision_table.input_clauses@.len()'), ('so_far', 'input_entries_evaluators@.len() == i')]},
         5: {'invariant': [('lens', PDT_INV), ('rule', 'rule.output_entries@.len() == decision_table.output_clauses@.len()'), ('so_far', 'output_entries_evaluators@.len() == i')]},
         6: {'iter_name': 'it6', 'invariant': [('so_far', 'it6.seq().len() == output_values_nodes@.len() && output_values_evaluators@.len() == it6.index@')]},
         7: {'iter_name': 'it7', 'invariant': [('so_far', 'it7.seq().len() == default_output_values_nodes@.len() && default_output_values_evaluators@.len() == it7.index@')]},
     },
     },
]

# ---------------------------------------------------------------- hit policy spellings: text-table markers and XML attributes
MM = 'model/src/model/mod.rs'
MP = 'model/src/model/parser.rs'
def _lit_arms(n):
    return ('RX', 'R23', r'(?m)^(\s*)("[^"]*") =>', r'\1_ if str_is(t_, \2) =>', n)
UNIT['parts'] += [
    {'kind': 'vrs', 'file': 'hitpolicy/markers.vrs'},
    {'kind': 'item', 'src': MP, 'path': 'const ATTR_HIT_POLICY', 'rewrites': [('RX', 'R7', r'const (\w+): &str =', r"pub const \1: &'static str =", 1)]},
    {'kind': 'item', 'src': MP, 'path': 'const ATTR_AGGREGATION', 'rewrites': [('RX', 'R7', r'const (\w+): &str =', r"pub const \1: &'static str =", 1)]},
    {'kind': 'fn', 'src': MM, 'path': 'impl TryFrom<&str> for HitPolicy::fn try_from', 'key': 'hitpolicy::HitPolicy::try_from_marker', 'props': ['C03', 'C19'], 'auto_props': ['C03', 'C19', 'C05'], 'loops': 0,
     'ret': 'r', 'no_wrap': True, 'body_prefix': 'proof { lemma_spellings(); }',
     'sig_rewrite': [(r'fn try_from\(value: &str\) -> \(r: Result<Self, Self::Error>\)', 'pub fn hit_policy_try_from_marker(value: &str) -> (r: Result<HitPolicy, DmntkError>)')],
     'rewrites': [('RX', 'R23', r'match value\.trim\(\) \{', 'let t_ = str_trim(value);\n    match () {', 1), _lit_arms(11),
                  ('RX', 'R23', r'other => Err\(invalid_decision_table_hit_policy\(other\)\)', '_ => Err(invalid_decision_table_hit_policy(t_))', 1)],
     'ensures': [('the_policy_the_marker_denotes', '(r is Ok) == (policy_of_marker(trimmed(value@)) is Some) && (r is Ok ==> r->Ok_0 == policy_of_marker(trimmed(value@))->Some_0)')]},
    {'kind': 'fn', 'src': MP, 'path': 'impl ModelParser::fn parse_aggregation_attribute', 'key': 'hitpolicy::ModelParser::parse_aggregation_attribute', 'props': ['C03'], 'auto_props': ['C03', 'C05'], 'loops': 0,
     'ret': 'r', 'body_prefix': 'proof { lemma_spellings(); }', 'sig_rewrite': [(r'^(\s*)fn ', r'\1pub fn ')],
     'rewrites': [('RX', 'R13', r'node\.attribute\(ATTR_AGGREGATION\)', 'node_attribute(node, ATTR_AGGREGATION)', 1),
                  ('RX', 'R23', r'match aggregation_text\.trim\(\) \{', 'let t_ = str_trim(aggregation_text);\n      match () {', 1), _lit_arms(4),
                  ('RX', 'R23', r'other => Err\(invalid_aggregation\(other\)\)', '_ => Err(invalid_aggregation(t_))', 1)],
     'ensures': [('the_aggregator_the_attribute_denotes', '(r is Ok) == (aggregator_of_attr(attr_of(*node, "aggregation"@)) is Some) && (r is Ok ==> r->Ok_0 == aggregator_of_attr(attr_of(*node, "aggregation"@))->Some_0)')]},
    {'kind': 'fn', 'src': MP, 'path': 'impl ModelParser::fn parse_hit_policy_attribute', 'key': 'hitpolicy::ModelParser::parse_hit_policy_attribute', 'props': ['C03'], 'auto_props': ['C03', 'C05'], 'loops': 0,
     'ret': 'r', 'body_prefix': 'proof { lemma_spellings(); }', 'sig_rewrite': [(r'^(\s*)fn ', r'\1pub fn ')],
     'rewrites': [('RX', 'R13', r'node\.attribute\(ATTR_HIT_POLICY\)', 'node_attribute(node, ATTR_HIT_POLICY)', 1),
                  ('RX', 'R23', r'match hit_policy_text\.trim\(\) \{', 'let t_ = str_trim(hit_policy_text);\n      match () {', 1), _lit_arms(7),
                  ('RX', 'R23', r'other => Err\(invalid_hit_policy\(other\)\)', '_ => Err(invalid_hit_policy(t_))', 1)],
     'ensures': [('the_policy_the_attributes_denote', '(r is Ok) == (policy_of_attrs(attr_of(*node, "hitPolicy"@), attr_of(*node, "aggregation"@)) is Some) '
                  '&& (r is Ok ==> r->Ok_0 == policy_of_attrs(attr_of(*node, "hitPolicy"@), attr_of(*node, "aggregation"@))->Some_0)')]},
]

BOUNDED = {'C12': [{'name': 'single-structural-faults-never-crash', 'script': 'modelfaults.py', 'args': [], 'quick_args': ['--cover'], 'thorough_args': ['--models', '1000'],
                    'functions': ['dmntk_model::parse', 'ModelEvaluator::new (all builders of model-evaluator)', 'ModelEvaluator::evaluate_invocable for every decision / knowledge model / decision service with an empty context'],
                    'bound': 'quick: the 19 example models of a greedy cover of every element name, attribute name and parent/child multiplicity used by the 148 shipped example models (thorough: all 148), each with every single fault of the kinds delete element, '
                             'duplicate element, empty text node, delete / empty attribute, set attribute to a foreign non-ASCII text (from an even and from an odd byte offset), empty an element of its children, swap an element with the sibling that follows it, retarget href to a missing id, to its own element, make the target require it back, '
                             'set a typeRef to the name of its own item definition (quick about 40 000 models, thorough about 180 000), plus 92 generated cyclic models (28 shapes and their variants with references written as `namespace#id`): parse + build + evaluate every invocable on the real code, '
                             'no panic and no crash of the process. The recursive example N_0088 is excluded (known finding: stack overflow).'}]}

BOUNDED['C03'] = [{'name': 'hit-policy-differential', 'script': 'hpdiff.py', 'args': [],
                   'functions': ['EvaluatedDecisionTable::evaluate_hit_policy_* (all 11)', 'get_matching_rules / get_matching_rules_prioritized / get_result', 'build_decision_table_evaluator', 'parse_decision_table'],
                   'bound': 'every decision table with one number input (single-output tables also with the allowed input values 1,2 declared: A = 3 then matches no rule, not even `-`), 1..3 rules (input entry 1, 2 or -), one or two output clauses with two possible values each and priority lists, under each of the 11 hit policies, single-output tables also with a default output entry (answered when no rule matches) and compound tables also with null output entries (the component stays, as null), evaluated for '
                            'A = 1, 2, 3 (67 038 evaluations through DMN XML on the real code) against the hit policy semantics of DMN 1.3 section 8.2.8 written out in Python; also decides the policies when a rewritten body leaves the extractor\'s reach'}]
