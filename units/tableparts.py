"""Unit `tableparts`: Recognizer::recognize_horizontal_table (recognizer/src/recognizer.rs, C19) - which cells of the plane become
the input expressions, allowed values, output label / component names, rule entries and annotations, for every header layout."""
RG = 'recognizer/src/recognizer.rs'
RC = 'recognizer/src/rect.rs'
M = 'model/src/model/mod.rs'
P = ['C19']
A = ['C19', 'C05']
PL = 'old(self).plane'
AX = 'broadcast use axiom_texts_fit, axiom_rows_fit;'
BASE = 'self.plane == old(self).plane && self.hit_policy == old(self).hit_policy && self.orientation == old(self).orientation && self.rule_count == old(self).rule_count && self.information_item_name == old(self).information_item_name'

def row_loop(field, idx, row, stage, extra=''):
    """`for col in r.left..r.right { self.FIELD.push(self.plane.region_text(ROW, col)?); }`"""
    inv = [('frame', BASE), ('earlier_parts', 'stage(%s, *self, %d)' % (PL, stage)), ('later_parts_untouched', 'later_empty(*self, %d)' % (idx + 1)),
           ('row_so_far', 'row_texts(%s, self.%s@, %s, r.left as int, col - r.left)' % (PL, field, row))]
    if extra:
        inv.append(('context', extra))
    return {'invariant': inv, 'body_prefix': AX}

def outer_loop(field, idx, stage, extra=''):
    extra = (extra + ' && ' if extra else '') + 'ordered(r)'
    inv = [('frame', BASE), ('earlier_parts', 'stage(%s, *self, %d)' % (PL, stage)), ('later_parts_untouched', 'later_empty(*self, %d)' % (idx + 1)),
           ('rows_so_far', 'rect_prefix(%s, self.%s@, r, row - r.top)' % (PL, field))]
    if extra:
        inv.append(('context', extra))
    return {'invariant': inv, 'body_prefix': AX}

def inner_loop(field, idx, stage, extra=''):
    extra = (extra + ' && ' if extra else '') + 'r.top <= row < r.bottom && ordered(r)'
    inv = [('frame', BASE), ('earlier_parts', 'stage(%s, *self, %d)' % (PL, stage)), ('later_parts_untouched', 'later_empty(*self, %d)' % (idx + 1)),
           ('row_in_progress', 'rect_prefix_open(%s, self.%s@, r, row - r.top, col - r.left)' % (PL, field))]
    if extra:
        inv.append(('context', extra))
    return {'invariant': inv, 'body_prefix': AX}

IN = 'self.input_clause_count == r.right - r.left && p_rect(%s, 0) == Some(r) && values_present(%s, r) == Some(input_values_present)' % (PL, PL)
OUTC = ('stage(%s, *self, 2) && p_rect(%s, 0) is Some && values_present(%s, p_rect(%s, 0)->Some_0) == Some(input_values_present) && p_rect(%s, 2) == Some(r) && self.output_clause_count == r.right - r.left'
        % (PL, PL, PL, PL, PL)) + ' && ordered(r) && r.right - r.left > 1'

LOOPS = {
    0: row_loop('input_expressions', 0, '0', 0, IN),
    1: row_loop('input_values', 1, 'r.bottom - 1', 0, IN + ' && row_texts(%s, self.input_expressions@, 0, r.left as int, r.right - r.left)' % PL),
    2: outer_loop('input_entries', 2, 1, 'p_rect(%s, 1) == Some(r)' % PL),
    3: inner_loop('input_entries', 2, 1, 'p_rect(%s, 1) == Some(r)' % PL),
    # output clauses: several outputs
    4: row_loop('output_components', 4, 'r.top as int', 2, OUTC + ' && self.output_label is None && r.bottom - r.top == 1'),
    5: row_loop('output_components', 4, 'r.top as int', 2, OUTC + ' && self.output_label is None && r.bottom - r.top == 2 && input_values_present'),
    6: row_loop('output_values', 5, 'r.top + 1', 2, OUTC + ' && self.output_label is None && r.bottom - r.top == 2 && input_values_present && row_texts(%s, self.output_components@, r.top as int, r.left as int, r.right - r.left)' % PL),
    7: row_loop('output_components', 4, 'r.top + 1', 2, OUTC + ' && r.bottom - r.top == 2 && !input_values_present && label_is(%s, *self, r.top as int, r.left as int)' % PL),
    8: row_loop('output_components', 4, 'r.top + 1', 2, OUTC + ' && r.bottom - r.top == 3 && label_is(%s, *self, r.top as int, r.left as int)' % PL),
    9: row_loop('output_values', 5, 'r.top + 2', 2, OUTC + ' && r.bottom - r.top == 3 && label_is(%s, *self, r.top as int, r.left as int) && row_texts(%s, self.output_components@, r.top + 1, r.left as int, r.right - r.left)' % (PL, PL)),
    10: outer_loop('output_entries', 6, 3, 'p_rect(%s, 3) == Some(r)' % PL),
    11: inner_loop('output_entries', 6, 3, 'p_rect(%s, 3) == Some(r)' % PL),
    12: row_loop('annotations', 7, 'r.top as int', 4, 'p_rect(%s, 4) == Some(r) && self.annotation_clause_count == r.right - r.left' % PL),
    13: outer_loop('annotation_entries', 8, 5, 'p_rect(%s, 5) == Some(r)' % PL),
    14: inner_loop('annotation_entries', 8, 5, 'p_rect(%s, 5) == Some(r)' % PL),
}
# rows 4..9 sit in branches after the label may have been set: the label is part 3, components 4, values 5
for k in (4, 5, 6, 7, 8, 9):
    for i, c in enumerate(LOOPS[k]['invariant']):
        if c[0] == 'later_parts_untouched':
            LOOPS[k]['invariant'][i] = ('later_parts_untouched', 'later_empty(*self, 6)' + ('' if k in (6, 9) else ' && self.output_values@.len() == 0'))

def mitem(name, **kw):
    d = {'kind': 'item', 'src': M, 'path': name}
    d.update(kw)
    return d

UNIT = {
    'name': 'tableparts',
    'uses': [],
    'parts': [
        mitem('enum BuiltinAggregator'), mitem('enum HitPolicy'), mitem('enum DecisionTableOrientation'),
        {'kind': 'item', 'src': RC, 'path': 'struct Rect'},
        {'kind': 'vrs', 'file': 'tableparts/prelude.vrs'},
        {'kind': 'item', 'src': RG, 'path': 'struct Recognizer'},
        {'kind': 'vrs', 'file': 'tableparts/spec.vrs'},
        {'kind': 'fn', 'src': RC, 'path': 'impl Rect::fn inc_top', 'key': 'tableparts::Rect::inc_top', 'props': P, 'auto_props': A, 'loops': 0, 'ret': 'r',
         'requires': [('no_overflow', 'self.top + offset <= usize::MAX')], 'ensures': [('moved_top', 'r == (Rect { left: self.left, top: (self.top + offset) as usize, right: self.right, bottom: self.bottom })')]},
        {'kind': 'fn', 'src': RC, 'path': 'impl Rect::fn width', 'key': 'tableparts::Rect::width', 'props': P, 'auto_props': A, 'loops': 0, 'ret': 'r',
         'requires': [('ordered', 'self.left <= self.right')], 'ensures': [('width', 'r == self.right - self.left')]},
        {'kind': 'fn', 'src': RC, 'path': 'impl Rect::fn height', 'key': 'tableparts::Rect::height', 'props': P, 'auto_props': A, 'loops': 0, 'ret': 'r',
         'requires': [('ordered', 'self.top <= self.bottom')], 'ensures': [('height', 'r == self.bottom - self.top')]},
        {'kind': 'fn', 'src': RG, 'path': 'impl Recognizer::fn recognize_horizontal_table', 'key': 'tableparts::Recognizer::recognize_horizontal_table', 'props': P, 'auto_props': A, 'loops': 15, 'ret': 'res',
         'attrs': '#[verifier::rlimit(400)]', 'sig_rewrite': [(r'^(\s*)fn ', r'\1pub fn ')], 'body_prefix': AX,
         'rewrites': [('RX', 'R13', r'self\.(input_entries|output_entries|annotation_entries)\.last_mut\(\)\.unwrap\(\)\.push\((self\.plane\.region_text\(row, col\)\?)\);', r'push_to_last_row(&mut self.\1, \2);', 3)],
         'requires': [('fresh', 'empty_parts(*old(self))')],
         'ensures': [('parts_as_drawn', 'res is Ok ==> stage(old(self).plane, *final(self), 6)'),
                     ('the_rest_is_kept', 'res is Ok ==> final(self).plane == old(self).plane && final(self).hit_policy == old(self).hit_policy && final(self).orientation == old(self).orientation '
                                          '&& final(self).rule_count == old(self).rule_count && final(self).information_item_name == old(self).information_item_name')],
         'loop_specs': LOOPS},
    ],
}
ASSUMPTIONS = ['A-rect: the rectangles the plane answers are ordered (left <= right, top <= bottom); proved for the two input rectangles in unit recognizer, assumed for the output / annotation rectangles',
               'the plane is an opaque source of rectangles, region texts and region comparisons here (uninterpreted p_rect / p_text / p_equal*), the same plane throughout',
               'R13: rows.last_mut().unwrap().push(text) as a named function']
