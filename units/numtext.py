"""Unit `numtext`: feel-number/src/number.rs - how a number becomes text (C07): scientific_to_plain turns the library's
to-scientific-string form into plain decimal text that denotes exactly the same value (a JSON number), for every finite decimal128 value;
Display / Jsonify hand exactly that text on; FromStr accepts a text iff the library reads a finite value from it."""
import os, re, sys
sys.path.insert(0, os.path.dirname(os.path.abspath(__file__)))
NR = 'feel-number/src/number.rs'
P = ['C07']
A = ['C07', 'C05']

def fmt_to_cat(m):
    """R24: `format!("lit{}lit{}..", a, b, ..)` with plain `{}` slots only -> `catN(piece, ..)`: the literal pieces and the Display text of the
    arguments (all of them strings here) in the order of the format string. Anything else is left alone (and then does not extract)."""
    inner = m.group(0)[len('format!('):-1]
    lm = re.match(r'\s*"((?:[^"\\]|\\.)*)"\s*(?:,(.*))?$', inner, re.S)
    if not lm:
        return m.group(0)
    lit, rest = lm.group(1), (lm.group(2) or '')
    if re.search(r'\{[^}]+\}', lit) or '{{' in lit or '}}' in lit:
        return m.group(0)
    args, depth, cur = [], 0, ''
    for ch in rest:
        if ch in '([{':
            depth += 1
        elif ch in ')]}':
            depth -= 1
        if ch == ',' and depth == 0:
            args.append(cur.strip()); cur = ''
        else:
            cur += ch
    if cur.strip():
        args.append(cur.strip())
    pieces = lit.split('{}')
    if len(pieces) - 1 != len(args):
        return m.group(0)
    out = []
    for i, pc in enumerate(pieces):
        if pc != '':
            out.append('"%s"' % pc)
        if i < len(args):
            out.append('%s.as_txt()' % args[i])
    if not (2 <= len(out) <= 4):
        return m.group(0)
    return 'cat%d(%s)' % (len(out), ', '.join(out))

def pat_lit(m):
    """a character pattern 'c' is the one-character string pattern "c" (std::str::pattern: a char matches exactly that character)"""
    p = m.group('pat')
    return '"%s"' % p[1:-1] if p.startswith("'") else p

TXT = [  # R24: str APIs -> stubs that state their documented meaning over the character sequence (A-std, contracts/numtext/prelude.vrs)
    ('RX', 'R24', r'format!\((?:[^()]|\((?:[^()]|\([^()]*\))*\))*\)', fmt_to_cat, None),
    ('RX', 'R24', r"\b(?P<recv>\w+)\.strip_prefix\((?P<c>'[^']+')\)", lambda m: 'str_strip_prefix_char(%s.as_txt(), %s)' % (m.group('recv'), m.group('c')), None),
    ('RX', 'R24', r"\b(?P<recv>\w+)\.contains\((?P<pat>\"[^\"]+\"|'[^']+')\)", lambda m: 'str_contains(%s.as_txt(), %s)' % (m.group('recv'), pat_lit(m)), None),
    ('RX', 'R24', r"\b(?P<recv>\w+)\.split\((?P<pat>\"[^\"]+\"|'[^']+')\)", lambda m: 'str_split(%s.as_txt(), %s)' % (m.group('recv'), pat_lit(m)), None),
    ('RX', 'R24', r'\busize::from_str\((\w+)\)', r'usize_from_str(\1)', None),
    ('RX', 'R24', r'\b(after_decimal|before_decimal|before_exponent|after_exponent)\.len\(\)', r'str_len(\1)', None),
    ('RX', 'R24', r'\((?P<lo>\w+)\.\.(?P<hi>\w+|\([^()]*(?:\([^()]*\)[^()]*)*\))\)\.map\(\|_\| "0"\)\.collect::<String>\(\)', lambda m: 'str_repeat_0(%s, %s)' % (m.group('lo'), m.group('hi')), None),
    ('RX', 'R24', r"\b(\w+)\.chars\(\)\.all\(\|(\w+)\| \2 == ('[^']+')\)", r'str_all_eq(\1, \3)', None),
]

FORALL = 'assert forall |neg: bool, d: Seq<char>, e: int| sci_text(s@, neg, d, e) implies #[trigger] plain_text(%s, neg, d, e) by { %s }'
def leaf(res, proof):
    return 'proof { ' + (FORALL % (res, proof)) + ' }'

PRE = ('proof { reveal_strlit("E+"); reveal_strlit("E-"); reveal_strlit("."); reveal_strlit("-"); reveal_strlit("0"); reveal_strlit("0.");\n'
       '  assert("E+"@ =~= EP()); assert("E-"@ =~= EM()); assert("."@ =~= DOT()); assert("-"@ =~= seq![\'-\']); assert("0"@ =~= seq![\'0\']); assert("0."@ =~= seq![\'0\', \'.\']); }\n'
       'let ghost (neg0, d0, e0) = choose |neg: bool, d: Seq<char>, e: int| sci_text(s@, neg, d, e);')

UNIT = {
    'name': 'numtext',
    'uses': [],
    'parts': [
        {'kind': 'vrs', 'file': 'numtext/prelude.vrs'},
        {'kind': 'vrs', 'file': 'numtext/spec.vrs'},
        {'kind': 'vrs', 'file': 'numtext/lemmas.vrs'},
        {'kind': 'item', 'src': NR, 'path': 'struct FeelNumber', 'rewrites': [('RX', 'R7', r'pub struct FeelNumber\(DecQuad\);', 'pub struct FeelNumber(pub DecQuad);', 1)]},
        {'kind': 'fn', 'src': NR, 'path': 'fn scientific_to_plain', 'key': 'numtext::scientific_to_plain', 'props': P + ['C18'], 'auto_props': A, 'loops': 0, 'ret': 'r',
         'sig_rewrite': [(r'^(\s*)fn ', r'\1pub fn ')],
         'rewrites': TXT,
         'requires': [('the_library_to_scientific_string_form', 'exists |neg: bool, d: Seq<char>, e: int| sci_text(s@, neg, d, e)')],
         'ensures': [('plain_decimal_text_that_denotes_exactly_the_value', 'forall |neg: bool, d: Seq<char>, e: int| sci_text(s@, neg, d, e) ==> #[trigger] plain_text(r@, neg, d, e)')],
         'decreases': 's@.len()',
         'body_prefix': PRE,
         'splices': [
             {'id': 'sign_stays_in_front', 'op': 'replace', 'rule': 'R25', 'anchor': 'return cat2("-", scientific_to_plain(unsigned.to_string()).as_txt());',
              'text': 'proof { if !neg0 { lemma_unsigned_first(s@, d0, e0); } assert(sci_text(unsigned@, false, d0, e0)); }\n'
                      '      let inner_ = scientific_to_plain(unsigned.to_string());\n'
                      '      ' + leaf("seq!['-'] + inner_@", 'if !neg { lemma_unsigned_first(s@, d, e); } assert(sci_text(unsigned@, false, d, e)); lemma_negate(inner_@, d, e, seq![\'-\'] + inner_@);') + '\n'
                      '      return cat2("-", inner_.as_txt());'},
             {'id': 'plain_notation_is_kept', 'op': 'before', 'anchor': 'if str_contains(s.as_txt(), "E+") {',
              'text': 'proof { assert(!neg0); if !occurs(s@, EP()) && !occurs(s@, EM()) { ' + (FORALL % ('s@',
                      'if !(e <= 0 && e + d.len() - 1 >= -6) { let x = lemma_sci_shape(s@, d, e); let h = sci_head(d); lemma_head(d); '
                      'if e + d.len() - 1 >= 0 { lemma_first_occ_at(h, EP(), x); } else { lemma_first_occ_at(h, EM(), x); } } lemma_plain_shape(s@, d, e);')) + ' } }'},
             {'id': 'positive_exponent_split', 'op': 'before', 'anchor': 'let mut split1 = str_split(s.as_txt(), "E+");', 'text': 'proof { lemma_exp_split(s@, d0, e0, EP()); }'},
             {'id': 'negative_exponent_split', 'op': 'before', 'anchor': 'let mut split1 = str_split(s.as_txt(), "E-");', 'text': 'proof { lemma_exp_split(s@, d0, e0, EM()); }'},
             {'id': 'digits_then_zeros', 'op': 'before', 'anchor': 'cat3(before_decimal.as_txt(), after_decimal.as_txt(), zeroes.as_txt())',
              'text': leaf('before_decimal@ + after_decimal@ + zeroes@', 'lemma_exp_split(s@, d, e, EP()); assert(d.subrange(0, 1) + d.subrange(1, d.len() as int) =~= d); lemma_leaf_big(d, e, before_decimal@ + after_decimal@ + zeroes@);')},
             {'id': 'zero_is_zero', 'op': 'before', 'anchor': 'to_string()', 'nth': -1,
              'text': leaf("seq!['0']", 'lemma_exp_split(s@, d, e, EP()); lemma_leaf_zero(d, e);')},
             {'id': 'digit_then_zeros', 'op': 'before', 'anchor': 'cat2(before_exponent.as_txt(), zeroes.as_txt())',
              'text': leaf('before_exponent@ + zeroes@', "lemma_exp_split(s@, d, e, EP()); assert(before_exponent@[0] != '0'); lemma_leaf_big(d, e, before_exponent@ + zeroes@);")},
             {'id': 'zeros_then_digits', 'op': 'before', 'anchor': 'cat4("0.", zeroes.as_txt(), before_decimal.as_txt(), after_decimal.as_txt())',
              'text': leaf('"0."@ + zeroes@ + before_decimal@ + after_decimal@', "lemma_exp_split(s@, d, e, EM()); assert(d.subrange(0, 1) + d.subrange(1, d.len() as int) =~= d); "
                           "assert(\"0.\"@ + zeroes@ + before_decimal@ + after_decimal@ =~= seq!['0', '.'] + zeros((-(e + d.len() - 1) - 1) as nat) + d); lemma_leaf_small(d, e, \"0.\"@ + zeroes@ + before_decimal@ + after_decimal@);")},
             {'id': 'zeros_then_digit', 'op': 'before', 'anchor': 'cat3("0.", zeroes.as_txt(), before_exponent.as_txt())',
              'text': leaf('"0."@ + zeroes@ + before_exponent@', 'lemma_exp_split(s@, d, e, EM()); lemma_leaf_small(d, e, "0."@ + zeroes@ + before_exponent@);')},
         ]},
        {'kind': 'fn', 'src': NR, 'path': 'impl Jsonify for FeelNumber::fn jsonify', 'key': 'numtext::FeelNumber::jsonify', 'props': P + ['C18'], 'auto_props': A, 'loops': 0, 'ret': 'r',
         'impl_header': 'impl FeelNumber {', 'sig_rewrite': [(r'^(\s*)fn ', r'\1pub fn ')],
         'requires': [('finite', 'i_finite(self.0)')],
         'ensures': [('a_json_number_with_exactly_the_value', 'plain_text(r@, q_neg(self.0), q_digits(self.0), q_exp(self.0))')]},
        {'kind': 'fn', 'src': NR, 'path': 'impl std::fmt::Display for FeelNumber::fn fmt', 'key': 'numtext::FeelNumber::fmt', 'props': P, 'auto_props': A, 'loops': 0,
         'impl_header': 'impl FeelNumber {',
         'sig_rewrite': [(r"f: &mut std::fmt::Formatter<'_>", 'f: &mut FmtSink'), (r'-> std::fmt::Result', '-> FmtResult'), (r'^(\s*)fn ', r'\1pub fn ')],
         'requires': [('finite', 'i_finite(self.0)')],
         'rewrites': [('RX', 'R5', r'write!\(f, "\{\}", (scientific_to_plain\(dec_to_string\(&self\.0\)\))\)', r'num_sink(f, \1, Ghost(self.0))', 1)]},
        {'kind': 'fn', 'src': NR, 'path': 'impl FromStr for FeelNumber::fn from_str', 'key': 'numtext::FeelNumber::from_str', 'props': P, 'auto_props': A, 'loops': 0, 'ret': 'r',
         'impl_header': 'impl FeelNumber {', 'sig_rewrite': [(r'^(\s*)fn ', r'\1pub fn '), (r'Self::Err', 'DmntkError')],
         'ensures': [('accepted_iff_the_library_reads_a_finite_value', '(r is Ok) == i_finite(q_from_text(s@))'),
                     ('the_value_the_library_reads', 'r is Ok ==> r->Ok_0.0 == q_from_text(s@)')]},
    ],
}

ASSUMPTIONS = [
    'A-C: for a finite value decQuadToString writes the to-scientific-string form of IEEE 754-2008 5.12.2 (General Decimal Arithmetic): optional "-", the coefficient digits without leading zeros, '
    'plain notation when exponent <= 0 and adjusted exponent >= -6, else one digit, "." and the other digits, "E", a sign and the adjusted exponent (spec sci_text); q_neg / q_digits / q_exp name sign, coefficient and exponent of the value',
    'A-C: decQuadFromString (q_from_text) and decQuadIsFinite are uninterpreted; that reading a plain text back gives an equal number is a fact about the C library (bounded stand-in only)',
    'A-std (R24): str::strip_prefix(char), contains, split(..).next(), usize::from_str on 1..18 digits, len on ASCII text, chars().all, (a..b).map(|_| "0").collect::<String>(), format! with {} slots, '
    'to_string mean what core documents, stated over the character sequence (stubs of contracts/numtext/prelude.vrs)',
    'R5: the text handed to write!(f, "{}", ..) is what Display prints; R21: trait methods verified as inherent methods; R25: a call nested in a format! argument is bound to a local first',
]
NOT_DECIDED = {'C07': ['the C side: decQuadToString / decQuadFromString themselves (A-C), so "reading the text back gives an equal number" and "a literal of up to 34 digits evaluates to exactly the value it denotes" rest on the bounded stand-in',
                       'the numeric arms of Lexer::read_next_token and build_numeric are under contract in units lexer and numlit; that the parser hands the token to build_numeric unchanged is wiring',
                       'non-finite values (the property is about finite numbers; C02 decides that no operation hands one out, with its known findings)'],
               'C18': ['serves the number leaf of the JSON rendering only (unit dto / the JSON stand-ins decide the rest)']}

BOUNDED = {
    'C07': [{'name': 'numbers-as-plain-text-differential', 'script': 'numtextdiff.py', 'args': [], 'thorough_args': ['--size', 'thorough'], 'seeded': True,
             'functions': ['FeelNumber::to_string / jsonify / from_str (decQuadToString, decQuadFromString, scientific_to_plain)', 'Lexer numeric token + build_numeric (literals)',
                           'Value::try_from_xsd_integer / _decimal / _double'],
             'bound': 'quick: about 28 000 texts (thorough: about 1.6 million): both signs x coefficient lengths 1..34 (with and without trailing zeros, zero coefficients) x exponents '
                      '(quick: every exponent in -80..80, every 61st beyond and the edges; thorough: every exponent -6176..6111) - the Display and JSON texts are plain decimal text, denote exactly the value '
                      '(exact comparison in CPython decimal) and read back as an equal number; 1 400 FEEL literals of 1..34 significant digits with the point at every position, and 170 xsd:integer / '
                      'decimal / double input texts (also with no digits on one side of the point), evaluate to exactly the value written (bounded duplicate of the Verus contract on scientific_to_plain, and the only check of the C library side)'}],
}
