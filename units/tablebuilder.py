"""Unit `tablebuilder`: recognizer/src/builder.rs (C19) - validate_size accepts exactly the recognised parts that fit together, and build
puts exactly these parts, in order, into the DecisionTable (the recognizer itself is an opaque source of parts here)."""
B = 'recognizer/src/builder.rs'
RG = 'recognizer/src/recognizer.rs'
M = 'model/src/model/mod.rs'
P = ['C19']
A = ['C19', 'C05']
ERRF = ('RX', 'R5', r'size_err\(&format!\(.*?\n\s*\)\)', 'size_err("")', None)

def mitem(name, **kw):
    d = {'kind': 'item', 'src': M, 'path': name}
    d.update(kw)
    return d

UNIT = {
    'name': 'tablebuilder',
    'uses': [],
    'parts': [
        mitem('enum BuiltinAggregator'), mitem('enum HitPolicy'), mitem('enum DecisionTableOrientation'),
        mitem('struct InputClause'), mitem('struct OutputClause'), mitem('struct RuleAnnotationClause'), mitem('struct InputEntry'), mitem('struct OutputEntry'), mitem('struct AnnotationEntry'),
        mitem('struct DecisionRule'), mitem('struct DecisionTable'),
        {'kind': 'vrs', 'file': 'tablebuilder/prelude.vrs'},
        {'kind': 'item', 'src': RG, 'path': 'struct Recognizer'},
        {'kind': 'item', 'src': B, 'path': 'struct Size', 'rewrites': [('RX', 'R7', r'struct Size', 'pub struct Size', 1), ('RX', 'R7', r'\n  (\w+): usize,', r'\n  pub \1: usize,', 7)]},
        {'kind': 'vrs', 'file': 'tablebuilder/spec.vrs'},
        {'kind': 'fn', 'src': B, 'path': 'fn size_err', 'key': 'tablebuilder::size_err', 'props': P, 'auto_props': A, 'loops': 0, 'ret': 'r', 'sig_rewrite': [(r'^(\s*)fn ', r'\1pub fn ')],
         'ensures': [('an_error', 'r is Err')]},
        {'kind': 'fn', 'src': B, 'path': 'fn validate_size', 'key': 'tablebuilder::validate_size', 'props': P, 'auto_props': A, 'loops': 3, 'ret': 'r', 'sig_rewrite': [(r'^(\s*)fn ', r'\1pub fn ')],
         'attrs': '#[verifier::loop_isolation(false)]',
         'rewrites': [ERRF, ('R1', 2), ('R1', 1), ('R1', 0)],
         'ensures': [('accepts_exactly_the_parts_that_fit', '(r is Ok) == size_fits(*recognizer)'),
                     ('the_sizes_recognised', 'r is Ok ==> r->Ok_0 == size_of(*recognizer)')],
         'loop_specs': {0: {'invariant': [('rows_so_far', 'forall |r: int| 0 <= r < row_index ==> (#[trigger] recognizer.input_entries@[r])@.len() == input_clauses_count')]},
                        1: {'invariant': [('rows_so_far', 'forall |r: int| 0 <= r < row_index ==> (#[trigger] recognizer.output_entries@[r])@.len() == output_clauses_count')]},
                        2: {'invariant': [('rows_so_far', 'forall |r: int| 0 <= r < row_index ==> (#[trigger] recognizer.annotation_entries@[r])@.len() == annotation_clauses_count')]}}},
        {'kind': 'text', 'note': 'stand-in for Recognizer::recognize (its parts are under contract in unit recognizer): an opaque source of recognised parts',
         'text': '#[verifier::external_body] pub fn recognize_text(text: &str) -> (r: Result<Recognizer>)\n  ensures (r is Ok) == (recognised(text@) is Some), r is Ok ==> r->Ok_0 == recognised(text@)->Some_0 && rec_wf(r->Ok_0) { unimplemented!() }'},
        {'kind': 'fn', 'src': B, 'path': 'fn build', 'key': 'tablebuilder::build', 'props': P, 'auto_props': A, 'loops': 7, 'ret': 'r',
         'attrs': '#[verifier::loop_isolation(false)]',
         'rewrites': [('RX', 'R13', r'Recognizer::recognize\(text\)\?', 'recognize_text(text)?', 1),
                      ('RX', 'R13', r'recognizer\.(information_item_name|output_label)\.clone\(\)', r'clone_opt_string(&recognizer.\1)', 2),
                      ('RX', 'R14', r'let mut inputs = vec!\[\];', 'let mut inputs: Vec<InputClause> = vec![];', 1),
                      ('RX', 'R14', r'let mut outputs = vec!\[\];', 'let mut outputs: Vec<OutputClause> = vec![];', 1),
                      ('RX', 'R14', r'let mut annotations = vec!\[\];', 'let mut annotations: Vec<RuleAnnotationClause> = vec![];', 1),
                      ('RX', 'R14', r'let mut rules = vec!\[\];', 'let mut rules: Vec<DecisionRule> = vec![];', 1),
                      ('RX', 'R14', r'let mut input_entries = vec!\[\];', 'let mut input_entries: Vec<InputEntry> = vec![];', 1),
                      ('RX', 'R14', r'let mut output_entries = vec!\[\];', 'let mut output_entries: Vec<OutputEntry> = vec![];', 1),
                      ('RX', 'R14', r'let mut annotation_entries = vec!\[\];', 'let mut annotation_entries: Vec<AnnotationEntry> = vec![];', 1)],
         'ensures': [('an_error_iff_not_recognised_or_ill_fitting', '(r is Ok) == (recognised(text@) is Some && size_fits(recognised(text@)->Some_0))'),
                     ('the_table_is_the_recognised_parts_in_order', 'r is Ok ==> table_of(recognised(text@)->Some_0, r->Ok_0)')],
         'loop_specs': {
             0: {'invariant': [('inputs_so_far', 'inputs@.len() == i && forall |k: int| 0 <= k < i ==> input_clause_of(recognizer, k, #[trigger] inputs@[k])')]},
             1: {'invariant': [('outputs_so_far', 'outputs@.len() == i && forall |k: int| 0 <= k < i ==> output_clause_of(recognizer, k, #[trigger] outputs@[k])')]},
             2: {'invariant': [('annotations_so_far', 'annotations@.len() == i && forall |k: int| 0 <= k < i ==> (#[trigger] annotations@[k]).name@ == recognizer.annotations@[k]@')]},
             3: {'invariant': [('rules_so_far', 'rules@.len() == rule_index && forall |k: int| 0 <= k < rule_index ==> rule_of(recognizer, k, #[trigger] rules@[k])')]},
             4: {'invariant': [('entries_so_far', 'input_entries@.len() == column_index && forall |c: int| 0 <= c < column_index ==> (#[trigger] input_entries@[c]).text@ == recognizer.input_entries@[rule_index as int]@[c]@')]},
             5: {'invariant': [('entries_so_far', 'output_entries@.len() == column_index && forall |c: int| 0 <= c < column_index ==> (#[trigger] output_entries@[c]).text@ == recognizer.output_entries@[rule_index as int]@[c]@')]},
             6: {'invariant': [('entries_so_far', 'annotation_entries@.len() == column_index && forall |c: int| 0 <= c < column_index ==> (#[trigger] annotation_entries@[c]).text@ == recognizer.annotation_entries@[rule_index as int]@[c]@')]}}},
    ],
}
ASSUMPTIONS = ['A-rec: Recognizer::recognize answers a recognizer whose annotation names are one per annotation clause (the loop that collects them runs over the columns whose number it has just stored)',
               'A-derive: derived Clone / Copy of HitPolicy, BuiltinAggregator, DecisionTableOrientation, String return an equal value',
               'R5: the text of the size error messages is dropped']
