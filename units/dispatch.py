"""Unit `dispatch`: positional.rs / named.rs wrappers of the built-in functions (C08: named = positional,
arity handling). Contracts are GENERATED from the table below, which is transcribed from DMN 1.3
section 10.3.4 (function name, parameter names in order, optional trailing parameters)."""
import os, re, sys
sys.path.insert(0, os.path.dirname(os.path.abspath(__file__)))
import _common as C
from vf import build as B
PF = 'feel-evaluator/src/bifs/positional.rs'
NF = 'feel-evaluator/src/bifs/named.rs'
V = 'feel/src/values.rs'
P = ['C08']
A = ['C08', 'C05']
R3 = ('R3', ['value_null', 'invalid_number_of_parameters', 'parameter_not_found'])

# (wrapper suffix, [parameter names], number of required parameters, {arity: core function})
FIXED = [
    ('substring', ['string', 'start position', 'length'], 2, {2: ('substring', 'null3'), 3: ('substring', None)}),
    ('string_length', ['string'], 1, {1: ('string_length', None)}),
    ('contains', ['string', 'match'], 2, {2: ('contains', None)}),
    ('starts_with', ['string', 'match'], 2, {2: ('starts_with', None)}),
    ('ends_with', ['string', 'match'], 2, {2: ('ends_with', None)}),
    ('substring_before', ['string', 'match'], 2, {2: ('substring_before', None)}),
    ('substring_after', ['string', 'match'], 2, {2: ('substring_after', None)}),
    ('matches', ['input', 'pattern', 'flags'], 2, {2: ('matches', 'null3'), 3: ('matches', None)}),
    ('replace', ['input', 'pattern', 'replacement', 'flags'], 3, {3: ('replace', 'null4'), 4: ('replace', None)}),
    ('split', ['string', 'delimiter'], 2, {2: ('split', None)}),
    ('count', ['list'], 1, {1: ('count', None)}),
    ('sublist', ['list', 'start position', 'length'], 2, {2: ('sublist2', None), 3: ('sublist3', None)}),
    ('insert_before', ['list', 'position', 'newItem'], 3, {3: ('insert_before', None)}),
    ('remove', ['list', 'position'], 2, {2: ('remove', None)}),
    ('reverse', ['list'], 1, {1: ('reverse', None)}),
    ('index_of', ['list', 'match'], 2, {2: ('index_of', None)}),
    ('distinct_values', ['list'], 1, {1: ('distinct_values', None)}),
    ('flatten', ['list'], 1, {1: ('flatten', None)}),
    ('sort', ['list', 'precedes'], 2, {2: ('sort', None)}),
    ('list_contains', ['list', 'match'], 2, {2: ('list_contains', None)}),
    ('get_value', ['m', 'key'], 2, {2: ('get_value', None)}),
    ('get_entries', ['m'], 1, {1: ('get_entries', None)}),
    ('not', ['negand'], 1, {1: ('not', None)}),
    ('number', ['from', 'grouping separator', 'decimal separator'], 3, {3: ('number', None)}),
    ('string', ['from'], 1, {1: ('string', None)}),
    # numeric, string-case and duration built-ins (DMN 1.3 tables 70, 72, 74)
    ('abs', ['n'], 1, {1: ('abs', None)}),
    ('ceiling', ['n'], 1, {1: ('ceiling', None)}),
    ('floor', ['n'], 1, {1: ('floor', None)}),
    ('decimal', ['n', 'scale'], 2, {2: ('decimal', None)}),
    ('modulo', ['dividend', 'divisor'], 2, {2: ('modulo', None)}),
    ('sqrt', ['number'], 1, {1: ('sqrt', None)}),
    ('log', ['number'], 1, {1: ('log', None)}),
    ('exp', ['number'], 1, {1: ('exp', None)}),
    ('odd', ['number'], 1, {1: ('odd', None)}),
    ('even', ['number'], 1, {1: ('even', None)}),
    ('lower_case', ['string'], 1, {1: ('lower_case', None)}),
    ('upper_case', ['string'], 1, {1: ('upper_case', None)}),
    ('duration', ['from'], 1, {1: ('duration', None)}),
    ('years_and_months_duration', ['from', 'to'], 2, {2: ('years_and_months_duration', None)}),
]
# positional form only under contract (the named forms take alternative parameter name sets or are not implemented)
POS_ONLY = [
    ('after', {2: ('after', None)}), ('before', {2: ('before', None)}), ('coincides', {2: ('coincides', None)}),
    ('date', {1: ('date_1', None), 3: ('date_3', None)}), ('date_and_time', {1: ('date_and_time_1', None), 2: ('date_and_time_2', None)}),
    ('time', {1: ('time_1', None), 3: ('time_3', None), 4: ('time_4', None)}),
]
# f(list1, list2, ...): every argument is handed to the core function (no single-argument shortcut)
LIST_VARIADIC = ['concatenate', 'union']
# f(list) or f(e1, e2, ...)
VARIADIC = ['all', 'any', 'min', 'max', 'sum', 'mean', 'median', 'mode', 'stddev']

def core_arity(name):
    return {'substring': 3, 'matches': 3, 'replace': 4, 'sublist2': 2, 'sublist3': 3, 'insert_before': 3, 'number': 3}.get(name)

def spec_call(core, padding, args):
    a = list(args)
    if padding:
        a.append('null_value()')
    return 'spec_core_%s(%s)' % (core, ', '.join(a))

def gen_core_stubs():
    lines = []
    seen = {}
    for (_, params, req, arities) in FIXED:
        for k, (core, pad) in arities.items():
            n = k + (1 if pad else 0)
            seen[core] = n
    for (_, arities) in POS_ONLY:
        for k, (core, pad) in arities.items():
            seen[core] = k
    for core, n in sorted(seen.items()):
        ps = ', '.join('a%d: Value' % i for i in range(n))
        lines.append('pub uninterp spec fn spec_core_%s(%s) -> Value;' % (core, ps))
    lines.append('pub uninterp spec fn spec_core_append(list: Value, items: Seq<Value>) -> Value;')
    for v in VARIADIC + LIST_VARIADIC:
        lines.append('pub uninterp spec fn spec_core_%s(items: Seq<Value>) -> Value;' % v)
    lines.append('pub mod core {')
    lines.append('  use super::*;')
    for core, n in sorted(seen.items()):
        ps = ', '.join('a%d: &Value' % i for i in range(n))
        lines.append('  #[verifier::external_body] pub fn %s(%s) -> (r: Value) ensures r == spec_core_%s(%s) { unimplemented!() }' % (core, ps, core, ', '.join('*a%d' % i for i in range(n))))
    lines.append('  #[verifier::external_body] pub fn append(list: &Value, items: &[Value]) -> (r: Value) ensures r == spec_core_append(*list, items@) { unimplemented!() }')
    for v in VARIADIC + LIST_VARIADIC:
        lines.append('  #[verifier::external_body] pub fn %s(values: &[Value]) -> (r: Value) ensures r == spec_core_%s(values@) { unimplemented!() }' % (v, v))
    lines.append('}')
    return '\n'.join(lines)

def name_consts():
    """NAME_* constants of named.rs: extracted literal -> stub returning spec_name(literal)."""
    src = B.load_src(NF)
    out = []
    names = {}
    for m in re.finditer(r'static ref (NAME_\w+): Name = Name::(from\("([^"]*)"\)|new\(&\[([^\]]*)\]\));', src.text):
        if m.group(3) is not None:
            lit = m.group(3)
        else:
            lit = ' '.join(re.findall(r'"([^"]*)"', m.group(4)))
        names[m.group(1)] = lit
        out.append('#[verifier::external_body] pub fn %s() -> (r: Name) ensures r == spec_name("%s"@) { unimplemented!() }' % (m.group(1).lower(), lit))
    return '\n'.join(out), names

def positional_part(wrapper, params, req, arities):
    ens = []
    for k, (core, pad) in sorted(arities.items()):
        args = ['parameters@[%d]' % i for i in range(k)]
        ens.append(('arity_%d' % k, 'parameters@.len() == %d ==> r == %s' % (k, spec_call(core, pad, args))))
    cond = ' && '.join('parameters@.len() != %d' % k for k in sorted(arities))
    ens.append(('wrong_arity_is_null', '(%s) ==> r is Null' % cond))
    return {'kind': 'fn', 'src': PF, 'path': 'fn bif_' + wrapper, 'key': 'dispatch::positional::bif_' + wrapper, 'props': P, 'auto_props': A, 'loops': 0,
            'ret': 'r', 'rewrites': [R3], 'ensures': ens,
            'sig_rewrite': [(r'fn bif_' + wrapper + r'\(', 'pub fn pos_bif_' + wrapper + '(')]}

def named_part(wrapper, params, req, arities):
    ens = []
    reqs = params[:req]
    has_req = ' && '.join('np_has(*parameters, "%s"@)' % n for n in reqs)
    for k, (core, pad) in sorted(arities.items()):
        present = params[:k]
        absent = params[k:]
        args = ['np_arg(*parameters, "%s"@)' % n for n in present]
        cond = has_req
        for n in params[req:k]:
            cond += ' && np_has(*parameters, "%s"@)' % n
        for n in absent:
            cond += ' && !np_has(*parameters, "%s"@)' % n
        ens.append(('named_%d_equals_positional' % k, '(%s) ==> r == %s' % (cond, spec_call(core, pad, args))))
    ens.append(('missing_parameter_is_null', '!(%s) ==> r is Null' % has_req))
    return {'kind': 'fn', 'src': NF, 'path': 'fn bif_' + wrapper, 'key': 'dispatch::named::bif_' + wrapper, 'props': P, 'auto_props': A, 'loops': 0,
            'ret': 'r', 'rewrites': [R3, ('RX', 'R9', r'&(NAME_\w+)', lambda m: '&' + m.group(1).lower() + '()', None)], 'ensures': ens,
            'body_prefix': 'broadcast use vstd::std_specs::btree::group_btree_axioms;\nproof { axiom_name_key(); }',
            'sig_rewrite': [(r'fn bif_' + wrapper + r'\(', 'pub fn named_bif_' + wrapper + '(')]}

def variadic_positional(v):
    return {'kind': 'fn', 'src': PF, 'path': 'fn bif_' + v, 'key': 'dispatch::positional::bif_' + v, 'props': P, 'auto_props': A, 'loops': 0,
            'ret': 'r', 'rewrites': [R3],
            'ensures': [('no_arguments_is_null', 'parameters@.len() == 0 ==> r is Null'),
                        ('single_list_argument', '(parameters@.len() == 1 && parameters@[0] is List) ==> r == spec_core_%s(parameters@[0]->List_0.0@)' % v),
                        ('arguments_as_list', ('(parameters@.len() > 1 || (parameters@.len() == 1 && !(parameters@[0] is List))) ==> r == spec_core_%s(parameters@)' % v) if v != 'stddev' else
                         # the sample standard deviation of a single number is undefined: the wrapper answers null itself
                         '(parameters@.len() > 1 ==> r == spec_core_stddev(parameters@)) && ((parameters@.len() == 1 && !(parameters@[0] is List)) ==> r is Null)')],
            'sig_rewrite': [(r'fn bif_' + v + r'\(', 'pub fn pos_bif_' + v + '(')]}

def list_variadic_positional(v):
    return {'kind': 'fn', 'src': PF, 'path': 'fn bif_' + v, 'key': 'dispatch::positional::bif_' + v, 'props': P, 'auto_props': A, 'loops': 0,
            'ret': 'r', 'rewrites': [R3, ('RX', 'R11', r'super::core::', 'core::', None)],
            'ensures': [('no_arguments_is_null', 'parameters@.len() == 0 ==> r is Null'),
                        ('all_arguments_reach_the_function', 'parameters@.len() >= 1 ==> r == spec_core_%s(parameters@)' % v)],
            'sig_rewrite': [(r'fn bif_' + v + r'\(', 'pub fn pos_bif_' + v + '(')]}

def append_positional():
    return {'kind': 'fn', 'src': PF, 'path': 'fn bif_append', 'key': 'dispatch::positional::bif_append', 'props': P, 'auto_props': A, 'loops': 0,
            'ret': 'r', 'rewrites': [R3, ('RX', 'R11', r'&parameters\[1\.\.\]', 'vstd::slice::slice_subrange(parameters, 1, parameters.len())', 1)],
            'ensures': [('fewer_than_two_arguments_is_null', 'parameters@.len() < 2 ==> r is Null'),
                        ('list_and_items', 'parameters@.len() >= 2 ==> r == spec_core_append(parameters@[0], parameters@.subrange(1, parameters@.len() as int))')],
            'sig_rewrite': [(r'fn bif_append\(', 'pub fn pos_bif_append(')]}

def variadic_named(v):
    return {'kind': 'fn', 'src': NF, 'path': 'fn bif_' + v, 'key': 'dispatch::named::bif_' + v, 'props': P, 'auto_props': A, 'loops': 0,
            'ret': 'r', 'rewrites': [R3, ('RX', 'R9', r'&(NAME_\w+)', lambda m: '&' + m.group(1).lower() + '()', None)],
            'body_prefix': 'broadcast use vstd::std_specs::btree::group_btree_axioms;\nproof { axiom_name_key(); }',
            'ensures': [('named_equals_positional', '(np_has(*parameters, "list"@) && np_arg(*parameters, "list"@) is List) ==> r == spec_core_%s(np_arg(*parameters, "list"@)->List_0.0@)' % v),
                        ('otherwise_null', '!(np_has(*parameters, "list"@) && np_arg(*parameters, "list"@) is List) ==> r is Null')],
            'sig_rewrite': [(r'fn bif_' + v + r'\(', 'pub fn named_bif_' + v + '(')]}

_consts, NAMES = name_consts()
UNIT = {
    'name': 'dispatch',
    'uses': C.USES,
    'parts': C.NAME + C.FEELTYPE + [
        {'kind': 'text', 'text': 'pub uninterp spec fn equiv(a: FeelType, b: FeelType) -> bool;', 'note': 'unused-here'},
        {'kind': 'item', 'src': 'feel/src/context.rs', 'path': 'type FeelContextEntries'},
        {'kind': 'item', 'src': 'feel/src/context.rs', 'path': 'struct FeelContext',
         'rewrites': [('RX', 'R7', r'pub struct FeelContext\(FeelContextEntries\)', 'pub struct FeelContext(pub FeelContextEntries)', 1)]},
        {'kind': 'item', 'src': V, 'path': 'struct Values',
         'rewrites': [('RX', 'R7', r'pub struct Values\(Vec<Value>\)', 'pub struct Values(pub Vec<Value>)', 1)]},
        {'kind': 'item', 'src': V, 'path': 'enum Value'},
        {'kind': 'item', 'src': V, 'path': 'macro_rules! value_null'},
        {'kind': 'vrs', 'file': 'dispatch/prelude.vrs'},
        {'kind': 'vrs', 'file': 'common/value_traits.vrs'},
        {'kind': 'text', 'note': 'generated-core-stubs', 'text': gen_core_stubs()},
        {'kind': 'text', 'note': 'generated-name-constants (literals extracted from named.rs lazy_static)', 'text': _consts},
        {'kind': 'item', 'src': NF, 'path': 'type NamedParameters'},
        {'kind': 'fn', 'src': V, 'path': 'impl Values::fn as_vec', 'key': 'dispatch::Values::as_vec', 'props': P, 'auto_props': A, 'ret': 'r', 'ensures': [('post', '*r == self.0')], 'loops': 0},
        {'kind': 'fn', 'src': NF, 'path': 'fn get_param', 'key': 'dispatch::named::get_param', 'props': P, 'auto_props': A, 'loops': 0, 'ret': 'r',
         'sig_rewrite': [(r'^(\s*)fn ', r'\1pub fn ')],
         'body_prefix': 'broadcast use vstd::std_specs::btree::group_btree_axioms;\nproof { axiom_name_key(); }',
         'ensures': [('lookup', 'r is Some == (parameters is NamedParameters && parameters->NamedParameters_0@.contains_key(*name))'),
                     ('value', 'r is Some ==> *r->Some_0.0 == parameters->NamedParameters_0@[*name].0 && *r->Some_0.1 == parameters->NamedParameters_0@[*name].1')]},
    ] + [positional_part(*e) for e in FIXED] + [named_part(*e) for e in FIXED]
      + [variadic_positional(v) for v in VARIADIC] + [variadic_named(v) for v in VARIADIC]
      + [positional_part(w, [], 0, ar) for (w, ar) in POS_ONLY] + [list_variadic_positional(v) for v in LIST_VARIADIC] + [append_positional()],
}
NOT_DECIDED = {'C08': ['what each core function computes is uninterpreted here (see unit bifs for the list/position functions); '
                       'after / before / coincides / date / time / date and time / append / concatenate / union: positional form only; the remaining range and calendar built-ins (meets, overlaps, during, includes, starts, finishes, is, product, day of week, ...) are not implemented in the code base (they answer null) and are not claimed',
                       'that the evaluator passes the right Bif tag to evaluate_bif (match arms of evaluate_bif are not under contract)']}
ASSUMPTIONS = ['the table FIXED/VARIADIC is transcribed from DMN 1.3 section 10.3.4 (parameter names and order)',
               'R9: `&NAME_X` lazy_static constants -> stubs returning spec_name(literal), literal extracted from named.rs on every run',
               'R3: diagnostic messages dropped; A-std BTreeMap::get, Option::zip']
