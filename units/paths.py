"""Unit `paths`: build_path's closure (C01): a path expression denotes the entry of that name of a context (null when missing), one such
result per item of a list of contexts, the named component of a temporal value, and null otherwise."""
import os, sys
sys.path.insert(0, os.path.dirname(os.path.abspath(__file__)))
import _common as C
B = 'feel-evaluator/src/builders.rs'
S = 'feel/src/scope.rs'
X = 'feel/src/context.rs'
V = 'feel/src/values.rs'
P = ['C01']
A = ['C01', 'C05']
PRE = 'broadcast use vstd::std_specs::btree::group_btree_axioms;\nproof { axiom_name_key(); }'

UNIT = {
    'name': 'paths',
    'uses': C.USES,
    'parts': C.NAME + C.FEELTYPE + [
        {'kind': 'text', 'text': 'pub uninterp spec fn equiv(a: FeelType, b: FeelType) -> bool;', 'note': 'unused-here'},
        {'kind': 'vrs', 'file': 'iterations/prelude.vrs'},
        {'kind': 'item', 'src': X, 'path': 'type FeelContextEntries'},
        {'kind': 'item', 'src': X, 'path': 'struct FeelContext',
         'rewrites': [('RX', 'R7', r'pub struct FeelContext\(FeelContextEntries\)', 'pub struct FeelContext(pub FeelContextEntries)', 1)]},
        {'kind': 'item', 'src': V, 'path': 'struct Values',
         'rewrites': [('RX', 'R7', r'pub struct Values\(Vec<Value>\)', 'pub struct Values(pub Vec<Value>)', 1)]},
        {'kind': 'item', 'src': V, 'path': 'enum Value'},
        {'kind': 'item', 'src': V, 'path': 'macro_rules! value_null'},
        {'kind': 'vrs', 'file': 'common/value_traits.vrs'},
        {'kind': 'item', 'src': S, 'path': 'struct Scope',
         'rewrites': [('RX', 'R8', r'contexts: RefCell<Vec<FeelContext>>,', 'pub contexts: Vec<FeelContext>,', 1)]},
        {'kind': 'vrs', 'file': 'purity/prelude.vrs'},
        {'kind': 'vrs', 'file': 'paths/prelude.vrs'},
        {'kind': 'fn', 'src': V, 'path': 'impl Values::fn new', 'key': 'paths::Values::new', 'props': P, 'auto_props': A, 'loops': 0, 'ret': 'r',
         'ensures': [('holds_the_items', 'r.0 == values')]},
        {'kind': 'fn', 'src': V, 'path': 'impl Values::fn as_vec', 'key': 'paths::Values::as_vec', 'props': P, 'auto_props': A, 'loops': 0, 'ret': 'r',
         'ensures': [('post', '*r == self.0')]},
        {'kind': 'fn', 'src': X, 'path': 'impl FeelContext::fn get_entry', 'key': 'paths::FeelContext::get_entry', 'props': P, 'auto_props': A, 'loops': 0, 'ret': 'r', 'body_prefix': PRE,
         'ensures': [('post', 'r is Some == self.0@.contains_key(*name)'), ('value', 'r is Some ==> *r->Some_0 == self.0@[*name]')]},
        {'kind': 'closure', 'src': B, 'path': 'fn build_path', 'name': 'path_expression', 'key': 'paths::build_path', 'props': P, 'auto_props': A, 'loops': 1, 'ret': 'r',
         'extra_params': ['name: Name'],
         'body_prefix': 'proof { lemma_property_names(); }',
         'rewrites': [('R3',),
                      ('RX', 'R2v', r'for item in items\.as_vec\(\) \{', 'for item in items.as_vec().iter() {', 1),
                      ('RX', 'R23', r'return match name\.to_string\(\)\.as_str\(\) \{', 'let s_ = name_text(&name);\n          let t_ = s_.as_str();\n          return match () {', 5),
                      ('RX', 'R23', r'(?m)^(\s*)("[^"]*") =>', r'\1_ if str_is(t_, \2) =>', 24),
                      ('RX', 'R11', r'Value::Number\(((?:\w|\.|\(\))+?)\.into\(\)\)', r'Value::Number(into_number(\1))', 20),
                      ('RX', 'R11', r'FeelDaysAndTimeDuration::default\(\)\.second\(offset as i64\)\.build\(\)', 'duration_of_seconds(offset as i64)', 2)],
         'ensures': [('the_value_the_path_denotes', 'path_denotes(lhv, name, r)')],
         'loop_specs': {0: {'iter_name': 'iti',
                            'invariant': [('seq', 'iti.seq() =~= items.0@.map_values(|v: Value| &v)'),
                                          ('one_result_per_item', 'result@.len() == iti.index@ && forall |j: int| 0 <= j < iti.index@ ==> (#[trigger] items.0@[j]) is Context && entry_or_null(items.0@[j]->Context_0, name, result@[j])'),
                                          ('lhv', 'lhv == Value::List(items)')],
                            'body_prefix': 'proof { assert(*item == items.0@[iti.index@ as int]); }'}}},
    ],
}
ASSUMPTIONS = ['A-eval: a sub-evaluator leaves the stack as found and its value is a function of the evaluator and the stack (ev_value)',
               'A-dec: From<integer> for FeelNumber is exact; the component getters of the temporal types, the duration builder and Name::to_string are uninterpreted (units calendar / timeline decide the temporal types)',
               'R4: the closure of build_path is lifted; R23: a match on string literals becomes guards over str_is, the literals are proved pairwise distinct; R3: null messages dropped']
NOT_DECIDED = {'C01': ['a list with an item that is not a context answers null as a whole (stated by the contract, the standard would map the path over the items)',
                       'the components of a negative days-and-time duration are answered unsigned by the getters (usize)']}
BOUNDED = {'C01': [{'name': 'path-then-operator', 'driver': 'feelcases', 'args': ['/verif/replay/cases/C01_path_then_operator.txt', 'all'],
                    'functions': ['Lexer::consume_name (where the property name of a path ends)', 'build_path'],
                    'bound': '22 expressions in which a path is followed by an arithmetic operator, a keyword (and, or, between, in, then, instance of) or a further path segment, with the property '
                             'not bound as a name in the parsing scope, and their parenthesised forms; 14 of them are the recorded known finding (the property name is read greedily), the rest must hold'}]}
