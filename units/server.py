"""Unit `server`: definitions handlers of server/src/server.rs (C18, C17: endpoints = workspace operations)."""
S = 'server/src/server.rs'
# the definitions handlers are how a history of operations reaches the workspace when it is driven by the service: their clauses serve C17 too
P = ['C18', 'C17']
A = ['C18', 'C17']
DEC = [('RX', 'R11', r'base64::decode\(content\)', 'base64_decode(content)', 1),
       ('RX', 'R11', r'String::from_utf8\(bytes\)', 'string_from_utf8(bytes)', 1),
       ('RX', 'R11', r'dmntk_model::parse\(&xml\)', 'model_parse(&xml)', 1)]

def h(name, **kw):
    d = {'kind': 'fn', 'src': S, 'path': 'fn ' + name, 'key': 'server::' + name, 'props': P, 'auto_props': A, 'loops': 0, 'ret': 'r',
         'sig_rewrite': [(r'^(\s*)fn ', r'\1pub fn ')]}
    d.update(kw)
    return d

M = 'request_model(params.content)'
UNIT = {
    'name': 'server',
    'uses': [],
    'parts': [
        {'kind': 'vrs', 'file': 'server/prelude.vrs'},
        {'kind': 'item', 'src': S, 'path': 'struct AddDefinitionsParams'},
        {'kind': 'item', 'src': S, 'path': 'struct AddDefinitionsResult'},
        {'kind': 'item', 'src': S, 'path': 'struct ReplaceDefinitionsParams'},
        {'kind': 'item', 'src': S, 'path': 'struct RemoveDefinitionsParams'},
        {'kind': 'item', 'src': S, 'path': 'struct StatusResult'},
        h('do_clear_definitions', ensures=[('clears', 'r is Ok && ws(*final(workspace)) == ws_clear(ws(*old(workspace)))')]),
        h('do_add_definitions', rewrites=DEC,
          ensures=[('malformed_request_changes_nothing', '%s is None ==> r is Err && ws(*final(workspace)) == ws(*old(workspace))' % M),
                   ('is_workspace_add', '%s is Some ==> (r is Ok == ws_add_ok(ws(*old(workspace)), %s->Some_0)) && (r is Ok ==> ws(*final(workspace)) == ws_add(ws(*old(workspace)), %s->Some_0) '
                    '&& r->Ok_0.namespace@ == spec_ns(%s->Some_0) && r->Ok_0.name@ == spec_name(%s->Some_0)) && (r is Err ==> ws(*final(workspace)) == ws(*old(workspace)))' % (M, M, M, M, M))]),
        h('do_replace_definitions', rewrites=DEC,
          ensures=[('malformed_request_changes_nothing', '%s is None ==> r is Err && ws(*final(workspace)) == ws(*old(workspace))' % M),
                   ('is_workspace_replace', '%s is Some ==> (r is Ok == ws_replace_ok(ws(*old(workspace)), %s->Some_0)) && (r is Ok ==> ws(*final(workspace)) == ws_replace(ws(*old(workspace)), %s->Some_0)) '
                    '&& (r is Err ==> ws(*final(workspace)) == ws(*old(workspace)))' % (M, M, M))]),
        h('do_remove_definitions',
          ensures=[('missing_parameter_changes_nothing', '(params.namespace is None || params.name is None) ==> r is Err && ws(*final(workspace)) == ws(*old(workspace))'),
                   ('is_workspace_remove', '(params.namespace is Some && params.name is Some) ==> r is Ok && ws(*final(workspace)) == ws_remove(ws(*old(workspace)), params.namespace->Some_0@, params.name->Some_0@)')]),
        h('do_deploy_definitions',
          ensures=[('is_workspace_deploy', '(r is Ok == ws_deploy_ok(ws(*old(workspace)))) && (r is Ok ==> ws(*final(workspace)) == ws_deploy(ws(*old(workspace)))) && (r is Err ==> ws(*final(workspace)) == ws(*old(workspace)))')]),
    ],
}
NOT_DECIDED = {'C17': ['the meaning of the workspace operations themselves: unit workspace'], 'C18': ['well-formedness of the JSON text: jsonify is string code outside Verus\' reach - only the BOUNDED stand-in evaluate-response-is-json looks at it; values without a JSON rendering (functions, ranges, Infinity / NaN numbers: C02 known findings) are not decided',
                       'TCK DTO round trip: the structure of the conversions is proved in unit dto; the text forms of scalars and names (A-text) only by the BOUNDED stand-in tck-dto-round-trip; lock poisoning, body limits; actix routing and survival after malformed requests only through the BOUNDED stand-in http-histories-on-the-real-service',
                       'do_evaluate / do_evaluate_tck take &Workspace: they cannot modify it (enforced by the type checker, not by a contract)']}
ASSUMPTIONS = ['the workspace operations are uninterpreted state transformers here; their meaning is proved in unit workspace (C17)',
               'base64::decode, String::from_utf8 and dmntk_model::parse are total functions returning a Result (R11 stubs)']

BOUNDED = {
    'C18': [{'name': 'evaluate-response-is-json', 'driver': 'json', 'args': [],
             'functions': ['Value::jsonify, Values::jsonify, FeelContext::jsonify, FeelNumber::jsonify (feel, feel-number)'],
             'bound': '1 428 values (the TCK grid - including a string for every control character U+0000..U+001F, U+007F, the quotation mark, the backslash and U+2028 - plus contexts with a key that needs escaping): {"data": <jsonify>} parses with serde_json and decodes to the value - strings, booleans, null, lists, contexts structurally, numbers at f64 precision, '
                      'dates / times / durations as JSON strings of their FEEL text; plus 24 numbers of both signs with small and large magnitudes, reduced-form and exponent-form zeros (bare, in a list, in a context), each compared with its value written out in the harness'},
            {'name': 'http-histories-on-the-real-service', 'script': 'httpdiff.py', 'args': [], 'thorough_args': ['--thorough'],
             'functions': ['dmntk_server::start_server and every handler (actix routing, JSON extraction, the error handler)', 'do_clear / do_add / do_replace / do_remove / do_deploy_definitions', 'do_evaluate / do_evaluate_tck'],
             'bound': 'the real service on a loopback port: 4 558 request sequences (about 59 000 requests; thorough: base sequences up to length 3) mixing definitions operations over five models, /evaluate and /tck/evaluate, and 26 kinds of '
                      'malformed request (truncated JSON, missing parameters, invalid base64, invalid UTF-8 inside well-formed XML, truncated XML, unknown model / invocable, a body that is not a context, unknown endpoint, a string or another type where an object is expected, a model name / an xsd text of more than a thousand bytes of two-byte characters from an even and an odd offset - the failure message repeats it -) at every position: '
                      'every response is a well-formed JSON document, failures are in `errors`, successes in `data`, answers equal a reference workspace written out from the property (a rejected or malformed request changes nothing), and the service keeps answering'},
            {'name': 'evaluate-answers-every-digit', 'driver': 'httpvalues', 'args': [],
             'functions': ['post_evaluate / do_evaluate (server.rs) end to end on the real service', 'Value::jsonify'],
             'bound': '136 echo decisions of one model (numbers with up to 34 digits, beyond 2^53 and 2^64, tiny and huge exponents, strings with every control character, temporal values, lists and contexts of them): '
                      'the body of POST /evaluate/{model}/{decision} is, character for character, {"data": <the JSON rendering of the value evaluated directly>}'},
            {'name': 'tck-dto-round-trip', 'driver': 'tck', 'args': [],
             'functions': ['server/src/dto.rs (compiled into the driver from the repository file): TryFrom<&Value> for ValueDto, TryFrom<&ValueDto / &SimpleDto / &Vec<ComponentDto> / &ComponentDto / &ListDto / &Vec<ValueDto>> for WrappedValue', 'serde_json (real)'],
             'bound': '38 typed texts as a client sends them (days-only and months-only durations among them) (every xsd type tag, integers at and beyond the 64-bit ranges, invalid texts: decoded to the FEEL value of the text or rejected, never a panic) and '
                      '1 428 values: 68 scalars of every TCK kind (strings with quotes, backslashes, control and non-ASCII characters; numbers; booleans; null; dates; times with and without offset; date-times; both duration kinds) and the lists / '
                      'contexts built from them to nesting depth 2 (empty, singleton, pairs, names with spaces): value -> DTO -> JSON text -> DTO -> value gives the value back (null messages aside)'}],
}
