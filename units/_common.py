"""Shared part lists (stand-ins and real type definitions) used by several units."""

NAME = [
    {'kind': 'item', 'src': 'feel/src/names.rs', 'path': 'struct Name',
     'derive': '#[derive(PartialEq, Eq, PartialOrd, Ord)]',
     'attrs': '#[verifier::external_body]'},
    {'kind': 'vrs', 'file': 'common/name.vrs'},
]

FEELTYPE = [
    {'kind': 'item', 'src': 'feel/src/types.rs', 'path': 'enum FeelType'},
]

VALUE = [
    {'kind': 'vrs', 'file': 'common/leaves.vrs'},
    {'kind': 'item', 'src': 'feel/src/context.rs', 'path': 'type FeelContextEntries'},
    {'kind': 'item', 'src': 'feel/src/context.rs', 'path': 'struct FeelContext',
     'rewrites': [('RX', 'R7', r'pub struct FeelContext\(FeelContextEntries\)', 'pub struct FeelContext(pub FeelContextEntries)', 1)]},
    {'kind': 'item', 'src': 'feel/src/values.rs', 'path': 'struct Values',
     'rewrites': [('RX', 'R7', r'pub struct Values\(Vec<Value>\)', 'pub struct Values(pub Vec<Value>)', 1)]},
    {'kind': 'item', 'src': 'feel/src/values.rs', 'path': 'enum Value'},
    {'kind': 'vrs', 'file': 'common/value_traits.vrs'},
]

USES = [
    'use std::collections::BTreeMap;',
    'use std::ops::Deref;',
    'use vstd::std_specs::iter::IteratorSpec;',
]


def value_api(unit, props, auto_props, skip=()):
    """predicates of the value / context API that the bodies under contract may not use today; kept in a unit so that a changed body that
    starts to use one still extracts and is judged by its contract (each is verified against its one-line definition)"""
    V = 'feel/src/values.rs'
    parts = []
    for (fn, clause, text) in (('is_null', 'null_test', 'r == (self is Null)'), ('is_true', 'true_test', 'r == (*self == Value::Boolean(true))'), ('is_number', 'number_test', 'r == (self is Number)')):
        if fn in skip:
            continue
        parts.append({'kind': 'fn', 'src': V, 'path': 'impl Value::fn ' + fn, 'key': '%s::Value::%s' % (unit, fn), 'props': props, 'auto_props': auto_props, 'loops': 0, 'ret': 'r',
                      'ensures': [(clause, text)]})
    return parts
