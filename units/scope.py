"""Unit `scope`: feel/src/scope.rs and the lookup functions of feel/src/context.rs (C13, C01 name resolution, C10)."""
import os, sys
sys.path.insert(0, os.path.dirname(os.path.abspath(__file__)))
import _common as C
S = 'feel/src/scope.rs'
X = 'feel/src/context.rs'
P = ['C13', 'C01']
A = ['C13', 'C01', 'C05']
PRE = 'broadcast use vstd::std_specs::btree::group_btree_axioms;\nproof { axiom_name_key(); }'
R8 = ('RX', 'R8', r'self\.contexts\.borrow_mut\(\)', 'self.contexts', None)

def sfn(name, mutates=False, **kw):
    d = {'kind': 'fn', 'src': S, 'path': 'impl Scope::fn ' + name, 'key': 'scope::Scope::' + name, 'props': P, 'auto_props': A, 'loops': 0,
         'rewrites': [R8], 'body_prefix': PRE}
    if mutates:
        d['sig_rewrite'] = [(r'\(&self', '(&mut self')]
    d.update(kw)
    return d

UNIT = {
    'name': 'scope',
    'uses': C.USES,
    'parts': C.NAME + C.FEELTYPE + [
        {'kind': 'text', 'text': 'pub uninterp spec fn equiv(a: FeelType, b: FeelType) -> bool;', 'note': 'unused-here'},
        {'kind': 'vrs', 'file': 'iterations/prelude.vrs'},
        {'kind': 'item', 'src': X, 'path': 'type FeelContextEntries'},
        {'kind': 'item', 'src': X, 'path': 'struct FeelContext',
         'rewrites': [('RX', 'R7', r'pub struct FeelContext\(FeelContextEntries\)', 'pub struct FeelContext(pub FeelContextEntries)', 1)]},
        {'kind': 'item', 'src': 'feel/src/values.rs', 'path': 'struct Values',
         'rewrites': [('RX', 'R7', r'pub struct Values\(Vec<Value>\)', 'pub struct Values(pub Vec<Value>)', 1)]},
        {'kind': 'item', 'src': 'feel/src/values.rs', 'path': 'enum Value'},
        {'kind': 'vrs', 'file': 'common/value_traits.vrs'},
        {'kind': 'item', 'src': S, 'path': 'struct Scope',
         'rewrites': [('RX', 'R8', r'contexts: RefCell<Vec<FeelContext>>,', 'pub contexts: Vec<FeelContext>,', 1)]},
        {'kind': 'vrs', 'file': 'scope/spec.vrs'},
    ] + C.value_api('scope', P, A) + [
        {'kind': 'fn', 'src': X, 'path': 'impl FeelContext::fn get_entry', 'key': 'scope::FeelContext::get_entry',
         'props': P, 'auto_props': A, 'loops': 0, 'ret': 'r', 'body_prefix': PRE,
         'ensures': [('post', 'r is Some == self.0@.contains_key(*name)'), ('value', 'r is Some ==> *r->Some_0 == self.0@[*name]')]},
        {'kind': 'fn', 'src': X, 'path': 'impl FeelContext::fn set_entry', 'key': 'scope::FeelContext::set_entry',
         'props': P, 'auto_props': A, 'loops': 0, 'body_prefix': PRE,
         'ensures': [('post', 'final(self).0@ == old(self).0@.insert(*name, value)')]},
        {'kind': 'fn', 'src': X, 'path': 'impl FeelContext::fn search_deep', 'key': 'scope::FeelContext::search_deep',
         'props': P + ['C10'], 'auto_props': A, 'loops': 0, 'ret': 'r', 'body_prefix': PRE,
         'decreases': 'names@.len()',
         'ensures': [('follows_path', 'r is Some == ctx_path(*self, names@) is Some'), ('value', 'r is Some ==> *r->Some_0 == ctx_path(*self, names@)->Some_0')]},
        sfn('push', mutates=True, ensures=[('pushes', 'final(self).contexts@ == old(self).contexts@.push(ctx)')]),
        sfn('pop', mutates=True, ret='r',
            ensures=[('pops', 'old(self).contexts@.len() > 0 ==> r == Some(old(self).contexts@.last()) && final(self).contexts@ == old(self).contexts@.drop_last()'),
                     ('empty', 'old(self).contexts@.len() == 0 ==> r is None && final(self).contexts@ == old(self).contexts@')]),
        sfn('get_entry', ret='r', loops=1,
            ensures=[('innermost_first', 'r == stack_lookup(self.contexts@, *name)')],
            loop_specs={0: {'iter_name': 'it',
                            'invariant': [('rev_seq', 'it.seq().len() == self.contexts@.len(), forall |j: int| 0 <= j < it.seq().len() ==> *(#[trigger] it.seq()[j]) == self.contexts@[self.contexts@.len() - 1 - j]'),
                                          ('not_in_inner', 'forall |j: int| 0 <= j < it.index@ ==> !(#[trigger] self.contexts@[self.contexts@.len() - 1 - j]).0@.contains_key(*name)')],
                            'body_prefix': PRE + '\nproof { assert(*context == self.contexts@[self.contexts@.len() - 1 - it.index@]); }'}},
            splices=[{'id': 'found', 'op': 'before', 'anchor': 'return Some(value.clone());',
                      'text': 'proof {\n  let k = self.contexts@.len() - 1 - it.index@;\n  assert forall |j: int| k < j < self.contexts@.len() implies !(#[trigger] self.contexts@[j]).0@.contains_key(*name) by { let jj = self.contexts@.len() - 1 - j; assert(0 <= jj < it.index@); assert(self.contexts@[self.contexts@.len() - 1 - jj] == self.contexts@[j]); }\n  lemma_stack_lookup_at(self.contexts@, *name, k);\n}'},
                     {'id': 'not_found', 'op': 'before', 'anchor': 'None', 'nth': -1,
                      'text': 'proof {\n  assert forall |j: int| 0 <= j < self.contexts@.len() implies !(#[trigger] self.contexts@[j]).0@.contains_key(*name) by { let jj = self.contexts@.len() - 1 - j; assert(self.contexts@[self.contexts@.len() - 1 - jj] == self.contexts@[j]); }\n  lemma_stack_lookup_none(self.contexts@, *name);\n}'}]),
        sfn('search_deep', ret='r', loops=1, props=P + ['C10'],
            ensures=[('innermost_first', 'r == stack_path(self.contexts@, names@)')],
            loop_specs={0: {'iter_name': 'it',
                            'invariant': [('rev_seq', 'it.seq().len() == self.contexts@.len(), forall |j: int| 0 <= j < it.seq().len() ==> *(#[trigger] it.seq()[j]) == self.contexts@[self.contexts@.len() - 1 - j]'),
                                          ('not_in_inner', 'forall |j: int| 0 <= j < it.index@ ==> ctx_path(#[trigger] self.contexts@[self.contexts@.len() - 1 - j], names@) is None')],
                            'body_prefix': PRE + '\nproof { assert(*context == self.contexts@[self.contexts@.len() - 1 - it.index@]); }'}},
            splices=[{'id': 'found', 'op': 'before', 'anchor': 'return Some(value.clone());',
                      'text': 'proof {\n  let k = self.contexts@.len() - 1 - it.index@;\n  assert forall |j: int| k < j < self.contexts@.len() implies ctx_path(#[trigger] self.contexts@[j], names@) is None by { let jj = self.contexts@.len() - 1 - j; assert(0 <= jj < it.index@); assert(self.contexts@[self.contexts@.len() - 1 - jj] == self.contexts@[j]); }\n  lemma_stack_path_at(self.contexts@, names@, k);\n}'},
                     {'id': 'not_found', 'op': 'before', 'anchor': 'None', 'nth': -1,
                      'text': 'proof {\n  assert forall |j: int| 0 <= j < self.contexts@.len() implies ctx_path(#[trigger] self.contexts@[j], names@) is None by { let jj = self.contexts@.len() - 1 - j; assert(self.contexts@[self.contexts@.len() - 1 - jj] == self.contexts@[j]); }\n  lemma_stack_path_none(self.contexts@, names@);\n}'}]),
        sfn('set_entry', mutates=True,
            ensures=[('only_top_changes', 'final(self).contexts@.len() == old(self).contexts@.len() && forall |i: int| 0 <= i < old(self).contexts@.len() - 1 ==> final(self).contexts@[i] == old(self).contexts@[i]'),
                     ('top_updated', 'old(self).contexts@.len() > 0 ==> final(self).contexts@.last().0@ == old(self).contexts@.last().0@.insert(*name, value)')]),
    ],
}

NOT_DECIDED = {
    'C13': [
        'R8: RefCell run-time borrow checking is dropped (no BorrowMutError is assumed)',
        'push/pop balance of the closures that push temporary contexts: unit purity',
        'parser-side scope bracketing; repeatability across interleaved evaluations',
    ],
    'C01': ['name resolution through the scope is decided for Scope::get_entry / search_deep (innermost binding wins); that evaluators call them with the right names is closure wiring'],
    'C10': ['only the qualified-name lookup (search_deep) is decided here'],
}
ASSUMPTIONS = [
    'R8: `self.contexts.borrow_mut()` -> `self.contexts`, field type RefCell<Vec<FeelContext>> -> Vec<FeelContext>, `&self` -> `&mut self` on mutators: drops run-time borrow checking',
    'A-std: vstd specs of Vec push/pop/last_mut, slice iter().rev(), BTreeMap get/insert, slicing; A-name; A-derive (Clone returns an equal value)',
]

# Fallback for lookups (also decides them when a rewritten body - e.g. an iterator chain - leaves the extractor's reach)
BOUNDED = {p: [{'name': 'innermost-binding-wins', 'driver': 'scopes', 'args': ['4'],
                'functions': ['Scope::get_entry', 'Scope::search_deep', 'Scope::push', 'FeelContext::set_entry'],
                'bound': 'every stack of up to 4 contexts, each binding or not binding a one-word and a two-word name: get_entry and search_deep return the innermost binding and leave the scope unchanged '
                         '(bounded duplicate of the Verus contracts on the same functions)'}] for p in ('C10', 'C01', 'C13')}
