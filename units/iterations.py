"""Unit `iterations`: feel-evaluator/src/iterations.rs FeelIterator (C01 cartesian iteration, C05)."""
import os, sys
sys.path.insert(0, os.path.dirname(os.path.abspath(__file__)))
import _common as C
I = 'feel-evaluator/src/iterations.rs'
P = ['C01']
A = ['C01', 'C05']

VALUE_PARTS = [
    {'kind': 'vrs', 'file': 'iterations/prelude.vrs'},
    {'kind': 'item', 'src': 'feel/src/context.rs', 'path': 'type FeelContextEntries'},
    {'kind': 'item', 'src': 'feel/src/context.rs', 'path': 'struct FeelContext',
     'rewrites': [('RX', 'R7', r'pub struct FeelContext\(FeelContextEntries\)', 'pub struct FeelContext(pub FeelContextEntries)', 1)]},
    {'kind': 'item', 'src': 'feel/src/values.rs', 'path': 'struct Values',
     'rewrites': [('RX', 'R7', r'pub struct Values\(Vec<Value>\)', 'pub struct Values(pub Vec<Value>)', 1)]},
    {'kind': 'item', 'src': 'feel/src/values.rs', 'path': 'enum Value'},
    {'kind': 'vrs', 'file': 'common/value_traits.vrs'},
]

RUN = {'kind': 'fn', 'src': I, 'path': 'impl FeelIterator::fn run', 'key': 'iterations::FeelIterator::run',
         'props': P, 'auto_props': A,
         'rewrites': [('R1', 2),
                      ('RX', 'R11', r'Value::Number\(iteration_state\.index\.into\(\)\)', 'Value::Number(num_from_isize(iteration_state.index))', 1),
                      ('RX', 'R11', r'FeelContext::default\(\)', 'feel_context_default()', 1)],
         'loops': 3,
         'requires': [('handler_total', 'forall |c: &FeelContext| #[trigger] handler.requires((c,))'),
                      ('domains_nonempty', 'states_ok(old(self).iteration_states@)'),
                      ('fresh', 'forall |j: int| 0 <= j < old(self).iteration_states@.len() ==> st_pos(#[trigger] old(self).iteration_states@[j]) == 0')],
         'splices': [
             {'id': 'ghost_init', 'op': 'after', 'anchor': 'self.iteration_states.reverse();',
              'text': 'let ghost rev = self.iteration_states@;\nlet ghost mut trace: Seq<Seq<int>> = Seq::empty();\nproof { assert(states_ok(rev)) by { assert forall |i: int| 0 <= i < rev.len() implies st_ok(#[trigger] rev[i]) && st_in_dom(rev[i]) by { assert(rev[i] == old(self).iteration_states@[rev.len() - 1 - i]); } }\n  assert forall |i: int| 0 <= i < rev.len() implies st_pos(#[trigger] rev[i]) == 0 by { assert(rev[i] == old(self).iteration_states@[rev.len() - 1 - i]); }\n  lemma_all_zero(rev, 0); }'},
             {'id': 'trace_push', 'op': 'before', 'anchor': 'handler(&iteration_context);',
              'text': 'proof {\n  lemma_prank_positions(self.iteration_states@, 0);\n  lemma_same_domains_rank(self.iteration_states@, rev, positions(self.iteration_states@), 0);\n  trace = trace.push(positions(self.iteration_states@));\n}'},
             {'id': 'before_snapshot', 'op': 'before', 'anchor': "let mut overflow = true;",
              'text': 'let ghost before = self.iteration_states@;'},
             {'id': 'no_change', 'op': 'before', 'anchor': "break 'inner;",
              'text': 'proof { assert(self.iteration_states@ =~= cur0); }'},
             {'id': 'done_up', 'op': 'before', 'anchor': "break 'outer;", 'nth': 0,
              'text': 'proof { lemma_all_max(before, 0); lemma_same_domains_rank(before, rev, Seq::empty(), 0); }'},
             {'id': 'done_down', 'op': 'before', 'anchor': "break 'outer;", 'nth': 1,
              'text': 'proof { lemma_all_max(before, 0); lemma_same_domains_rank(before, rev, Seq::empty(), 0); }'},
         ],
         'loop_specs': {
             0: {
                 'props': ['C01', 'C05'],
                 'invariant_except_break': [
                     ('domains', 'same_domains(self.iteration_states@, rev), states_ok(self.iteration_states@), rev.len() >= 1'),
                     ('handler_total', 'forall |c: &FeelContext| #[trigger] handler.requires((c,))'),
                     ('trace_is_odometer_prefix', 'trace_ok(rev, trace), trace.len() == rank_from(self.iteration_states@, 0)'),
                 ],
                 'ensures': [
                     ('full_cartesian_product', 'trace_ok(rev, trace), trace.len() == total_from(rev, 0)'),
                 ],
                 # termination (C05): every round moves the odometer one position up, and there are total_from(..) positions
                 'decreases': 'total_from(rev, 0) - rank_from(self.iteration_states@, 0)',
                 'body_suffix': 'proof { lemma_rank_bound(self.iteration_states@, 0); lemma_same_domains_rank(self.iteration_states@, rev, Seq::empty(), 0); }',
             },
             1: {
                 'iter_name': 'it1',
                 'invariant': [
                     ('seq', 'it1.seq() =~= self.iteration_states@.map_values(|s: FeelIteratorState| &s)'),
                     ('states', 'states_ok(self.iteration_states@)'),
                     ('bound_some', 'it1.index@ > 0 ==> !is_empty_iteration'),
                 ],
                 'body_prefix': 'proof { assert(*iteration_state == self.iteration_states@[it1.index@ as int]); assert(st_ok(*iteration_state) && st_in_dom(*iteration_state)); }',
             },
             2: {
                 'props': ['C01', 'C05'],
                 'iter_name': 'itx',
                 'invariant': [
                     ('range', 'itx.seq().len() == before.len()'),
                     ('frame', 'same_domains(self.iteration_states@, before), self.iteration_states@.len() == before.len(), states_ok(self.iteration_states@)'),
                     ('untouched', 'forall |j: int| x <= j < before.len() ==> self.iteration_states@[j] == #[trigger] before[j]'),
                     ('carry', 'overflow ==> x < before.len() && forall |j: int| 0 <= j < x ==> st_pos(#[trigger] before[j]) == st_size(before[j]) - 1 && st_pos(self.iteration_states@[j]) == 0'),
                     ('incremented', '!overflow ==> rank_from(self.iteration_states@, 0) == rank_from(before, 0) + 1'),
                     ('context', 'states_ok(before), same_domains(before, rev), before.len() >= 1, last_iteration_state_index == before.len() - 1'),
                     ('trace', 'trace.len() == rank_from(before, 0) + 1, trace_ok(rev, trace)'),
                 ],
                 'ensures': [('increment_done', '!overflow')],
                 'body_prefix': 'let ghost ov0 = overflow;\nlet ghost cur0 = self.iteration_states@;',
                 'body_suffix': 'proof { if ov0 && !overflow { lemma_increment(before, self.iteration_states@, x as int, 0); } }',
             },
         },
         }

UNIT = {
    'name': 'iterations',
    'uses': C.USES,
    'parts': C.NAME + C.FEELTYPE + [
        {'kind': 'text', 'text': 'pub uninterp spec fn equiv(a: FeelType, b: FeelType) -> bool;', 'note': 'unused-here'},
    ] + VALUE_PARTS + [
        {'kind': 'vrs', 'file': 'iterations/spec.vrs', 'after_items': True},
        {'kind': 'item', 'src': I, 'path': 'enum FeelIterationType'},
        {'kind': 'item', 'src': I, 'path': 'struct FeelIteratorState',
         'rewrites': [('RX', 'R7', r'\n  (iteration_type|name|index|step|start|end|values):', r'\n  pub \1:', 7), ('RX', 'R7', r'struct FeelIteratorState', 'pub struct FeelIteratorState', 1)]},
        {'kind': 'item', 'src': I, 'path': 'struct FeelIterator',
         'rewrites': [('RX', 'R7', r'\n  iteration_states:', r'\n  pub iteration_states:', 1), ('RX', 'R7', r'struct FeelIterator ', 'pub struct FeelIterator ', 1)]},
        {'kind': 'fn', 'src': 'feel/src/values.rs', 'path': 'impl Values::fn as_vec', 'key': 'iterations::Values::as_vec',
         'props': P, 'auto_props': A, 'ret': 'r', 'ensures': [('post', '*r == self.0')], 'loops': 0},
        {'kind': 'fn', 'src': 'feel/src/values.rs', 'path': 'impl Values::fn len', 'key': 'iterations::Values::len',
         'props': P, 'auto_props': A, 'ret': 'r', 'ensures': [('post', 'r == self.0@.len()')], 'loops': 0},
        {'kind': 'fn', 'src': 'feel/src/context.rs', 'path': 'impl FeelContext::fn set_entry', 'key': 'iterations::FeelContext::set_entry',
         'props': P, 'auto_props': A, 'loops': 0, 'body_prefix': 'broadcast use vstd::std_specs::btree::group_btree_axioms;\nproof { axiom_name_key(); }',
         'ensures': [('post', 'final(self).0@ == old(self).0@.insert(*name, value)')]},
        {'kind': 'fn', 'src': I, 'path': 'impl FeelIterator::fn add_range', 'key': 'iterations::FeelIterator::add_range',
         'props': P, 'auto_props': A, 'loops': 0,
         'ensures': [('appends_range', 'final(self).iteration_states@.len() == old(self).iteration_states@.len() + 1 && final(self).iteration_states@.drop_last() =~= old(self).iteration_states@'),
                     ('range_state', 'st_ok(final(self).iteration_states@.last()) && st_pos(final(self).iteration_states@.last()) == 0 && final(self).iteration_states@.last().iteration_type is Range '
                                     '&& final(self).iteration_states@.last().start == start && final(self).iteration_states@.last().end == end && final(self).iteration_states@.last().name == name'),
                     ('all_values_in_order', 'st_size(final(self).iteration_states@.last()) == (if start <= end { end - start + 1 } else { start - end + 1 })')]},
        {'kind': 'fn', 'src': I, 'path': 'impl FeelIterator::fn add_list', 'key': 'iterations::FeelIterator::add_list',
         'props': P, 'auto_props': A, 'loops': 0,
         'requires': [('list_fits', 'values.0@.len() <= isize::MAX')],
         'ensures': [('appends_list', 'final(self).iteration_states@.len() == old(self).iteration_states@.len() + 1 && final(self).iteration_states@.drop_last() =~= old(self).iteration_states@'),
                     ('list_state', 'final(self).iteration_states@.last().iteration_type is List && final(self).iteration_states@.last().values == Some(values) && final(self).iteration_states@.last().name == name '
                                    '&& st_pos(final(self).iteration_states@.last()) == 0'),
                     ('nonempty_list_is_well_formed', 'values.0@.len() > 0 ==> st_ok(final(self).iteration_states@.last()) && st_size(final(self).iteration_states@.last()) == values.0@.len()')]},
        RUN,
    ],
}

NOT_DECIDED = {
    'C01': [
        'an EMPTY list domain (known finding, see known_findings.json): run() is proved under the precondition that every domain is non-empty',
        'For/Some/Every ExpressionEvaluator::evaluate: the per-round closures are decided in unit purity, the registration of the domains in unit forloop; that evaluate() passes exactly that closure to run() is R4 wiring',
        'that the iteration context binds each variable name to the value at its current position (names must be pairwise distinct); only the enumeration of positions is proved',
        
    ],
    'C05': ['run(): no arithmetic overflow for any isize range bounds, no out-of-bounds indexing (automatic obligations); termination proved (decreases total - rank of the odometer)'],
}
ASSUMPTIONS = [
    'A-std: <[T]>::reverse reverses; Vec/slice get, push, iteration specs of vstd',
    'A-dec: From<isize> for FeelNumber is exact (stub); A-derive: FeelContext::default() is empty, derived Clone returns an equal value',
    'the handler accepts every context (requires forall c. handler.requires(c))',
    'R1 (enumerate over iter_mut -> indexed &mut), R11 (conversion / default calls -> stubs)',
]
