"""Unit `cycles`: check_cyclic_dependencies of model-evaluator/src/model_evaluator.rs (C12, C04): the depth-first search `find_cycle` (a nested
function, extracted as it is) and the scan over all recorded nodes that ends the function (R28). Decided: when the check answers Ok the
dependency graph it was given has a rank that falls along every requirement (so the evaluators' recursion along requirements is well-founded: no
stack overflow, no hang), and when it answers an error a requirement chain really leads from the reported node back to itself (no acyclic model
is rejected); the search terminates on every graph (decreases: the recorded or required nodes that are neither on the path nor finished). Not here: how the graph is collected from the definitions (iterator chains: filter_map / chain / extend)."""
M = 'model-evaluator/src/model_evaluator.rs'
P = ['C12']
A = ['C12', 'C05']
G = 'dependencies@'
USE = 'broadcast use {vstd::std_specs::hash::group_hash_axioms, group_string_keys, axiom_strset_contains, axiom_slice_has_str};\nproof { axiom_str_key_model(); axiom_string_key_model(); }'
NEW_NOT_ON_PATH = ('proof {\n  assert forall |v: Seq<char>| inset(acyclic@, v) && !inset(old(acyclic)@, v) implies !onpath(old(path)@, v) by {\n'
                   '    if onpath(old(path)@, v) {\n      let i = choose |i: int| 0 <= i < old(path)@.len() && (#[trigger] old(path)@[i])@ == v;\n'
                   '      assert(path_before[i] == old(path)@[i]);\n      assert(onpath(path_before, v));\n    }\n  }\n}')
UNIT = {
    'name': 'cycles',
    'uses': ['use std::collections::{HashMap, HashSet};', 'use std::sync::Arc;', 'use vstd::std_specs::iter::IteratorSpec;'],
    'parts': [
        {'kind': 'vrs', 'file': 'common/string_keys.vrs'},
        {'kind': 'vrs', 'file': 'cycles/spec.vrs'},
        {'kind': 'vrs', 'file': 'cycles/prelude.vrs'},
        {'kind': 'vrs', 'file': 'cycles/lemmas.vrs'},
        {'kind': 'fn', 'src': M, 'path': 'fn check_cyclic_dependencies::fn find_cycle', 'key': 'cycles::find_cycle', 'props': P, 'auto_props': A, 'loops': 1, 'ret': 'r',
         'decreases': 'open_nodes(%s, old(path)@, old(acyclic)@).len()' % G,
         'sig_rewrite': [(r'^(\s*)fn ', r'\1pub fn ')],
         'rewrites': [('RX', 'R24', r'dependencies\.get\(node\)\.map\(\|v\| v\.as_slice\(\)\)\.unwrap_or_default\(\)', 'successors(dependencies, node)', 1)],
         'body_prefix': USE,
         'requires': [('the_path_is_outside_the_finished_set', 'disjoint(old(path)@, old(acyclic)@)'),
                      ('the_finished_set_is_ranked', 'wf(%s, old(acyclic)@)' % G),
                      ('the_path_then_the_node_is_a_requirement_chain', 'walk(%s, names(old(path)@).push(node@))' % G),
                      ('the_node_is_recorded_or_required', 'universe(%s).contains(node@)' % G, ['C12', 'C05'])],
         'ensures': [('the_finished_set_stays_ranked', 'wf(%s, final(acyclic)@)' % G),
                     ('the_finished_set_only_grows', 'forall |v: Seq<char>| inset(old(acyclic)@, v) ==> inset(final(acyclic)@, v)'),
                     ('nothing_on_the_path_is_finished', 'forall |v: Seq<char>| inset(final(acyclic)@, v) && !inset(old(acyclic)@, v) ==> !onpath(old(path)@, v)'),
                     ('no_cycle_found_the_node_is_finished_and_the_path_is_restored', 'r is None ==> final(path)@ == old(path)@ && inset(final(acyclic)@, node@)'),
                     ('a_reported_node_is_on_a_cycle', 'r is Some ==> on_cycle(%s, r->Some_0@)' % G, ['C12', 'C04'])],
         'splices': [
             {'id': 'the_path_closes_a_cycle', 'op': 'after', 'anchor': 'if path.contains(&node) {', 'props': ['C12', 'C04'],
              'text': 'proof { let i = choose |i: int| 0 <= i < path@.len() && (#[trigger] path@[i])@ == node@; lemma_cycle(%s, path@, node, i); }' % G},
             {'id': 'the_node_joins_the_path', 'op': 'after', 'anchor': 'path.push(node);',
              'text': 'proof { assert(names(path@) =~= names(old(path)@).push(node@)); }'},
             {'id': 'snapshot', 'op': 'before', 'anchor': 'if let Some(found) = find_cycle(required, dependencies, path, acyclic) {',
              'text': 'let ghost before = acyclic@;\nlet ghost path_before = path@;'},
             {'id': 'new_members_are_not_on_the_callers_path', 'op': 'before', 'anchor': 'return Some(found);', 'text': NEW_NOT_ON_PATH},
             {'id': 'the_node_may_join_the_finished_set', 'op': 'before', 'anchor': 'acyclic.insert(node);',
              'text': 'proof {\n  assert(path@ =~= old(path)@);\n  let p1 = old(path)@.push(node);\n  assert(p1[p1.len() - 1]@ == node@);\n  assert(onpath(p1, node@));\n  assert(!inset(acyclic@, node@));\n'
                      '  lemma_insert(%s, acyclic@, node);\n}\nlet ghost a1 = acyclic@;' % G},
             {'id': 'the_node_is_finished', 'op': 'after', 'anchor': 'acyclic.insert(node);',
              'text': 'proof {\n  assert(acyclic@ == a1.insert(node));\n  assert(acyclic@.contains(node));\n  assert forall |v: Seq<char>| inset(acyclic@, v) && !inset(old(acyclic)@, v) implies !onpath(old(path)@, v) by {\n'
                      '    let p1 = old(path)@.push(node);\n    if onpath(old(path)@, v) {\n      let i = choose |i: int| 0 <= i < old(path)@.len() && (#[trigger] old(path)@[i])@ == v;\n'
                      '      assert(p1[i] == old(path)@[i]);\n      assert(onpath(p1, v));\n      if v == node@ { assert(path@[i]@ == node@); }\n    }\n  }\n}'},
         ],
         'loop_specs': {0: {'iter_name': 'it',
                            'invariant': [('the_node_is_on_the_path', 'path@ == old(path)@.push(node)'),
                                          ('requirements', 'it.seq().len() == succ(%s, node@).len() && forall |j: int| 0 <= j < it.seq().len() ==> *(#[trigger] it.seq()[j]) == succ(%s, node@)[j]' % (G, G)),
                                          ('ranked', 'wf(%s, acyclic@)' % G),
                                          ('grows', 'forall |v: Seq<char>| inset(old(acyclic)@, v) ==> inset(acyclic@, v)'),
                                          ('new_members_off_the_path', 'forall |v: Seq<char>| inset(acyclic@, v) && !inset(old(acyclic)@, v) ==> !onpath(path@, v)'),
                                          ('requirements_so_far_are_finished', 'forall |j: int| 0 <= j < it.index@ ==> inset(acyclic@, (#[trigger] succ(%s, node@)[j])@)' % G),
                                          ('entry', 'disjoint(old(path)@, old(acyclic)@) && !inset(old(acyclic)@, node@) && !onpath(old(path)@, node@) && universe(%s).contains(node@)' % G),
                                          ('chain', 'walk(%s, names(path@))' % G)],
                            'body_prefix': ('proof {\n  let k = it.index@ as int;\n  assert(*required == succ(%(g)s, node@)[k]);\n  lemma_universe(%(g)s, skey(node@), k);\n  lemma_fewer_open(%(g)s, old(path)@, old(acyclic)@, node, acyclic@);\n  let w = names(path@).push(required@);\n'
                                            '  assert forall |i: int| 0 <= i < w.len() - 1 implies #[trigger] step(%(g)s, w, i) by {\n'
                                            '    if i < names(path@).len() - 1 { assert(w[i] == names(path@)[i] && w[i + 1] == names(path@)[i + 1] && step(%(g)s, names(path@), i)); }\n'
                                            '    else { assert(w[i] == node@ && w[i + 1] == required@ && succ(%(g)s, node@)[k]@ == required@); }\n  }\n'
                                            '  assert forall |i: int| 0 <= i < path@.len() implies !inset(acyclic@, (#[trigger] path@[i])@) by {\n    assert(onpath(path@, path@[i]@));\n'
                                            '    if i < old(path)@.len() { assert(path@[i] == old(path)@[i]); }\n  }\n}') % {'g': G},
                            'body_suffix': 'proof {\n  assert forall |v: Seq<char>| inset(acyclic@, v) && !inset(old(acyclic)@, v) implies !onpath(path@, v) by {\n    if inset(before, v) {} else {}\n  }\n}'}}},
        {'kind': 'closure', 'src': M, 'path': 'fn check_cyclic_dependencies', 'key': 'cycles::check_cyclic_dependencies#scan', 'props': P, 'auto_props': A, 'loops': 1, 'ret': 'r',
         'tail_from': r'let mut acyclic = HashSet::new\(\);',
         'signature': 'pub fn scan_for_cycles(dependencies: HashMap<String, Vec<String>>) -> Result<()>',
         'rewrites': [('RX', 'R24', r'found\.trim_start_matches\("type "\)', 'strip_type(found)', 1)],
         'body_prefix': USE,
         'splices': [{'id': 'nothing_finished_yet', 'op': 'after', 'anchor': 'let mut acyclic = HashSet::new();', 'text': 'proof { assert(ranked(%s, acyclic@, Map::empty())); }' % G},
                     {'id': 'every_node_is_finished', 'op': 'before', 'anchor': 'Ok(())',
                      'text': ('proof {\n  let rank = choose |rank: Map<Seq<char>, nat>| ranked(%(g)s, acyclic@, rank);\n'
                               '  assert forall |v: Seq<char>, j: int| 0 <= j < succ(%(g)s, v).len() implies rank[(#[trigger] succ(%(g)s, v)[j])@] < rank[v] by {\n'
                               '    assert(%(g)s.contains_key(skey(v)));\n    assert(inset(acyclic@, v));\n  }\n  assert(descends(%(g)s, rank));\n}') % {'g': G}}],
         'ensures': [('accepted_graphs_have_a_rank_that_falls_along_every_requirement', 'r is Ok ==> acyclic_graph(%s)' % G),
                     ('a_rejected_graph_has_a_cycle', 'r is Err ==> exists |n: Seq<char>| on_cycle(%s, n)' % G, ['C12', 'C04'])],
         'loop_specs': {0: {'iter_name': 'it',
                            'invariant': [('ranked', 'wf(%s, acyclic@)' % G),
                                          ('nodes_so_far_are_finished', 'forall |j: int| 0 <= j < it.index@ ==> inset(acyclic@, (#[trigger] it.seq()[j])@)')],
                            'body_prefix': 'proof { assert(names(Seq::<&str>::empty()).push(node@).len() == 1); axiom_string_key_model(); assert(%s.dom().contains(*node)); lemma_universe0(%s, *node); }' % (G, G)}}},
        {'kind': 'fn', 'src': M, 'path': 'impl ModelEvaluator::fn new', 'key': 'cycles::ModelEvaluator::new', 'props': P, 'auto_props': A, 'loops': 0, 'ret': 'r',
         'impl_header': 'impl ModelEvaluator {', 'sig_rewrite': [(r'Result<Arc<Self>>', 'Result<Arc<ModelEvaluator>>')],
         'rewrites': [('RX', 'R11', r'ModelEvaluator::default\(\)', 'model_evaluator_default()', 1),
                      ('RX', 'R8w', r'model_evaluator\s*\.(\w+)\s*\.write\(\)\s*\.map_err\(err_write_lock_failed\)\?\s*\.build\(definitions(?:, (?:&model_evaluator|Arc::clone\(&model_evaluator\)))?\)\?;',
                       r'build_registry_\1(&model_evaluator, definitions)?;', 8)],
         'ensures': [('an_evaluator_is_built_only_over_well_founded_requirements', 'r is Ok ==> requirements_well_founded(*definitions)')]},
    ],
}
ASSUMPTIONS = ['A-collect: ModelEvaluator::new is verified against check_cyclic_dependencies as a stub whose Ok answer means well-founded requirements; the eight registry builders are stubs that REQUIRE well-founded requirements (they recurse along them), RwLock write guards dropped (R8w: lock failure not modelled)',
               'A-std: vstd specifications of HashMap / HashSet / Vec; added axioms: a String / a &str obeys the hash-table key model and is looked up by its characters (contracts/common/string_keys.vrs, '
               'contracts/cycles/prelude.vrs), <[&str]>::contains compares characters',
               'R24 stubs: `dependencies.get(node).map(|v| v.as_slice()).unwrap_or_default()` answers the requirements recorded under the node (none without a record); `trim_start_matches` only shapes the message',
               'R28: the scan is verified as a function of the collected graph; find_cycle terminates: every call puts one more node of the finite set of recorded and required nodes on the path or into the finished set (decreases: the nodes in neither)']
NOT_DECIDED = {'C12': ['that the collected graph holds every requirement the evaluators follow (decision -> required decisions / knowledge; service -> output, encapsulated and input decisions; knowledge -> knowledge; '
                       'item definition -> type references of itself and its components): iterator chains outside Verus\' reach - BOUNDED single-structural-faults-never-crash (28 generated cyclic models)'],
               'C04': ['see C12: the collected graph']}
