"""Unit `types`: feel/src/types.rs (C16; termination of is_equivalent for C05)."""
import os, sys
sys.path.insert(0, os.path.dirname(os.path.abspath(__file__)))
import _common as C

CTX_INV = lambda S, O: [
    ('ctx_self', '*self is Context, self->Context_0 == *entries_self'),
    ('ctx_other', '*other is Context, other->Context_0 == *entries_other'),
]

UNIT = {
    'name': 'types',
    'uses': C.USES,
    'parts': C.NAME + C.FEELTYPE + C.VALUE + [
        {'kind': 'vrs', 'file': 'types/spec.vrs'},
        {'kind': 'vrs', 'file': 'types/lemmas.vrs'},
        # ---------------------------------------------------------------- is_equivalent
        {'kind': 'fn', 'src': 'feel/src/types.rs', 'path': 'impl FeelType::fn is_equivalent',
         'key': 'types::FeelType::is_equivalent',
         'props': ['C16'], 'auto_props': ['C16', 'C05'],
         'ret': 'r',
         'ensures': [('post_equiv', 'r == equiv(*self, *other)')],
         'decreases': '*self',
         'body_prefix': 'broadcast use vstd::std_specs::btree::group_btree_axioms;\nproof { axiom_name_key(); }',
         'rewrites': [('R2', 0), ('R1', 1)],
         'loops': 2,
         'loop_specs': {
             0: {
                 'iter_name': 'it',
                 'invariant': [
                     ('ctx_self', '*self is Context, self->Context_0 == *entries_self'),
                     ('ctx_other', '*other is Context, other->Context_0 == *entries_other'),
                     ('same_len', 'entries_self@.len() == entries_other@.len()'),
                     ('seq_in_map', 'forall |j: int| 0 <= j < it.seq().len() ==> entries_self@.contains_key(*(#[trigger] it.seq()[j]).0) && entries_self@[*it.seq()[j].0] == *it.seq()[j].1'),
                     ('map_in_seq', 'forall |kk: Name| entries_self@.contains_key(kk) ==> exists |j: int| 0 <= j < it.seq().len() && *(#[trigger] it.seq()[j]).0 == kk'),
                     ('done_equiv', 'forall |j: int| 0 <= j < it.index@ ==> entries_other@.contains_key(*(#[trigger] it.seq()[j]).0) && equiv(*it.seq()[j].1, entries_other@[*it.seq()[j].0])'),
                 ],
                 'body_prefix': 'proof {\n  axiom_name_key();\n  assert(entries_self@.contains_key(*name) && entries_self@[*name] == *type_self);\n  assert(decreases_to!(*self => self->Context_0));\n  assert(decreases_to!(*entries_self => entries_self@[*name]));\n}',
             },
             1: {
                 'invariant': [
                     ('fn_self', '*self is Function, self->Function_0 == *params_self, self->Function_1 == *result_self'),
                     ('fn_other', '*other is Function, other->Function_0 == *params_other, other->Function_1 == *result_other'),
                     ('same_len', 'params_self.len() == params_other.len()'),
                     ('done_equiv', 'forall |j: int| 0 <= j < i ==> equiv(#[trigger] params_self@[j], params_other@[j])'),
                 ],
                 'body_prefix': 'proof {\n  vstd::std_specs::vec::axiom_vec_index_decreases(*params_self, i as int);\n  assert(decreases_to!(*self => self->Function_0));\n  assert(decreases_to!(*self => self->Function_1));\n}',
             },
         },
         'splices': [
             {'id': 'ctx_dom_eq', 'op': 'before', 'anchor': 'return true;', 'nth': 0,
              'text': 'proof {\n  assert(entries_self@.dom().subset_of(entries_other@.dom()));\n  vstd::set_lib::lemma_subset_equality(entries_self@.dom(), entries_other@.dom());\n}'},
         ],
         },
        # ---------------------------------------------------------------- is_conformant
        {'kind': 'fn', 'src': 'feel/src/types.rs', 'path': 'impl FeelType::fn is_conformant',
         'key': 'types::FeelType::is_conformant',
         'props': ['C16'], 'auto_props': ['C16', 'C05'],
         'ret': 'r',
         'attrs': '#[verifier::exec_allows_no_decreases_clause]',
         'ensures': [('post_conf', 'r == conf(*self, *other)')],
         'body_prefix': 'broadcast use vstd::std_specs::btree::group_btree_axioms;\nproof { axiom_name_key(); }',
         'rewrites': [('R2', 0), ('R1', 1)],
         'loops': 2,
         'loop_specs': {
             0: {
                 'iter_name': 'it',
                 'invariant': [
                     ('ctx_self', '*self is Context, self->Context_0 == *entries_self'),
                     ('ctx_other', '*other is Context, other->Context_0 == *entries_other'),
                     ('not_equiv', '!equiv(*self, *other)'),
                     ('seq_in_map', 'forall |j: int| 0 <= j < it.seq().len() ==> entries_other@.contains_key(*(#[trigger] it.seq()[j]).0) && entries_other@[*it.seq()[j].0] == *it.seq()[j].1'),
                     ('map_in_seq', 'forall |kk: Name| entries_other@.contains_key(kk) ==> exists |j: int| 0 <= j < it.seq().len() && *(#[trigger] it.seq()[j]).0 == kk'),
                     ('done_conf', 'forall |j: int| 0 <= j < it.index@ ==> entries_self@.contains_key(*(#[trigger] it.seq()[j]).0) && conf(entries_self@[*it.seq()[j].0], *it.seq()[j].1)'),
                 ],
                 'body_prefix': 'proof {\n  axiom_name_key();\n  assert(entries_other@.contains_key(*name) && entries_other@[*name] == *type_other);\n}',
             },
             1: {
                 'invariant': [
                     ('fn_self', '*self is Function, self->Function_0 == *parameters_self, self->Function_1 == *result_self'),
                     ('fn_other', '*other is Function, other->Function_0 == *parameters_other, other->Function_1 == *result_other'),
                     ('same_len', 'parameters_self.len() == parameters_other.len()'),
                     ('not_equiv', '!equiv(*self, *other)'),
                     ('done_conf', 'forall |j: int| 0 <= j < i ==> conf2(#[trigger] parameters_self@[j], parameters_other@[j], true)'),
                 ],
                 'body_prefix': 'proof { lemma_conf_flip(parameters_self@[i as int], parameters_other@[i as int]); }',
             },
         },
         },
        # ---------------------------------------------------------------- type_of (assumed for now)
        {'kind': 'vrs', 'file': 'types/spec_coerce.vrs'},
        {'kind': 'text', 'note': 'assumed-contract', 'text': """impl Value {
  #[verifier::external_body]
  pub fn type_of(&self) -> (r: FeelType) ensures type_rel(*self, r) { unimplemented!() }
}
impl Values {
  #[verifier::external_body]
  pub fn new(values: Vec<Value>) -> (r: Values) ensures r.0 == values { unimplemented!() }
  #[verifier::external_body]
  pub fn len(&self) -> (r: usize) ensures r == self.0@.len() { unimplemented!() }
  #[verifier::external_body]
  pub fn as_vec(&self) -> (r: &Vec<Value>) ensures *r == self.0 { unimplemented!() }
}"""},
        {'kind': 'item', 'src': 'feel/src/values.rs', 'path': 'macro_rules! value_null'},
        {'kind': 'vrs', 'file': 'types/lemmas_coerce.vrs'},
        # ---------------------------------------------------------------- coerced
        {'kind': 'fn', 'src': 'feel/src/types.rs', 'path': 'impl FeelType::fn coerced',
         'key': 'types::FeelType::coerced',
         'props': ['C16'], 'auto_props': ['C16', 'C05'],
         'ret': 'r',
         'ensures': [('post_coerce', 'forall |tv: FeelType| type_rel(*actual_value, tv) ==> coerce_post(*self, *actual_value, tv, r)')],
         'body_prefix': 'proof { lemma_coerce_tests_indep(*actual_value, *self); }',
         'loops': 0,
         },
    ],
}
